import SemVerif.Generated
import SemVerif.Wire
/-!
# Inventory — the tabular facts about the Rust source that the hand-written model accounts for

`SemVerif.Generated` is regenerated from /repo/src on every run; the theorems at the end compare
it with the tables below (written when the model was written).  A new error kind, instruction
variant, label stem, panic site (`unwrap`, `expect`, index, counter `+ 1`), statement that mutates
`self.global` / `self.errors` / `self.context`, or serde attribute breaks one of them.
-/
namespace SemVerif.Model

/-- `StateErrorKind` variants in declaration order -/
def errKinds : List String := ["Common", "ConstantAlreadyExist", "ConstantNotFound", "WrongLetType", "WrongExpressionType", "TypeAlreadyExist", "FunctionAlreadyExist", "ValueNotFound", "ValueNotStruct", "ValueNotStructField", "ValueIsNotMutable", "FunctionNotFound", "FunctionParameterTypeWrong", "ReturnNotFound", "ReturnAlreadyCalled", "IfElseDuplicated", "TypeNotFound", "WrongReturnType", "ConditionExpressionWrongType", "ConditionIsEmpty", "ConditionExpressionNotSupported", "ForbiddenCodeAfterReturnDeprecated", "ForbiddenCodeAfterContinueDeprecated", "ForbiddenCodeAfterBreakDeprecated", "FunctionArgumentNameDuplicated"]

/-- `SemanticStackContext` variants with their field names -/
def instrShapes : List (String × List String) := [
  ("ExpressionValue", ["expression", "register_number"]),
  ("ExpressionConst", ["expression", "register_number"]),
  ("ExpressionStructValue", ["expression", "index", "register_number"]),
  ("ExpressionOperation", ["operation", "left_value", "right_value", "register_number"]),
  ("Call", ["call", "params", "register_number"]),
  ("LetBinding", ["let_decl", "expr_result"]),
  ("Binding", ["val", "expr_result"]),
  ("FunctionDeclaration", ["fn_decl"]),
  ("Constant", ["const_decl"]),
  ("Types", ["type_decl"]),
  ("ExpressionFunctionReturn", ["expr_result"]),
  ("ExpressionFunctionReturnWithLabel", ["expr_result"]),
  ("SetLabel", ["label"]),
  ("JumpTo", ["label"]),
  ("IfConditionExpression", ["expr_result", "label_if_begin", "label_if_end"]),
  ("ConditionExpression", ["left_result", "right_result", "condition", "register_number"]),
  ("JumpFunctionReturn", ["expr_result"]),
  ("LogicCondition", ["logic_condition", "left_register_result", "right_register_result", "register_number"]),
  ("IfConditionLogic", ["label_if_begin", "label_if_end", "result_register"]),
  ("FunctionArg", ["value", "func_arg"]),
  ("ExtendedExpression", ["_0"])
]

/-- string literals passed to `get_and_set_next_label`, in source order -/
def labelStems : List String := ["if_begin", "if_else", "if_end", "loop_begin", "loop_end"]

/-- `Display for PrimitiveTypes` -/
def primNames : List (String × String) := [("U8", "u8"), ("U16", "u16"), ("U32", "u32"), ("U64", "u64"), ("I8", "i8"), ("I16", "i16"), ("I32", "i32"), ("I64", "i64"), ("F32", "f32"), ("F64", "f64"), ("Bool", "bool"), ("Char", "char"), ("Ptr", "ptr"), ("None", "()")]

/-- every `unwrap` / `expect` / `unreachable!` / `panic!` / slice index / counter `+ 1` in the
non-codec code of semantic.rs and block_state.rs, per file and kind.  The model reproduces each:
the two `expect`s of `if_condition` are `setPanic` sites, the two `unreachable!`s are dead by
construction of the fold, the indexings are guarded (call arity, `split('.')` has a first part),
the counters are `Nat`.  Aggregated per file and kind so that moving code into a helper of the
same file is not a change; a new site is. -/
def panicSites : List (String × String × Nat) := [
  ("semantic.rs", "index", 2),
  ("semantic.rs", "expect", 2),
  ("semantic.rs", "unreachable", 2),
  ("block_state.rs", "add", 2),
  ("block_state.rs", "index", 3)
]

/-- statements of semantic.rs that mutate `self.global`, `self.errors` or `self.context` and the calls
of the two recording helpers, per kind: errors are recorded only through `add_error`, function
stacks only through `add_state_context`, the global tables only by insertion (nothing is removed,
cleared or reassigned). -/
def mutationSites : List (String × Nat) := [
  ("global.types.insert", 1),
  ("global.constants.insert", 1),
  ("global.functions.insert", 1),
  ("global.context", 3),
  ("errors.push", 1),
  ("context.push", 1),
  ("add_error", 34),
  ("add_state_context", 1)
]

/-- no function reachable from `function_body` mutates `self.global` (C16, C17) -/
def bodyGlobalMutators : List String := []

/-- serde shape of every item deriving `Serialize` under the `codec` feature:
(file, item, container attributes, fields or variants) -/
def serdeShapes : List (String × String × String × List String) := [
  ("ast.rs", "struct ImportName", "", ["tuple"]),
  ("ast.rs", "struct ConstantName", "", ["tuple"]),
  ("ast.rs", "struct FunctionName", "", ["tuple"]),
  ("ast.rs", "struct ParameterName", "", ["tuple"]),
  ("ast.rs", "struct ValueName", "", ["tuple"]),
  ("ast.rs", "struct CodeLocation", "", ["tuple"]),
  ("ast.rs", "enum PrimitiveTypes", "tag = \"type\", content = \"content\"", ["U8:unit", "U16:unit", "U32:unit", "U64:unit", "I8:unit", "I16:unit", "I32:unit", "I64:unit", "F32:unit", "F64:unit", "Bool:unit", "Char:unit", "Ptr:unit", "None:unit"]),
  ("ast.rs", "struct ExpressionStructValue", "", ["name@borrow", "attribute"]),
  ("ast.rs", "struct StructType", "", ["attr_name@borrow", "attr_type"]),
  ("ast.rs", "struct StructTypes", "", ["name@borrow", "attributes"]),
  ("ast.rs", "enum Type", "tag = \"type\", content = \"content\"", ["Primitive:tuple1", "Struct:tuple1@borrow", "Array:tuple2"]),
  ("ast.rs", "enum ConstantValue", "tag = \"type\", content = \"content\"", ["Constant:tuple1@borrow", "Value:tuple1"]),
  ("ast.rs", "struct ConstantExpression", "", ["value@borrow", "operation"]),
  ("ast.rs", "struct Constant", "", ["name@borrow", "constant_type", "constant_value"]),
  ("ast.rs", "struct FunctionParameter", "", ["name@borrow", "parameter_type"]),
  ("ast.rs", "struct FunctionStatement", "", ["name@borrow", "parameters", "result_type", "body", "_marker"]),
  ("ast.rs", "enum PrimitiveValue", "tag = \"type\", content = \"content\"", ["U8:tuple1", "U16:tuple1", "U32:tuple1", "U64:tuple1", "I8:tuple1", "I16:tuple1", "I32:tuple1", "I64:tuple1", "F32:tuple1", "F64:tuple1", "Bool:tuple1", "Char:tuple1", "Ptr:unit", "None:unit"]),
  ("ast.rs", "enum ExpressionValue", "tag = \"type\", content = \"content\"", ["ValueName:tuple1@borrow", "PrimitiveValue:tuple1", "FunctionCall:tuple3", "StructValue:tuple1", "Expression:tuple3", "ExtendedExpression:tuple1", "_marker:tuple2@skip"]),
  ("ast.rs", "enum ExpressionOperations", "tag = \"type\", content = \"content\"", ["Plus:unit", "Minus:unit", "Multiply:unit", "Divide:unit", "ShiftLeft:unit", "ShiftRight:unit", "And:unit", "Or:unit", "Xor:unit", "Eq:unit", "NotEq:unit", "Great:unit", "Less:unit", "GreatEq:unit", "LessEq:unit"]),
  ("ast.rs", "struct Expression", "", ["expression_value@borrow", "operation"]),
  ("ast.rs", "struct LetBinding", "tag = \"type\"", ["name@borrow", "mutable", "value_type", "value"]),
  ("ast.rs", "struct Binding", "", ["name@borrow", "value"]),
  ("ast.rs", "struct FunctionCall", "", ["name@borrow", "parameters"]),
  ("ast.rs", "enum Condition", "tag = \"type\", content = \"content\"", ["Great:unit", "Less:unit", "Eq:unit", "GreatEq:unit", "LessEq:unit", "NotEq:unit"]),
  ("ast.rs", "enum LogicCondition", "tag = \"type\", content = \"content\"", ["And:unit", "Or:unit"]),
  ("ast.rs", "struct ExpressionCondition", "", ["left@borrow", "condition", "right"]),
  ("ast.rs", "struct ExpressionLogicCondition", "", ["left@borrow", "right"]),
  ("ast.rs", "enum IfCondition", "tag = \"type\", content = \"content\"", ["Single:tuple3@borrow", "Logic:tuple3"]),
  ("ast.rs", "struct IfStatement", "", ["condition@borrow", "body", "else_statement", "else_if_statement"]),
  ("ast.rs", "enum BodyStatement", "tag = \"type\", content = \"content\"", ["LetBinding:tuple3@borrow", "Binding:tuple3", "FunctionCall:tuple3", "If:tuple3", "Loop:tuple3", "Expression:tuple3", "Return:tuple3"]),
  ("ast.rs", "enum IfBodyStatement", "tag = \"type\", content = \"content\"", ["LetBinding:tuple3@borrow", "Binding:tuple3", "FunctionCall:tuple3", "If:tuple3", "Loop:tuple3", "Return:tuple3"]),
  ("ast.rs", "enum IfLoopBodyStatement", "tag = \"type\", content = \"content\"", ["LetBinding:tuple3@borrow", "Binding:tuple3", "FunctionCall:tuple3", "If:tuple3", "Loop:tuple3", "Return:tuple3", "Break:unit", "Continue:unit"]),
  ("ast.rs", "enum IfBodyStatements", "tag = \"type\", content = \"content\"", ["If:tuple3@borrow", "Loop:tuple3"]),
  ("ast.rs", "enum LoopBodyStatement", "tag = \"type\", content = \"content\"", ["LetBinding:tuple3@borrow", "Binding:tuple3", "FunctionCall:tuple3", "If:tuple3", "Loop:tuple3", "Return:tuple3", "Break:unit", "Continue:unit"]),
  ("ast.rs", "enum MainStatement", "tag = \"type\", content = \"content\"", ["Import:tuple1@borrow", "Constant:tuple1", "Types:tuple1", "Function:tuple3"]),
  ("semantic.rs", "struct GlobalState", "", ["constants", "types", "functions", "context"]),
  ("semantic.rs", "struct State", "", ["global", "context@skip", "errors", "error", "phantom"]),
  ("mod.rs", "struct ValueName", "", ["tuple"]),
  ("mod.rs", "struct InnerValueName", "", ["tuple"]),
  ("mod.rs", "struct LabelName", "", ["tuple"]),
  ("mod.rs", "struct FunctionName", "", ["tuple"]),
  ("mod.rs", "struct ConstantName", "", ["tuple"]),
  ("mod.rs", "enum ConstantValue", "tag = \"type\", content = \"content\"", ["Constant:tuple1", "Value:tuple1"]),
  ("mod.rs", "struct ConstantExpression", "", ["value", "operation"]),
  ("mod.rs", "struct Constant", "", ["name", "constant_type", "constant_value"]),
  ("mod.rs", "struct Value", "", ["inner_name", "inner_type", "mutable", "alloca", "malloc"]),
  ("mod.rs", "struct Function", "", ["inner_name", "inner_type", "parameters"]),
  ("mod.rs", "struct ParameterName", "", ["tuple"]),
  ("mod.rs", "struct FunctionParameter", "", ["name", "parameter_type"]),
  ("mod.rs", "struct FunctionStatement", "", ["name", "parameters", "result_type", "body"]),
  ("mod.rs", "enum BodyStatement", "tag = \"type\", content = \"content\"", ["LetBinding:tuple1", "Binding:tuple1", "FunctionCall:tuple1", "If:tuple1", "Loop:tuple1", "Expression:tuple1", "Return:tuple1"]),
  ("mod.rs", "struct LetBinding", "", ["name", "mutable", "value_type", "value"]),
  ("mod.rs", "enum PrimitiveValue", "tag = \"type\", content = \"content\"", ["U8:tuple1", "U16:tuple1", "U32:tuple1", "U64:tuple1", "I8:tuple1", "I16:tuple1", "I32:tuple1", "I64:tuple1", "F32:tuple1", "F64:tuple1", "Bool:tuple1", "Char:tuple1", "Ptr:unit", "None:unit"]),
  ("mod.rs", "struct FunctionCall", "", ["name", "parameters"]),
  ("mod.rs", "struct Binding", "", ["name", "value"]),
  ("types.rs", "struct TypeName", "", ["tuple"]),
  ("types.rs", "enum Type", "tag = \"type\", content = \"content\"", ["Primitive:tuple1", "Struct:tuple1", "Array:tuple2"]),
  ("types.rs", "enum PrimitiveTypes", "tag = \"type\", content = \"content\"", ["U8:unit", "U16:unit", "U32:unit", "U64:unit", "I8:unit", "I16:unit", "I32:unit", "I64:unit", "F32:unit", "F64:unit", "Bool:unit", "Char:unit", "Ptr:unit", "None:unit"]),
  ("types.rs", "struct StructTypes", "", ["name", "attributes", "methods"]),
  ("types.rs", "struct StructAttributeType", "", ["attr_name", "attr_index", "attr_type"]),
  ("expression.rs", "struct ExpressionResult", "", ["expr_type", "expr_value"]),
  ("expression.rs", "enum ExpressionResultValue", "tag = \"type\", content = \"content\"", ["PrimitiveValue:tuple1", "Register:tuple1"]),
  ("expression.rs", "struct ExtendedExpressionValue", "", ["tuple"]),
  ("expression.rs", "enum ExpressionValue", "tag = \"type\", content = \"content\"", ["ValueName:tuple1", "PrimitiveValue:tuple1", "StructValue:tuple1", "FunctionCall:tuple1", "Expression:tuple1", "ExtendedExpression:tuple1"]),
  ("expression.rs", "struct ExpressionStructValue", "", ["name", "attribute"]),
  ("expression.rs", "enum ExpressionOperations", "tag = \"type\", content = \"content\"", ["Plus:unit", "Minus:unit", "Multiply:unit", "Divide:unit", "ShiftLeft:unit", "ShiftRight:unit", "And:unit", "Or:unit", "Xor:unit", "Eq:unit", "NotEq:unit", "Great:unit", "Less:unit", "GreatEq:unit", "LessEq:unit"]),
  ("expression.rs", "struct Expression", "", ["expression_value", "operation"]),
  ("condition.rs", "enum Condition", "tag = \"type\", content = \"content\"", ["Great:unit", "Less:unit", "Eq:unit", "GreatEq:unit", "LessEq:unit", "NotEq:unit"]),
  ("condition.rs", "enum LogicCondition", "tag = \"type\", content = \"content\"", ["And:unit", "Or:unit"]),
  ("condition.rs", "struct ExpressionCondition", "", ["left", "condition", "right"]),
  ("condition.rs", "struct ExpressionLogicCondition", "", ["left", "right"]),
  ("condition.rs", "enum IfCondition", "tag = \"type\", content = \"content\"", ["Single:tuple1", "Logic:tuple1"]),
  ("condition.rs", "struct IfStatement", "", ["condition", "body", "else_statement", "else_if_statement"]),
  ("condition.rs", "enum IfBodyStatements", "tag = \"type\", content = \"content\"", ["If:tuple1", "Loop:tuple1"]),
  ("condition.rs", "enum LoopBodyStatement", "tag = \"type\", content = \"content\"", ["LetBinding:tuple1", "Binding:tuple1", "FunctionCall:tuple1", "If:tuple1", "Loop:tuple1", "Return:tuple1", "Break:unit", "Continue:unit"]),
  ("condition.rs", "enum IfBodyStatement", "tag = \"type\", content = \"content\"", ["LetBinding:tuple1", "Binding:tuple1", "FunctionCall:tuple1", "If:tuple1", "Loop:tuple1", "Return:tuple1"]),
  ("condition.rs", "enum IfLoopBodyStatement", "tag = \"type\", content = \"content\"", ["LetBinding:tuple1", "Binding:tuple1", "FunctionCall:tuple1", "If:tuple1", "Loop:tuple1", "Return:tuple1", "Break:unit", "Continue:unit"]),
  ("error.rs", "enum StateErrorKind", "tag = \"type\", content = \"content\"", ["Common:unit", "ConstantAlreadyExist:unit", "ConstantNotFound:unit", "WrongLetType:unit", "WrongExpressionType:unit", "TypeAlreadyExist:unit", "FunctionAlreadyExist:unit", "ValueNotFound:unit", "ValueNotStruct:unit", "ValueNotStructField:unit", "ValueIsNotMutable:unit", "FunctionNotFound:unit", "FunctionParameterTypeWrong:unit", "ReturnNotFound:unit", "ReturnAlreadyCalled:unit", "IfElseDuplicated:unit", "TypeNotFound:unit", "WrongReturnType:unit", "ConditionExpressionWrongType:unit", "ConditionIsEmpty:unit", "ConditionExpressionNotSupported:unit", "ForbiddenCodeAfterReturnDeprecated:unit", "ForbiddenCodeAfterContinueDeprecated:unit", "ForbiddenCodeAfterBreakDeprecated:unit", "FunctionArgumentNameDuplicated:unit"]),
  ("error.rs", "struct StateErrorLocation", "", ["tuple"]),
  ("error.rs", "struct StateErrorResult", "", ["kind", "value", "location"]),
  ("semantic.rs", "struct SemanticStack", "", ["tuple"]),
  ("semantic.rs", "enum SemanticStackContext", "tag = \"type\", content = \"content\"", ["ExpressionValue:struct:expression,register_number", "ExpressionConst:struct:expression,register_number", "ExpressionStructValue:struct:expression,index,register_number", "ExpressionOperation:struct:operation,left_value,right_value,register_number", "Call:struct:call,params,register_number", "LetBinding:struct:let_decl,expr_result", "Binding:struct:val,expr_result", "FunctionDeclaration:struct:fn_decl", "Constant:struct:const_decl", "Types:struct:type_decl", "ExpressionFunctionReturn:struct:expr_result", "ExpressionFunctionReturnWithLabel:struct:expr_result", "SetLabel:struct:label", "JumpTo:struct:label", "IfConditionExpression:struct:expr_result,label_if_begin,label_if_end", "ConditionExpression:struct:left_result,right_result,condition,register_number", "JumpFunctionReturn:struct:expr_result", "LogicCondition:struct:logic_condition,left_register_result,right_register_result,register_number", "IfConditionLogic:struct:label_if_begin,label_if_end,result_register", "FunctionArg:struct:value,func_arg", "ExtendedExpression:tuple1"]),
  ("block_state.rs", "struct BlockState", "", ["values", "inner_values_name", "labels", "last_register_number", "manual_return", "parent@serialize_with = \"rc_serializer::serialize_option\", deserialize_with = \"rc_serializer::deserialize_option\"", "children@serialize_with = \"rc_serializer::serialize_vec\", deserialize_with = \"rc_serializer::deserialize_vec\"", "context"])
]

end SemVerif.Model

namespace SemVerif
open SemVerif

theorem inv_errKinds : Generated.errKinds = Model.errKinds := by decide
theorem inv_instrShapes : Generated.instrShapes = Model.instrShapes := by decide
theorem inv_labelStems : Generated.labelStems = Model.labelStems := by decide
theorem inv_primNames : Generated.primNames = Model.primNames := by decide
/-- every listed site kind of `gen` is known to `model`, with at most as many occurrences: removing or
merging sites (a helper that replaces two identical `expect`s) is not a change, a new site is -/
def sitesLe2 (gen model : List (String × String × Nat)) : Bool :=
  gen.all fun (f, k, n) => model.any fun (f', k', m) => f == f' && k == k' && n ≤ m

def sitesLe1 (gen model : List (String × Nat)) : Bool :=
  gen.all fun (k, n) => model.any fun (k', m) => k == k' && n ≤ m

theorem inv_panicSites : sitesLe2 Generated.panicSites Model.panicSites = true := by decide +kernel
theorem inv_mutationSites : sitesLe1 Generated.mutationSites Model.mutationSites = true := by decide +kernel
theorem inv_bodyGlobalMutators : Generated.bodyGlobalMutators = Model.bodyGlobalMutators := by decide
theorem inv_serdeShapes : Generated.serdeShapes = Model.serdeShapes := by decide +kernel

/-- the model's error kinds are the source's, in order -/
theorem inv_errKinds_model :
    Model.errKinds = [ErrKind.common, .constantAlreadyExist, .constantNotFound, .wrongLetType,
      .wrongExpressionType, .typeAlreadyExist, .functionAlreadyExist, .valueNotFound, .valueNotStruct,
      .valueNotStructField, .valueIsNotMutable, .functionNotFound, .functionParameterTypeWrong,
      .returnNotFound, .returnAlreadyCalled, .ifElseDuplicated, .typeNotFound, .wrongReturnType,
      .conditionExpressionWrongType, .conditionIsEmpty, .conditionExpressionNotSupported,
      .forbiddenCodeAfterReturnDeprecated, .forbiddenCodeAfterContinueDeprecated,
      .forbiddenCodeAfterBreakDeprecated, .functionArgumentNameDuplicated].map ErrKind.wire := by decide

/-- label stems contain no dot (used by the label lemmas) -/
theorem inv_stems_nodot : ∀ s ∈ Model.labelStems, s.toList.contains '.' = false := by decide

/-- the published priorities stay within the published maximum -/
theorem inv_prio_le_max : ∀ o : Op, Generated.prio o ≤ Generated.maxPrio := by
  intro o; cases o <;> decide

end SemVerif
