import SemVerif.SemTypes
/-!
# Names — `BlockState::set_attr_counter` and the two probe loops (`block_state.rs`)
-/
namespace SemVerif

/-- put a character in front of the first part -/
def consHead (c : Char) : List Name → List Name
  | [] => [[c]]            -- unreachable: `splitDot` never returns `[]`
  | p :: ps => (c :: p) :: ps

/-- `str::split('.')` : always at least one part -/
def splitDot : Name → List Name
  | [] => [[]]
  | c :: cs => if c = '.' then [] :: splitDot cs else consHead c (splitDot cs)

def isDigit (c : Char) : Bool := 48 ≤ c.toNat && c.toNat ≤ 57

def digitsVal : List Char → Nat → Nat
  | [], acc => acc
  | c :: cs, acc => digitsVal cs (acc * 10 + (c.toNat - 48))

/-- `str::parse::<u64>().unwrap_or_default()`: optional leading `+`, at least one ASCII digit,
nothing else; anything unparsable gives 0.  The `u64` range is *not* modelled (a suffix ≥ 2^64
parses to 0 in Rust, and `u64::MAX + 1` overflows): the domain keeps suffixes below 2^32. -/
def stripPlus : Name → Name
  | '+' :: rest => rest
  | s => s

def parseU64 (s : Name) : Nat :=
  let ds := stripPlus s
  if ds.isEmpty || !ds.all isDigit then 0
  else digitsVal ds 0

/-- `BlockState::set_attr_counter` -/
def setAttrCounter (val : Name) : Name :=
  match splitDot val with
  | [a, b] => a ++ '.' :: showNat (parseU64 b + 1)
  | a :: _ => a ++ ['.', '0']
  | [] => ['.', '0']          -- unreachable

/-- `get_next_inner_name`: candidates `set_attr_counter^k(val)`, k ≥ 1, first one not in use.
Fuel `|registry| + 1` is never exhausted (lemma `probeInner_fresh`). -/
def probeInnerF (used : Name → Bool) : Nat → Name → Name
  | 0, n => setAttrCounter n
  | fuel + 1, n =>
    let c := setAttrCounter n
    if used c then probeInnerF used fuel c else c

/-- `get_and_set_next_label` (the returned name; registration is done by the caller) -/
def probeLabelF (used : Name → Bool) (fuel : Nat) (stem : Name) : Name :=
  if used stem then probeInnerF used fuel stem else stem

end SemVerif
