import SemVerif.Spec.Preds
import SemVerif.Inventory
import SemVerif.Lemmas.StmtSteps
/-!
# Property C09 — result registers are fresh and strictly increasing within a function

For every program (accepted or not) and every function: the registers written by the
instructions of the function's stack are strictly increasing in emission order and start at 1
(each root block starts with counter 0).  Proved from the invariant "all live blocks carry the
same counter, and it bounds every register written so far", which every primitive step keeps.
-/
namespace SemVerif

/-- invariant of family T3 for registers -/
structure RegInv (s : St) : Prop where
  sync : ∀ b ∈ s.inner, b.reg = s.root.reg
  sorted : (resultRegs s.root.context).Pairwise (· < ·)
  bound : ∀ r ∈ resultRegs s.root.context, 1 ≤ r ∧ r ≤ s.root.reg

theorem cur_reg_of_sync {s : St} (h : ∀ b ∈ s.inner, b.reg = s.root.reg) : s.cur.reg = s.root.reg := by
  unfold St.cur
  cases hi : s.inner with
  | nil => rfl
  | cons b rest => simp [List.headD]; exact h b (by simp [hi])

theorem resultRegs_append (l : List Instr) (i : Instr) :
    resultRegs (l ++ [i]) = resultRegs l ++ (match i.writes with | some r => [r] | none => []) := by
  unfold resultRegs
  rw [List.filterMap_append]
  cases h : i.writes <;> simp [List.filterMap, h]

theorem regInv_push_none {s : St} (h : RegInv s) (i : Instr) (hw : i.writes = none) : RegInv (s.push i) := by
  refine ⟨?_, ?_, ?_⟩
  · intro b hb
    simp [St.push, St.mapFrames] at hb ⊢
    obtain ⟨b', hb', rfl⟩ := hb
    exact h.sync b' hb'
  · simp [St.push, St.mapFrames, resultRegs_append, hw]; exact h.sorted
  · simp [St.push, St.mapFrames, resultRegs_append, hw]; exact h.bound

theorem regInv_incReg {s : St} (h : RegInv s) : RegInv s.incReg := by
  have hc := cur_reg_of_sync h.sync
  refine ⟨?_, ?_, ?_⟩
  · intro b hb
    simp [St.incReg, St.mapFrames] at hb ⊢
    obtain ⟨b', _, rfl⟩ := hb
    rfl
  · simp [St.incReg, St.mapFrames]; exact h.sorted
  · intro r hr
    simp [St.incReg, St.mapFrames] at hr ⊢
    have := h.bound r hr
    rw [hc]; omega

theorem incReg_curReg {s : St} (h : RegInv s) : s.incReg.curReg = s.root.reg + 1 := by
  have hc := cur_reg_of_sync h.sync
  unfold St.curReg St.cur St.incReg St.mapFrames
  cases hi : s.inner with
  | nil => simp [List.headD, St.cur, hi]
  | cons b rest => simp [List.headD]; exact hc

theorem regInv_incEmit {s : St} (h : RegInv s) (i : Instr) (hw : i.writes = some s.incReg.curReg) :
    RegInv (s.incReg.push i) := by
  have h1 := regInv_incReg h
  have hr := incReg_curReg h
  have hroot : s.incReg.root.reg = s.root.reg + 1 := by
    have := cur_reg_of_sync h.sync
    simp [St.incReg, St.mapFrames, this]
  refine ⟨?_, ?_, ?_⟩
  · intro b hb
    simp [St.push, St.mapFrames] at hb ⊢
    obtain ⟨b', hb', rfl⟩ := hb
    exact h1.sync b' hb'
  · have : (s.incReg.push i).root.context = s.incReg.root.context ++ [i] := by simp [St.push, St.mapFrames]
    rw [this, resultRegs_append, hw]
    simp only
    rw [List.pairwise_append]
    refine ⟨h1.sorted, by simp, ?_⟩
    intro a ha b hb
    simp at hb; subst hb
    have hctx : s.incReg.root.context = s.root.context := by simp [St.incReg, St.mapFrames]
    rw [hctx] at ha
    have := h.bound a ha
    omega
  · intro r hr'
    have : (s.incReg.push i).root.context = s.incReg.root.context ++ [i] := by simp [St.push, St.mapFrames]
    rw [this, resultRegs_append, hw] at hr'
    have hreg : (s.incReg.push i).root.reg = s.root.reg + 1 := by simp [St.push, St.mapFrames, hroot]
    rw [hreg]
    simp at hr'
    rcases hr' with h2 | h2
    · have hctx : s.incReg.root.context = s.root.context := by simp [St.incReg, St.mapFrames]
      rw [hctx] at h2
      have := h.bound r h2; omega
    · subst h2; omega

theorem regInv_estep {s s' : St} (h : RegInv s) (st : EStep s s') : RegInv s' := by
  cases st with
  | incReg => exact regInv_incReg h
  | emit i hw _ _ _ => exact regInv_push_none h i hw
  | incEmit i hw _ _ _ => exact regInv_incEmit h i hw
  | addErr k v l o => exact ⟨h.sync, h.sorted, h.bound⟩
  | declare n v i _ hw _ _ _ =>
    apply regInv_push_none _ i hw
    refine ⟨?_, ?_, ?_⟩
    · intro b hb
      have hroot : ((s.insertValue n v).registerInner v.innerName).root.reg = s.root.reg := by
        unfold St.registerInner St.mapFrames St.insertValue St.mapCur
        cases s.inner <;> rfl
      rw [hroot]
      unfold St.registerInner St.mapFrames St.insertValue St.mapCur at hb
      cases hi : s.inner with
      | nil => rw [hi] at hb; simp at hb
      | cons b0 rest =>
        rw [hi] at hb
        simp at hb
        rcases hb with rfl | ⟨b', hb', rfl⟩
        · exact h.sync b0 (by simp [hi])
        · exact h.sync b' (by simp [hi, hb'])
    · have : ((s.insertValue n v).registerInner v.innerName).root.context = s.root.context := by
        unfold St.registerInner St.mapFrames St.insertValue St.mapCur
        cases s.inner <;> rfl
      rw [this]; exact h.sorted
    · have h1 : ((s.insertValue n v).registerInner v.innerName).root.context = s.root.context := by
        unfold St.registerInner St.mapFrames St.insertValue St.mapCur
        cases s.inner <;> rfl
      have h2 : ((s.insertValue n v).registerInner v.innerName).root.reg = s.root.reg := by
        unfold St.registerInner St.mapFrames St.insertValue St.mapCur
        cases s.inner <;> rfl
      rw [h1, h2]; exact h.bound

theorem regInv_step {s s' : St} (h : RegInv s) (st : Step s s') : RegInv s' := by
  cases st with
  | e he => exact regInv_estep h he
  | enter =>
    have hc := cur_reg_of_sync h.sync
    refine ⟨?_, h.sorted, h.bound⟩
    intro b hb
    simp [St.enter] at hb
    rcases hb with rfl | hb
    · simp [Block.child, St.enter, hc]
    · exact h.sync b hb
  | leave =>
    unfold St.leave
    cases hi : s.inner with
    | nil => simpa [hi] using h
    | cons b rest =>
      cases rest with
      | nil =>
        simp only
        exact ⟨by simp, h.sorted, h.bound⟩
      | cons p rest' =>
        simp only
        refine ⟨?_, h.sorted, h.bound⟩
        intro b' hb'
        simp at hb'
        rcases hb' with rfl | hb'
        · exact h.sync p (by simp [hi])
        · exact h.sync b' (by simp [hi, hb'])
  | regLabel l _ =>
    refine ⟨?_, ?_, ?_⟩
    · intro b hb
      simp [St.mapFrames] at hb ⊢
      obtain ⟨b', hb', rfl⟩ := hb
      exact h.sync b' hb'
    · simpa [St.mapFrames] using h.sorted
    · simpa [St.mapFrames] using h.bound
  | ctl i hw _ _ => exact regInv_push_none h i hw
  | emitRet i _ hw _ _ _ => exact regInv_push_none h i hw
  | ctlVia k i hw _ _ =>
    unfold St.pushVia
    apply regInv_push_none _ i hw
    unfold St.mapCur
    cases hi : s.inner with
    | nil => exact ⟨by simp, h.sorted, h.bound⟩
    | cons b rest =>
      refine ⟨?_, h.sorted, h.bound⟩
      intro b' hb'
      simp at hb'
      rcases hb' with rfl | hb'
      · exact h.sync b (by simp [hi])
      · exact h.sync b' (by simp [hi, hb'])
  | setReturn =>
    refine ⟨?_, ?_, ?_⟩
    · intro b hb
      simp [St.setReturn, St.mapFrames] at hb ⊢
      obtain ⟨b', hb', rfl⟩ := hb
      exact h.sync b' hb'
    · simpa [St.setReturn, St.mapFrames] using h.sorted
    · simpa [St.setReturn, St.mapFrames] using h.bound
  | setPanic site =>
    unfold St.setPanic
    cases s.panic <;> exact ⟨h.sync, h.sorted, h.bound⟩

theorem regInv_steps {s s' : St} (h : RegInv s) (st : Steps s s') : RegInv s' := by
  induction st with
  | refl => exact h
  | tail _ st ih => exact regInv_step ih st

theorem regInv_init : RegInv St.init :=
  ⟨by simp [St.init], by simp [St.init, Block.fresh, resultRegs], by simp [St.init, Block.fresh, resultRegs]⟩

theorem strictlyIncreasing_of_pairwise : ∀ (l : List Nat), l.Pairwise (· < ·) → strictlyIncreasing l = true
  | [], _ => rfl
  | [_], _ => rfl
  | a :: b :: rest, h => by
    unfold strictlyIncreasing
    rw [List.pairwise_cons] at h
    simp [h.1 b (by simp), strictlyIncreasing_of_pairwise (b :: rest) h.2]

/-- C09 for one function: every function body, analysed under any global tables, has strictly
increasing result registers starting at 1 -/
theorem C09_function (g : Globals) (f : FnDecl) : c09Stack (functionBody g f).root.context = true := by
  have h := regInv_steps regInv_init (steps_functionBody g f)
  unfold c09Stack
  simp only [Bool.and_eq_true, List.all_eq_true, decide_eq_true_eq]
  exact ⟨strictlyIncreasing_of_pairwise _ h.sorted, fun r hr => (h.bound r hr).1⟩

/-- **C09** — for every program, the output predicate of the property holds on the model's result:
no function has two instructions writing the same register or a non-increasing result register -/
theorem C09 (p : Program) : P_C09 (run p) = [] := by
  unfold P_C09 run
  rw [List.map_eq_nil_iff, List.filter_eq_nil_iff]
  intro x hx
  obtain ⟨b, i⟩ := x
  have hb := List.mem_zipIdx hx
  have : b ∈ List.map (fun s => s.root) (List.map (functionBody (pass2 p (pass1 p GState.init)).globals) p.fns) := by
    have := hb.2.2
    simp only at this
    rw [this]; exact List.getElem_mem _
  simp only [List.mem_map] at this
  obtain ⟨s, ⟨f, _, rfl⟩, rfl⟩ := this
  simp [C09_function]

/-- non-vacuity: a concrete function with nested blocks whose registers are 1,2,3 -/
example : resultRegs (functionBody ⟨fun _ => none, fun _ => none, fun _ => none⟩
    ⟨['f'], [(['x'], .prim .u8)], .prim .u8,
     [.ifS (.mk (.single (.mk (.var ['x']) none)) (.ifb [.letB ⟨['y'], false, none, .mk (.var ['x']) none⟩]) none none),
      .ret (.mk (.var ['x']) none)]⟩).root.context = [1, 2, 3] := by decide +kernel

end SemVerif
