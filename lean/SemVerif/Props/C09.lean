import SemVerif.Spec.Preds
import SemVerif.Inventory
/-! # Property C09 — theorems (under construction) -/
namespace SemVerif
end SemVerif
