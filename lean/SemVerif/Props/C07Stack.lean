import SemVerif.Props.C06
/-!
# Property C07, second half — the emitted operations are the precedence tree

`Props/C07.lean` shows that the fold builds the unique priority-correct tree of a chain.
`C07`: on the model's result the output predicate of the property reports nothing, for every
program: in an accepted program the `ExpressionOperation` instructions, read as a tree through
their register operands, have exactly the bracketing of the reference precedence tree `specTree`
(rightmost operator of minimal priority, recursively) of the source chain — in every statement
position (let, assignment, argument, return, condition side), with bracketed sub-expressions as
units, for every chain length.  Projection (`DTree.shape`) of `C06_exact`; the second clause of the
predicate (fold tree = reference tree) is `specStmts_ref`.
-/
namespace SemVerif

/-- the reference tree is the unique priority-correct tree of the chain (any table) -/
theorem C07_reference_tree {α : Type} (prio : Op → Nat) (v : α) (rest : List (Op × α)) :
    (specTree prio v rest).flat = chainFlat v rest ∧ Correct prio (specTree prio v rest) ∧
    specTree prio v rest = foldChain prio v rest :=
  ⟨(specTree_correct prio v rest).1, (specTree_correct prio v rest).2, specTree_eq_fold prio v rest⟩

/-- **C07** — the output predicate of the property holds on the model's result for every program -/
theorem C07 (p : Program) : P_C07 p (run p) = [] := by
  unfold P_C07
  split
  · rfl
  · rename_i h
    have ha : (run p).accepted = true := by
      cases hx : acceptedWF p (run p) with
      | true => unfold acceptedWF at hx; simp only [Bool.and_eq_true] at hx; exact hx.1
      | false => rw [hx] at h; simp at h
    obtain ⟨hnp, he⟩ := (accepted_iff _).mp ha
    rw [cmpRendered_nil _ _ _ (denotePairs_eq p hnp he), List.nil_append, List.flatMap_eq_nil_iff]
    rintro ⟨f, i⟩ _
    simp [specStmts_ref]

/-- non-vacuity: the chain `x + K * 2` of `exampleT2` is bracketed as `x + (K * 2)` -/
example : ((specStmts true exampleT2.rglobals) <$> exampleT2.fnDecls).head?.map (fun l => l.map (DStmt.render DTree.shape)) =
    some ["param v0", "let v1 = (_ plus (_ multiply _))", "branch _", "do call(_)", "let v2 = call(_)", "return _"] := by
  decide +kernel

end SemVerif
