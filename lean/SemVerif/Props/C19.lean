import SemVerif.Props.C06
import SemVerif.Props.C18
import SemVerif.Lemmas.ExtEvents
import SemVerif.Lemmas.VisitLock
import SemVerif.Lemmas.VisitSim
import SemVerif.Props.C04
/-!
# Property C19 — extension expressions are opaque leaves evaluated once, in place

For the harness extension (allocates a register, pushes one `ExtendedExpression(tag, register)`
instruction through the block interface, returns a register result of the type the leaf carries).

`C19`: on the model's result the output predicate of the property reports nothing, for every
program.  Its three clauses:
* accepted programs — the evaluation of every extension leaf is an *event* of the denotation, so
  `T2` places every `ExtendedExpression` instruction at its position in evaluation order (between the
  calls, declarations and branches around it), exactly once; and the operand / initialiser /
  argument / condition side / return value read at that position is the leaf itself (`.ext tag`),
  i.e. the returned register is used verbatim;
* accepted programs — the `ExtendedExpression` instructions of a function's root stack are exactly
  the extension leaves of the source function in evaluation order (`evTags_abstractStack`,
  `evTags_specStmts`: the fold keeps the operands of a chain in order);
* every program — every block's stack is an order-preserving subsequence of its parent's
  (`C18_subseq_function`), so an instruction pushed through the block interface is in the stack of
  the block being analysed and of every ancestor.
Type checking of the returned type "like any other operand" is part of T1 (the rule checker types
an extension leaf by the type it carries).
-/
namespace SemVerif

/-- **C19** — the output predicate of the property holds on the model's result for every program -/
theorem C19 (p : Program) : P_C19 p (run p) = [] := by
  unfold P_C19
  split
  · rfl
  · rw [List.append_eq_nil_iff]
    constructor
    · split
      · rename_i h
        have ha : (run p).accepted = true := by
          unfold acceptedWF at h; simp only [Bool.and_eq_true] at h; exact h.1
        obtain ⟨hnp, he⟩ := (accepted_iff _).mp ha
        rw [cmpRendered_nil _ _ _ (denotePairs_eq p hnp he), List.nil_append, List.flatMap_eq_nil_iff]
        rintro ⟨⟨f, b⟩, i⟩ hx
        have hfb := List.fst_mem_of_mem_zipIdx hx
        have heq := map_eq_zip (fun b : Block => abstractStack b.context) (specStmts false p.rglobals) _ _ (T2 p hnp he) (f, b) hfb
        dsimp only at heq ⊢
        have : b.context.filterMap Instr.extTag = f.extLeaves.map (·.1) := by
          rw [← evTags_abstractStack, ← heq, evTags_specStmts]
        rw [this]
        simp
      · rfl
    · rw [List.flatMap_eq_nil_iff]
      rintro ⟨b, i⟩ hx
      have hb := List.fst_mem_of_mem_zipIdx hx
      have hr : (run p).roots = p.fns.map fun f => (functionBody (pass2 p (pass1 p GState.init)).globals f).root := by
        unfold run; simp [List.map_map, Function.comp_def]
      rw [hr, List.mem_map] at hb
      obtain ⟨f, _, rfl⟩ := hb
      dsimp only
      rw [C18_subseq_function]
      rfl

/-- **C19, the evaluated-leaves predicate on accepted programs of the domain** — the leaves
`Spec/ExtVisit.lean` says the analysis evaluates are the `ExtendedExpression` instructions of the
function's root stack (for rejected programs this predicate is validated, not proved) -/
theorem C19_visited (p : Program) (h : acceptedWF p (run p) = true) : P_C19_visited p (run p) = [] := by
  unfold acceptedWF at h
  simp only [Bool.and_eq_true] at h
  obtain ⟨hnp, he⟩ := (accepted_iff _).mp h.1
  have hchk : ∀ f ∈ p.fnDecls, checkFn p.rglobals f = [] := by
    intro f hf
    have hwf := h.2
    unfold WellFormedB refCheck at hwf
    dsimp only at hwf
    rw [List.isEmpty_iff, List.append_eq_nil_iff] at hwf
    exact flatten_eq_nil_mem hwf.2 _ (List.mem_map.mpr ⟨f, hf, rfl⟩)
  unfold P_C19_visited
  rw [if_neg (by simp [hnp]), List.flatMap_eq_nil_iff]
  rintro ⟨⟨f, b⟩, i⟩ hx
  have hfb := List.fst_mem_of_mem_zipIdx hx
  have heq := map_eq_zip (fun b : Block => abstractStack b.context) (specStmts false p.rglobals) _ _ (T2 p hnp he) (f, b) hfb
  dsimp only at heq ⊢
  have : b.context.filterMap Instr.extTag = f.extLeaves.map (·.1) := by
    rw [← evTags_abstractStack, ← heq, evTags_specStmts]
  rw [this, vl_fn p.rglobals f (hchk f (List.of_mem_zip hfb).1)]
  simp

/-- **C19, the evaluated-leaves predicate for every program** — accepted or rejected: when the
analysis does not hit the documented panic, the `ExtendedExpression` instructions of every function
stack are exactly the leaves `Spec/ExtVisit.lean` lists (operands to the right of a failing operand
are skipped, everything else is evaluated once, in order) -/
theorem C19_visited_all (p : Program) : P_C19_visited p (run p) = [] := by
  unfold P_C19_visited
  split
  · rfl
  · rename_i hpan
    have hnp : (run p).panic = none := by
      cases h : (run p).panic with
      | none => rfl
      | some x => rw [h] at hpan; simp at hpan
    have hg := globRel_of_rel (rel_run p)
    have hok := anaOK_of_no_panic p hnp
    unfold AnaOKB at hok
    rw [List.all_eq_true] at hok
    rw [List.flatMap_eq_nil_iff]
    rintro ⟨⟨f, b⟩, i⟩ hx
    have hfb : (f, b) ∈ p.fnDecls.zip (run p).roots := List.fst_mem_of_mem_zipIdx hx
    have hf : f ∈ p.fnDecls := (List.of_mem_zip hfb).1
    have hb : b = (functionBody (pass2 p (pass1 p GState.init)).globals f).root := by
      unfold run at hfb
      dsimp only at hfb
      rw [fns_eq_fnDecls] at hfb
      exact zip_roots p _ _ f b hfb
    subst hb
    dsimp only
    rw [visit_function hg f (hok f hf)]
    simp [Program.rglobals]

/-- the whole of what the check evaluates for C19, as one statement -/
theorem C19_all (p : Program) : P_C19 p (run p) ++ P_C19_visited p (run p) = [] := by
  rw [C19, C19_visited_all]; rfl

/-- a function with extension leaves in a chain, as a call argument and in a nested block -/
def exampleExt : Program :=
  [.fn ⟨['g'], [(['a'], .prim .u8)], .prim .u8, [.ret (.mk (.var ['a']) none)]⟩,
   .fn ⟨['m'], [], .prim .u8,
      [.letB ⟨['x'], false, none, .mk (.ext 7 .u8) (some (.plus, .mk (.lit (.u8 1)) (some (.multiply, .mk (.ext 8 .u8) none))))⟩,
       .ifS (.mk (.single (.mk (.lit (.bool true)) none))
         (.ifb [.letB ⟨['y'], false, none, .mk (.call ['g'] [.mk (.ext 9 .u8) none]) none⟩]) none none),
       .ret (.mk (.var ['x']) none)]⟩]

/-- non-vacuity: the example is accepted; its extension events are 7, 8, 9 in evaluation order and
the initialiser of `x` is `ext7 + (1 * ext8)` -/
example : (run exampleExt).accepted = true ∧
    ((specStmts true exampleExt.rglobals) <$> exampleExt.fnDecls).getLast?.map (fun l => l.map (DStmt.render DTree.str)) =
      some ["eval ext7", "eval ext8", "let v0 = (ext7 plus (1u8 multiply ext8))", "branch true", "eval ext9",
            "do g(ext9)", "let v1 = g(ext9)", "return v0"] := by
  constructor <;> decide +kernel

/-- a rejected program: `g(true)` has an argument of the wrong type (the error is reported, the call
still analyses to `u8`, so `x` is declared), `nope` is undeclared (the operand to its right is not
analysed) -/
def exampleRejected : Program :=
  [.fn ⟨['g'], [(['a'], .prim .u8)], .prim .u8, [.ret (.mk (.var ['a']) none)]⟩,
   .fn ⟨['m'], [], .prim .u8,
      [.letB ⟨['x'], false, none, .mk (.call ['g'] [.mk (.lit (.bool true)) none]) none⟩,
       .letB ⟨['y'], false, none, .mk (.var ['x']) (some (.plus, .mk (.ext 7 .u8) none))⟩,
       .letB ⟨['z'], false, none, .mk (.var ['n', 'o', 'p', 'e']) (some (.plus, .mk (.ext 8 .u8) none))⟩,
       .ret (.mk (.ext 9 .u8) none)]⟩]

/-- non-vacuity of the every-program clause: the example is rejected (two errors), leaf 7 is
evaluated although an earlier statement was in error, leaf 8 is skipped, leaf 9 is evaluated; the
specification and the model's stack agree -/
example : (run exampleRejected).errors.length = 2 ∧
    exampleRejected.fnDecls.map (visFn exampleRejected.rglobals) = [[], [7, 9]] ∧
    (run exampleRejected).roots.map (fun b => b.context.filterMap Instr.extTag) = [[], [7, 9]] := by
  decide +kernel

end SemVerif
