import SemVerif.Spec.Preds
import SemVerif.Inventory
/-! # Property C19 — theorems (under construction) -/
namespace SemVerif
end SemVerif
