import SemVerif.Spec.Preds
import SemVerif.Inventory
import SemVerif.Lemmas.StmtSteps
import SemVerif.Lemmas.Frames
import SemVerif.Lemmas.T1Ctl
import SemVerif.Lemmas.T1Fn
/-!
# Property C11 — each accepted function ends in one return of the right form

`Inv11` is the invariant of the whole analysis of a function body:
* `flag`: every live block carries the same manual-return flag, and the flag says whether the
  root stack already holds a jump-to-return (the flag is raised on the block and all its ancestors
  together with the push, and a new child inherits it);
* `eq`: the jump-to-returns of the root stack are exactly those of its finished children plus
  those of its live child — nothing pushes one at function level.

`Keep s s'` (invariant preserved, number of function returns in the root stack unchanged) is shown
for every expression-level step, every label/jump push and every control construct by mutual
structural induction; the function-level statement loop then shows that an analysis that reports
no error pushes exactly one function return, as the last instruction, of the form the flag selects.
-/
namespace SemVerif

def cntF (l : List Instr) : Nat := countP Instr.isFnReturn l
def cntJ (l : List Instr) : Nat := countP Instr.isJumpReturn l

theorem cntJ_snoc (l : List Instr) (i : Instr) : cntJ (l ++ [i]) = cntJ l + (if i.isJumpReturn then 1 else 0) := by
  unfold cntJ countP; rw [List.filter_append]; cases h : i.isJumpReturn <;> simp [List.filter, h]
theorem cntF_snoc (l : List Instr) (i : Instr) : cntF (l ++ [i]) = cntF l + (if i.isFnReturn then 1 else 0) := by
  unfold cntF countP; rw [List.filter_append]; cases h : i.isFnReturn <;> simp [List.filter, h]

theorem isRet_false {i : Instr} (h : i.isRet = false) : i.isFnReturn = false ∧ i.isJumpReturn = false := by
  unfold Instr.isRet at h; simpa using h

theorem isRet_of_writes {i : Instr} {r : Nat} (h : i.writes = some r) : i.isRet = false := by
  cases i <;> simp [Instr.writes] at h <;> rfl
theorem isRet_of_declares {i : Instr} {v : Value} (h : i.declares = some v) : i.isRet = false := by
  cases i <;> simp [Instr.declares] at h <;> rfl

/-- jump-to-returns in the stacks of the finished children -/
def kidsJ (b : Block) : Nat := (b.children.map fun c => countP Instr.isJumpReturn c.context).sum
/-- jump-to-returns in the stack of the root's live child -/
def liveJ (s : St) : Nat := match s.inner.getLast? with
  | some b => cntJ b.context
  | none => 0

structure Inv11 (s : St) : Prop where
  flag : ∀ b ∈ s.frames, b.manualReturn = decide (0 < cntJ s.root.context)
  eq : cntJ s.root.context = kidsJ s.root + liveJ s

structure Keep (s s' : St) : Prop where
  f : cntF s'.root.context = cntF s.root.context
  inv : Inv11 s → Inv11 s'

theorem Keep.refl (s : St) : Keep s s := ⟨rfl, id⟩
theorem Keep.trans {a b c : St} (h1 : Keep a b) (h2 : Keep b c) : Keep a c :=
  ⟨h2.f.trans h1.f, fun h => h2.inv (h1.inv h)⟩

theorem inv11_init : Inv11 St.init := by
  refine ⟨?_, ?_⟩
  · intro b hb; simp [St.frames, St.init] at hb; subst hb; simp [St.init, Block.fresh, cntJ, countP]
  · simp [St.init, Block.fresh, cntJ, countP, kidsJ, liveJ]

theorem inv11_mapFrames (f : Block → Block) (s : St) (hm : ∀ b, (f b).manualReturn = b.manualReturn)
    (hj : ∀ b, cntJ (f b).context = cntJ b.context)
    (hk : ∀ b, kidsJ (f b) = kidsJ b) (h : Inv11 s) : Inv11 (s.mapFrames f) := by
  refine ⟨?_, ?_⟩
  · intro b hb
    rw [frames_mapFrames] at hb
    simp only [List.mem_map] at hb
    obtain ⟨b0, hb0, rfl⟩ := hb
    rw [hm, root_mapFrames, hj]; exact h.flag b0 hb0
  · rw [root_mapFrames, hj, hk, h.eq]
    congr 1
    unfold liveJ St.mapFrames
    simp only [List.getLast?_map]
    cases s.inner.getLast? <;> simp [hj]

theorem keep_mapFrames (f : Block → Block) (s : St) (hm : ∀ b, (f b).manualReturn = b.manualReturn)
    (hj : ∀ b, cntJ (f b).context = cntJ b.context) (hf : ∀ b, cntF (f b).context = cntF b.context)
    (hk : ∀ b, kidsJ (f b) = kidsJ b) : Keep s (s.mapFrames f) :=
  ⟨hf _, inv11_mapFrames f s hm hj hk⟩

/-- pushing anything but a jump-to-return keeps the invariant -/
theorem inv11_push (i : Instr) (s : St) (hj : i.isJumpReturn = false) (h : Inv11 s) : Inv11 (s.push i) := by
  unfold St.push
  exact inv11_mapFrames _ s (fun _ => rfl) (fun b => by simp [cntJ_snoc, hj]) (fun _ => rfl) h

theorem keep_mapCur (f : Block → Block) (s : St) (hm : ∀ b, (f b).manualReturn = b.manualReturn)
    (hj : ∀ b, cntJ (f b).context = cntJ b.context) (hf : ∀ b, cntF (f b).context = cntF b.context)
    (hk : ∀ b, kidsJ (f b) = kidsJ b) : Keep s (s.mapCur f) := by
  unfold St.mapCur
  cases hi : s.inner with
  | nil =>
    refine ⟨hf _, fun h => ⟨?_, ?_⟩⟩
    · intro b hb
      simp [St.frames, hi] at hb
      subst hb
      simp only [hm, hj]; exact h.flag s.root (by simp [St.frames])
    · have := h.eq
      simp only [liveJ, hi, List.getLast?_nil] at this ⊢
      rw [hj, hk]; exact this
  | cons b0 rest =>
    refine ⟨rfl, fun h => ⟨?_, ?_⟩⟩
    · intro b hb
      simp only [St.frames, List.mem_append, List.mem_cons, List.mem_singleton, List.not_mem_nil, or_false] at hb
      rcases hb with (rfl | hb) | rfl
      · rw [hm]; exact h.flag b0 (by simp [St.frames, hi])
      · exact h.flag b (by simp [St.frames, hi, hb])
      · exact h.flag s.root (by simp [St.frames])
    · have := h.eq
      simp only [liveJ, hi] at this ⊢
      rw [this]
      cases rest with
      | nil => simp [hj]
      | cons c rest' => simp [List.getLast?_cons_cons]

theorem keep_push (i : Instr) (s : St) (hr : i.isRet = false) : Keep s (s.push i) := by
  unfold St.push
  obtain ⟨h1, h2⟩ := isRet_false hr
  exact keep_mapFrames _ s (fun _ => rfl) (fun b => by simp [cntJ_snoc, h2]) (fun b => by simp [cntF_snoc, h1]) (fun _ => rfl)

theorem kidsJ_modifyNth (i : Instr) (h : i.isJumpReturn = false) : ∀ (k : Nat) (cs : List Block),
    ((modifyNth (fun c => { c with context := c.context ++ [i] }) k cs).map fun c => countP Instr.isJumpReturn c.context).sum =
      (cs.map fun c => countP Instr.isJumpReturn c.context).sum
  | _, [] => by unfold modifyNth; rfl
  | 0, c :: cs => by
    have := cntJ_snoc c.context i
    unfold cntJ at this
    simp [modifyNth, this, h]
  | k + 1, c :: cs => by simp [modifyNth, kidsJ_modifyNth i h k cs]

theorem keep_pushVia (k : Nat) (i : Instr) (s : St) (hr : i.isRet = false) : Keep s (s.pushVia k i) := by
  unfold St.pushVia
  refine Keep.trans (b := s.mapCur fun b =>
    { b with children := modifyNth (fun c => { c with context := c.context ++ [i] }) k b.children }) ?_ (keep_push i _ hr)
  refine keep_mapCur _ s ?_ ?_ ?_ ?_ <;> intro b
  · rfl
  · rfl
  · rfl
  unfold kidsJ
  exact kidsJ_modifyNth i (isRet_false hr).2 k b.children

theorem keep_probeLabel (stem : Name) (s : St) : Keep s (s.probeLabel stem).2 := by
  unfold St.probeLabel
  exact keep_mapFrames _ s (fun _ => rfl) (fun _ => rfl) (fun _ => rfl) (fun _ => rfl)

theorem keep_addErr (k : ErrKind) (v : Name) (l o : Nat) (s : St) : Keep s (s.addErr k v l o) :=
  ⟨rfl, fun h => ⟨h.flag, h.eq⟩⟩

theorem keep_setPanic (site : Nat) (s : St) : Keep s (s.setPanic site) := by
  unfold St.setPanic; cases s.panic <;> exact ⟨rfl, fun h => ⟨h.flag, h.eq⟩⟩

theorem keep_enter (s : St) : Keep s s.enter := by
  refine ⟨rfl, fun h => ⟨?_, ?_⟩⟩
  · intro b hb
    rw [frames_enter] at hb
    simp only [List.mem_cons] at hb
    rcases hb with rfl | hb
    · exact h.flag s.cur (cur_mem_frames s)
    · exact h.flag b hb
  · have := h.eq
    simp only [root_enter]
    rw [this]
    congr 1
    unfold liveJ St.enter St.cur
    cases s.inner with
    | nil => simp [Block.child, cntJ, countP]
    | cons b rest => simp [List.getLast?_cons_cons]

theorem keep_leave (s : St) : Keep s s.leave.2 := by
  unfold St.leave
  cases hi : s.inner with
  | nil => exact Keep.refl _
  | cons b rest =>
    cases rest with
    | nil =>
      refine ⟨rfl, fun h => ⟨?_, ?_⟩⟩
      · intro b' hb'
        simp [St.frames] at hb'
        subst hb'
        exact h.flag s.root (by simp [St.frames])
      · have := h.eq
        simp only [liveJ, hi, List.getLast?_singleton] at this
        simp only [liveJ, List.getLast?_nil, kidsJ, List.map_append, List.sum_append, List.map_cons, List.map_nil,
          List.sum_cons, List.sum_nil, Nat.add_zero]
        rw [this]; rfl
    | cons p rest' =>
      refine ⟨rfl, fun h => ⟨?_, ?_⟩⟩
      · intro b' hb'
        simp only [St.frames, List.mem_append, List.mem_cons, List.mem_singleton, List.not_mem_nil, or_false] at hb'
        rcases hb' with (rfl | hb') | rfl
        · exact h.flag p (by simp [St.frames, hi])
        · exact h.flag b' (by simp [St.frames, hi, hb'])
        · exact h.flag s.root (by simp [St.frames])
      · have := h.eq
        simp only [liveJ, hi] at this ⊢
        rw [this]
        cases rest' with
        | nil => simp [List.getLast?_cons_cons]
        | cons c r => simp [List.getLast?_cons_cons]

/-- a nested return (jump-to-return pushed, flag raised) inside some child block -/
theorem keep_jumpRet (r : ExprResult) (s : St) (hin : s.inner ≠ []) : Keep s (s.push (.jumpFnReturn r)).setReturn := by
  refine ⟨?_, fun h => ⟨?_, ?_⟩⟩
  · simp [St.setReturn, St.push, St.mapFrames, cntF_snoc, Instr.isFnReturn]
  · intro b hb
    have hroot : cntJ ((s.push (.jumpFnReturn r)).setReturn).root.context = cntJ s.root.context + 1 := by
      simp [St.setReturn, St.push, St.mapFrames, cntJ_snoc, Instr.isJumpReturn]
    rw [hroot]
    unfold St.setReturn at hb
    rw [frames_mapFrames] at hb
    simp only [List.mem_map] at hb
    obtain ⟨b0, _, rfl⟩ := hb
    simp
  · have := h.eq
    have hroot : cntJ ((s.push (.jumpFnReturn r)).setReturn).root.context = cntJ s.root.context + 1 := by
      simp [St.setReturn, St.push, St.mapFrames, cntJ_snoc, Instr.isJumpReturn]
    have hk : kidsJ ((s.push (.jumpFnReturn r)).setReturn).root = kidsJ s.root := rfl
    rw [hroot, hk, this, Nat.add_assoc]
    congr 1
    unfold liveJ St.setReturn St.push St.mapFrames
    simp only [List.map_map, List.getLast?_map]
    cases hl : s.inner.getLast? with
    | none => rw [List.getLast?_eq_none_iff] at hl; exact absurd hl hin
    | some b => simp [cntJ_snoc, Instr.isJumpReturn]

theorem keep_estep {s s' : St} (st : EStep s s') : Keep s s' := by
  cases st with
  | incReg =>
    unfold St.incReg
    exact keep_mapFrames _ s (fun _ => rfl) (fun _ => rfl) (fun _ => rfl) (fun _ => rfl)
  | emit i _ _ _ _ hr => exact keep_push i s hr
  | incEmit i hw _ _ _ =>
    refine Keep.trans ?_ (keep_push i _ (isRet_of_writes hw))
    unfold St.incReg
    exact keep_mapFrames _ s (fun _ => rfl) (fun _ => rfl) (fun _ => rfl) (fun _ => rfl)
  | addErr k v l o => exact keep_addErr k v l o s
  | declare n v i hi _ _ _ _ =>
    refine Keep.trans (Keep.trans (b := s.insertValue n v) ?_ ?_) (keep_push i _ (isRet_of_declares hi))
    · unfold St.insertValue
      exact keep_mapCur _ s (fun _ => rfl) (fun _ => rfl) (fun _ => rfl) (fun _ => rfl)
    · unfold St.registerInner
      exact keep_mapFrames _ _ (fun _ => rfl) (fun _ => rfl) (fun _ => rfl) (fun _ => rfl)

theorem keep_esteps {s s' : St} (h : ESteps s s') : Keep s s' := by
  induction h with
  | refl => exact Keep.refl _
  | tail _ st ih => exact ih.trans (keep_estep st)


/-! ### Control constructs -/

/-- invariant kept and the same nesting depth -/
def KB (s s' : St) : Prop := Keep s s' ∧ s'.inner.length = s.inner.length

theorem KB.refl (s : St) : KB s s := ⟨Keep.refl s, rfl⟩
theorem KB.trans {a b c : St} (h1 : KB a b) (h2 : KB b c) : KB a c := ⟨h1.1.trans h2.1, h2.2.trans h1.2⟩
theorem kb_esteps {s s' : St} (h : ESteps s s') : KB s s' := ⟨keep_esteps h, h.inner_len⟩
theorem kb_push (i : Instr) (s : St) (hr : i.isRet = false) : KB s (s.push i) := ⟨keep_push i s hr, (push_fields i s).2⟩
theorem kb_bsteps {s s' : St} (h : BSteps s s') : KB s s' := by
  obtain ⟨s1, h1, rfl | ⟨i, rfl, _, _, _, _, hr⟩⟩ := h
  · exact kb_esteps h1
  · exact (kb_esteps h1).trans (kb_push i s1 hr)

theorem kb_pushVia (k : Nat) (i : Instr) (s : St) (hr : i.isRet = false) : KB s (s.pushVia k i) :=
  ⟨keep_pushVia k i s hr, (pushVia_fields k i s).2⟩
theorem kb_probeLabel (stem : Name) (s : St) : KB s (s.probeLabel stem).2 := ⟨keep_probeLabel stem s, (probeLabel_fields stem s).2⟩

theorem keep_ifPrologue (g : Globals) (cond : IfCond) (dup isElse : Bool) (labelEnd : Option Name) (s : St) :
    Keep s (ifPrologue g cond dup isElse labelEnd s).2.2 ∧
    (ifPrologue g cond dup isElse labelEnd s).2.2.inner.length = s.inner.length + 1 := by
  unfold ifPrologue ifLabels
  dsimp only
  have h0 : KB s (if dup then s.addErr .ifElseDuplicated "if-condition".toList 1 0 else s) := by
    cases dup
    · exact KB.refl _
    · exact ⟨keep_addErr _ _ _ _ s, rfl⟩
  generalize (if dup then s.addErr .ifElseDuplicated "if-condition".toList 1 0 else s) = s0 at h0
  have h1 : Keep s s0.enter ∧ s0.enter.inner.length = s.inner.length + 1 :=
    ⟨h0.1.trans (keep_enter s0), by simp [St.enter, h0.2]⟩
  have up : ∀ {a b : St}, (Keep s a ∧ a.inner.length = s.inner.length + 1) → KB a b →
      (Keep s b ∧ b.inner.length = s.inner.length + 1) := fun h k => ⟨h.1.trans k.1, by rw [k.2, h.2]⟩
  have h2 := up h1 (kb_probeLabel "if_begin".toList s0.enter)
  generalize s0.enter.probeLabel "if_begin".toList = p1 at h2
  obtain ⟨lb, s2⟩ := p1
  have h3 := up h2 (kb_probeLabel "if_else".toList s2)
  generalize s2.probeLabel "if_else".toList = p2 at h3
  obtain ⟨le, s3⟩ := p2
  dsimp only at h3 ⊢
  cases labelEnd with
  | some l =>
    dsimp only
    exact up (up h3 (kb_bsteps (esteps_ifCondCalc g cond lb le l isElse s3))) (kb_push _ _ rfl)
  | none =>
    dsimp only
    have h4 := up h3 (kb_probeLabel "if_end".toList s3)
    generalize s3.probeLabel "if_end".toList = p3 at h4
    obtain ⟨ln, s4⟩ := p3
    exact up (up h4 (kb_bsteps (esteps_ifCondCalc g cond lb le ln isElse s4))) (kb_push _ _ rfl)

theorem keep_ifAfterBody (isElse r : Bool) (lElse lEnd : Name) (s : St) : Keep s (ifAfterBody isElse r lElse lEnd s).2 := by
  unfold ifAfterBody
  dsimp only
  have h0 : Keep s (if r then s else s.push (.jumpTo lEnd)) := by
    cases r
    · exact keep_push _ _ rfl
    · exact Keep.refl _
  generalize (if r then s else s.push (.jumpTo lEnd)) = s0 at h0
  have h1 : Keep s (if isElse then s0.push (.setLabel lElse) else s0) := by
    cases isElse
    · exact h0
    · exact h0.trans (keep_push _ _ rfl)
  exact h1.trans (keep_leave _)

theorem keep_ifAfterElse (k : Nat) (r : Bool) (lEnd : Name) (s : St) : Keep s (ifAfterElse k r lEnd s) := by
  unfold ifAfterElse
  dsimp only
  cases r
  · exact (keep_leave s).trans (keep_pushVia _ _ _ rfl)
  · exact keep_leave s

theorem kb_ifEpilogue (k : Nat) (labelEnd : Option Name) (lEnd : Name) (s : St) : KB s (ifEpilogue k labelEnd lEnd s) := by
  unfold ifEpilogue
  cases labelEnd
  · exact kb_pushVia _ _ _ rfl
  · exact KB.refl _

theorem keep_loopPrologue (s : St) : Keep s (loopPrologue s).2.2 := by
  unfold loopPrologue
  dsimp only
  have h1 := keep_enter s
  have h2 := h1.trans (keep_probeLabel "loop_begin".toList s.enter)
  generalize s.enter.probeLabel "loop_begin".toList = p1 at h2
  obtain ⟨lb, s2⟩ := p1
  have h3 := h2.trans (keep_probeLabel "loop_end".toList s2)
  generalize s2.probeLabel "loop_end".toList = p2 at h3
  obtain ⟨le, s3⟩ := p2
  exact (h3.trans (keep_push _ _ rfl)).trans (keep_push _ _ rfl)

theorem keep_loopEpilogue (r : Bool) (lb le : Name) (s : St) : Keep s (loopEpilogue r lb le s) := by
  unfold loopEpilogue
  dsimp only
  cases r
  · exact ((keep_push _ _ rfl).trans (keep_push _ _ rfl)).trans (keep_leave _)
  · exact keep_leave _

theorem kb_nestedReturn (g : Globals) (e : Expr) (s : St) (hin : 0 < s.inner.length) : KB s (nestedReturn g e s).1 := by
  refine ⟨?_, nestedReturn_len e s⟩
  obtain ⟨s1, h1, h | ⟨r, h⟩⟩ := esteps_nestedReturn_pre g e s
  · rw [h]; exact keep_esteps h1
  · rw [h]
    refine (keep_esteps h1).trans (keep_jumpRet r s1 ?_)
    intro hn
    have := h1.inner_len
    rw [hn] at this
    simp at this
    omega

theorem kb_loopWrap (k : Name → Name → Bool → Bool → Bool → St → St × Bool)
    (hk : ∀ lb le rc bc cc s, 0 < s.inner.length → KB s (k lb le rc bc cc s).1) (s : St) : KB s (loopWrap k s) := by
  unfold loopWrap
  dsimp only
  have h1 := keep_loopPrologue s
  have l1 := (loopPrologue_fields s).2.2
  generalize loopPrologue s = p at h1 l1
  obtain ⟨lb, le, s1⟩ := p
  dsimp only at h1 l1 ⊢
  have h2 := hk lb le false false false s1 (by omega)
  generalize k lb le false false false s1 = q at h2
  obtain ⟨s2, r⟩ := q
  dsimp only at h2 ⊢
  have hin2 : s2.inner ≠ [] := inner_ne_of_len (n := s.inner.length) (by rw [h2.2, l1])
  have l3 := (loopEpilogue_fields r lb le s2 hin2).2.2
  exact ⟨(h1.trans h2.1).trans (keep_loopEpilogue r lb le s2), by have := h2.2; omega⟩

mutual
theorem kb_ifCondition (g : Globals) : ∀ (i : IfStmt) (le : Option Name) (ll : Option (Name × Name)) (s : St),
    KB s (ifCondition g i le ll s)
  | .mk cond body els elif, labelEnd, labelLoop, s => by
    unfold ifCondition
    dsimp only
    have h1 := keep_ifPrologue g cond (els.isSome && elif.isSome) (els.isSome || elif.isSome) labelEnd s
    generalize ifPrologue g cond (els.isSome && elif.isSome) (els.isSome || elif.isSome) labelEnd s = p at h1
    obtain ⟨lElse, lEnd, s1⟩ := p
    dsimp only at h1 ⊢
    have h2 := kb_ifBodies g body lEnd labelLoop s1 (by omega)
    generalize ifBodies g body lEnd labelLoop s1 = q at h2
    obtain ⟨s2, r⟩ := q
    dsimp only at h2 ⊢
    have hin2 : s2.inner ≠ [] := inner_ne_of_len (n := s.inner.length) (by rw [h2.2, h1.2])
    have h3 : KB s (ifAfterBody (els.isSome || elif.isSome) r lElse lEnd s2).2 :=
      ⟨(h1.1.trans h2.1).trans (keep_ifAfterBody _ r lElse lEnd s2), by
        have := (ifAfterBody_fields (els.isSome || elif.isSome) r lElse lEnd s2 hin2).2.2
        have := h2.2; have := h1.2; omega⟩
    generalize ifAfterBody (els.isSome || elif.isSome) r lElse lEnd s2 = q3 at h3
    obtain ⟨k, s3⟩ := q3
    dsimp only at h3 ⊢
    refine KB.trans ?_ (kb_ifEpilogue k labelEnd lEnd _)
    cases els with
    | some eb =>
      dsimp only
      have l4 : s3.enter.inner.length = s3.inner.length + 1 := by simp [St.enter]
      have h4 := kb_ifBodies g eb lEnd labelLoop s3.enter (by omega)
      generalize ifBodies g eb lEnd labelLoop s3.enter = q4 at h4
      obtain ⟨s4, r4⟩ := q4
      dsimp only at h4 ⊢
      have hin4 : s4.inner ≠ [] := inner_ne_of_len (n := s3.inner.length) (by rw [h4.2, l4])
      exact ⟨((h3.1.trans (keep_enter s3)).trans h4.1).trans (keep_ifAfterElse k r4 lEnd s4), by
        have := (ifAfterElse_fields k r4 lEnd s4 hin4).2.2
        have := h4.2; have := h3.2; omega⟩
    | none =>
      cases elif with
      | some ei => exact h3.trans (kb_ifCondition g ei (some lEnd) labelLoop s3)
      | none => exact h3
theorem kb_ifBodies (g : Globals) : ∀ (b : IfBodies) (lEnd : Name) (ll : Option (Name × Name)) (s : St),
    0 < s.inner.length → KB s (ifBodies g b lEnd ll s).1
  | .ifb l, lEnd, ll, s, hin => by unfold ifBodies; exact kb_ifBody g l lEnd ll false s hin
  | .loopb l, lEnd, some (lb, le), s, hin => by unfold ifBodies; exact kb_ifLoopBody g l lEnd lb le false false false s hin
  | .loopb _, _, none, s, _ => by
    unfold ifBodies
    exact ⟨keep_setPanic _ s, by unfold St.setPanic; cases s.panic <;> rfl⟩
theorem kb_ifBody (g : Globals) : ∀ (l : List IfBodyStmt) (lEnd : Name) (ll : Option (Name × Name)) (rc : Bool) (s : St),
    0 < s.inner.length → KB s (ifBody g l lEnd ll rc s).1
  | [], _, _, _, s, _ => by unfold ifBody; exact KB.refl _
  | st :: tl, lEnd, ll, rc, s, hin => by
    unfold ifBody
    dsimp only
    have h0 := kb_esteps (esteps_forbidden rc false false s)
    generalize forbidden rc false false s = s0 at h0
    have next : ∀ (s1 : St) (rc' : Bool), KB s0 s1 → KB s (ifBody g tl lEnd ll rc' s1).1 := fun s1 rc' h1 =>
      (h0.trans h1).trans (kb_ifBody g tl lEnd ll rc' s1 (by have := h0.2; have := h1.2; omega))
    cases st with
    | letB b => exact next _ _ (kb_esteps (esteps_letBinding g b s0))
    | bind b => exact next _ _ (kb_esteps (esteps_binding g b s0))
    | call c => exact next _ _ (kb_esteps (esteps_callStmt g c s0))
    | ifS i => exact next _ _ (kb_ifCondition g i (some lEnd) ll s0)
    | loop b => exact next _ _ (kb_loopWrap _ (kb_loopBody g b) s0)
    | ret e =>
      dsimp only
      have h1 := kb_nestedReturn g e s0 (by have := h0.2; omega)
      generalize nestedReturn g e s0 = q at h1
      obtain ⟨s1, r⟩ := q
      exact next s1 (rc || r) h1
theorem kb_ifLoopBody (g : Globals) : ∀ (l : List IfLoopStmt) (lEnd lb le : Name) (rc bc cc : Bool) (s : St),
    0 < s.inner.length → KB s (ifLoopBody g l lEnd lb le rc bc cc s).1
  | [], _, _, _, _, _, _, s, _ => by unfold ifLoopBody; exact KB.refl _
  | st :: tl, lEnd, lb, le, rc, bc, cc, s, hin => by
    unfold ifLoopBody
    dsimp only
    have h0 := kb_esteps (esteps_forbidden rc bc cc s)
    generalize forbidden rc bc cc s = s0 at h0
    have next : ∀ (s1 : St) (rc' bc' cc' : Bool), KB s0 s1 → KB s (ifLoopBody g tl lEnd lb le rc' bc' cc' s1).1 :=
      fun s1 rc' bc' cc' h1 =>
        (h0.trans h1).trans (kb_ifLoopBody g tl lEnd lb le rc' bc' cc' s1 (by have := h0.2; have := h1.2; omega))
    cases st with
    | letB b => exact next _ _ _ _ (kb_esteps (esteps_letBinding g b s0))
    | bind b => exact next _ _ _ _ (kb_esteps (esteps_binding g b s0))
    | call c => exact next _ _ _ _ (kb_esteps (esteps_callStmt g c s0))
    | ifS i => exact next _ _ _ _ (kb_ifCondition g i (some lEnd) (some (lb, le)) s0)
    | loop b => exact next _ _ _ _ (kb_loopWrap _ (kb_loopBody g b) s0)
    | ret e =>
      dsimp only
      have h1 := kb_nestedReturn g e s0 (by have := h0.2; omega)
      generalize nestedReturn g e s0 = q at h1
      obtain ⟨s1, r⟩ := q
      exact next s1 (rc || r) bc cc h1
    | cont => exact next _ _ _ _ (kb_push _ s0 rfl)
    | brk => exact next _ _ _ _ (kb_push _ s0 rfl)
theorem kb_loopBody (g : Globals) : ∀ (l : List LoopStmt) (lb le : Name) (rc bc cc : Bool) (s : St),
    0 < s.inner.length → KB s (loopBody g l lb le rc bc cc s).1
  | [], _, _, _, _, _, s, _ => by unfold loopBody; exact KB.refl _
  | st :: tl, lb, le, rc, bc, cc, s, hin => by
    unfold loopBody
    dsimp only
    have h0 := kb_esteps (esteps_forbidden rc bc cc s)
    generalize forbidden rc bc cc s = s0 at h0
    have next : ∀ (s1 : St) (rc' bc' cc' : Bool), KB s0 s1 → KB s (loopBody g tl lb le rc' bc' cc' s1).1 :=
      fun s1 rc' bc' cc' h1 =>
        (h0.trans h1).trans (kb_loopBody g tl lb le rc' bc' cc' s1 (by have := h0.2; have := h1.2; omega))
    cases st with
    | letB b => exact next _ _ _ _ (kb_esteps (esteps_letBinding g b s0))
    | bind b => exact next _ _ _ _ (kb_esteps (esteps_binding g b s0))
    | call c => exact next _ _ _ _ (kb_esteps (esteps_callStmt g c s0))
    | ifS i => exact next _ _ _ _ (kb_ifCondition g i none (some (lb, le)) s0)
    | loop b => exact next _ _ _ _ (kb_loopWrap _ (kb_loopBody g b) s0)
    | ret e =>
      dsimp only
      have h1 := kb_nestedReturn g e s0 (by have := h0.2; omega)
      generalize nestedReturn g e s0 = q at h1
      obtain ⟨s1, r⟩ := q
      exact next s1 (rc || r) bc cc h1
    | brk => exact next _ _ _ _ (kb_push _ s0 rfl)
    | cont => exact next _ _ _ _ (kb_push _ s0 rfl)
end


/-! ### Function level -/

/-- the last instruction is a function return whose form agrees with the jump-to-returns before it -/
def formOK (ctx : List Instr) : Prop :=
  match ctx.getLast? with
  | some (.fnReturnWithLabel _) => 0 < cntJ ctx
  | some (.fnReturn _) => cntJ ctx = 0
  | _ => False

theorem nil_of_ext {α : Type} {a b : List α} (h : ∃ Δ, b = a ++ Δ) (hb : b = []) : a = [] := by
  obtain ⟨Δ, h⟩ := h; rw [hb] at h; exact (List.append_eq_nil_iff.mp h.symm).1

theorem body_cons_ext (g : Globals) (resTy : Ty) (st : BodyStmt) (tl : List BodyStmt) (rc : Bool) (s : St) :
    ∃ Δ, (bodyStmts g resTy (st :: tl) rc s).1.errors = (forbidden rc false false s).errors ++ Δ := by
  unfold bodyStmts
  dsimp only
  generalize forbidden rc false false s = s0
  cases st with
  | letB b => exact ext_of_steps ((esteps_letBinding g b s0).toSteps.trans (steps_bodyStmts g resTy tl rc _))
  | bind b => exact ext_of_steps ((esteps_binding g b s0).toSteps.trans (steps_bodyStmts g resTy tl rc _))
  | call c => exact ext_of_steps ((esteps_callStmt g c s0).toSteps.trans (steps_bodyStmts g resTy tl rc _))
  | ifS i => exact ext_of_steps ((steps_ifCondition g i none none s0).trans (steps_bodyStmts g resTy tl rc _))
  | loop b => exact ext_of_steps ((steps_loopWrap _ (steps_loopBody g b) s0).trans (steps_bodyStmts g resTy tl rc _))
  | expr e =>
    dsimp only
    have h1 := steps_fnReturn g resTy e rc s0
    generalize fnReturn g resTy e rc s0 = q at h1
    obtain ⟨s1, r⟩ := q
    exact ext_of_steps (h1.trans (steps_bodyStmts g resTy tl r s1))
  | ret e =>
    dsimp only
    have h1 := steps_fnReturn g resTy e rc s0
    generalize fnReturn g resTy e rc s0 = q at h1
    obtain ⟨s1, r⟩ := q
    exact ext_of_steps (h1.trans (steps_bodyStmts g resTy tl r s1))

/-- an error-free remainder after a return is empty -/
theorem body_after_ret (g : Globals) (resTy : Ty) (l : List BodyStmt) (s : St)
    (h : (bodyStmts g resTy l true s).1.errors = []) : l = [] := by
  cases l with
  | nil => rfl
  | cons st tl =>
    have := nil_of_ext (body_cons_ext g resTy st tl true s) h
    rw [forbidden_fn] at this
    simp [St.addErr] at this

theorem cur_of_nil {s : St} (h : s.inner.length = 0) : s.cur = s.root := by
  unfold St.cur; cases hi : s.inner with
  | nil => rfl
  | cons b r => rw [hi] at h; simp at h

structure Fin11 (s : St) : Prop where
  inv : Inv11 s
  len : s.inner.length = 0
  one : cntF s.root.context = 1
  form : formOK s.root.context

theorem body11 (g : Globals) (resTy : Ty) : ∀ (l : List BodyStmt) (rc : Bool) (s : St),
    s.inner.length = 0 → Inv11 s → cntF s.root.context = (if rc then 1 else 0) → (rc = true → formOK s.root.context) →
    (bodyStmts g resTy l rc s).1.errors = [] → (bodyStmts g resTy l rc s).2 = true →
    Fin11 (bodyStmts g resTy l rc s).1
  | [], rc, s, hlen, hinv, hone, hform, _, hrc => by
    unfold bodyStmts at hrc ⊢
    dsimp only at hrc ⊢
    subst hrc
    exact ⟨hinv, hlen, by simpa using hone, hform rfl⟩
  | st :: tl, rc, s, hlen, hinv, hone, hform, herr, hrc => by
    have hs0 := nil_of_ext (body_cons_ext g resTy st tl rc s) herr
    rw [forbidden_fn] at hs0
    have hrcf : rc = false := by
      cases rc with
      | false => rfl
      | true => simp [St.addErr] at hs0
    subst hrcf
    simp only [Bool.false_eq_true, if_false] at hs0 hone
    unfold bodyStmts at herr hrc ⊢
    dsimp only at herr hrc ⊢
    rw [forbidden_fn] at herr hrc ⊢
    simp only [Bool.false_eq_true, if_false] at herr hrc ⊢
    have next : ∀ (s1 : St), KB s s1 → (bodyStmts g resTy tl false s1).1.errors = [] →
        (bodyStmts g resTy tl false s1).2 = true → Fin11 (bodyStmts g resTy tl false s1).1 := fun s1 h1 he hr =>
      body11 g resTy tl false s1 (by rw [h1.2, hlen]) (h1.1.inv hinv) (by rw [h1.1.f, hone]; rfl) (by intro h; cases h) he hr
    cases st with
    | letB b => exact next _ (kb_esteps (esteps_letBinding g b s)) herr hrc
    | bind b => exact next _ (kb_esteps (esteps_binding g b s)) herr hrc
    | call c => exact next _ (kb_esteps (esteps_callStmt g c s)) herr hrc
    | ifS i => exact next _ (kb_ifCondition g i none none s) herr hrc
    | loop b => exact next _ (kb_loopWrap _ (kb_loopBody g b) s) herr hrc
    | expr e =>
      dsimp only at herr hrc ⊢
      obtain ⟨s2, h2, hq | ⟨r, hq⟩⟩ := fnReturn_split g resTy e false s
      · rw [hq] at herr hrc ⊢
        exact next s2 (kb_esteps h2) herr hrc
      · rw [hq] at herr hrc ⊢
        dsimp only at herr hrc ⊢
        have htl := body_after_ret g resTy tl _ herr
        subst htl
        unfold bodyStmts
        dsimp only
        have k2 := kb_esteps h2
        have i2 := k2.1.inv hinv
        have l2 : s2.inner.length = 0 := by rw [k2.2, hlen]
        have f2 : cntF s2.root.context = 0 := by rw [k2.1.f, hone]
        have hflag := i2.flag s2.root (by simp [St.frames])
        rw [cur_of_nil l2]
        cases hm : s2.root.manualReturn with
        | true =>
          rw [hm] at hflag
          simp only [if_true]
          refine ⟨inv11_push _ _ rfl i2, by rw [(push_fields _ _).2, l2], ?_, ?_⟩
          · simp [St.push, St.mapFrames, cntF_snoc, f2, Instr.isFnReturn]
          · simp only [St.push, St.mapFrames, formOK, List.getLast?_append, List.getLast?_singleton, Option.some_or,
              cntJ_snoc, Instr.isJumpReturn]
            simpa using hflag.symm
        | false =>
          rw [hm] at hflag
          simp only [Bool.false_eq_true, if_false]
          refine ⟨inv11_push _ _ rfl i2, by rw [(push_fields _ _).2, l2], ?_, ?_⟩
          · simp [St.push, St.mapFrames, cntF_snoc, f2, Instr.isFnReturn]
          · simp only [St.push, St.mapFrames, formOK, List.getLast?_append, List.getLast?_singleton, Option.some_or,
              cntJ_snoc, Instr.isJumpReturn]
            simpa using hflag.symm
    | ret e =>
      dsimp only at herr hrc ⊢
      obtain ⟨s2, h2, hq | ⟨r, hq⟩⟩ := fnReturn_split g resTy e false s
      · rw [hq] at herr hrc ⊢
        exact next s2 (kb_esteps h2) herr hrc
      · rw [hq] at herr hrc ⊢
        dsimp only at herr hrc ⊢
        have htl := body_after_ret g resTy tl _ herr
        subst htl
        unfold bodyStmts
        dsimp only
        have k2 := kb_esteps h2
        have i2 := k2.1.inv hinv
        have l2 : s2.inner.length = 0 := by rw [k2.2, hlen]
        have f2 : cntF s2.root.context = 0 := by rw [k2.1.f, hone]
        have hflag := i2.flag s2.root (by simp [St.frames])
        rw [cur_of_nil l2]
        cases hm : s2.root.manualReturn with
        | true =>
          rw [hm] at hflag
          simp only [if_true]
          refine ⟨inv11_push _ _ rfl i2, by rw [(push_fields _ _).2, l2], ?_, ?_⟩
          · simp [St.push, St.mapFrames, cntF_snoc, f2, Instr.isFnReturn]
          · simp only [St.push, St.mapFrames, formOK, List.getLast?_append, List.getLast?_singleton, Option.some_or,
              cntJ_snoc, Instr.isJumpReturn]
            simpa using hflag.symm
        | false =>
          rw [hm] at hflag
          simp only [Bool.false_eq_true, if_false]
          refine ⟨inv11_push _ _ rfl i2, by rw [(push_fields _ _).2, l2], ?_, ?_⟩
          · simp [St.push, St.mapFrames, cntF_snoc, f2, Instr.isFnReturn]
          · simp only [St.push, St.mapFrames, formOK, List.getLast?_append, List.getLast?_singleton, Option.some_or,
              cntJ_snoc, Instr.isJumpReturn]
            simpa using hflag.symm


theorem any_eq_countP (p : Instr → Bool) (l : List Instr) : l.any p = decide (0 < countP p l) := by
  unfold countP
  induction l with
  | nil => rfl
  | cons x xs ih =>
    simp only [List.any_cons, List.filter_cons]
    cases hx : p x
    · simpa using ih
    · simp

theorem fin11_functionBody (g : Globals) (f : FnDecl) (h : (functionBody g f).errors = []) :
    Fin11 (functionBody g f) := by
  unfold functionBody at h ⊢
  dsimp only at h ⊢
  have k0 := kb_esteps (esteps_initParams f.params St.init paramInv_init)
  generalize initParams f.params St.init = s0 at k0 h ⊢
  have hb := body11 g f.result.toTy f.body false s0 (by rw [k0.2]; rfl) (k0.1.inv inv11_init)
    (by rw [k0.1.f]; rfl) (by intro h; cases h)
  generalize bodyStmts g f.result.toTy f.body false s0 = q at hb h ⊢
  obtain ⟨s1, rc⟩ := q
  cases rc with
  | true => exact hb h rfl
  | false => simp [St.addErr] at h

/-- **C11 for one function**: an analysis of a function body that reports no error leaves a root stack that ends with
exactly one function return, of the form selected by the jump-to-returns before it, and every jump-to-return of the
root stack belongs to a nested block -/
theorem C11_function (g : Globals) (f : FnDecl) (i : Nat) (h : (functionBody g f).errors = []) :
    P_C11_block (functionBody g f).root i = [] := by
  obtain ⟨inv, len, one, form⟩ := fin11_functionBody g f h
  generalize functionBody g f = s at inv len one form
  have hj := inv.eq
  have hl : liveJ s = 0 := by
    unfold liveJ
    cases hi : s.inner with
    | nil => rfl
    | cons b r => rw [hi] at len; simp at len
  rw [hl, Nat.add_zero] at hj
  unfold P_C11_block
  dsimp only
  unfold formOK at form
  unfold cntF at one
  unfold cntJ kidsJ at hj
  unfold cntJ at form
  rw [any_eq_countP]
  cases hg : s.root.context.getLast? with
  | none => rw [hg] at form; exact absurd form id
  | some x =>
    rw [hg] at form
    cases x <;> first
      | exact absurd form id
      | (simp only at form
         rw [hj] at form
         simp only [Instr.isFnReturn, if_true, List.nil_append, one, hj, beq_self_eq_true]
         simp
         omega)

/-- **C11** — in every accepted program every function's stack ends in exactly one function return of the right form -/
theorem C11 (p : Program) : P_C11g p (run p) = [] := by
  unfold P_C11g acceptedWF Result.accepted
  cases hp : (run p).panic.isNone && (run p).errors.isEmpty && WellFormedB p with
  | false => rfl
  | true =>
    simp only [Bool.and_eq_true, List.isEmpty_iff] at hp
    simp only [if_true]
    have he := hp.1.2
    unfold run at he ⊢
    dsimp only at he ⊢
    unfold P_C11
    dsimp only
    rw [List.flatMap_eq_nil_iff]
    intro x hx
    obtain ⟨b, i⟩ := x
    have hm := List.fst_mem_of_mem_zipIdx hx
    simp only [List.mem_map] at hm
    obtain ⟨s, hs, rfl⟩ := hm
    obtain ⟨f, hf, rfl⟩ := hs
    have hall := (List.append_eq_nil_iff.mp he).2
    rw [List.flatten_eq_nil_iff] at hall
    exact C11_function _ f i (hall _ (by simp only [List.mem_map]; exact ⟨_, ⟨f, hf, rfl⟩, rfl⟩))

end SemVerif
