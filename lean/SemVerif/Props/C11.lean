import SemVerif.Spec.Preds
import SemVerif.Inventory
/-! # Property C11 — theorems (under construction) -/
namespace SemVerif
end SemVerif
