import SemVerif.Spec.Preds
import SemVerif.Inventory
import SemVerif.Lemmas.StmtSteps
import SemVerif.Lemmas.Misc
/-!
# Property C13 — analysis is total

* Termination: every function of the model (`SemVerif/Analyzer.lean`) is accepted by Lean as a
  total function by *structural* recursion over the AST (no `partial`, no well-founded recursion;
  the two probe loops take fuel `|registry|+1`, shown sufficient in `Lemmas/Names.lean`).
* `C13`: for every program whose loop-flavoured if-bodies occur only inside loops, the run does not
  panic.  Nothing below statement level can panic (`ESteps.panic_eq`: the argument-index site is
  unreachable because the argument count is checked first); the only panic site of the domain is the
  documented `expect` on the loop labels.
* The translator's panic-site inventory (`inv_panicSites`) pins the `unwrap` / `expect` / index /
  counter `+1` sites of the Rust source to the ones the model accounts for.
What the model cannot exhibit: `RefCell` double borrows, integer overflow, native stack exhaustion —
covered only by running the real code under `catch_unwind` in the correspondence run.
-/
namespace SemVerif

theorem panic_probeLabel (stem : Name) (s : St) : (s.probeLabel stem).2.panic = s.panic := rfl

theorem panic_ifPrologue (g : Globals) (cond : IfCond) (dup isElse : Bool) (le : Option Name) (s : St) :
    (ifPrologue g cond dup isElse le s).2.2.panic = s.panic := by
  unfold ifPrologue ifLabels
  dsimp only
  have h0 : (if dup then s.addErr .ifElseDuplicated "if-condition".toList 1 0 else s).panic = s.panic := by
    cases dup <;> rfl
  generalize (if dup then s.addErr .ifElseDuplicated "if-condition".toList 1 0 else s) = s0 at h0
  cases le with
  | some l =>
    dsimp only
    show (ifCondCalc g cond _ _ l isElse _).panic = _
    rw [(esteps_ifCondCalc g cond _ _ l isElse _).panic_eq]; exact h0
  | none =>
    dsimp only
    show (ifCondCalc g cond _ _ _ isElse _).panic = _
    rw [(esteps_ifCondCalc g cond _ _ _ isElse _).panic_eq]; exact h0

theorem panic_leave (s : St) : s.leave.2.panic = s.panic := by
  unfold St.leave
  cases s.inner with
  | nil => rfl
  | cons b rest => cases rest <;> rfl

theorem panic_pushVia (k : Nat) (i : Instr) (s : St) : (s.pushVia k i).panic = s.panic := by
  unfold St.pushVia St.push St.mapFrames St.mapCur
  cases s.inner <;> rfl

theorem panic_ifAfterBody (isElse r : Bool) (lElse lEnd : Name) (s : St) :
    (ifAfterBody isElse r lElse lEnd s).2.panic = s.panic := by
  unfold ifAfterBody
  dsimp only
  rw [panic_leave]
  cases r <;> cases isElse <;> rfl

theorem panic_ifAfterElse (k : Nat) (r : Bool) (lEnd : Name) (s : St) :
    (ifAfterElse k r lEnd s).panic = s.panic := by
  unfold ifAfterElse
  dsimp only
  cases r
  · simp only [Bool.false_eq_true, if_false]; rw [panic_pushVia, panic_leave]
  · simp only [if_true]; rw [panic_leave]

theorem panic_ifEpilogue (k : Nat) (le : Option Name) (lEnd : Name) (s : St) :
    (ifEpilogue k le lEnd s).panic = s.panic := by
  unfold ifEpilogue
  cases le
  · simp only [Option.isSome_none, Bool.false_eq_true, if_false]; rw [panic_pushVia]
  · rfl

theorem panic_loopPrologue (s : St) : (loopPrologue s).2.2.panic = s.panic := rfl

theorem panic_loopEpilogue (r : Bool) (lb le : Name) (s : St) : (loopEpilogue r lb le s).panic = s.panic := by
  unfold loopEpilogue
  dsimp only
  rw [panic_leave]
  cases r <;> rfl

theorem panic_nestedReturn (g : Globals) (e : Expr) (s : St) : (nestedReturn g e s).1.panic = s.panic := by
  obtain ⟨s1, h1, h | ⟨r, h⟩⟩ := esteps_nestedReturn_pre g e s
  · rw [h]; exact h1.panic_eq
  · rw [h]; exact h1.panic_eq

theorem np_loopWrap (k : Name → Name → Bool → Bool → Bool → St → St × Bool)
    (hk : ∀ lb le rc bc cc s, s.panic = none → (k lb le rc bc cc s).1.panic = none) (s : St) (hs : s.panic = none) :
    (loopWrap k s).panic = none := by
  unfold loopWrap
  dsimp only
  rw [panic_loopEpilogue]
  exact hk _ _ _ _ _ _ (by rw [panic_loopPrologue]; exact hs)

mutual
theorem np_ifCondition (g : Globals) : ∀ (i : IfStmt) (le : Option Name) (ll : Option (Name × Name)) (s : St),
    IfStmt.loopOK ll.isSome i = true → s.panic = none → (ifCondition g i le ll s).panic = none
  | .mk cond body els elif, le, ll, s => by
    intro hok hs
    unfold IfStmt.loopOK at hok
    simp only [Bool.and_eq_true] at hok
    obtain ⟨⟨hb, he⟩, hei⟩ := hok
    unfold ifCondition
    dsimp only
    rw [panic_ifEpilogue]
    have h1 : (ifPrologue g cond (els.isSome && elif.isSome) (els.isSome || elif.isSome) le s).2.2.panic = none := by
      rw [panic_ifPrologue]; exact hs
    generalize ifPrologue g cond (els.isSome && elif.isSome) (els.isSome || elif.isSome) le s = p at h1
    obtain ⟨lElse, lEnd, s1⟩ := p
    dsimp only at h1 ⊢
    have h2 := np_ifBodies g body lEnd ll s1 hb h1
    generalize ifBodies g body lEnd ll s1 = q at h2
    obtain ⟨s2, r⟩ := q
    dsimp only at h2 ⊢
    have h3 : (ifAfterBody (els.isSome || elif.isSome) r lElse lEnd s2).2.panic = none := by
      rw [panic_ifAfterBody]; exact h2
    generalize ifAfterBody (els.isSome || elif.isSome) r lElse lEnd s2 = q3 at h3
    obtain ⟨k, s3⟩ := q3
    dsimp only at h3 ⊢
    cases els with
    | some eb =>
      dsimp only
      rw [panic_ifAfterElse]
      exact np_ifBodies g eb lEnd ll s3.enter he h3
    | none =>
      cases elif with
      | some ei => exact np_ifCondition g ei (some lEnd) ll s3 hei h3
      | none => exact h3
theorem np_ifBodies (g : Globals) : ∀ (b : IfBodies) (lEnd : Name) (ll : Option (Name × Name)) (s : St),
    IfBodies.loopOK ll.isSome b = true → s.panic = none → (ifBodies g b lEnd ll s).1.panic = none
  | .ifb l, lEnd, ll, s => by
    intro hok hs; unfold IfBodies.loopOK at hok; unfold ifBodies
    exact np_ifBody g l lEnd ll false s hok hs
  | .loopb l, lEnd, some (lb, le), s => by
    intro hok hs; unfold IfBodies.loopOK at hok; simp at hok; unfold ifBodies
    exact np_ifLoopBody g l lEnd lb le false false false s hok hs
  | .loopb _, _, none, s => by
    intro hok _; unfold IfBodies.loopOK at hok; simp at hok
theorem np_ifBody (g : Globals) : ∀ (l : List IfBodyStmt) (lEnd : Name) (ll : Option (Name × Name)) (rc : Bool) (s : St),
    IfBodyStmt.loopOKL ll.isSome l = true → s.panic = none → (ifBody g l lEnd ll rc s).1.panic = none
  | [], _, _, _, s => by intro _ hs; unfold ifBody; exact hs
  | st :: tl, lEnd, ll, rc, s => by
    intro hok hs
    unfold ifBody
    dsimp only
    have h0 : (forbidden rc false false s).panic = none := by rw [(esteps_forbidden rc false false s).panic_eq]; exact hs
    generalize forbidden rc false false s = s0 at h0
    cases st with
    | letB b =>
      unfold IfBodyStmt.loopOKL at hok
      exact np_ifBody g tl lEnd ll rc _ hok (by rw [(esteps_letBinding g b s0).panic_eq]; exact h0)
    | bind b =>
      unfold IfBodyStmt.loopOKL at hok
      exact np_ifBody g tl lEnd ll rc _ hok (by rw [(esteps_binding g b s0).panic_eq]; exact h0)
    | call c =>
      unfold IfBodyStmt.loopOKL at hok
      exact np_ifBody g tl lEnd ll rc _ hok (by rw [(esteps_callStmt g c s0).panic_eq]; exact h0)
    | ifS i =>
      unfold IfBodyStmt.loopOKL at hok
      simp only [Bool.and_eq_true] at hok
      exact np_ifBody g tl lEnd ll rc _ hok.2 (np_ifCondition g i (some lEnd) ll s0 hok.1 h0)
    | loop b =>
      unfold IfBodyStmt.loopOKL at hok
      simp only [Bool.and_eq_true] at hok
      exact np_ifBody g tl lEnd ll rc _ hok.2 (np_loopWrap _ (fun lb le rc bc cc s hs => np_loopBody g b lb le rc bc cc s hok.1 hs) s0 h0)
    | ret e =>
      unfold IfBodyStmt.loopOKL at hok
      dsimp only
      have h1 : (nestedReturn g e s0).1.panic = none := by rw [panic_nestedReturn]; exact h0
      generalize nestedReturn g e s0 = q at h1
      obtain ⟨s1, r⟩ := q
      exact np_ifBody g tl lEnd ll (rc || r) s1 hok h1
theorem np_ifLoopBody (g : Globals) : ∀ (l : List IfLoopStmt) (lEnd lb le : Name) (rc bc cc : Bool) (s : St),
    IfLoopStmt.loopOKL l = true → s.panic = none → (ifLoopBody g l lEnd lb le rc bc cc s).1.panic = none
  | [], _, _, _, _, _, _, s => by intro _ hs; unfold ifLoopBody; exact hs
  | st :: tl, lEnd, lb, le, rc, bc, cc, s => by
    intro hok hs
    unfold ifLoopBody
    dsimp only
    have h0 : (forbidden rc bc cc s).panic = none := by rw [(esteps_forbidden rc bc cc s).panic_eq]; exact hs
    generalize forbidden rc bc cc s = s0 at h0
    cases st with
    | letB b =>
      unfold IfLoopStmt.loopOKL at hok
      exact np_ifLoopBody g tl lEnd lb le rc bc cc _ hok (by rw [(esteps_letBinding g b s0).panic_eq]; exact h0)
    | bind b =>
      unfold IfLoopStmt.loopOKL at hok
      exact np_ifLoopBody g tl lEnd lb le rc bc cc _ hok (by rw [(esteps_binding g b s0).panic_eq]; exact h0)
    | call c =>
      unfold IfLoopStmt.loopOKL at hok
      exact np_ifLoopBody g tl lEnd lb le rc bc cc _ hok (by rw [(esteps_callStmt g c s0).panic_eq]; exact h0)
    | ifS i =>
      unfold IfLoopStmt.loopOKL at hok
      simp only [Bool.and_eq_true] at hok
      exact np_ifLoopBody g tl lEnd lb le rc bc cc _ hok.2 (np_ifCondition g i (some lEnd) (some (lb, le)) s0 hok.1 h0)
    | loop b =>
      unfold IfLoopStmt.loopOKL at hok
      simp only [Bool.and_eq_true] at hok
      exact np_ifLoopBody g tl lEnd lb le rc bc cc _ hok.2 (np_loopWrap _ (fun lb le rc bc cc s hs => np_loopBody g b lb le rc bc cc s hok.1 hs) s0 h0)
    | ret e =>
      unfold IfLoopStmt.loopOKL at hok
      dsimp only
      have h1 : (nestedReturn g e s0).1.panic = none := by rw [panic_nestedReturn]; exact h0
      generalize nestedReturn g e s0 = q at h1
      obtain ⟨s1, r⟩ := q
      exact np_ifLoopBody g tl lEnd lb le (rc || r) bc cc s1 hok h1
    | cont =>
      unfold IfLoopStmt.loopOKL at hok
      exact np_ifLoopBody g tl lEnd lb le rc bc true _ hok h0
    | brk =>
      unfold IfLoopStmt.loopOKL at hok
      exact np_ifLoopBody g tl lEnd lb le rc true cc _ hok h0
theorem np_loopBody (g : Globals) : ∀ (l : List LoopStmt) (lb le : Name) (rc bc cc : Bool) (s : St),
    LoopStmt.loopOKL l = true → s.panic = none → (loopBody g l lb le rc bc cc s).1.panic = none
  | [], _, _, _, _, _, s => by intro _ hs; unfold loopBody; exact hs
  | st :: tl, lb, le, rc, bc, cc, s => by
    intro hok hs
    unfold loopBody
    dsimp only
    have h0 : (forbidden rc bc cc s).panic = none := by rw [(esteps_forbidden rc bc cc s).panic_eq]; exact hs
    generalize forbidden rc bc cc s = s0 at h0
    cases st with
    | letB b =>
      unfold LoopStmt.loopOKL at hok
      exact np_loopBody g tl lb le rc bc cc _ hok (by rw [(esteps_letBinding g b s0).panic_eq]; exact h0)
    | bind b =>
      unfold LoopStmt.loopOKL at hok
      exact np_loopBody g tl lb le rc bc cc _ hok (by rw [(esteps_binding g b s0).panic_eq]; exact h0)
    | call c =>
      unfold LoopStmt.loopOKL at hok
      exact np_loopBody g tl lb le rc bc cc _ hok (by rw [(esteps_callStmt g c s0).panic_eq]; exact h0)
    | ifS i =>
      unfold LoopStmt.loopOKL at hok
      simp only [Bool.and_eq_true] at hok
      exact np_loopBody g tl lb le rc bc cc _ hok.2 (np_ifCondition g i none (some (lb, le)) s0 hok.1 h0)
    | loop b =>
      unfold LoopStmt.loopOKL at hok
      simp only [Bool.and_eq_true] at hok
      exact np_loopBody g tl lb le rc bc cc _ hok.2 (np_loopWrap _ (fun lb le rc bc cc s hs => np_loopBody g b lb le rc bc cc s hok.1 hs) s0 h0)
    | ret e =>
      unfold LoopStmt.loopOKL at hok
      dsimp only
      have h1 : (nestedReturn g e s0).1.panic = none := by rw [panic_nestedReturn]; exact h0
      generalize nestedReturn g e s0 = q at h1
      obtain ⟨s1, r⟩ := q
      exact np_loopBody g tl lb le (rc || r) bc cc s1 hok h1
    | brk =>
      unfold LoopStmt.loopOKL at hok
      exact np_loopBody g tl lb le rc true cc _ hok h0
    | cont =>
      unfold LoopStmt.loopOKL at hok
      exact np_loopBody g tl lb le rc bc true _ hok h0
end

theorem push_panic (i : Instr) (s : St) : (s.push i).panic = s.panic := by
  unfold St.push St.mapFrames; rfl

theorem fnReturn_panic (g : Globals) (resTy : Ty) (e : Expr) (rc : Bool) (s : St) :
    (fnReturn g resTy e rc s).1.panic = s.panic := by
  obtain ⟨s2, h, hq | ⟨r, hq⟩⟩ := fnReturn_split g resTy e rc s
  · rw [hq]; exact h.panic_eq
  · rw [hq]; dsimp only; split <;> (rw [push_panic]; exact h.panic_eq)

theorem np_bodyStmts (g : Globals) (resTy : Ty) : ∀ (l : List BodyStmt) (rc : Bool) (s : St),
    BodyStmt.loopOKL l = true → s.panic = none → (bodyStmts g resTy l rc s).1.panic = none
  | [], _, s => by intro _ hs; unfold bodyStmts; exact hs
  | st :: tl, rc, s => by
    intro hok hs
    unfold bodyStmts
    dsimp only
    have h0 : (forbidden rc false false s).panic = none := by rw [(esteps_forbidden rc false false s).panic_eq]; exact hs
    generalize forbidden rc false false s = s0 at h0
    cases st with
    | letB b =>
      unfold BodyStmt.loopOKL at hok
      exact np_bodyStmts g resTy tl rc _ hok (by rw [(esteps_letBinding g b s0).panic_eq]; exact h0)
    | bind b =>
      unfold BodyStmt.loopOKL at hok
      exact np_bodyStmts g resTy tl rc _ hok (by rw [(esteps_binding g b s0).panic_eq]; exact h0)
    | call c =>
      unfold BodyStmt.loopOKL at hok
      exact np_bodyStmts g resTy tl rc _ hok (by rw [(esteps_callStmt g c s0).panic_eq]; exact h0)
    | ifS i =>
      unfold BodyStmt.loopOKL at hok
      simp only [Bool.and_eq_true] at hok
      exact np_bodyStmts g resTy tl rc _ hok.2 (np_ifCondition g i none none s0 hok.1 h0)
    | loop b =>
      unfold BodyStmt.loopOKL at hok
      simp only [Bool.and_eq_true] at hok
      exact np_bodyStmts g resTy tl rc _ hok.2 (np_loopWrap _ (fun lb le rc bc cc s hs => np_loopBody g b lb le rc bc cc s hok.1 hs) s0 h0)
    | expr e =>
      unfold BodyStmt.loopOKL at hok
      dsimp only
      have h1 : (fnReturn g resTy e rc s0).1.panic = none := by rw [fnReturn_panic]; exact h0
      generalize fnReturn g resTy e rc s0 = q at h1
      obtain ⟨s1, r⟩ := q
      exact np_bodyStmts g resTy tl r s1 hok h1
    | ret e =>
      unfold BodyStmt.loopOKL at hok
      dsimp only
      have h1 : (fnReturn g resTy e rc s0).1.panic = none := by rw [fnReturn_panic]; exact h0
      generalize fnReturn g resTy e rc s0 = q at h1
      obtain ⟨s1, r⟩ := q
      exact np_bodyStmts g resTy tl r s1 hok h1

/-- one function: no panic when its loop-flavoured if-bodies are inside loops -/
theorem C13_function (g : Globals) (f : FnDecl) (hok : BodyStmt.loopOKL f.body = true) :
    (functionBody g f).panic = none := by
  unfold functionBody
  dsimp only
  have h1 : (initParams f.params St.init).panic = none := by
    rw [(esteps_initParams f.params St.init paramInv_init).panic_eq]; rfl
  have h2 := np_bodyStmts g f.result.toTy f.body false _ hok h1
  generalize bodyStmts g f.result.toTy f.body false (initParams f.params St.init) = q at h2
  obtain ⟨s2, rc⟩ := q
  cases rc <;> exact h2

theorem firstPanic_none : ∀ (l : List St), (∀ s ∈ l, s.panic = none) → firstPanic l = none
  | [], _ => rfl
  | s :: rest, h => by
    unfold firstPanic
    rw [h s (by simp)]
    exact firstPanic_none rest (fun x hx => h x (by simp [hx]))

/-- **C13** — inside the documented domain the analysis returns normally -/
theorem C13 (p : Program) : P_C13 p (run p) = [] := by
  unfold P_C13
  cases hok : LoopOKB p with
  | false => simp
  | true =>
    have : (run p).panic = none := by
      unfold run
      dsimp only
      apply firstPanic_none
      intro s hs
      simp only [List.mem_map] at hs
      obtain ⟨f, hf, rfl⟩ := hs
      apply C13_function
      unfold LoopOKB at hok
      rw [List.all_eq_true] at hok
      exact hok f (by rw [← fns_eq_fnDecls]; exact hf)
    simp [this]

end SemVerif
