import SemVerif.Spec.Preds
import SemVerif.Inventory
/-! # Property C13 — theorems (under construction) -/
namespace SemVerif
end SemVerif
