import SemVerif.Props.C06
import SemVerif.Props.C18
import SemVerif.Lemmas.SpecShape
/-!
# Property C18, value tables

`C18_values`: in every accepted program, every block of every function's block tree — the root and
every if-, else-, else-if- and loop-body block, at any depth — has a value table that holds exactly
the names declared directly in that block (parameters in the root), each bound to the record of its
latest declaration: the table equals what inserting the block's direct declarations (the
declarations of its stack that are in no child's stack), in order, under the source names of the
block's `let`s (and parameters) yields.

Proof: the T2 induction carries `FramesOk` (Lemmas/ValInv.lean) — for the live blocks and, at the
moment a block is left, for the finished block, with the names the source denotation has declared in
the corresponding open block; `spec_sourceShape` (Lemmas/SpecShape.lean) says that the denotation
closes exactly the nesting and names of `FnDecl.sourceShape`.
-/
namespace SemVerif

theorem C18_values_function {g : Globals} {rg : RGlobals} (hg : GlobRel g rg) (hn : GNames g) (f : FnDecl)
    (hok : BodyStmt.anaOKL f.body = true) (he : (functionBody g f).errors = []) :
    valuesOk f.sourceShape (functionBody g f).root = true := by
  obtain ⟨_, _, _, hv⟩ := T2_function hg hn f hok he
  obtain ⟨fr, hd, hnames, hk⟩ := spec_sourceShape rg f
  rw [hd, hk] at hv
  -- one open block on the specification side, hence one live block: the root
  unfold St.dts St.frames at hv
  cases hi : (functionBody g f).inner with
  | cons b rest =>
    rw [hi] at hv
    simp only [List.cons_append, List.map_cons] at hv
    obtain ⟨_, _, _, _, h1, _, _, _, hrest⟩ := hv.inv_cons
    injection h1 with _ h1
    subst h1
    cases hr : (rest ++ [(functionBody g f).root]).map Block.dt with
    | nil => simp at hr
    | cons t ts => rw [hr] at hrest; obtain ⟨_, _, _, _, h2, _⟩ := hrest.inv_cons; cases h2
  | nil =>
    rw [hi] at hv
    simp only [List.nil_append, List.map_cons, List.map_nil] at hv
    obtain ⟨fr', frs, k, ks, h1, h2, hf, _, _⟩ := hv.inv_cons
    injection h1 with h1 _
    injection h2 with h2 _
    subst h1; subst h2
    unfold valuesOk FnDecl.sourceShape
    rw [← hnames]
    exact valuesOkD_of_frame hf

/-- **C18 (value tables)** — accepted programs -/
theorem C18_values (p : Program) (hnp : (run p).panic = none) (hacc : (run p).errors = []) :
    P_C18_values p (run p) = [] := by
  have hrel := rel_run p
  have hg := globRel_of_rel hrel
  have hn := gnames_of_rel hrel
  have hok := anaOK_of_no_panic p hnp
  unfold P_C18_values
  rw [List.flatMap_eq_nil_iff]
  intro x hx
  obtain ⟨⟨f, b⟩, i⟩ := x
  have hm : (f, b) ∈ p.fns.zip (run p).roots := List.fst_mem_of_mem_zipIdx hx
  unfold run at hacc hm
  dsimp only at hacc hm
  rw [List.append_eq_nil_iff] at hacc
  have hfl := flatten_eq_nil_mem hacc.2
  have hf : f ∈ p.fns := (List.of_mem_zip hm).1
  have hb : b = (functionBody (pass2 p (pass1 p GState.init)).globals f).root := by
    clear hfl hacc hf
    generalize p.fns = l at hm
    induction l with
    | nil => simp at hm
    | cons x xs ih =>
      simp only [List.map_cons, List.zip_cons_cons, List.mem_cons, Prod.mk.injEq] at hm
      rcases hm with ⟨rfl, rfl⟩ | h
      · rfl
      · exact ih h
  subst hb
  unfold AnaOKB at hok
  rw [List.all_eq_true] at hok
  have he : (functionBody (pass2 p (pass1 p GState.init)).globals f).errors = [] := by
    apply hfl
    rw [List.mem_map]
    exact ⟨functionBody (pass2 p (pass1 p GState.init)).globals f, by rw [List.mem_map]; exact ⟨f, hf, rfl⟩, rfl⟩
  dsimp only
  rw [C18_values_function hg hn f (hok f (by rw [← fns_eq_fnDecls]; exact hf)) he]
  rfl

/-- the form the check evaluates: the value-table clause under its guard -/
theorem C18_values_guarded (p : Program) : (if acceptedWF p (run p) then P_C18_values p (run p) else []) = [] := by
  split
  · rename_i h
    unfold acceptedWF at h
    simp only [Bool.and_eq_true] at h
    obtain ⟨hnp, he⟩ := (accepted_iff _).mp h.1
    exact C18_values p hnp he
  · rfl

/-- non-vacuity: `exampleT2` is accepted, has a nested block that declares a value, and the clause
is not trivially true — a table with a stale entry is rejected -/
example : (run exampleT2).accepted = true ∧
    exampleT2.fnDecls.map FnDecl.sourceShape =
      [.node [['x'], ['x']] [.node [['y']] []], .node [['a']] []] := by
  refine ⟨by decide +kernel, ?_⟩
  rfl

example : tabOk [['x']] [(['x'], ⟨['x', '.', '0'], .prim .u8, false, false, false⟩), (['z'], ⟨['z', '.', '0'], .prim .u8, false, false, false⟩)]
    [⟨['x', '.', '0'], .prim .u8, false, false, false⟩] = false := by
  decide +kernel

end SemVerif
