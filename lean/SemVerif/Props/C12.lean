import SemVerif.Spec.Preds
import SemVerif.Inventory
/-! # Property C12 — theorems (under construction) -/
namespace SemVerif
end SemVerif
