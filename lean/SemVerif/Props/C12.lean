import SemVerif.Spec.Preds
import SemVerif.Inventory
import SemVerif.Lemmas.StmtSteps
import SemVerif.Lemmas.Frames
/-!
# Property C12 — internal value names are unique per function and stable at every use

For every program and every function: the internal names introduced by `FunctionArg` and
`LetBinding` instructions of the function's stack are pairwise distinct, and every read, field
read and assignment carries a value record that an earlier declaration of the same stack
introduced.  Invariant: all live blocks hold the same registry of internal names, it contains
every declared name, a new declaration takes a name outside it (probe lemma), and every value in
a live block's table was introduced by a declaration of the root stack.
-/
namespace SemVerif

theorem declValues_snoc12 (l : List Instr) (i : Instr) :
    declValues (l ++ [i]) = declValues l ++ (match i.declares with | some v => [v] | none => []) := by
  unfold declValues
  rw [List.filterMap_append]
  cases h : i.declares <;> simp [List.filterMap, h]

theorem badUses_append (l : List Instr) (i : Instr) : ∀ (d : List Value) (p : Nat),
    badUses (l ++ [i]) d p = badUses l d p ++
      (match i.usesValue with
       | some v => if ((declValues l).reverse ++ d).contains v then [] else [p + l.length]
       | none => []) := by
  induction l with
  | nil =>
    intro d p
    simp [badUses, declValues]
    cases i.usesValue <;> simp
  | cons x xs ih =>
    intro d p
    simp only [List.cons_append, badUses]
    rw [ih]
    have hd : (declValues (x :: xs)).reverse ++ d =
        (declValues xs).reverse ++ (match x.declares with | some v => v :: d | none => d) := by
      unfold declValues
      cases hx : x.declares <;> simp [List.filterMap, hx]
    rw [hd]
    simp only [List.append_assoc, List.length_cons]
    congr 2
    cases i.usesValue with
    | none => rfl
    | some v => simp only; congr 2; omega

structure NameInv (s : St) : Prop where
  sync : ∀ b ∈ s.inner, b.innerNames = s.root.innerNames
  reg : ∀ v ∈ declValues s.root.context, v.innerName ∈ s.root.innerNames
  nodup : (declNames s.root.context).Nodup
  vis : ∀ b ∈ s.frames, ∀ x ∈ b.values, x.2 ∈ declValues s.root.context
  uses : badUses s.root.context [] 0 = []

theorem nameInv_init : NameInv St.init := by
  refine ⟨by simp [St.init], ?_, ?_, ?_, ?_⟩ <;> simp [St.init, Block.fresh, declValues, declNames, badUses, St.frames]

/-- pushing an instruction that declares nothing and uses only visible values -/
theorem nameInv_push {s : St} (h : NameInv s) (i : Instr) (hd : i.declares = none)
    (hu : ∀ v, i.usesValue = some v → ∃ n, s.lookupValue n = some v) : NameInv (s.push i) := by
  have hctx : (s.push i).root.context = s.root.context ++ [i] := rfl
  have hdv : declValues (s.push i).root.context = declValues s.root.context := by
    rw [hctx, declValues_snoc12, hd]; simp
  refine ⟨?_, ?_, ?_, ?_, ?_⟩
  · intro b hb
    simp [St.push, St.mapFrames] at hb ⊢
    obtain ⟨b', hb', rfl⟩ := hb
    exact h.sync b' hb'
  · rw [hdv]; exact h.reg
  · unfold declNames; rw [hdv]; exact h.nodup
  · intro b hb x hx
    rw [hdv]
    unfold St.push at hb
    rw [frames_mapFrames] at hb
    simp at hb
    obtain ⟨b', hb', rfl⟩ := hb
    exact h.vis b' hb' x hx
  · rw [hctx, badUses_append, h.uses]
    cases hv : i.usesValue with
    | none => rfl
    | some v =>
      obtain ⟨n, hn⟩ := hu v hv
      obtain ⟨b, hb, hm⟩ := lookupValue_mem s n v hn
      have := h.vis b hb (n, v) hm
      simp [this]

theorem nameInv_fields {s s' : St}
    (hroot : s'.root.context = s.root.context ∧ s'.root.innerNames = s.root.innerNames)
    (hinner : ∀ b ∈ s'.inner, ∃ b' ∈ s.frames, b.innerNames = b'.innerNames)
    (hvals : ∀ b ∈ s'.frames, ∀ x ∈ b.values, ∃ b' ∈ s.frames, x ∈ b'.values)
    (h : NameInv s) : NameInv s' := by
  refine ⟨?_, ?_, ?_, ?_, ?_⟩
  · intro b hb
    obtain ⟨b', hb', he⟩ := hinner b hb
    rw [he, hroot.2]
    rcases mem_frames.mp hb' with hi | rfl
    · exact h.sync b' hi
    · rfl
  · rw [hroot.1, hroot.2]; exact h.reg
  · rw [hroot.1]; exact h.nodup
  · intro b hb x hx
    rw [hroot.1]
    obtain ⟨b', hb', hx'⟩ := hvals b hb x hx
    exact h.vis b' hb' x hx'
  · rw [hroot.1]; exact h.uses

/-- operations that map every live block with a function that keeps stack, values and registry -/
theorem nameInv_mapFrames {s : St} (f : Block → Block)
    (hf : ∀ b, (f b).context = b.context ∧ (f b).values = b.values ∧ (f b).innerNames = b.innerNames)
    (h : NameInv s) : NameInv (s.mapFrames f) := by
  refine nameInv_fields (s := s) ⟨(hf _).1, (hf _).2.2⟩ ?_ ?_ h
  · intro b hb
    simp [St.mapFrames] at hb
    obtain ⟨b', hb', rfl⟩ := hb
    exact ⟨b', mem_frames.mpr (Or.inl hb'), (hf b').2.2⟩
  · intro b hb x hx
    rw [frames_mapFrames] at hb
    simp at hb
    obtain ⟨b', hb', rfl⟩ := hb
    exact ⟨b', hb', by rw [← (hf b').2.1]; exact hx⟩

theorem innerUsed_false_root {s : St} {n : Name} (h : s.innerUsed n = false) : n ∉ s.root.innerNames := by
  intro hm
  unfold St.innerUsed at h
  have : (s.frames.any fun b => b.innerNames.contains n) = true := by
    rw [List.any_eq_true]
    exact ⟨s.root, by simp [St.frames], by simpa using hm⟩
  rw [this] at h; cases h

theorem nameInv_same {s s' : St} (hi : s'.inner = s.inner) (hr : s'.root = s.root) (h : NameInv s) : NameInv s' := by
  refine nameInv_fields (s := s) ⟨by rw [hr], by rw [hr]⟩ ?_ ?_ h
  · intro b hb; rw [hi] at hb; exact ⟨b, mem_frames.mpr (Or.inl hb), rfl⟩
  · intro b hb x hx
    have : s'.frames = s.frames := by simp [St.frames, hi, hr]
    rw [this] at hb; exact ⟨b, hb, hx⟩

theorem lookupValue_mapFrames (f : Block → Block) (hf : ∀ b, (f b).values = b.values) (s : St) (n : Name) :
    (s.mapFrames f).lookupValue n = s.lookupValue n := by
  unfold St.lookupValue
  rw [frames_mapFrames, List.findSome?_map]
  congr 1
  funext b
  simp [Function.comp, hf]

theorem nameInv_declare {s : St} (h : NameInv s) (n : Name) (v : Value) (i : Instr) (hi : i.declares = some v)
    (hu : i.usesValue = none) (hfresh : s.innerUsed v.innerName = false) :
    NameInv (((s.insertValue n v).registerInner v.innerName).push i) := by
  have hnotin := innerUsed_false_root hfresh
  have hctx : (((s.insertValue n v).registerInner v.innerName).push i).root.context = s.root.context ++ [i] := by
    unfold St.push St.registerInner St.mapFrames St.insertValue St.mapCur
    cases s.inner <;> rfl
  have hnames : (((s.insertValue n v).registerInner v.innerName).push i).root.innerNames = setInsert v.innerName s.root.innerNames := by
    unfold St.push St.registerInner St.mapFrames St.insertValue St.mapCur
    cases s.inner <;> rfl
  have hdv : declValues (s.root.context ++ [i]) = declValues s.root.context ++ [v] := by
    rw [declValues_snoc12, hi]
  refine ⟨?_, ?_, ?_, ?_, ?_⟩
  · intro b hb
    rw [hnames]
    unfold St.push St.registerInner St.mapFrames St.insertValue St.mapCur at hb
    cases hin : s.inner with
    | nil => rw [hin] at hb; simp at hb
    | cons b0 rest =>
      rw [hin] at hb
      simp at hb
      rcases hb with rfl | ⟨b', hb', rfl⟩
      · simp [h.sync b0 (by simp [hin])]
      · simp [h.sync b' (by simp [hin, hb'])]
  · rw [hctx, hdv, hnames]
    intro w hw
    simp at hw
    rw [mem_setInsert]
    rcases hw with hw | rfl
    · exact Or.inr (h.reg w hw)
    · exact Or.inl rfl
  · rw [hctx]
    unfold declNames
    rw [hdv]
    simp only [List.map_append, List.map_cons, List.map_nil]
    rw [List.nodup_append]
    refine ⟨h.nodup, by simp, ?_⟩
    intro a ha b hb
    simp at hb; subst hb
    intro heq; subst heq
    simp [declNames] at ha
    obtain ⟨w, hw, hwn⟩ := ha
    exact hnotin (hwn ▸ h.reg w hw)
  · intro b hb x hx
    rw [hctx, hdv]
    have hfr : (((s.insertValue n v).registerInner v.innerName).push i).frames =
        ((s.insertValue n v).frames.map fun b => { b with innerNames := setInsert v.innerName b.innerNames }).map
          fun b => { b with context := b.context ++ [i] } := by
      unfold St.push St.registerInner
      rw [frames_mapFrames, frames_mapFrames]
    rw [hfr] at hb
    unfold St.insertValue at hb
    rw [frames_mapCur] at hb
    cases hf : s.frames with
    | nil => exact absurd hf (frames_ne_nil s)
    | cons b0 rest =>
      rw [hf] at hb
      simp at hb
      rcases hb with rfl | ⟨b', hb', rfl⟩
      · simp at hx
        rcases mem_assocInsert n v _ x hx with rfl | hx'
        · simp
        · have := h.vis b0 (by simp [hf]) x hx'
          simp [this]
      · simp at hx
        have := h.vis b' (by simp [hf, hb']) x hx
        simp [this]
  · rw [hctx, badUses_append, h.uses, hu]; rfl

theorem nameInv_estep {s s' : St} (h : NameInv s) (st : EStep s s') : NameInv s' := by
  cases st with
  | incReg => exact nameInv_mapFrames _ (fun b => ⟨rfl, rfl, rfl⟩) h
  | emit i _ hd _ hu => exact nameInv_push h i hd hu
  | incEmit i _ hd _ hu =>
    have h1 : NameInv s.incReg := nameInv_mapFrames _ (fun b => ⟨rfl, rfl, rfl⟩) h
    apply nameInv_push h1 i hd
    intro v hv
    obtain ⟨n, hn⟩ := hu v hv
    exact ⟨n, by unfold St.incReg; dsimp only; rw [lookupValue_mapFrames (fun b => { b with reg := s.cur.reg + 1 }) (fun b => rfl)]; exact hn⟩
  | addErr k v l o => exact nameInv_same (s := s) rfl rfl h
  | declare n v i hi _ _ hu hfresh => exact nameInv_declare h n v i hi hu hfresh

theorem nameInv_step {s s' : St} (h : NameInv s) (st : Step s s') : NameInv s' := by
  cases st with
  | e he => exact nameInv_estep h he
  | enter =>
    refine nameInv_fields (s := s) ⟨rfl, rfl⟩ ?_ ?_ h
    · intro b hb
      simp [St.enter] at hb
      rcases hb with rfl | hb
      · exact ⟨s.cur, cur_mem_frames s, rfl⟩
      · exact ⟨b, mem_frames.mpr (Or.inl hb), rfl⟩
    · intro b hb x hx
      rw [frames_enter] at hb
      simp at hb
      rcases hb with rfl | hb
      · simp [Block.child] at hx
      · exact ⟨b, by simpa [St.frames] using hb, hx⟩
  | leave =>
    have hr := root_leave_fields s
    refine nameInv_fields (s := s) ⟨hr.1, hr.2.2.1⟩ ?_ ?_ h
    · intro b hb
      obtain ⟨b', hb', _, _, hn, _⟩ := inner_leave s b hb
      exact ⟨b', mem_frames.mpr (Or.inl hb'), hn⟩
    · intro b hb x hx
      obtain ⟨b', hb', _, hv, _⟩ := frames_leave s b hb
      exact ⟨b', hb', hv ▸ hx⟩
  | regLabel l _ => exact nameInv_mapFrames _ (fun b => ⟨rfl, rfl, rfl⟩) h
  | ctl i _ hd hu => exact nameInv_push h i hd (by intro v hv; rw [hu] at hv; cases hv)
  | emitRet i _ _ hd _ hu => exact nameInv_push h i hd (by intro v hv; rw [hu] at hv; cases hv)
  | ctlVia k i _ hd hu =>
    unfold St.pushVia
    refine nameInv_push ?_ i hd (by intro v hv; rw [hu] at hv; cases hv)
    refine nameInv_fields (s := s) ?_ ?_ ?_ h
    · unfold St.mapCur; cases s.inner <;> exact ⟨rfl, rfl⟩
    · intro b hb
      unfold St.mapCur at hb
      cases hi : s.inner with
      | nil => rw [hi] at hb; simp at hb
      | cons b0 rest =>
        rw [hi] at hb; simp at hb
        rcases hb with rfl | hb
        · exact ⟨b0, mem_frames.mpr (Or.inl (by simp [hi])), rfl⟩
        · exact ⟨b, mem_frames.mpr (Or.inl (by simp [hi, hb])), rfl⟩
    · intro b hb x hx
      rw [frames_mapCur] at hb
      cases hf : s.frames with
      | nil => exact absurd hf (frames_ne_nil s)
      | cons b0 rest =>
        rw [hf] at hb; simp at hb
        rcases hb with rfl | hb
        · exact ⟨b0, by simp, hx⟩
        · exact ⟨b, by simp [hb], hx⟩
  | setReturn => exact nameInv_mapFrames _ (fun b => ⟨rfl, rfl, rfl⟩) h
  | setPanic site =>
    unfold St.setPanic
    cases s.panic
    · exact nameInv_same (s := s) rfl rfl h
    · exact h

theorem nameInv_steps {s s' : St} (h : NameInv s) (st : Steps s s') : NameInv s' := by
  induction st with
  | refl => exact h
  | tail _ st ih => exact nameInv_step ih st

theorem nodupB_of_nodup {α : Type} [DecidableEq α] : ∀ (l : List α), l.Nodup → nodupB l = true
  | [], _ => rfl
  | a :: rest, h => by
    rw [List.nodup_cons] at h
    unfold nodupB
    simp [h.1, nodupB_of_nodup rest h.2]

/-- C12 for one function -/
theorem C12_function (g : Globals) (f : FnDecl) :
    nodupB (declNames (functionBody g f).root.context) = true ∧ badUses (functionBody g f).root.context [] 0 = [] := by
  have h := nameInv_steps nameInv_init (steps_functionBody g f)
  exact ⟨nodupB_of_nodup _ h.nodup, h.uses⟩

/-- **C12** — for every program the output predicate holds on the model's result: no internal
name is declared twice in a function, and every read / field read / assignment carries a record
introduced by an earlier declaration of the same function -/
theorem C12 (p : Program) : P_C12 (run p) = [] := by
  unfold P_C12 run
  rw [List.flatMap_eq_nil_iff]
  intro x hx
  obtain ⟨b, i⟩ := x
  have hb := List.mem_zipIdx hx
  have : b ∈ List.map (fun s => s.root) (List.map (functionBody (pass2 p (pass1 p GState.init)).globals) p.fns) := by
    have := hb.2.2
    simp only at this
    rw [this]; exact List.getElem_mem _
  simp only [List.mem_map] at this
  obtain ⟨s, ⟨f, _, rfl⟩, rfl⟩ := this
  obtain ⟨h1, h2⟩ := C12_function (pass2 p (pass1 p GState.init)).globals f
  simp [h1, h2]

end SemVerif
