import SemVerif.Lemmas.T1Fn
import SemVerif.Props.C15
import SemVerif.Props.C13
/-!
# Property C14 — the first reported error is the first violated rule, with kind and name

`C14`: for every program of the domain (loop-flavoured if-bodies only inside loops), the first
entry of the model's error list has the kind — and, for the kinds that name an identifier, the
identifier — of the first *enforced* rule violation the reference rule checker `refCheck` meets
in analysis order (DESIGN §3.1, §3.3); both lists are empty together.
Family T1: a simulation between the analyzer model and the rule checker that is maintained until
the first violation (afterwards both sides only append): declaration passes (`rel_run`, one error
per enforced violation), expressions (`sim_exprM`), statements and control constructs
(`sim_ifCondition` …, mutual structural induction), function bodies (`sim_bodyStmts`).
C01 and C02 are corollaries (Props/C01, Props/C02).
-/
namespace SemVerif

/-- both lists empty (no enforced violation), or both non-empty with matching first entry -/
def FirstAgree (E : List Err) (V : List Viol) : Prop :=
  (E = [] ∧ firstEnf V = none) ∨ (∃ e rest v, E = e :: rest ∧ firstEnf V = some v ∧ keyE e = keyV v)

theorem firstAgree_concat {E1 E2 : List Err} {V1 V2 : List Viol} (h1 : FirstAgree E1 V1) (h2 : FirstAgree E2 V2) :
    FirstAgree (E1 ++ E2) (V1 ++ V2) := by
  rcases h1 with ⟨he, hv⟩ | ⟨e, rest, v, he, hv, hk⟩
  · subst he
    rcases h2 with ⟨he2, hv2⟩ | ⟨e, rest, v, he2, hv2, hk⟩
    · exact Or.inl ⟨by simp [he2], by rw [firstEnf_append_none hv]; exact hv2⟩
    · exact Or.inr ⟨e, rest, v, by simp [he2], by rw [firstEnf_append_none hv]; exact hv2, hk⟩
  · exact Or.inr ⟨e, rest ++ E2, v, by simp [he], firstEnf_append_some hv, hk⟩

theorem firstAgree_of_keys {E : List Err} {V : List Viol}
    (h : E.map (fun e => errKey e.kind e.value) = (V.filter (·.enforced)).map (fun v => errKey v.kind v.name)) :
    FirstAgree E V := by
  unfold FirstAgree firstEnf
  cases E with
  | nil =>
    left
    refine ⟨rfl, ?_⟩
    cases hf : V.filter (·.enforced) with
    | nil => rfl
    | cons x xs => rw [hf] at h; simp at h
  | cons e rest =>
    right
    cases hf : V.filter (·.enforced) with
    | nil => rw [hf] at h; simp at h
    | cons x xs =>
      rw [hf] at h
      simp only [List.map_cons, List.cons.injEq] at h
      exact ⟨e, rest, x, rfl, rfl, h.1⟩

theorem firstAgree_flatten {α : Type} (F : α → List Err) (G : α → List Viol) : ∀ (l : List α),
    (∀ x ∈ l, FirstAgree (F x) (G x)) → FirstAgree (l.map F).flatten (l.map G).flatten
  | [], _ => Or.inl ⟨rfl, rfl⟩
  | x :: rest, h => by
    simp only [List.map_cons, List.flatten_cons]
    exact firstAgree_concat (h x (by simp)) (firstAgree_flatten F G rest (fun y hy => h y (by simp [hy])))

theorem assocGet_map {β γ : Type} (f : β → γ) (n : Name) : ∀ (l : List (Name × β)),
    assocGet n (l.map fun x => (x.1, f x.2)) = (assocGet n l).map f
  | [] => rfl
  | (k, v) :: rest => by
    simp only [List.map_cons, assocGet]
    split
    · rfl
    · exact assocGet_map f n rest

theorem globRel_of_rel {gs : GState} {ds : DS} (h : Rel gs ds) : GlobRel gs.globals ds.g := by
  refine ⟨?_, ?_, ?_⟩
  · intro n; show assocGet n gs.types = _; rw [rlookup_eq_assocGet, h.gtypes, h.types]
  · intro n; show (assocGet n gs.consts).map _ = _
    rw [rlookup_eq_assocGet, h.gconsts, assocGet_map]
  · intro n; show (assocGet n gs.funcs).map _ = _
    rw [rlookup_eq_assocGet, h.gfuncs, assocGet_map (fun (x : Func) => (x.params, x.ty))]

theorem scopeRel_init : ScopeRel St.init [[]] := by
  unfold ScopeRel St.vals St.frames
  exact ValsRel.cons (fun n => by simp [St.init, Block.fresh, assocGet, rlookup]) ValsRel.nil

/-- one function body against the rule checker -/
theorem sim_functionBody {g : Globals} {rg : RGlobals} (hg : GlobRel g rg) (f : FnDecl)
    (hok : BodyStmt.loopOKL f.body = true) : FirstAgree (functionBody g f).errors (checkFn rg f) := by
  unfold functionBody checkFn
  dsimp only
  have h1 := sim_initParams f.params St.init { scope := [[]], viols := [] } scopeRel_init
  generalize initParams f.params St.init = s1 at h1
  generalize checkParams f.params { scope := [[]], viols := [] } = r1 at h1
  have h2 : StmtSim St.init (bodyStmts g f.result.toTy f.body false s1).1 { scope := [[]], viols := [] }
      (checkBody rg f.result.toTy f.body false r1).1
      (Post s1 (bodyStmts g f.result.toTy f.body false s1).1 (checkBody rg f.result.toTy f.body false r1).1 ∧
        (bodyStmts g f.result.toTy f.body false s1).2 = (checkBody rg f.result.toTy f.body false r1).2) :=
    StmtSim.seq h1 (fun hp => sim_bodyStmts hg f.result.toTy f.body false s1 r1 hok hp)
      (ext_of_steps (steps_bodyStmts g f.result.toTy f.body false s1)) (rext_checkBody f.result.toTy f.body false r1)
  generalize bodyStmts g f.result.toTy f.body false s1 = q at h2
  obtain ⟨s2, rc⟩ := q
  generalize checkBody rg f.result.toTy f.body false r1 = qc at h2
  obtain ⟨r2, rcc⟩ := qc
  dsimp only at h2 ⊢
  have h3 : StmtSim St.init (if rc = true then s2 else s2.addErr .returnNotFound [] 1 0) { scope := [[]], viols := [] }
      (if rcc = true then r2 else r2.viol "B12-none" .returnNotFound []) True := by
    refine StmtSim.seq h2 (fun hp => ?_) ?_ ?_
    · obtain ⟨_, hr⟩ := hp
      subst hr
      cases rc
      · exact sim_err s2 r2 _ _ 1 0 _ _
      · exact StmtSim.refl s2 r2 trivial
    · cases rc
      · exact ⟨[_], rfl⟩
      · exact ⟨[], by simp⟩
    · cases rcc
      · exact rext_viol _ _ _ _
      · exact RExt.refl _
  obtain ⟨Δ, hΔ, h⟩ := h3
  simp only [List.nil_append] at hΔ
  rw [hΔ]
  rcases h with ⟨hv, he, _⟩ | ⟨e, rest, v, he, hv, hk⟩
  · exact Or.inl ⟨by rw [he]; rfl, hv⟩
  · exact Or.inr ⟨e, rest, v, by rw [he]; rfl, hv, hk⟩

/-- **T1** — the model's error list and the rule checker's violations agree on emptiness and on the
first entry, for every program whose loop-flavoured if-bodies are inside loops -/
theorem T1 (p : Program) (hok : LoopOKB p = true) : FirstAgree (run p).errors (refCheck p) := by
  have hrel := rel_run p
  have hg := globRel_of_rel hrel
  unfold run refCheck
  dsimp only
  apply firstAgree_concat (firstAgree_of_keys hrel.errs)
  rw [List.map_map, fns_eq_fnDecls]
  apply firstAgree_flatten
  intro f hf
  apply sim_functionBody hg f
  unfold LoopOKB at hok
  rw [List.all_eq_true] at hok
  exact hok f hf

theorem firstAgree_head {E : List Err} {V : List Viol} (h : FirstAgree E V) :
    (E.head?.map fun e => errKey e.kind e.value) = ((V.filter (·.enforced)).head?.map fun v => errKey v.kind v.name) := by
  rcases h with ⟨he, hv⟩ | ⟨e, rest, v, he, hv, hk⟩
  · subst he
    unfold firstEnf at hv
    simp [hv]
  · subst he
    unfold firstEnf at hv
    simp [hv]; exact hk

/-- **C14** — the output predicate of the property holds on the model's result for every program -/
theorem C14 (p : Program) : P_C14 p (run p) = [] := by
  unfold P_C14
  split
  · rfl
  · rename_i hcond
    simp only [Bool.or_eq_true, Bool.not_eq_true', not_or, Bool.not_eq_false] at hcond
    have hok : LoopOKB p = true := by
      cases h : LoopOKB p with
      | true => rfl
      | false => exact absurd h (by simpa using hcond.2)
    have h := firstAgree_head (T1 p hok)
    unfold refCheckEnf
    simp only [h, beq_self_eq_true, if_true]

end SemVerif
