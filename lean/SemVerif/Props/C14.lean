import SemVerif.Spec.Preds
import SemVerif.Inventory
/-! # Property C14 — theorems (under construction) -/
namespace SemVerif
end SemVerif
