import SemVerif.Lemmas.T2Fn
import SemVerif.Lemmas.AttrIdx
import SemVerif.Props.C14
/-!
# Family T2 at program level — the emitted stacks denote the source

`T2`: for every program that the model accepts (no panic, no error), the abstract reading of
each function's root stack (`abstractStack`: register operands expanded through the instructions
that wrote them, internal names replaced by declaration indices, calls as events in evaluation
order) is the statement list that the source function denotes under the independent lexical
resolver and the precedence fold (`specStmts false`).  No bound on nesting depth, chain length or
number of functions.  C03, C06, C08 and C19 are projections of this equation.
-/
namespace SemVerif

theorem gnames_of_rel {gs : GState} {ds : DS} (h : Rel gs ds) : GNames gs.globals := by
  refine ⟨?_, ?_, ?_⟩
  rotate_left 2
  · intro n name as ht
    have hm := assocGet_mem n gs.types _ ht
    rw [h.types, List.mem_map] at hm
    obtain ⟨d, _, hd⟩ := hm
    simp only [tyEntry, Prod.mk.injEq, Ty.struct.injEq] at hd
    rw [← hd.2.2]
    exact attrsToMap_idxOK d.attrs
  · intro n c hc
    have hm := assocGet_mem n gs.consts c hc
    rw [h.consts, List.mem_filterMap] at hm
    obtain ⟨t, _, ht⟩ := hm
    cases t with
    | const d => simp [constEntry] at ht; obtain ⟨rfl, rfl⟩ := ht; rfl
    | _ => simp [constEntry] at ht
  · intro n f hf
    have hm := assocGet_mem n gs.funcs f hf
    rw [h.funcs, List.mem_filterMap] at hm
    obtain ⟨t, _, ht⟩ := hm
    cases t with
    | fn d => simp [funcEntry] at ht; obtain ⟨rfl, rfl⟩ := ht; rfl
    | _ => simp [funcEntry] at ht

theorem flatten_eq_nil_mem {α : Type} {l : List (List α)} (h : l.flatten = []) : ∀ x ∈ l, x = [] := by
  intro x hx
  rw [List.flatten_eq_nil_iff] at h
  exact h x hx

/-- **T2** — accepted programs: every root stack denotes its source function -/
theorem T2 (p : Program) (hnp : (run p).panic = none) (hacc : (run p).errors = []) :
    (run p).roots.map (fun b => abstractStack b.context) = p.fnDecls.map (specStmts false p.rglobals) := by
  have hrel := rel_run p
  have hg := globRel_of_rel hrel
  have hn := gnames_of_rel hrel
  have hok := anaOK_of_no_panic p hnp
  unfold run at hacc ⊢
  dsimp only at hacc ⊢
  rw [List.append_eq_nil_iff] at hacc
  have hfl := flatten_eq_nil_mem hacc.2
  rw [List.map_map, List.map_map, fns_eq_fnDecls]
  apply List.map_congr_left
  intro f hf
  unfold AnaOKB at hok
  rw [List.all_eq_true] at hok
  have he : (functionBody (pass2 p (pass1 p GState.init)).globals f).errors = [] := by
    apply hfl
    rw [List.mem_map]
    exact ⟨functionBody (pass2 p (pass1 p GState.init)).globals f, by
      rw [List.mem_map]; exact ⟨f, by rw [fns_eq_fnDecls]; exact hf, rfl⟩, rfl⟩
  exact (T2_function hg hn f (hok f hf) he).1

end SemVerif
