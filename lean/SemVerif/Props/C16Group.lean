import SemVerif.Props.C16
import SemVerif.Lemmas.Misc
/-!
# Property C16 — the group predicate the check evaluates

`C16_group`: for a program `p` whose struct names and function names are pairwise distinct and any
list of permutations of its top level that keep the constants in their relative order, the group
predicate `P_C16` (what `Main.lean` evaluates on a `perm` group) reports nothing on the model's
results.  The predicate compares canonical forms (sorted error strings, tables printed in key
order, block trees sorted by function name), so the bridge from theorem `C16` is: a permutation with
pairwise distinct keys has one sorted form.
-/
namespace SemVerif

/-! ### The identifier order used for canonical forms is a linear order -/

theorem Name.lt_irrefl : ∀ (a : Name), Name.lt a a = false
  | [] => rfl
  | c :: cs => by unfold Name.lt; simp [Name.lt_irrefl cs]

theorem Name.lt_asymm : ∀ (a b : Name), Name.lt a b = true → Name.lt b a = false
  | [], [], h => by simp [Name.lt] at h
  | [], _ :: _, _ => rfl
  | _ :: _, [], h => by simp [Name.lt] at h
  | a :: as, b :: bs, h => by
    unfold Name.lt at h ⊢
    by_cases h1 : a.toNat < b.toNat
    · have : ¬ b.toNat < a.toNat := by omega
      simp [this, h1]
    · by_cases h2 : b.toNat < a.toNat
      · simp [h1, h2] at h
      · simp [h1, h2] at h ⊢
        exact Name.lt_asymm as bs h

theorem Name.lt_trans : ∀ (a b c : Name), Name.lt a b = true → Name.lt b c = true → Name.lt a c = true
  | [], [], _, h, _ => by simp [Name.lt] at h
  | [], _ :: _, [], _, h => by simp [Name.lt] at h
  | [], _ :: _, _ :: _, _, _ => rfl
  | _ :: _, [], _, h, _ => by simp [Name.lt] at h
  | _ :: _, _ :: _, [], _, h => by simp [Name.lt] at h
  | a :: as, b :: bs, c :: cs, h1, h2 => by
    unfold Name.lt at h1 h2 ⊢
    by_cases ab : a.toNat < b.toNat
    · by_cases bc : b.toNat < c.toNat
      · have : a.toNat < c.toNat := by omega
        simp [this]
      · by_cases cb : c.toNat < b.toNat
        · simp [bc, cb] at h2
        · have : a.toNat < c.toNat := by omega
          simp [this]
    · by_cases ba : b.toNat < a.toNat
      · simp [ab, ba] at h1
      · simp [ab, ba] at h1
        by_cases bc : b.toNat < c.toNat
        · have : a.toNat < c.toNat := by omega
          simp [this]
        · by_cases cb : c.toNat < b.toNat
          · simp [bc, cb] at h2
          · simp [bc, cb] at h2
            have e1 : ¬ a.toNat < c.toNat := by omega
            have e2 : ¬ c.toNat < a.toNat := by omega
            simp [e1, e2]
            exact Name.lt_trans as bs cs h1 h2

theorem Name.lt_total : ∀ (a b : Name), Name.lt a b = false → Name.lt b a = false → a = b
  | [], [], _, _ => rfl
  | [], _ :: _, h, _ => by simp [Name.lt] at h
  | _ :: _, [], _, h => by simp [Name.lt] at h
  | a :: as, b :: bs, h1, h2 => by
    unfold Name.lt at h1 h2
    by_cases ab : a.toNat < b.toNat
    · simp [ab] at h1
    · by_cases ba : b.toNat < a.toNat
      · simp [ba] at h2
      · simp [ab, ba] at h1 h2
        have hn : a.toNat = b.toNat := by omega
        have hc : a = b := Char.ext (by
          have : a.val.toNat = b.val.toNat := hn
          exact UInt32.toNat_inj.mp this)
        rw [hc, Name.lt_total as bs h1 h2]

theorem nameLe_total (a b : Name) : (nameLe a b || nameLe b a) = true := by
  unfold nameLe
  cases h : Name.lt b a with
  | false => simp
  | true => simp [Name.lt_asymm b a h]

theorem nameLe_trans (a b c : Name) (h1 : nameLe a b = true) (h2 : nameLe b c = true) : nameLe a c = true := by
  unfold nameLe at *
  simp only [Bool.not_eq_true'] at h1 h2 ⊢
  cases hca : Name.lt c a with
  | false => rfl
  | true =>
    exfalso
    cases hab : Name.lt a b with
    | true =>
      have := Name.lt_trans c a b hca hab
      rw [h2] at this; cases this
    | false =>
      have := Name.lt_total a b hab h1
      subst this
      rw [h2] at hca; cases hca

theorem nameLe_antisymm (a b : Name) (h1 : nameLe a b = true) (h2 : nameLe b a = true) : a = b := by
  unfold nameLe at *
  simp only [Bool.not_eq_true'] at h1 h2
  exact Name.lt_total a b h2 h1

/-! ### One sorted form per multiset -/

theorem eq_of_key_eq {β : Type} : ∀ (l : List (Name × β)), (l.map (·.1)).Nodup → ∀ a ∈ l, ∀ b ∈ l, a.1 = b.1 → a = b
  | [], _, a, ha, _, _, _ => by cases ha
  | x :: xs, hn, a, ha, b, hb, hk => by
    rw [List.map_cons, List.nodup_cons] at hn
    simp only [List.mem_cons] at ha hb
    rcases ha with rfl | ha
    · rcases hb with rfl | hb
      · rfl
      · exact absurd (List.mem_map.mpr ⟨b, hb, hk.symm⟩) hn.1
    · rcases hb with rfl | hb
      · exact absurd (List.mem_map.mpr ⟨a, ha, hk⟩) hn.1
      · exact eq_of_key_eq xs hn.2 a ha b hb hk

theorem sortByKey_perm {β : Type} {l l' : List (Name × β)} (h : l.Perm l') (hk : (l.map (·.1)).Nodup) :
    sortByKey l = sortByKey l' := by
  unfold sortByKey
  refine List.Perm.eq_of_pairwise (le := fun a b => nameLe a.1 b.1) ?_ ?_ ?_ ?_
  · intro a b ha hb h1 h2
    rw [List.mem_mergeSort] at ha hb
    exact eq_of_key_eq l hk a ha b (h.symm.subset hb) (nameLe_antisymm _ _ h1 h2)
  · exact List.pairwise_mergeSort (fun a b c => nameLe_trans a.1 b.1 c.1) (fun a b => nameLe_total a.1 b.1) l
  · exact List.pairwise_mergeSort (fun a b c => nameLe_trans a.1 b.1 c.1) (fun a b => nameLe_total a.1 b.1) l'
  · exact ((List.mergeSort_perm l _).trans h).trans (List.mergeSort_perm l' _).symm

theorem sortStrings_perm {l l' : List String} (h : l.Perm l') :
    l.mergeSort (fun a b => decide (a ≤ b)) = l'.mergeSort (fun a b => decide (a ≤ b)) := by
  refine List.Perm.eq_of_pairwise (le := fun a b => decide (a ≤ b)) ?_ ?_ ?_ ?_
  · intro a b _ _ h1 h2
    exact String.le_antisymm (of_decide_eq_true h1) (of_decide_eq_true h2)
  · exact List.pairwise_mergeSort (le := fun (a b : String) => decide (a ≤ b))
      (fun a b c h1 h2 => decide_eq_true (String.le_trans (of_decide_eq_true h1) (of_decide_eq_true h2)))
      (fun a b => by rcases String.le_total a b with h | h <;> simp [h]) l
  · exact List.pairwise_mergeSort (le := fun (a b : String) => decide (a ≤ b))
      (fun a b c h1 h2 => decide_eq_true (String.le_trans (of_decide_eq_true h1) (of_decide_eq_true h2)))
      (fun a b => by rcases String.le_total a b with h | h <;> simp [h]) l'
  · exact ((List.mergeSort_perm l _).trans h).trans (List.mergeSort_perm l' _).symm

/-! ### The group predicate -/

theorem run_roots_length (p : Program) : (run p).roots.length = p.fnDecls.length := by
  unfold run; simp [fns_eq_fnDecls]

theorem fnBlocks_keys (p : Program) :
    (((p.fnDecls.zip (run p).roots).map fun (fb : FnDecl × Block) => (fb.1.name, wBlock fb.2)).map (·.1)) = p.fnDecls.map (·.name) := by
  rw [List.map_map]
  have : ((fun (x : Name × String) => x.1) ∘ fun (fb : FnDecl × Block) => (fb.1.name, wBlock fb.2)) = fun fb => fb.1.name := rfl
  rw [this]
  have h2 : (p.fnDecls.zip (run p).roots).map (fun fb => fb.1.name) = ((p.fnDecls.zip (run p).roots).map (·.1)).map (·.name) := by
    rw [List.map_map]; rfl
  rw [h2, List.map_fst_zip (by rw [run_roots_length]; exact Nat.le_refl _)]

/-- **C16, as the check evaluates it** — a program and permutations of its top level: the group
predicate reports nothing on the model's results -/
theorem C16_group (p : Program) (qs : List Program)
    (hq : ∀ q ∈ qs, p.Perm q ∧ p.cds = q.cds)
    (ht : (p.tds.map (·.name)).Nodup) (hf : (p.fns.map (·.name)).Nodup) :
    P_C16 ((p, run p) :: qs.map fun q => (q, run q)) = [] := by
  unfold P_C16
  dsimp only
  split
  · rfl
  · rename_i hpan
    have hp0 : (run p).panic = none := by
      cases h : (run p).panic with
      | none => rfl
      | some x => rw [h] at hpan; simp at hpan
    rw [List.flatMap_eq_nil_iff]
    rintro ⟨⟨q, r⟩, i⟩ hx
    have hm : (q, r) ∈ qs.map fun q => (q, run q) := List.fst_mem_of_mem_zipIdx hx
    rw [List.mem_map] at hm
    obtain ⟨q', hq', heq⟩ := hm
    simp only [Prod.mk.injEq] at heq
    obtain ⟨rfl, rfl⟩ := heq
    obtain ⟨hperm, hc⟩ := hq q' hq'
    obtain ⟨c1, c2, c3, c4, c5, c6, c7, c8⟩ := C16 p q' hperm hc ht hf
    have hpq : (run q').panic = none := by
      cases h : (run q').panic with
      | none => rfl
      | some x => rw [h, hp0] at c7; simp at c7
    dsimp only
    -- verdict
    have v1 : pi_verdict (run q') = pi_verdict (run p) := by
      unfold pi_verdict
      rw [hp0, hpq]
      have : (run q').errors.isEmpty = (run p).errors.isEmpty := by
        cases h1 : (run q').errors with
        | nil => rw [h1] at c6; rw [List.nil_perm.mp c6]
        | cons a as =>
          cases h2 : (run p).errors with
          | nil => rw [h1, h2] at c6; exact absurd c6.symm (by simp)
          | cons b bs => rfl
      simp [this]
    -- errors
    have v2 : errStrs (run q') = errStrs (run p) := by
      unfold errStrs
      exact sortStrings_perm (c6.map _)
    -- tables
    have v3 : tablesStr (run q') = tablesStr (run p) := by
      unfold tablesStr printResult
      dsimp only
      rw [hp0, hpq]
      dsimp only
      rw [c1, sortByKey_perm c2 (c2.symm.map _ |>.nodup_iff.mp c3 |> fun h => by simpa using (c2.map (·.1)).nodup_iff.mpr c3),
        sortByKey_perm c4 (by simpa using (c4.map (·.1)).nodup_iff.mpr c5)]
    -- function blocks
    have v4 : fnBlocks q' (run q') = fnBlocks p (run p) := by
      unfold fnBlocks
      rw [← fns_eq_fnDecls q', ← fns_eq_fnDecls p]
      refine sortByKey_perm (c8.map _) ?_
      have hk := fnBlocks_keys q'
      rw [← fns_eq_fnDecls q'] at hk
      rw [hk]
      have pfn : p.fns.Perm q'.fns := by rw [fns_eq_filterMap, fns_eq_filterMap]; exact hperm.filterMap _
      exact ((pfn.map (·.name)).nodup_iff).mp hf
    rw [v1, v2, v3, v4]
    simp

end SemVerif
