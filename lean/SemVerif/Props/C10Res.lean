import SemVerif.Props.C10
import SemVerif.Spec.Findings
import SemVerif.Lemmas.Misc
/-!
# Property C10, second half — every jump target is set, up to the recorded finding F3

`C10_resolved`: for **every** program (accepted or not) and every function, a label that is the
target of a `JumpTo` / `IfConditionExpression` / `IfConditionLogic` of the function's root stack and
is not set by any `SetLabel` of that stack is the end label of a loop, and the function matches the
recorded finding F3 (some loop has a loop-level `Return` and a `Break` that targets it — the
analyzer then never sets that loop's end label; pinned by the existing test
`loop_statements_with_return_invocation`).  In particular a function without the F3 pattern has no
unresolved jump target.

Proof: `Resv A s s'` — set labels only grow, and every target unresolved after was unresolved before
or satisfies the *allowance* `A`: the label the construct was handed by its parent (`labelEnd`), the
enclosing loop's labels (the end label only if the construct syntactically contains a `Break` for
that loop), or an F3 leftover of an inner loop.  Every construct discharges the labels it introduces
(`Resv.cut`).  Mutual structural induction over if / else / else-if / loop at any depth; below the
control constructs no instruction names a label (`ESteps` pushes have no targets).
-/
namespace SemVerif

theorem jumpTargets_append (a b : List Instr) : jumpTargets (a ++ b) = jumpTargets a ++ jumpTargets b := by
  simp [jumpTargets, List.flatMap_append]

def Unres (s : St) (l : Name) : Prop := l ∈ jumpTargets s.root.context ∧ l ∉ setLabels s.root.context

def Resv (A : Name → Prop) (s s' : St) : Prop :=
  (∀ l ∈ setLabels s.root.context, l ∈ setLabels s'.root.context) ∧ ∀ l, Unres s' l → Unres s l ∨ A l

theorem Resv.refl (A : Name → Prop) (s : St) : Resv A s s := ⟨fun _ h => h, fun _ h => Or.inl h⟩

theorem Resv.mono {A B : Name → Prop} {s s' : St} (h : Resv A s s') (hab : ∀ l, A l → B l) : Resv B s s' :=
  ⟨h.1, fun l hl => (h.2 l hl).imp id (hab l)⟩

theorem Resv.trans {A : Name → Prop} {a b c : St} (h1 : Resv A a b) (h2 : Resv A b c) : Resv A a c :=
  ⟨fun l hl => h2.1 l (h1.1 l hl), fun l hl => by
    rcases h2.2 l hl with h | h
    · exact h1.2 l h
    · exact Or.inr h⟩

/-- a label that is set afterwards is not unresolved: it can be removed from the allowance -/
theorem Resv.cut {A B : Name → Prop} {s s' : St} (h : Resv A s s') (l0 : Name) (hset : l0 ∈ setLabels s'.root.context)
    (hA : ∀ l, A l → l ≠ l0 → B l) : Resv B s s' :=
  ⟨h.1, fun l hl => by
    rcases h.2 l hl with h1 | h1
    · exact Or.inl h1
    · exact Or.inr (hA l h1 (fun e => hl.2 (e ▸ hset)))⟩

theorem resv_same {A : Name → Prop} {s s' : St} (hc : s'.root.context = s.root.context) : Resv A s s' := by
  unfold Resv Unres; rw [hc]; exact ⟨fun _ h => h, fun _ h => Or.inl h⟩

/-- one more instruction in the root stack whose targets are allowed -/
theorem resv_snoc {A : Name → Prop} {s s' : St} (i : Instr) (hc : s'.root.context = s.root.context ++ [i])
    (ht : ∀ t ∈ i.targets, A t) : Resv A s s' := by
  refine ⟨?_, ?_⟩
  · intro l hl; rw [hc, setLabels_append]; exact List.mem_append_left _ hl
  · intro l ⟨h1, h2⟩
    rw [hc, jumpTargets_append] at h1
    rw [hc, setLabels_append] at h2
    rcases List.mem_append.mp h1 with h | h
    · exact Or.inl ⟨h, fun hm => h2 (List.mem_append_left _ hm)⟩
    · right
      simp [jumpTargets] at h
      exact ht l h

theorem resv_push {A : Name → Prop} (i : Instr) (s : St) (ht : ∀ t ∈ i.targets, A t) : Resv A s (s.push i) :=
  resv_snoc i rfl ht

theorem resv_pushVia {A : Name → Prop} (k : Nat) (i : Instr) (s : St) (ht : ∀ t ∈ i.targets, A t) :
    Resv A s (s.pushVia k i) :=
  resv_snoc i (root_pushVia k i s).1 ht

theorem set_push (l : Name) (s : St) : l ∈ setLabels (s.push (.setLabel l)).root.context := by
  show l ∈ setLabels (s.root.context ++ [.setLabel l])
  rw [setLabels_snoc_label]; simp

theorem set_pushVia (k : Nat) (l : Name) (s : St) : l ∈ setLabels (s.pushVia k (.setLabel l)).root.context := by
  rw [(root_pushVia k _ s).1, setLabels_snoc_label]; simp

theorem resv_estep {A : Name → Prop} {s s' : St} (st : EStep s s') : Resv A s s' := by
  cases st with
  | incReg => exact resv_same rfl
  | emit i _ _ _ _ _ ht => exact resv_push i s (by rw [ht]; intro t h; cases h)
  | incEmit i _ _ _ _ ht => exact (resv_same (s' := s.incReg) rfl).trans (resv_push i _ (by rw [ht]; intro t h; cases h))
  | addErr k v l o => exact resv_same rfl
  | declare n v i _ _ _ _ _ ht =>
    refine Resv.trans (resv_same ?_) (resv_push i _ (by rw [ht]; intro t h; cases h))
    unfold St.registerInner St.mapFrames St.insertValue St.mapCur; cases s.inner <;> rfl

theorem resv_esteps {A : Name → Prop} {s s' : St} (h : ESteps s s') : Resv A s s' := by
  induction h with
  | refl => exact Resv.refl A _
  | tail _ st ih => exact ih.trans (resv_estep st)

theorem resv_leave {A : Name → Prop} (s : St) : Resv A s s.leave.2 := resv_same (root_leave_fields s).1
theorem resv_enter {A : Name → Prop} (s : St) : Resv A s s.enter := resv_same rfl
theorem resv_probe {A : Name → Prop} (stem : Name) (s : St) : Resv A s (s.probeLabel stem).2 := resv_same rfl

/-! ### The end label of a loop carries the stem -/

theorem isPrefix_append (a b : Name) : a.isPrefixOf (a ++ b) = true := by
  induction a with
  | nil => rfl
  | cons x xs ih => simp [List.isPrefixOf, ih]

theorem probeInnerF_prefix (used : Name → Bool) (a : Name) (ha : ∀ c ∈ a, c ≠ '.') :
    ∀ (fuel : Nat) (n : Name), (∃ m, setAttrCounter n = a ++ '.' :: showNat m) →
      a.isPrefixOf (probeInnerF used fuel n) = true
  | 0, n, ⟨m, hm⟩ => by unfold probeInnerF; rw [hm]; exact isPrefix_append _ _
  | fuel + 1, n, ⟨m, hm⟩ => by
    unfold probeInnerF
    dsimp only
    split
    · exact probeInnerF_prefix used a ha fuel _ ⟨m + 1, by rw [hm, setAttrCounter_succ a m ha]⟩
    · rw [hm]; exact isPrefix_append _ _

theorem probeLabelF_prefix (used : Name → Bool) (fuel : Nat) (a : Name) (ha : ∀ c ∈ a, c ≠ '.') :
    a.isPrefixOf (probeLabelF used fuel a) = true := by
  unfold probeLabelF
  split
  · apply probeInnerF_prefix used a ha
    refine ⟨0, ?_⟩
    unfold setAttrCounter
    rw [splitDot_nodot a ha]
    simp [showNat, showNatF, digitChar]
  · have := isPrefix_append a []
    simpa using this

theorem loopEnd_prefix (s : St) : isLoopEndLabel (s.probeLabel "loop_end".toList).1 = true := by
  unfold isLoopEndLabel St.probeLabel
  exact probeLabelF_prefix _ _ _ (by decide)

/-! ### Allowances -/

/-- what may stay unresolved after a construct that was handed the end label `le` and the loop labels
`ll`: those labels (the loop's end label only when a `Break` for that loop occurs syntactically,
`brk`), and F3 leftovers of inner loops (`f3`) -/
def Allow (le : Option Name) (ll : Option (Name × Name)) (brk f3 : Bool) (l : Name) : Prop :=
  le = some l ∨ (∃ lb le', ll = some (lb, le') ∧ (l = lb ∨ (l = le' ∧ brk = true))) ∨
  (isLoopEndLabel l = true ∧ f3 = true)

theorem Allow.mono {le : Option Name} {ll : Option (Name × Name)} {b1 b2 f1 f2 : Bool} {l : Name}
    (h : Allow le ll b1 f1 l) (hb : b1 = true → b2 = true) (hf : f1 = true → f2 = true) : Allow le ll b2 f2 l := by
  rcases h with h | ⟨lb, le', h1, h2 | ⟨h2, h3⟩⟩ | ⟨h1, h2⟩
  · exact Or.inl h
  · exact Or.inr (Or.inl ⟨lb, le', h1, Or.inl h2⟩)
  · exact Or.inr (Or.inl ⟨lb, le', h1, Or.inr ⟨h2, hb h3⟩⟩)
  · exact Or.inr (Or.inr ⟨h1, hf h2⟩)

/-- dropping the handed-down end label -/
theorem Allow.noEnd {le : Option Name} {ll : Option (Name × Name)} {b f : Bool} {l : Name}
    (h : Allow none ll b f l) : Allow le ll b f l := by
  rcases h with h | h | h
  · cases h
  · exact Or.inr (Or.inl h)
  · exact Or.inr (Or.inr h)

theorem resv_forbidden {A : Name → Prop} (rc bc cc : Bool) (s : St) : Resv A s (forbidden rc bc cc s) :=
  resv_esteps (esteps_forbidden rc bc cc s)

theorem resv_nestedReturn {A : Name → Prop} (g : Globals) (e : Expr) (s : St) : Resv A s (nestedReturn g e s).1 := by
  obtain ⟨s1, h1, h | ⟨r, h⟩⟩ := esteps_nestedReturn_pre g e s
  · rw [h]; exact resv_esteps h1
  · rw [h]
    exact ((resv_esteps h1).trans (resv_push _ _ (by intro t ht; simp [Instr.targets] at ht))).trans (resv_same rfl)

/-! ### `if_condition`: prologue -/

theorem ifCondCalc_resv (g : Globals) (c : IfCond) (lb le ln : Name) (isElse : Bool) (s : St) :
    Resv (fun l => l = lb ∨ l = (if isElse then le else ln)) s (ifCondCalc g c lb le ln isElse s) := by
  obtain ⟨s1, h1, h | ⟨i, h, ht, _⟩⟩ := ifCondCalc_split g c lb le ln isElse s
  · rw [h]; exact resv_esteps h1
  · rw [h]
    refine (resv_esteps h1).trans (resv_push i s1 ?_)
    intro t htm
    rw [ht] at htm
    simpa using htm

/-- the prologue leaves at most the else label (if there is an else part) or the end label
unresolved: the begin label is set at its end -/
theorem resv_ifPrologue (g : Globals) (cond : IfCond) (dup isElse : Bool) (le : Option Name) (s : St) :
    Resv (fun l => l = (if isElse then (ifPrologue g cond dup isElse le s).1 else (ifPrologue g cond dup isElse le s).2.1))
      s (ifPrologue g cond dup isElse le s).2.2 ∧
    (∀ l0, le = some l0 → (ifPrologue g cond dup isElse le s).2.1 = l0) := by
  unfold ifPrologue ifLabels
  dsimp only
  have h0 : ∀ (A : Name → Prop), Resv A s (if dup then s.addErr .ifElseDuplicated "if-condition".toList 1 0 else s) := by
    intro A; cases dup <;> exact resv_same rfl
  generalize (if dup then s.addErr .ifElseDuplicated "if-condition".toList 1 0 else s) = s0 at h0
  generalize hb : s0.enter.probeLabel "if_begin".toList = pb
  obtain ⟨lBegin, sb⟩ := pb
  dsimp only
  generalize hl : sb.probeLabel "if_else".toList = pl
  obtain ⟨lElse, sl⟩ := pl
  dsimp only
  have hsb : sb.root.context = s0.root.context := by
    have := congrArg (fun x => x.2.root.context) hb; exact this.symm
  have hsl : sl.root.context = sb.root.context := by
    have := congrArg (fun x => x.2.root.context) hl; exact this.symm
  cases le with
  | some l0 =>
    dsimp only
    refine ⟨?_, fun l1 h => by cases h; rfl⟩
    have r1 : Resv (fun l => l = lBegin ∨ l = (if isElse then lElse else l0)) s sl :=
      (h0 _).trans (resv_same (by rw [hsl, hsb]))
    have r2 := (r1.trans (ifCondCalc_resv g cond lBegin lElse l0 isElse sl)).trans
      (resv_push (.setLabel lBegin) _ (by intro t ht; simp [Instr.targets] at ht))
    exact r2.cut lBegin (set_push lBegin _) (fun l hl hne => by
      rcases hl with h | h
      · exact absurd h hne
      · exact h)
  | none =>
    dsimp only
    generalize he : sl.probeLabel "if_end".toList = pe
    obtain ⟨lEnd, se⟩ := pe
    dsimp only
    refine ⟨?_, fun l1 h => by cases h⟩
    have hse : se.root.context = sl.root.context := by
      have := congrArg (fun x => x.2.root.context) he; exact this.symm
    have r1 : Resv (fun l => l = lBegin ∨ l = (if isElse then lElse else lEnd)) s se :=
      (h0 _).trans (resv_same (by rw [hse, hsl, hsb]))
    have r2 := (r1.trans (ifCondCalc_resv g cond lBegin lElse lEnd isElse se)).trans
      (resv_push (.setLabel lBegin) _ (by intro t ht; simp [Instr.targets] at ht))
    exact r2.cut lBegin (set_push lBegin _) (fun l hl hne => by
      rcases hl with h | h
      · exact absurd h hne
      · exact h)

/-! ### The other helpers of `if_condition` and `loop_statement` -/

theorem resv_ifAfterBody (isElse r : Bool) (lElse lEnd : Name) (s : St) :
    Resv (fun l => l = lEnd) s (ifAfterBody isElse r lElse lEnd s).2 ∧
    (isElse = true → lElse ∈ setLabels (ifAfterBody isElse r lElse lEnd s).2.root.context) := by
  unfold ifAfterBody
  dsimp only
  have h1 : Resv (fun l => l = lEnd) s (if r then s else s.push (.jumpTo lEnd)) := by
    cases r
    · exact resv_push _ _ (by intro t ht; simpa [Instr.targets] using ht)
    · exact Resv.refl _ _
  generalize (if r then s else s.push (.jumpTo lEnd)) = s1 at h1
  cases isElse with
  | false =>
    simp only [Bool.false_eq_true, if_false]
    exact ⟨h1.trans (resv_leave s1), fun h => by cases h⟩
  | true =>
    simp only [if_true]
    refine ⟨(h1.trans (resv_push _ _ (by intro t ht; simp [Instr.targets] at ht))).trans (resv_leave _), fun _ => ?_⟩
    rw [(root_leave_fields _).1]
    exact set_push lElse s1

theorem resv_ifAfterElse (k : Nat) (r : Bool) (lEnd : Name) (s : St) :
    Resv (fun l => l = lEnd) s (ifAfterElse k r lEnd s) := by
  unfold ifAfterElse
  dsimp only
  cases r
  · exact (resv_leave s).trans (resv_pushVia k _ _ (by intro t ht; simpa [Instr.targets] using ht))
  · exact resv_leave s

theorem resv_ifEpilogue (A : Name → Prop) (k : Nat) (le : Option Name) (lEnd : Name) (s : St) :
    Resv A s (ifEpilogue k le lEnd s) ∧ (le = none → lEnd ∈ setLabels (ifEpilogue k le lEnd s).root.context) := by
  unfold ifEpilogue
  cases le with
  | none =>
    simp only [Option.isSome_none, Bool.false_eq_true, if_false]
    exact ⟨resv_pushVia k _ _ (by intro t ht; simp [Instr.targets] at ht), fun _ => set_pushVia k lEnd s⟩
  | some l => exact ⟨Resv.refl _ _, fun h => by cases h⟩

theorem resv_loopPrologue (A : Name → Prop) (s : St) :
    Resv A s (loopPrologue s).2.2 ∧ (loopPrologue s).1 ∈ setLabels (loopPrologue s).2.2.root.context ∧
    isLoopEndLabel (loopPrologue s).2.1 = true := by
  unfold loopPrologue
  dsimp only
  refine ⟨?_, set_push _ _, loopEnd_prefix _⟩
  have r1 : Resv (fun l => A l ∨ l = (s.enter.probeLabel "loop_begin".toList).1) s
      (((s.enter.probeLabel "loop_begin".toList).2.probeLabel "loop_end".toList).2.push
        (.jumpTo (s.enter.probeLabel "loop_begin".toList).1)) :=
    Resv.trans (resv_same rfl) (resv_push _ _ (by intro t ht; right; simpa [Instr.targets] using ht))
  exact (r1.trans (resv_push _ _ (by intro t ht; simp [Instr.targets] at ht))).cut _ (set_push _ _)
    (fun l hl hne => by rcases hl with h | h; exact h; exact absurd h hne)

theorem resv_loopEpilogue (r : Bool) (lb le : Name) (s : St) :
    Resv (fun l => l = lb) s (loopEpilogue r lb le s) ∧
    (r = false → le ∈ setLabels (loopEpilogue r lb le s).root.context) := by
  unfold loopEpilogue
  dsimp only
  cases r with
  | true => exact ⟨resv_leave s, fun h => by cases h⟩
  | false =>
    simp only [Bool.false_eq_true, if_false]
    refine ⟨((resv_push _ _ (by intro t ht; simpa [Instr.targets] using ht)).trans
      (resv_push _ _ (by intro t ht; simp [Instr.targets] at ht))).trans (resv_leave _), fun _ => ?_⟩
    rw [(root_leave_fields _).1]
    exact set_push le _

/-- `loop_statement`: what stays unresolved is an F3 leftover — of an inner loop, or this loop's end
label when the loop returned at loop level and a `Break` targets it -/
theorem rv_loopWrap (k : Name → Name → Bool → Bool → Bool → St → St × Bool) (ret brk f3 : Bool)
    (hk : ∀ lb le s, Resv (Allow none (some (lb, le)) brk f3) s (k lb le false false false s).1)
    (hret : ∀ lb le s, (k lb le false false false s).2 = true → ret = true) (s : St) :
    Resv (fun l => isLoopEndLabel l = true ∧ ((ret && brk) || f3) = true) s (loopWrap k s) := by
  unfold loopWrap
  dsimp only
  obtain ⟨r1, hset, hpre⟩ := resv_loopPrologue (fun l => (isLoopEndLabel l = true ∧ ((ret && brk) || f3) = true) ∨
    Allow none (some ((loopPrologue s).1, (loopPrologue s).2.1)) brk f3 l) s
  generalize loopPrologue s = p at r1 hset hpre ⊢
  obtain ⟨lb, le, s1⟩ := p
  dsimp only at r1 hset hpre ⊢
  have r2 := hk lb le s1
  have hr := hret lb le s1
  generalize k lb le false false false s1 = q at r2 hr ⊢
  obtain ⟨s2, r⟩ := q
  dsimp only at r2 hr ⊢
  obtain ⟨r3, hle⟩ := resv_loopEpilogue r lb le s2
  have rall := (r1.trans (r2.mono (fun l h => Or.inr h))).trans
    (r3.mono (fun l h => Or.inr (Or.inr (Or.inl ⟨lb, le, rfl, Or.inl h⟩))))
  -- the begin label is set
  have hsetb : lb ∈ setLabels (loopEpilogue r lb le s2).root.context := r3.1 lb (r2.1 lb hset)
  refine ⟨rall.1, fun l hl => ?_⟩
  rcases rall.2 l hl with h | h | h
  · exact Or.inl h
  · exact Or.inr h
  · right
    rcases h with h | ⟨lb', le', hll, h | ⟨h1, h2⟩⟩ | ⟨h1, h2⟩
    · cases h
    · injection hll with hll; injection hll with e1 e2
      subst e1; subst h
      exact absurd hsetb hl.2
    · injection hll with hll; injection hll with e1 e2
      subst e2; subst h1
      cases r with
      | false => exact absurd (hle rfl) hl.2
      | true => exact ⟨hpre, by rw [hr rfl, h2]; rfl⟩
    · exact ⟨h1, by rw [h2]; simp⟩

/-! ### The mutual induction -/

/-- one statement of a body followed by the rest of the body -/
theorem rv_step {A : Name → Prop} {s s1 sf : St} (rc bc cc : Bool)
    (h1 : Resv A (forbidden rc bc cc s) s1) (h2 : Resv A s1 sf) : Resv A s sf :=
  ((resv_forbidden rc bc cc s).trans h1).trans h2

variable (g : Globals)

theorem ret_loopBody : ∀ (l : List LoopStmt) (lb le : Name) (rc bc cc : Bool) (s : St),
    (loopBody g l lb le rc bc cc s).2 = true → rc = true ∨ LoopStmt.hasRetL l = true
  | [], _, _, rc, _, _, s => by unfold loopBody; intro h; exact Or.inl h
  | .letB b :: tl, lb, le, rc, bc, cc, s => by
    unfold loopBody LoopStmt.hasRetL; exact ret_loopBody tl lb le rc bc cc _
  | .bind b :: tl, lb, le, rc, bc, cc, s => by
    unfold loopBody LoopStmt.hasRetL; exact ret_loopBody tl lb le rc bc cc _
  | .call c :: tl, lb, le, rc, bc, cc, s => by
    unfold loopBody LoopStmt.hasRetL; exact ret_loopBody tl lb le rc bc cc _
  | .ifS i :: tl, lb, le, rc, bc, cc, s => by
    unfold loopBody LoopStmt.hasRetL; exact ret_loopBody tl lb le rc bc cc _
  | .loop b :: tl, lb, le, rc, bc, cc, s => by
    unfold loopBody LoopStmt.hasRetL; exact ret_loopBody tl lb le rc bc cc _
  | .ret e :: tl, lb, le, rc, bc, cc, s => by
    unfold LoopStmt.hasRetL; intro _; exact Or.inr rfl
  | .brk :: tl, lb, le, rc, bc, cc, s => by
    unfold loopBody LoopStmt.hasRetL; exact ret_loopBody tl lb le rc true cc _
  | .cont :: tl, lb, le, rc, bc, cc, s => by
    unfold loopBody LoopStmt.hasRetL; exact ret_loopBody tl lb le rc bc true _

theorem or_true_left {a b : Bool} (h : a = true) : (a || b) = true := by rw [h]; rfl
theorem or_true_right {a b : Bool} (h : b = true) : (a || b) = true := by rw [h]; simp

/-- closing an `if`: the else label and (if it is the construct's own) the end label are set -/
theorem rv_if_finish {s s4 : St} {lElse lEnd : Name} {isElse B F : Bool} {labelEnd : Option Name}
    {labelLoop : Option (Name × Name)} (k : Nat)
    (r34 : Resv (fun l => (l = lElse ∧ isElse = true) ∨ l = lEnd ∨ Allow (some lEnd) labelLoop B F l) s s4)
    (hElse : isElse = true → lElse ∈ setLabels s4.root.context)
    (hle : ∀ l0, labelEnd = some l0 → lEnd = l0) :
    Resv (Allow labelEnd labelLoop B F) s (ifEpilogue k labelEnd lEnd s4) := by
  obtain ⟨re, hEnd⟩ := resv_ifEpilogue (fun l => (l = lElse ∧ isElse = true) ∨ l = lEnd ∨ Allow (some lEnd) labelLoop B F l)
    k labelEnd lEnd s4
  have rall := r34.trans re
  refine ⟨rall.1, fun l hl => ?_⟩
  have hend : l = lEnd → Allow labelEnd labelLoop B F l := by
    intro h
    cases hlE : labelEnd with
    | none => exact absurd (h ▸ hEnd hlE) hl.2
    | some l0 => exact Or.inl (by rw [h, hle l0 hlE])
  rcases rall.2 l hl with h | ⟨h1, h2⟩ | h | h
  · exact Or.inl h
  · exact absurd (h1 ▸ re.1 lElse (hElse h2)) hl.2
  · exact Or.inr (hend h)
  · right
    rcases h with h | h | h
    · injection h with h; exact hend h.symm
    · exact Or.inr (Or.inl h)
    · exact Or.inr (Or.inr h)

mutual
theorem rv_ifCondition : ∀ (i : IfStmt) (le : Option Name) (ll : Option (Name × Name)) (s : St),
    Resv (Allow le ll i.hasBrk i.f3) s (ifCondition g i le ll s)
  | .mk cond body els elif, labelEnd, labelLoop, s => by
    unfold ifCondition
    dsimp only
    obtain ⟨rp, hle⟩ := resv_ifPrologue g cond (els.isSome && elif.isSome) (els.isSome || elif.isSome) labelEnd s
    generalize ifPrologue g cond (els.isSome && elif.isSome) (els.isSome || elif.isSome) labelEnd s = p at rp hle ⊢
    obtain ⟨lElse, lEnd, s1⟩ := p
    dsimp only at rp hle ⊢
    have rb := rv_ifBodies body lEnd labelLoop s1
    generalize ifBodies g body lEnd labelLoop s1 = q at rb ⊢
    obtain ⟨s2, r⟩ := q
    dsimp only at rb ⊢
    obtain ⟨ra, hElse⟩ := resv_ifAfterBody (els.isSome || elif.isSome) r lElse lEnd s2
    generalize ifAfterBody (els.isSome || elif.isSome) r lElse lEnd s2 = q3 at ra hElse ⊢
    obtain ⟨k, s3⟩ := q3
    dsimp only at ra hElse ⊢
    have hflagB : body.hasBrk = true → IfStmt.hasBrk (.mk cond body els elif) = true := by
      intro h; unfold IfStmt.hasBrk; simp [h]
    have hflagF : body.f3 = true → IfStmt.f3 (.mk cond body els elif) = true := by
      intro h; unfold IfStmt.f3; simp [h]
    have r3 : Resv (fun l => (l = lElse ∧ (els.isSome || elif.isSome) = true) ∨ l = lEnd ∨
        Allow (some lEnd) labelLoop (IfStmt.hasBrk (.mk cond body els elif)) (IfStmt.f3 (.mk cond body els elif)) l) s s3 := by
      refine ((rp.mono ?_).trans (rb.mono ?_)).trans (ra.mono ?_)
      · intro l h
        cases hE : (els.isSome || elif.isSome) with
        | true => rw [hE] at h; exact Or.inl ⟨h, rfl⟩
        | false => rw [hE] at h; exact Or.inr (Or.inl h)
      · intro l h; exact Or.inr (Or.inr (h.mono hflagB hflagF))
      · intro l h; exact Or.inr (Or.inl h)
    cases els with
    | some eb =>
      dsimp only
      have re := rv_ifBodies eb lEnd labelLoop s3.enter
      refine rv_if_finish k (r3.trans (((resv_enter s3).trans (re.mono ?_)).trans ((resv_ifAfterElse k _ lEnd _).mono ?_))) ?_ hle
      · intro l h
        refine Or.inr (Or.inr (h.mono ?_ ?_))
        · intro hb; unfold IfStmt.hasBrk; simp [hb]
        · intro hb; unfold IfStmt.f3; simp [hb]
      · intro l h; exact Or.inr (Or.inl h)
      · intro hE
        exact (resv_ifAfterElse k _ lEnd _).1 _ (re.1 _ ((resv_enter s3 (A := fun _ => False)).1 _ (hElse hE)))
    | none =>
      cases elif with
      | some ei =>
        dsimp only
        have re := rv_ifCondition ei (some lEnd) labelLoop s3
        refine rv_if_finish k (r3.trans (re.mono ?_)) ?_ hle
        · intro l h
          refine Or.inr (Or.inr (h.mono ?_ ?_))
          · intro hb; unfold IfStmt.hasBrk; simp [hb]
          · intro hb; unfold IfStmt.f3; simp [hb]
        · intro hE; exact re.1 _ (hElse hE)
      | none =>
        dsimp only
        exact rv_if_finish k r3 hElse hle
theorem rv_ifBodies : ∀ (b : IfBodies) (lEnd : Name) (ll : Option (Name × Name)) (s : St),
    Resv (Allow (some lEnd) ll b.hasBrk b.f3) s (ifBodies g b lEnd ll s).1
  | .ifb l, lEnd, ll, s => by
    unfold ifBodies IfBodies.hasBrk IfBodies.f3
    exact rv_ifBody l lEnd ll false s
  | .loopb l, lEnd, some (lb, le), s => by
    unfold ifBodies IfBodies.hasBrk IfBodies.f3
    exact rv_ifLoopBody l lEnd lb le false false false s
  | .loopb _, _, none, s => by
    unfold ifBodies
    exact resv_same (by unfold St.setPanic; split <;> rfl)
theorem rv_ifBody : ∀ (l : List IfBodyStmt) (lEnd : Name) (ll : Option (Name × Name)) (rc : Bool) (s : St),
    Resv (Allow (some lEnd) ll (IfBodyStmt.hasBrkL l) (IfBodyStmt.f3L l)) s (ifBody g l lEnd ll rc s).1
  | [], _, _, _, s => by unfold ifBody; exact Resv.refl _ _
  | .letB b :: tl, lEnd, ll, rc, s => by
    unfold ifBody IfBodyStmt.hasBrkL IfBodyStmt.f3L
    exact rv_step rc false false (resv_esteps (esteps_letBinding g b _)) (rv_ifBody tl lEnd ll rc _)
  | .bind b :: tl, lEnd, ll, rc, s => by
    unfold ifBody IfBodyStmt.hasBrkL IfBodyStmt.f3L
    exact rv_step rc false false (resv_esteps (esteps_binding g b _)) (rv_ifBody tl lEnd ll rc _)
  | .call c :: tl, lEnd, ll, rc, s => by
    unfold ifBody IfBodyStmt.hasBrkL IfBodyStmt.f3L
    exact rv_step rc false false (resv_esteps (esteps_callStmt g c _)) (rv_ifBody tl lEnd ll rc _)
  | .ifS i :: tl, lEnd, ll, rc, s => by
    unfold ifBody IfBodyStmt.hasBrkL IfBodyStmt.f3L
    exact rv_step rc false false ((rv_ifCondition i (some lEnd) ll _).mono (fun l h => h.mono or_true_left or_true_left))
      ((rv_ifBody tl lEnd ll rc _).mono (fun l h => h.mono or_true_right or_true_right))
  | .loop b :: tl, lEnd, ll, rc, s => by
    unfold ifBody IfBodyStmt.hasBrkL IfBodyStmt.f3L
    refine rv_step rc false false ((rv_loopWrap _ (LoopStmt.hasRetL b) (LoopStmt.nestedBrkL b) (LoopStmt.f3L b)
      (fun lb le s => rv_loopBody b lb le false false false s)
      (fun lb le s h => by rcases ret_loopBody g b lb le false false false s h with h | h; cases h; exact h) _).mono ?_)
      ((rv_ifBody tl lEnd ll rc _).mono (fun l h => h.mono id or_true_right))
    intro l ⟨h1, h2⟩
    exact Or.inr (Or.inr ⟨h1, or_true_left h2⟩)
  | .ret e :: tl, lEnd, ll, rc, s => by
    unfold ifBody IfBodyStmt.hasBrkL IfBodyStmt.f3L
    dsimp only
    have h1 : Resv (Allow (some lEnd) ll (IfBodyStmt.hasBrkL tl) (IfBodyStmt.f3L tl)) (forbidden rc false false s)
        (nestedReturn g e (forbidden rc false false s)).1 := resv_nestedReturn g e _
    generalize nestedReturn g e (forbidden rc false false s) = q at h1 ⊢
    obtain ⟨s1, r⟩ := q
    exact rv_step rc false false h1 (rv_ifBody tl lEnd ll (rc || r) s1)
theorem rv_ifLoopBody : ∀ (l : List IfLoopStmt) (lEnd lb le : Name) (rc bc cc : Bool) (s : St),
    Resv (Allow (some lEnd) (some (lb, le)) (IfLoopStmt.hasBrkL l) (IfLoopStmt.f3L l)) s (ifLoopBody g l lEnd lb le rc bc cc s).1
  | [], _, _, _, _, _, _, s => by unfold ifLoopBody; exact Resv.refl _ _
  | .letB b :: tl, lEnd, lb, le, rc, bc, cc, s => by
    unfold ifLoopBody IfLoopStmt.hasBrkL IfLoopStmt.f3L
    exact rv_step rc bc cc (resv_esteps (esteps_letBinding g b _)) (rv_ifLoopBody tl lEnd lb le rc bc cc _)
  | .bind b :: tl, lEnd, lb, le, rc, bc, cc, s => by
    unfold ifLoopBody IfLoopStmt.hasBrkL IfLoopStmt.f3L
    exact rv_step rc bc cc (resv_esteps (esteps_binding g b _)) (rv_ifLoopBody tl lEnd lb le rc bc cc _)
  | .call c :: tl, lEnd, lb, le, rc, bc, cc, s => by
    unfold ifLoopBody IfLoopStmt.hasBrkL IfLoopStmt.f3L
    exact rv_step rc bc cc (resv_esteps (esteps_callStmt g c _)) (rv_ifLoopBody tl lEnd lb le rc bc cc _)
  | .ifS i :: tl, lEnd, lb, le, rc, bc, cc, s => by
    unfold ifLoopBody IfLoopStmt.hasBrkL IfLoopStmt.f3L
    exact rv_step rc bc cc ((rv_ifCondition i (some lEnd) (some (lb, le)) _).mono (fun l h => h.mono or_true_left or_true_left))
      ((rv_ifLoopBody tl lEnd lb le rc bc cc _).mono (fun l h => h.mono or_true_right or_true_right))
  | .loop b :: tl, lEnd, lb, le, rc, bc, cc, s => by
    unfold ifLoopBody IfLoopStmt.hasBrkL IfLoopStmt.f3L
    refine rv_step rc bc cc ((rv_loopWrap _ (LoopStmt.hasRetL b) (LoopStmt.nestedBrkL b) (LoopStmt.f3L b)
      (fun lb le s => rv_loopBody b lb le false false false s)
      (fun lb le s h => by rcases ret_loopBody g b lb le false false false s h with h | h; cases h; exact h) _).mono ?_)
      ((rv_ifLoopBody tl lEnd lb le rc bc cc _).mono (fun l h => h.mono id or_true_right))
    intro l ⟨h1, h2⟩
    exact Or.inr (Or.inr ⟨h1, or_true_left h2⟩)
  | .ret e :: tl, lEnd, lb, le, rc, bc, cc, s => by
    unfold ifLoopBody IfLoopStmt.hasBrkL IfLoopStmt.f3L
    dsimp only
    have h1 : Resv (Allow (some lEnd) (some (lb, le)) (IfLoopStmt.hasBrkL tl) (IfLoopStmt.f3L tl)) (forbidden rc bc cc s)
        (nestedReturn g e (forbidden rc bc cc s)).1 := resv_nestedReturn g e _
    generalize nestedReturn g e (forbidden rc bc cc s) = q at h1 ⊢
    obtain ⟨s1, r⟩ := q
    exact rv_step rc bc cc h1 (rv_ifLoopBody tl lEnd lb le (rc || r) bc cc s1)
  | .brk :: tl, lEnd, lb, le, rc, bc, cc, s => by
    unfold ifLoopBody IfLoopStmt.hasBrkL
    refine rv_step rc bc cc (resv_push _ _ ?_) ((rv_ifLoopBody tl lEnd lb le rc true cc _).mono (fun l h => h.mono (fun _ => rfl) ?_))
    · intro t ht
      simp [Instr.targets] at ht
      exact Or.inr (Or.inl ⟨lb, le, rfl, Or.inr ⟨ht, rfl⟩⟩)
    · intro h; unfold IfLoopStmt.f3L; exact h
  | .cont :: tl, lEnd, lb, le, rc, bc, cc, s => by
    unfold ifLoopBody IfLoopStmt.hasBrkL IfLoopStmt.f3L
    refine rv_step rc bc cc (resv_push _ _ ?_) (rv_ifLoopBody tl lEnd lb le rc bc true _)
    intro t ht
    simp [Instr.targets] at ht
    exact Or.inr (Or.inl ⟨lb, le, rfl, Or.inl ht⟩)
theorem rv_loopBody : ∀ (l : List LoopStmt) (lb le : Name) (rc bc cc : Bool) (s : St),
    Resv (Allow none (some (lb, le)) (LoopStmt.nestedBrkL l) (LoopStmt.f3L l)) s (loopBody g l lb le rc bc cc s).1
  | [], _, _, _, _, _, s => by unfold loopBody; exact Resv.refl _ _
  | .letB b :: tl, lb, le, rc, bc, cc, s => by
    unfold loopBody LoopStmt.nestedBrkL LoopStmt.f3L
    exact rv_step rc bc cc (resv_esteps (esteps_letBinding g b _)) (rv_loopBody tl lb le rc bc cc _)
  | .bind b :: tl, lb, le, rc, bc, cc, s => by
    unfold loopBody LoopStmt.nestedBrkL LoopStmt.f3L
    exact rv_step rc bc cc (resv_esteps (esteps_binding g b _)) (rv_loopBody tl lb le rc bc cc _)
  | .call c :: tl, lb, le, rc, bc, cc, s => by
    unfold loopBody LoopStmt.nestedBrkL LoopStmt.f3L
    exact rv_step rc bc cc (resv_esteps (esteps_callStmt g c _)) (rv_loopBody tl lb le rc bc cc _)
  | .ifS i :: tl, lb, le, rc, bc, cc, s => by
    unfold loopBody LoopStmt.nestedBrkL LoopStmt.f3L
    exact rv_step rc bc cc ((rv_ifCondition i none (some (lb, le)) _).mono (fun l h => h.mono or_true_left or_true_left))
      ((rv_loopBody tl lb le rc bc cc _).mono (fun l h => h.mono or_true_right or_true_right))
  | .loop b :: tl, lb, le, rc, bc, cc, s => by
    unfold loopBody LoopStmt.nestedBrkL LoopStmt.f3L
    refine rv_step rc bc cc ((rv_loopWrap _ (LoopStmt.hasRetL b) (LoopStmt.nestedBrkL b) (LoopStmt.f3L b)
      (fun lb le s => rv_loopBody b lb le false false false s)
      (fun lb le s h => by rcases ret_loopBody g b lb le false false false s h with h | h; cases h; exact h) _).mono ?_)
      ((rv_loopBody tl lb le rc bc cc _).mono (fun l h => h.mono id or_true_right))
    intro l ⟨h1, h2⟩
    exact Or.inr (Or.inr ⟨h1, or_true_left h2⟩)
  | .ret e :: tl, lb, le, rc, bc, cc, s => by
    unfold loopBody LoopStmt.nestedBrkL LoopStmt.f3L
    dsimp only
    have h1 : Resv (Allow none (some (lb, le)) (LoopStmt.nestedBrkL tl) (LoopStmt.f3L tl)) (forbidden rc bc cc s)
        (nestedReturn g e (forbidden rc bc cc s)).1 := resv_nestedReturn g e _
    generalize nestedReturn g e (forbidden rc bc cc s) = q at h1 ⊢
    obtain ⟨s1, r⟩ := q
    exact rv_step rc bc cc h1 (rv_loopBody tl lb le (rc || r) bc cc s1)
  | .brk :: tl, lb, le, rc, bc, cc, s => by
    unfold loopBody LoopStmt.nestedBrkL
    refine rv_step rc bc cc (resv_push _ _ ?_) ((rv_loopBody tl lb le rc true cc _).mono (fun l h => h.mono (fun _ => rfl) ?_))
    · intro t ht
      simp [Instr.targets] at ht
      exact Or.inr (Or.inl ⟨lb, le, rfl, Or.inr ⟨ht, rfl⟩⟩)
    · intro h; unfold LoopStmt.f3L; exact h
  | .cont :: tl, lb, le, rc, bc, cc, s => by
    unfold loopBody LoopStmt.nestedBrkL LoopStmt.f3L
    refine rv_step rc bc cc (resv_push _ _ ?_) (rv_loopBody tl lb le rc bc true _)
    intro t ht
    simp [Instr.targets] at ht
    exact Or.inr (Or.inl ⟨lb, le, rfl, Or.inl ht⟩)
end

/-! ### Function level -/

theorem resv_fnReturn {A : Name → Prop} (resTy : Ty) (e : Expr) (rc : Bool) (s : St) : Resv A s (fnReturn g resTy e rc s).1 := by
  obtain ⟨s2, h, hq | ⟨r, hq⟩⟩ := fnReturn_split g resTy e rc s
  · rw [hq]; exact resv_esteps h
  · rw [hq]; dsimp only
    split
    · exact (resv_esteps h).trans (resv_push _ _ (by intro t ht; simp [Instr.targets] at ht))
    · exact (resv_esteps h).trans (resv_push _ _ (by intro t ht; simp [Instr.targets] at ht))

/-- at function level nothing is handed down: what stays unresolved is an F3 leftover -/
def AllowFn (f3 : Bool) (l : Name) : Prop := isLoopEndLabel l = true ∧ f3 = true

theorem allowFn_of {b f : Bool} {l : Name} (h : Allow none none b f l) : AllowFn f l := by
  rcases h with h | ⟨_, _, h, _⟩ | h
  · cases h
  · cases h
  · exact h

theorem rv_bodyStmts (resTy : Ty) : ∀ (l : List BodyStmt) (rc : Bool) (s : St),
    Resv (AllowFn (BodyStmt.f3L l)) s (bodyStmts g resTy l rc s).1
  | [], _, s => by unfold bodyStmts; exact Resv.refl _ _
  | .letB b :: tl, rc, s => by
    unfold bodyStmts BodyStmt.f3L
    exact rv_step rc false false (resv_esteps (esteps_letBinding g b _)) (rv_bodyStmts resTy tl rc _)
  | .bind b :: tl, rc, s => by
    unfold bodyStmts BodyStmt.f3L
    exact rv_step rc false false (resv_esteps (esteps_binding g b _)) (rv_bodyStmts resTy tl rc _)
  | .call c :: tl, rc, s => by
    unfold bodyStmts BodyStmt.f3L
    exact rv_step rc false false (resv_esteps (esteps_callStmt g c _)) (rv_bodyStmts resTy tl rc _)
  | .ifS i :: tl, rc, s => by
    unfold bodyStmts BodyStmt.f3L
    exact rv_step rc false false ((rv_ifCondition g i none none _).mono (fun l h => ⟨(allowFn_of h).1, or_true_left (allowFn_of h).2⟩))
      ((rv_bodyStmts resTy tl rc _).mono (fun l h => ⟨h.1, or_true_right h.2⟩))
  | .loop b :: tl, rc, s => by
    unfold bodyStmts BodyStmt.f3L
    refine rv_step rc false false ((rv_loopWrap _ (LoopStmt.hasRetL b) (LoopStmt.nestedBrkL b) (LoopStmt.f3L b)
      (fun lb le s => rv_loopBody g b lb le false false false s)
      (fun lb le s h => by rcases ret_loopBody g b lb le false false false s h with h | h; cases h; exact h) _).mono ?_)
      ((rv_bodyStmts resTy tl rc _).mono (fun l h => ⟨h.1, or_true_right h.2⟩))
    intro l ⟨h1, h2⟩
    exact ⟨h1, or_true_left h2⟩
  | .expr e :: tl, rc, s => by
    unfold bodyStmts BodyStmt.f3L
    dsimp only
    have h1 : Resv (AllowFn (BodyStmt.f3L tl)) (forbidden rc false false s) (fnReturn g resTy e rc (forbidden rc false false s)).1 :=
      resv_fnReturn g resTy e rc _
    generalize fnReturn g resTy e rc (forbidden rc false false s) = q at h1 ⊢
    obtain ⟨s1, r⟩ := q
    exact rv_step rc false false h1 (rv_bodyStmts resTy tl r s1)
  | .ret e :: tl, rc, s => by
    unfold bodyStmts BodyStmt.f3L
    dsimp only
    have h1 : Resv (AllowFn (BodyStmt.f3L tl)) (forbidden rc false false s) (fnReturn g resTy e rc (forbidden rc false false s)).1 :=
      resv_fnReturn g resTy e rc _
    generalize fnReturn g resTy e rc (forbidden rc false false s) = q at h1 ⊢
    obtain ⟨s1, r⟩ := q
    exact rv_step rc false false h1 (rv_bodyStmts resTy tl r s1)

/-- one function, any program: an unresolved jump target is a loop end label of a function that
matches F3 -/
theorem C10_resolved_function (f : FnDecl) : ∀ l ∈ unresolvedTargets (functionBody g f).root.context,
    isLoopEndLabel l = true ∧ f.hasF3 = true := by
  have hres : Resv (AllowFn f.hasF3) St.init (functionBody g f) := by
    unfold functionBody FnDecl.hasF3
    dsimp only
    have h1 : Resv (AllowFn (BodyStmt.f3L f.body)) St.init (initParams f.params St.init) :=
      resv_esteps (esteps_initParams f.params St.init paramInv_init)
    generalize initParams f.params St.init = s1 at h1
    have h2 := h1.trans (rv_bodyStmts g f.result.toTy f.body false s1)
    generalize bodyStmts g f.result.toTy f.body false s1 = q at h2
    obtain ⟨s2, rc⟩ := q
    cases rc
    · exact h2.trans (resv_same rfl)
    · exact h2
  intro l hl
  unfold unresolvedTargets at hl
  rw [List.mem_eraseDups, List.mem_filter] at hl
  have hu : Unres (functionBody g f) l := ⟨hl.1, by simpa using hl.2⟩
  rcases hres.2 l hu with h | h
  · simp [Unres, St.init, Block.fresh, jumpTargets] at h
  · exact h

/-- **C10** — on the model's result the output predicate reports nothing but instances of the
recorded finding F3, for every program: no label is set twice (`C10_unique`), and every jump target
that is not set is the never-set end label of a loop with a loop-level return and a break -/
theorem C10 (p : Program) : ∀ t ∈ P_C10 p (run p), t = "F3:loop-end-label-never-set-after-loop-level-return" := by
  intro t ht
  unfold P_C10 at ht
  split at ht
  · cases ht
  · rw [C10_unique, List.nil_append] at ht
    split at ht
    · rw [List.mem_eraseDups, List.mem_flatMap] at ht
      obtain ⟨⟨⟨f, b⟩, i⟩, hx, ht⟩ := ht
      have hfb := List.fst_mem_of_mem_zipIdx hx
      dsimp only at ht hfb
      rw [List.mem_map] at ht
      obtain ⟨l, hl, rfl⟩ := ht
      -- the root belongs to `f`
      have hr : (run p).roots = p.fnDecls.map fun f => (functionBody (pass2 p (pass1 p GState.init)).globals f).root := by
        unfold run; simp [List.map_map, Function.comp_def, fns_eq_fnDecls p]
      rw [hr, List.zip_map_right] at hfb
      simp only [List.mem_map] at hfb
      obtain ⟨⟨f1, f2⟩, hz, he⟩ := hfb
      have hff : f1 = f2 := by
        have : ∀ (l : List FnDecl) (x : FnDecl × FnDecl), x ∈ l.zip l → x.1 = x.2 := by
          intro l; induction l with
          | nil => intro x hx; simp at hx
          | cons a as ih =>
            intro x hx
            simp only [List.zip_cons_cons, List.mem_cons] at hx
            rcases hx with rfl | hx
            · rfl
            · exact ih x hx
        exact this _ _ hz
      simp only [Prod.map, id, Prod.mk.injEq] at he
      obtain ⟨rfl, rfl⟩ := he
      subst hff
      obtain ⟨h1, h2⟩ := C10_resolved_function _ f1 l hl
      simp [h1, h2]
    · cases ht

/-- the full statement (every target is set) fails on the current tree: finding F3.
`fn m() -> u8 { loop { if true { break } return 1 } return 2 }` jumps to `loop_end`, which is never set -/
theorem C10_full_false :
    unresolvedTargets (run [.fn ⟨['m'], [], .prim .u8,
      [.loop [.ifS (.mk (.single (.mk (.lit (.bool true)) none)) (.loopb [.brk]) none none), .ret (.mk (.lit (.u8 1)) none)],
       .ret (.mk (.lit (.u8 2)) none)]⟩]).roots[0]!.context = ["loop_end".toList] := by decide +kernel

/-- non-vacuity of the resolution clause: with the loop-level return removed the same function has
no unresolved target although it has five labels -/
example :
    (unresolvedTargets (run [.fn ⟨['m'], [], .prim .u8,
      [.loop [.ifS (.mk (.single (.mk (.lit (.bool true)) none)) (.loopb [.brk]) none none)],
       .ret (.mk (.lit (.u8 2)) none)]⟩]).roots[0]!.context,
     (setLabels (run [.fn ⟨['m'], [], .prim .u8,
      [.loop [.ifS (.mk (.single (.mk (.lit (.bool true)) none)) (.loopb [.brk]) none none)],
       .ret (.mk (.lit (.u8 2)) none)]⟩]).roots[0]!.context).length) = ([], 4) := by decide +kernel

end SemVerif
