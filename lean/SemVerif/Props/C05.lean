import SemVerif.Props.C10Res
import SemVerif.Props.C11
import SemVerif.Lemmas.FlowSim
import SemVerif.Lemmas.FlowAna
import SemVerif.Props.T2
/-!
# Property C05 — the instruction stack preserves the program's control flow

Semantics (`Spec/Flow.lean`, DESIGN §3.4): the structured source (`FnDecl.flow`: effect events
numbered in evaluation order, `if`/`else`, `loop`, `break`, `continue`, `return`) is run by
`runList`, the stack by `runJump`, both driven by a sequence of condition outcomes; `agree` says
that they produce the same events in the same order and end the same way (returned / out of
outcomes), with prefix-comparable traces when a step budget runs out on one side.

`C05_partial` (family T4): for every accepted program and every function that matches neither
recorded finding F2 (an `if` that is not the last statement of an if/else body) nor F3 (a loop with a
loop-level return and a break), `agree` holds **for every outcome sequence and every step budget**
— `flowCheck` finds no disagreement for any bound.  `C05`: on such programs the output predicate
reports nothing.  Three parts:
* `Lemmas/FlowSim.lean` (`sim`, `lay_agree`): code laid out according to the syntactic relation
  `Lay` (`Lemmas/FlowLay.lean`), with pairwise distinct set labels, simulates the structured run with
  exact step counts — by induction on the fuel of the structured run and, inside, on the layout
  derivation; fuel monotonicity of the jump program turns that into `agree` for all fuel pairs;
* `Lemmas/FlowAna.lean` (`T4_function`): the analyzer emits laid-out code — mutual structural
  induction over if / else / else-if / loop in continuation-passing style, on top of the T2
  relation (which supplies the success of every evaluation and the number of call events);
* `wf_function`: no jump to an unset label, never past the last instruction
  (`C10_resolved_function`, `C11_function`).
For functions that match F2 or F3 the property is false in general (the findings); there the check
applies the per-instance matchers to the implementation's stack and no theorem is claimed.
-/
namespace SemVerif

theorem findLabel_lt {stack : List Instr} {l : Name} {t : Nat} (h : findLabel stack l = some t) : t < stack.length := by
  unfold findLabel at h
  rw [List.findIdx?_eq_some_iff_getElem] at h
  exact h.1

theorem findLabel_of_set {stack : List Instr} {l : Name} (h : l ∈ setLabels stack) : ∃ t, findLabel stack l = some t := by
  unfold findLabel
  cases hf : stack.findIdx? (fun i => i.setsLabel == some l) with
  | some t => exact ⟨t, rfl⟩
  | none =>
    rw [List.findIdx?_eq_none_iff] at hf
    unfold setLabels at h
    rw [List.mem_filterMap] at h
    obtain ⟨i, hi, hs⟩ := h
    have := hf i hi
    simp [hs] at this

theorem targets_mem {stack : List Instr} {pc : Nat} {i : Instr} (h : stack[pc]? = some i) : ∀ l ∈ i.targets, l ∈ jumpTargets stack := by
  intro l hl
  unfold jumpTargets
  rw [List.mem_flatMap]
  exact ⟨i, List.mem_of_getElem? h, hl⟩

/-- a stack whose targets are all set and whose last instruction is a function return never
jumps to an unset label and never falls off its end -/
theorem runJump_wellformed (stack : List Instr) (hres : ∀ l ∈ jumpTargets stack, l ∈ setLabels stack)
    (hlast : ∃ i, stack.getLast? = some i ∧ i.isFnReturn = true) :
    ∀ (fuel pc : Nat) (os : List Bool) (tr : List Nat), pc < stack.length →
      (runJump stack fuel pc os tr).1 ≠ .badLabel ∧ (runJump stack fuel pc os tr).1 ≠ .fellOff
  | 0, _, _, _, _ => by unfold runJump; exact ⟨by simp, by simp⟩
  | fuel + 1, pc, os, tr, hpc => by
    obtain ⟨li, hli, hlr⟩ := hlast
    have hget : stack[pc]? = some stack[pc] := List.getElem?_eq_getElem hpc
    -- a non-return instruction is not the last one
    have hnext : stack[pc].isFnReturn = false → pc + 1 < stack.length := by
      intro hnr
      rcases Nat.lt_or_ge (pc + 1) stack.length with h | h
      · exact h
      · exfalso
        have hp : pc = stack.length - 1 := by omega
        have : stack.getLast? = some stack[pc] := by
          rw [List.getLast?_eq_getElem?, ← hp]; exact hget
        rw [this] at hli
        injection hli with hli
        rw [hli, hlr] at hnr; cases hnr
    have jump : ∀ l, l ∈ stack[pc].targets → ∃ t, findLabel stack l = some t ∧ t < stack.length := by
      intro l hl
      obtain ⟨t, ht⟩ := findLabel_of_set (hres l (targets_mem hget l hl))
      exact ⟨t, ht, findLabel_lt ht⟩
    unfold runJump
    rw [hget]
    dsimp only
    generalize hi : stack[pc] = i at hnext jump
    cases i with
    | jumpTo l =>
      dsimp only
      obtain ⟨t, ht, hlt⟩ := jump l (by simp [Instr.targets])
      rw [ht]
      exact runJump_wellformed stack hres ⟨li, hli, hlr⟩ fuel t os tr hlt
    | ifCondExpr x b e =>
      dsimp only
      cases os with
      | nil => exact ⟨by simp, by simp⟩
      | cons o os =>
        dsimp only
        obtain ⟨t, ht, hlt⟩ := jump (if o then b else e) (by cases o <;> simp [Instr.targets])
        rw [ht]
        exact runJump_wellformed stack hres ⟨li, hli, hlr⟩ fuel t os tr hlt
    | ifCondLogic b e r =>
      dsimp only
      cases os with
      | nil => exact ⟨by simp, by simp⟩
      | cons o os =>
        dsimp only
        obtain ⟨t, ht, hlt⟩ := jump (if o then b else e) (by cases o <;> simp [Instr.targets])
        rw [ht]
        exact runJump_wellformed stack hres ⟨li, hli, hlr⟩ fuel t os tr hlt
    | fnReturn x => exact ⟨by simp, by simp⟩
    | fnReturnWithLabel x => exact ⟨by simp, by simp⟩
    | jumpFnReturn x => exact ⟨by simp, by simp⟩
    | _ => exact runJump_wellformed stack hres ⟨li, hli, hlr⟩ fuel (pc + 1) os _ (hnext rfl)

/-- **C05 (partial)** — accepted programs, functions outside finding F3: the emitted stack is a
well-formed jump program, for every outcome sequence, fuel and start position -/
theorem C05_jump_program_wellformed (p : Program) (hacc : (run p).accepted = true) :
    ∀ x ∈ p.fnDecls.zip (run p).roots, x.1.hasF3 = false →
      ∀ (fuel pc : Nat) (os : List Bool) (tr : List Nat), pc < x.2.context.length →
        (runJump x.2.context fuel pc os tr).1 ≠ .badLabel ∧ (runJump x.2.context fuel pc os tr).1 ≠ .fellOff := by
  rintro ⟨f, b⟩ hfb hf3
  dsimp only at hf3 ⊢
  have hnp : (run p).panic = none ∧ (run p).errors = [] := by
    unfold Result.accepted at hacc
    simpa [Option.isNone_iff_eq_none, List.isEmpty_iff] using hacc
  have hr : (run p).roots = p.fnDecls.map fun f => (functionBody (pass2 p (pass1 p GState.init)).globals f).root := by
    unfold run; simp [List.map_map, Function.comp_def, fns_eq_fnDecls p]
  rw [hr, List.zip_map_right] at hfb
  simp only [List.mem_map] at hfb
  obtain ⟨⟨f1, f2⟩, hz, he⟩ := hfb
  have hff : f1 = f2 := by
    have : ∀ (l : List FnDecl) (x : FnDecl × FnDecl), x ∈ l.zip l → x.1 = x.2 := by
      intro l; induction l with
      | nil => intro x hx; simp at hx
      | cons a as ih =>
        intro x hx
        simp only [List.zip_cons_cons, List.mem_cons] at hx
        rcases hx with rfl | hx
        · rfl
        · exact ih x hx
    exact this _ _ hz
  simp only [Prod.map, id, Prod.mk.injEq] at he
  obtain ⟨rfl, rfl⟩ := he
  subst hff
  -- no error in this function
  have hfe : (functionBody (pass2 p (pass1 p GState.init)).globals f1).errors = [] := by
    have he := hnp.2
    unfold run at he
    dsimp only at he
    rw [List.append_eq_nil_iff] at he
    have hfl : ∀ x ∈ (p.fns.map (functionBody (pass2 p (pass1 p GState.init)).globals)).map (·.errors), x = [] := by
      intro x hx
      have := he.2
      rw [List.flatten_eq_nil_iff] at this
      exact this x hx
    apply hfl
    rw [List.mem_map]
    refine ⟨functionBody (pass2 p (pass1 p GState.init)).globals f1, ?_, rfl⟩
    rw [List.mem_map]
    exact ⟨f1, by rw [fns_eq_fnDecls]; exact (List.of_mem_zip hz).1, rfl⟩
  apply runJump_wellformed
  · intro l hl
    rcases Classical.em (l ∈ setLabels (functionBody (pass2 p (pass1 p GState.init)).globals f1).root.context) with h | h
    · exact h
    · exfalso
      have hu : l ∈ unresolvedTargets (functionBody (pass2 p (pass1 p GState.init)).globals f1).root.context := by
        unfold unresolvedTargets
        rw [List.mem_eraseDups, List.mem_filter]
        exact ⟨hl, by simpa using h⟩
      have := (C10_resolved_function _ f1 l hu).2
      rw [hf3] at this; cases this
  · have h11 := C11_function (pass2 p (pass1 p GState.init)).globals f1 0 hfe
    unfold P_C11_block at h11
    dsimp only at h11
    rw [List.append_eq_nil_iff] at h11
    have h1 := (List.append_eq_nil_iff.mp (List.append_eq_nil_iff.mp h11.1).1).1
    cases hl : (functionBody (pass2 p (pass1 p GState.init)).globals f1).root.context.getLast? with
    | none => rw [hl] at h1; simp at h1
    | some i =>
      rw [hl] at h1
      refine ⟨i, rfl, ?_⟩
      cases hi : i.isFnReturn with
      | true => rfl
      | false => simp [hi] at h1

/-! ### Agreement with the structured source -/

/-- one function analysed without error, outside F3: its stack is a well-formed jump program -/
theorem wf_function (g : Globals) (f : FnDecl) (he : (functionBody g f).errors = []) (hf3 : f.hasF3 = false) :
    (∀ l ∈ jumpTargets (functionBody g f).root.context, l ∈ setLabels (functionBody g f).root.context) ∧
    (∃ i, (functionBody g f).root.context.getLast? = some i ∧ i.isFnReturn = true) := by
  constructor
  · intro l hl
    rcases Classical.em (l ∈ setLabels (functionBody g f).root.context) with h | h
    · exact h
    · exfalso
      have hu : l ∈ unresolvedTargets (functionBody g f).root.context := by
        unfold unresolvedTargets
        rw [List.mem_eraseDups, List.mem_filter]
        exact ⟨hl, by simpa using h⟩
      have := (C10_resolved_function g f l hu).2
      rw [hf3] at this; cases this
  · have h11 := C11_function g f 0 he
    unfold P_C11_block at h11
    dsimp only at h11
    rw [List.append_eq_nil_iff] at h11
    have h1 := (List.append_eq_nil_iff.mp (List.append_eq_nil_iff.mp h11.1).1).1
    cases hl : (functionBody g f).root.context.getLast? with
    | none => rw [hl] at h1; simp at h1
    | some i =>
      rw [hl] at h1
      refine ⟨i, rfl, ?_⟩
      cases hi : i.isFnReturn with
      | true => rfl
      | false => simp [hi] at h1

/-- **T4** for one function: analysed without error, outside the findings F2 and F3 — the jump
program and the structured source agree for every outcome sequence and every fuel -/
theorem C05_function {g : Globals} {rg : RGlobals} (hg : GlobRel g rg) (hn : GNames g) (f : FnDecl)
    (hok : BodyStmt.anaOKL f.body = true) (hf2 : f.hasF2 = false) (hf3 : f.hasF3 = false)
    (he : (functionBody g f).errors = []) (outcomes : List Bool) (fuel : Nat) :
    agree f.flow (functionBody g f).root.context outcomes fuel = none := by
  obtain ⟨hl, hend⟩ := T4_function hg hn f hok hf2 hf3 he
  obtain ⟨hres, hlast⟩ := wf_function g f he hf3
  have hpos : 0 < (functionBody g f).root.context.length := by
    obtain ⟨i, hi, _⟩ := hlast
    cases hc : (functionBody g f).root.context with
    | nil => rw [hc] at hi; simp at hi
    | cons _ _ => simp
  exact lay_agree _ _ hl (C10_nodup_function g f) hend
    (fun fuel os => runJump_wellformed _ hres hlast fuel 0 os [] hpos) outcomes fuel

theorem flowCheckOn_none (flow : List Flow) (stack : List Instr) (k fuel : Nat)
    (h : ∀ o, agree flow stack o fuel = none) : flowCheckOn flow stack k fuel = none := by
  unfold flowCheckOn
  rw [List.findSome?_eq_none_iff]
  intro o _
  rw [h o]; rfl

/-- **T4 under the F2 reading** for one function analysed without error, outside the finding F3: the
jump program does what the source does *when the statements after a nested `if` in an if / else body
are dead* — for every outcome sequence and every fuel.  For a function without the F2 pattern this
is `C05_function`. -/
theorem C05F2_function {g : Globals} {rg : RGlobals} (hg : GlobRel g rg) (hn : GNames g) (f : FnDecl)
    (hok : BodyStmt.anaOKL f.body = true) (hf3 : f.hasF3 = false)
    (he : (functionBody g f).errors = []) (outcomes : List Bool) (fuel : Nat) :
    agree f.flowF2 (functionBody g f).root.context outcomes fuel = none := by
  obtain ⟨hl, hend⟩ := T4F2_function hg hn f hok hf3 he
  obtain ⟨hres, hlast⟩ := wf_function g f he hf3
  have hpos : 0 < (functionBody g f).root.context.length := by
    obtain ⟨i, hi, _⟩ := hlast
    cases hc : (functionBody g f).root.context with
    | nil => rw [hc] at hi; simp at hi
    | cons _ _ => simp
  exact lay_agree _ _ hl (C10_nodup_function g f) hend
    (fun fuel os => runJump_wellformed _ hres hlast fuel 0 os [] hpos) outcomes fuel

/-- lifting a per-function agreement to every function stack of an accepted program -/
theorem C05_lift (p : Program) (hacc : (run p).accepted = true) (flowOf : FnDecl → List Flow) (P : FnDecl → Prop)
    (hfn : ∀ (f : FnDecl), BodyStmt.anaOKL f.body = true → P f →
      (functionBody (pass2 p (pass1 p GState.init)).globals f).errors = [] → ∀ (o : List Bool) (fuel : Nat),
      agree (flowOf f) (functionBody (pass2 p (pass1 p GState.init)).globals f).root.context o fuel = none) :
    ∀ x ∈ p.fnDecls.zip (run p).roots, P x.1 →
      ∀ (k fuel : Nat), flowCheckOn (flowOf x.1) x.2.context k fuel = none := by
  rintro ⟨f, b⟩ hfb hP k fuel
  dsimp only at hP ⊢
  have hnp : (run p).panic = none ∧ (run p).errors = [] := by
    unfold Result.accepted at hacc
    simpa [Option.isNone_iff_eq_none, List.isEmpty_iff] using hacc
  have hok := anaOK_of_no_panic p hnp.1
  have hr : (run p).roots = p.fnDecls.map fun f => (functionBody (pass2 p (pass1 p GState.init)).globals f).root := by
    unfold run; simp [List.map_map, Function.comp_def, fns_eq_fnDecls p]
  rw [hr, List.zip_map_right] at hfb
  simp only [List.mem_map] at hfb
  obtain ⟨⟨f1, f2⟩, hz, he⟩ := hfb
  have hff : f1 = f2 := by
    have : ∀ (l : List FnDecl) (x : FnDecl × FnDecl), x ∈ l.zip l → x.1 = x.2 := by
      intro l; induction l with
      | nil => intro x hx; simp at hx
      | cons a as ih =>
        intro x hx
        simp only [List.zip_cons_cons, List.mem_cons] at hx
        rcases hx with rfl | hx
        · rfl
        · exact ih x hx
    exact this _ _ hz
  simp only [Prod.map, id, Prod.mk.injEq] at he
  obtain ⟨rfl, rfl⟩ := he
  subst hff
  have hmem : f1 ∈ p.fnDecls := (List.of_mem_zip hz).1
  have hfe : (functionBody (pass2 p (pass1 p GState.init)).globals f1).errors = [] := by
    have he := hnp.2
    unfold run at he
    dsimp only at he
    rw [List.append_eq_nil_iff] at he
    have := he.2
    rw [List.flatten_eq_nil_iff] at this
    apply this
    rw [List.mem_map]
    refine ⟨functionBody (pass2 p (pass1 p GState.init)).globals f1, ?_, rfl⟩
    rw [List.mem_map]
    exact ⟨f1, by rw [fns_eq_fnDecls]; exact hmem, rfl⟩
  unfold AnaOKB at hok
  rw [List.all_eq_true] at hok
  exact flowCheckOn_none _ _ _ _ (fun o => hfn f1 (hok f1 hmem) hP hfe o fuel)

/-- **C05 (outside the findings F2 and F3)** — for every accepted program and every function that
matches neither finding, the emitted stack, run as a jump program, does what the structured source
does: for every sequence of condition outcomes and every step budget, the same effects in the same
order and the same kind of end (`agree`), hence `flowCheck` finds no disagreement for any bound -/
theorem C05_partial (p : Program) (hacc : (run p).accepted = true) :
    ∀ x ∈ p.fnDecls.zip (run p).roots, x.1.hasF2 = false → x.1.hasF3 = false →
      ∀ (k fuel : Nat), flowCheck x.1 x.2.context k fuel = none := by
  intro x hx hf2 hf3 k fuel
  have hrel := rel_run p
  exact C05_lift p hacc FnDecl.flow (fun f => f.hasF2 = false ∧ f.hasF3 = false)
    (fun f hok hP he o fuel => C05_function (globRel_of_rel hrel) (gnames_of_rel hrel) f hok hP.1 hP.2 he o fuel)
    x hx ⟨hf2, hf3⟩ k fuel

/-- **the finding F2 is exactly what it is recorded as** — for every accepted program and every
function that does not match F3 (it may match F2), the emitted stack agrees with the source *under
the F2 reading* for every outcome sequence and every step budget: whatever an F2 function does
differently from its source is the skipping of the statements after a nested `if`, nothing else.
This is the matcher the check applies to the implementation's stacks (`flowCheckF2`). -/
theorem C05F2_partial (p : Program) (hacc : (run p).accepted = true) :
    ∀ x ∈ p.fnDecls.zip (run p).roots, x.1.hasF3 = false →
      ∀ (k fuel : Nat), flowCheckF2 x.1 x.2.context k fuel = none := by
  intro x hx hf3 k fuel
  have hrel := rel_run p
  exact C05_lift p hacc FnDecl.flowF2 (fun f => f.hasF3 = false)
    (fun f hok hP he o fuel => C05F2_function (globRel_of_rel hrel) (gnames_of_rel hrel) f hok hP he o fuel)
    x hx hf3 k fuel

/-- a program none of whose functions matches F2 or F3: the output predicate reports nothing -/
theorem C05 (p : Program) (h23 : ∀ f ∈ p.fnDecls, f.hasF2 = false ∧ f.hasF3 = false) : P_C05 p (run p) = [] := by
  unfold P_C05
  split
  · rfl
  · rename_i hacc
    have ha : (run p).accepted = true := by
      cases hx : acceptedWF p (run p) with
      | true => unfold acceptedWF at hx; simp only [Bool.and_eq_true] at hx; exact hx.1
      | false => rw [hx] at hacc; simp at hacc
    have hall := C05_partial p ha
    rw [List.eq_nil_iff_forall_not_mem]
    intro t ht
    rw [List.mem_eraseDups, List.mem_flatMap] at ht
    obtain ⟨⟨⟨f, b⟩, i⟩, hx, ht⟩ := ht
    have hfb := List.fst_mem_of_mem_zipIdx hx
    have h2 := h23 f (List.of_mem_zip hfb).1
    dsimp only at ht
    rw [hall (f, b) hfb h2.1 h2.2] at ht
    cases ht

/-- a program none of whose functions matches F3: the output predicate reports nothing but instances
of the recorded finding F2 -/
theorem C05_upto_F2 (p : Program) (h3 : ∀ f ∈ p.fnDecls, f.hasF3 = false) :
    ∀ t ∈ P_C05 p (run p), t = "F2:nested-if-in-if-body-reuses-the-enclosing-end-label" := by
  unfold P_C05
  split
  · intro t ht; cases ht
  · rename_i hacc
    have ha : (run p).accepted = true := by
      cases hx : acceptedWF p (run p) with
      | true => unfold acceptedWF at hx; simp only [Bool.and_eq_true] at hx; exact hx.1
      | false => rw [hx] at hacc; simp at hacc
    have hall := C05_partial p ha
    have hallF2 := C05F2_partial p ha
    intro t ht
    rw [List.mem_eraseDups, List.mem_flatMap] at ht
    obtain ⟨⟨⟨f, b⟩, i⟩, hx, ht⟩ := ht
    have hfb := List.fst_mem_of_mem_zipIdx hx
    have hf3 := h3 f (List.of_mem_zip hfb).1
    dsimp only at ht
    cases hfc : flowCheck f b.context c05Outcomes c05Fuel with
    | none => rw [hfc] at ht; cases ht
    | some why =>
      rw [hfc] at ht
      dsimp only at ht
      have hF2none := hallF2 (f, b) hfb hf3 c05Outcomes c05Fuel
      dsimp only at hF2none
      cases hf2 : f.hasF2 with
      | false =>
        have := hall (f, b) hfb hf2 hf3 c05Outcomes c05Fuel
        dsimp only at this
        rw [this] at hfc; cases hfc
      | true =>
        rw [hf2, hF2none] at ht
        simp at ht
        exact ht

/-- non-vacuity of the F2 reading: `if c { if d { g(1) } g(2) }` — accepted, matches F2 and not F3,
and the F2 reading differs from the source (it drops the call after the nested `if`) -/
def exampleF2 : Program :=
  [.fn ⟨['g'], [(['a'], .prim .u8)], .prim .u8, [.ret (.mk (.var ['a']) none)]⟩,
   .fn ⟨['m'], [], .prim .u8,
      [.ifS (.mk (.single (.mk (.lit (.bool true)) none))
          (.ifb [.ifS (.mk (.single (.mk (.lit (.bool false)) none)) (.ifb [.call ⟨['g'], [.mk (.lit (.u8 1)) none]⟩]) none none),
                 .call ⟨['g'], [.mk (.lit (.u8 2)) none]⟩]) none none),
       .ret (.mk (.lit (.u8 0)) none)]⟩]

mutual
def Flow.nodes : Flow → Nat
  | .ite t e => 1 + Flow.nodesL t + Flow.nodesL e
  | .loop b => 1 + Flow.nodesL b
  | _ => 1
def Flow.nodesL : List Flow → Nat
  | [] => 0
  | x :: xs => Flow.nodes x + Flow.nodesL xs
end

example : (run exampleF2).accepted = true ∧
    (exampleF2.fnDecls.map fun f => (f.hasF2, f.hasF3, Flow.nodesL f.flow, Flow.nodesL f.flowF2)) =
      [(false, false, 1, 1), (true, false, 5, 4)] := by
  constructor <;> decide +kernel

/-- non-vacuity: a function with a loop, a break in a nested if, an if / else and a call is accepted,
matches neither finding, and its flow is not trivial -/
def exampleFlow : Program :=
  [.fn ⟨['g'], [(['a'], .prim .u8)], .prim .u8, [.ret (.mk (.var ['a']) none)]⟩,
   .fn ⟨['m'], [(['x'], .prim .u8)], .prim .u8,
      [.letB ⟨['y'], true, none, .mk (.lit (.u8 0)) none⟩,
       .loop [.ifS (.mk (.single (.mk (.lit (.bool true)) none)) (.loopb [.brk]) none none),
              .bind ⟨['y'], .mk (.call ['g'] [.mk (.var ['y']) none]) none⟩],
       .ifS (.mk (.single (.mk (.lit (.bool false)) none))
          (.ifb [.bind ⟨['y'], .mk (.lit (.u8 1)) none⟩])
          (some (.ifb [.bind ⟨['y'], .mk (.lit (.u8 2)) none⟩])) none),
       .ret (.mk (.var ['y']) none)]⟩]

example : (run exampleFlow).accepted = true ∧ (exampleFlow.fnDecls.map fun f => (f.hasF2, f.hasF3, f.flow.length)) =
    [(false, false, 1), (false, false, 4)] := by
  constructor <;> decide +kernel

end SemVerif
