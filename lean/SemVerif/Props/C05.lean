import SemVerif.Props.C10Res
import SemVerif.Props.C11
/-!
# Property C05 — the instruction stack preserves the program's control flow (partial)

The agreement of the jump program with the structured source for every outcome sequence
(`Spec/Flow.lean`, DESIGN §3.4) is decided on the implementation by the correspondence run
(predicate `P_C05`: both interpreters on every generated function, all outcome strings up to a
bound); the simulation theorem between the two interpreters is not written.

What *is* proved here, for every accepted program and every function that does not match the
recorded finding F3 — `C05_jump_program_wellformed`: the emitted stack is a well-formed jump program:
for every outcome sequence, every fuel and every start position inside the stack, execution never
jumps to a label that is not set (`badLabel`) and never runs past the last instruction (`fellOff`).
These are the first two clauses of `agree`.  From `C10_resolved_function` (every target is set,
mutual structural induction over the control constructs) and `C11_function` (the last instruction
of an accepted function is a function return).
-/
namespace SemVerif

theorem findLabel_lt {stack : List Instr} {l : Name} {t : Nat} (h : findLabel stack l = some t) : t < stack.length := by
  unfold findLabel at h
  rw [List.findIdx?_eq_some_iff_getElem] at h
  exact h.1

theorem findLabel_of_set {stack : List Instr} {l : Name} (h : l ∈ setLabels stack) : ∃ t, findLabel stack l = some t := by
  unfold findLabel
  cases hf : stack.findIdx? (fun i => i.setsLabel == some l) with
  | some t => exact ⟨t, rfl⟩
  | none =>
    rw [List.findIdx?_eq_none_iff] at hf
    unfold setLabels at h
    rw [List.mem_filterMap] at h
    obtain ⟨i, hi, hs⟩ := h
    have := hf i hi
    simp [hs] at this

theorem targets_mem {stack : List Instr} {pc : Nat} {i : Instr} (h : stack[pc]? = some i) : ∀ l ∈ i.targets, l ∈ jumpTargets stack := by
  intro l hl
  unfold jumpTargets
  rw [List.mem_flatMap]
  exact ⟨i, List.mem_of_getElem? h, hl⟩

/-- a stack whose targets are all set and whose last instruction is a function return never
jumps to an unset label and never falls off its end -/
theorem runJump_wellformed (stack : List Instr) (hres : ∀ l ∈ jumpTargets stack, l ∈ setLabels stack)
    (hlast : ∃ i, stack.getLast? = some i ∧ i.isFnReturn = true) :
    ∀ (fuel pc : Nat) (os : List Bool) (tr : List Nat), pc < stack.length →
      (runJump stack fuel pc os tr).1 ≠ .badLabel ∧ (runJump stack fuel pc os tr).1 ≠ .fellOff
  | 0, _, _, _, _ => by unfold runJump; exact ⟨by simp, by simp⟩
  | fuel + 1, pc, os, tr, hpc => by
    obtain ⟨li, hli, hlr⟩ := hlast
    have hget : stack[pc]? = some stack[pc] := List.getElem?_eq_getElem hpc
    -- a non-return instruction is not the last one
    have hnext : stack[pc].isFnReturn = false → pc + 1 < stack.length := by
      intro hnr
      rcases Nat.lt_or_ge (pc + 1) stack.length with h | h
      · exact h
      · exfalso
        have hp : pc = stack.length - 1 := by omega
        have : stack.getLast? = some stack[pc] := by
          rw [List.getLast?_eq_getElem?, ← hp]; exact hget
        rw [this] at hli
        injection hli with hli
        rw [hli, hlr] at hnr; cases hnr
    have jump : ∀ l, l ∈ stack[pc].targets → ∃ t, findLabel stack l = some t ∧ t < stack.length := by
      intro l hl
      obtain ⟨t, ht⟩ := findLabel_of_set (hres l (targets_mem hget l hl))
      exact ⟨t, ht, findLabel_lt ht⟩
    unfold runJump
    rw [hget]
    dsimp only
    generalize hi : stack[pc] = i at hnext jump
    cases i with
    | jumpTo l =>
      dsimp only
      obtain ⟨t, ht, hlt⟩ := jump l (by simp [Instr.targets])
      rw [ht]
      exact runJump_wellformed stack hres ⟨li, hli, hlr⟩ fuel t os tr hlt
    | ifCondExpr x b e =>
      dsimp only
      cases os with
      | nil => exact ⟨by simp, by simp⟩
      | cons o os =>
        dsimp only
        obtain ⟨t, ht, hlt⟩ := jump (if o then b else e) (by cases o <;> simp [Instr.targets])
        rw [ht]
        exact runJump_wellformed stack hres ⟨li, hli, hlr⟩ fuel t os tr hlt
    | ifCondLogic b e r =>
      dsimp only
      cases os with
      | nil => exact ⟨by simp, by simp⟩
      | cons o os =>
        dsimp only
        obtain ⟨t, ht, hlt⟩ := jump (if o then b else e) (by cases o <;> simp [Instr.targets])
        rw [ht]
        exact runJump_wellformed stack hres ⟨li, hli, hlr⟩ fuel t os tr hlt
    | fnReturn x => exact ⟨by simp, by simp⟩
    | fnReturnWithLabel x => exact ⟨by simp, by simp⟩
    | jumpFnReturn x => exact ⟨by simp, by simp⟩
    | _ => exact runJump_wellformed stack hres ⟨li, hli, hlr⟩ fuel (pc + 1) os _ (hnext rfl)

/-- **C05 (partial)** — accepted programs, functions outside finding F3: the emitted stack is a
well-formed jump program, for every outcome sequence, fuel and start position -/
theorem C05_jump_program_wellformed (p : Program) (hacc : (run p).accepted = true) :
    ∀ x ∈ p.fnDecls.zip (run p).roots, x.1.hasF3 = false →
      ∀ (fuel pc : Nat) (os : List Bool) (tr : List Nat), pc < x.2.context.length →
        (runJump x.2.context fuel pc os tr).1 ≠ .badLabel ∧ (runJump x.2.context fuel pc os tr).1 ≠ .fellOff := by
  rintro ⟨f, b⟩ hfb hf3
  dsimp only at hf3 ⊢
  have hnp : (run p).panic = none ∧ (run p).errors = [] := by
    unfold Result.accepted at hacc
    simpa [Option.isNone_iff_eq_none, List.isEmpty_iff] using hacc
  have hr : (run p).roots = p.fnDecls.map fun f => (functionBody (pass2 p (pass1 p GState.init)).globals f).root := by
    unfold run; simp [List.map_map, Function.comp_def, fns_eq_fnDecls p]
  rw [hr, List.zip_map_right] at hfb
  simp only [List.mem_map] at hfb
  obtain ⟨⟨f1, f2⟩, hz, he⟩ := hfb
  have hff : f1 = f2 := by
    have : ∀ (l : List FnDecl) (x : FnDecl × FnDecl), x ∈ l.zip l → x.1 = x.2 := by
      intro l; induction l with
      | nil => intro x hx; simp at hx
      | cons a as ih =>
        intro x hx
        simp only [List.zip_cons_cons, List.mem_cons] at hx
        rcases hx with rfl | hx
        · rfl
        · exact ih x hx
    exact this _ _ hz
  simp only [Prod.map, id, Prod.mk.injEq] at he
  obtain ⟨rfl, rfl⟩ := he
  subst hff
  -- no error in this function
  have hfe : (functionBody (pass2 p (pass1 p GState.init)).globals f1).errors = [] := by
    have he := hnp.2
    unfold run at he
    dsimp only at he
    rw [List.append_eq_nil_iff] at he
    have hfl : ∀ x ∈ (p.fns.map (functionBody (pass2 p (pass1 p GState.init)).globals)).map (·.errors), x = [] := by
      intro x hx
      have := he.2
      rw [List.flatten_eq_nil_iff] at this
      exact this x hx
    apply hfl
    rw [List.mem_map]
    refine ⟨functionBody (pass2 p (pass1 p GState.init)).globals f1, ?_, rfl⟩
    rw [List.mem_map]
    exact ⟨f1, by rw [fns_eq_fnDecls]; exact (List.of_mem_zip hz).1, rfl⟩
  apply runJump_wellformed
  · intro l hl
    rcases Classical.em (l ∈ setLabels (functionBody (pass2 p (pass1 p GState.init)).globals f1).root.context) with h | h
    · exact h
    · exfalso
      have hu : l ∈ unresolvedTargets (functionBody (pass2 p (pass1 p GState.init)).globals f1).root.context := by
        unfold unresolvedTargets
        rw [List.mem_eraseDups, List.mem_filter]
        exact ⟨hl, by simpa using h⟩
      have := (C10_resolved_function _ f1 l hu).2
      rw [hf3] at this; cases this
  · have h11 := C11_function (pass2 p (pass1 p GState.init)).globals f1 0 hfe
    unfold P_C11_block at h11
    dsimp only at h11
    rw [List.append_eq_nil_iff] at h11
    have h1 := (List.append_eq_nil_iff.mp (List.append_eq_nil_iff.mp h11.1).1).1
    cases hl : (functionBody (pass2 p (pass1 p GState.init)).globals f1).root.context.getLast? with
    | none => rw [hl] at h1; simp at h1
    | some i =>
      rw [hl] at h1
      refine ⟨i, rfl, ?_⟩
      cases hi : i.isFnReturn with
      | true => rfl
      | false => simp [hi] at h1

end SemVerif
