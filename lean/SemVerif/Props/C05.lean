import SemVerif.Spec.Preds
import SemVerif.Inventory
/-! # Property C05 — theorems (under construction) -/
namespace SemVerif
end SemVerif
