import SemVerif.Spec.Preds
import SemVerif.Inventory
/-! # Property C18 — theorems (under construction) -/
namespace SemVerif
end SemVerif
