import SemVerif.Spec.Preds
import SemVerif.Inventory
import SemVerif.Lemmas.StmtSteps
import SemVerif.Lemmas.Misc
import SemVerif.Lemmas.Frames
/-!
# Property C18 — the block-state tree mirrors the source nesting

For every program and every function:
* `C18_subseq`: every block's own stack is an order-preserving subsequence of its parent's,
  recursively (invariant over primitive steps: every push goes to the current block and all its
  ancestors, a finished block is appended to its parent, the only later write goes through
  `pushVia` to that child and all live blocks);
* `C18_shape`: the root block has one child per if-body, else-body, else-if-body and loop-body of
  the function body, in source order, recursively (mutual structural induction over the control
  constructs, on the stack of per-block child-shape lists);
* parent links: the model's tree has them by construction; the harness checks `Rc::ptr_eq` on the
  implementation and the dump carries the verdict.
The value-table half (accepted well-formed programs) is decided by the correspondence run only.
-/
namespace SemVerif

theorem isSubseq_iff (a b : List Instr) : isSubseq a b = true ↔ a.Sublist b := by
  induction b generalizing a with
  | nil =>
    cases a with
    | nil => simp [isSubseq]
    | cons x xs => simp [isSubseq]
  | cons y ys ih =>
    cases a with
    | nil => simp [isSubseq]
    | cons x xs =>
      unfold isSubseq
      by_cases h : x = y
      · subst h
        simp only [if_true]
        rw [ih]
        constructor
        · intro hs; exact hs.cons₂ x
        · intro hs; exact (List.cons_sublist_cons.mp hs)
      · simp only [h, if_false]
        rw [ih]
        constructor
        · intro hs; exact hs.cons y
        · intro hs
          cases hs with
          | cons _ h' => exact h'
          | cons_cons _ h' => exact absurd rfl h

theorem isSubseq_push {a b : List Instr} (i : Instr) (h : isSubseq a b = true) : isSubseq (a ++ [i]) (b ++ [i]) = true := by
  rw [isSubseq_iff] at *; exact List.Sublist.append h (List.Sublist.refl _)

theorem isSubseq_right {a b : List Instr} (i : Instr) (h : isSubseq a b = true) : isSubseq a (b ++ [i]) = true := by
  rw [isSubseq_iff] at *; exact h.trans (List.sublist_append_left _ _)

theorem isSubseq_nil (b : List Instr) : isSubseq [] b = true := by cases b <;> rfl

theorem subseqOkL_right (ctx : List Instr) (i : Instr) : ∀ (cs : List Block),
    Block.subseqOkL ctx cs = true → Block.subseqOkL (ctx ++ [i]) cs = true
  | [], _ => by unfold Block.subseqOkL; rfl
  | c :: cs, h => by
    unfold Block.subseqOkL at h ⊢
    simp only [Bool.and_eq_true] at h ⊢
    exact ⟨⟨isSubseq_right i h.1.1, h.1.2⟩, subseqOkL_right ctx i cs h.2⟩

theorem subseqOk_def (b : Block) : b.subseqOk = Block.subseqOkL b.context b.children := by
  cases b; unfold Block.subseqOk; rfl

/-- a block with one more instruction at the end of its stack -/
theorem subseqOk_push (b : Block) (i : Instr) (h : b.subseqOk = true) :
    ({ b with context := b.context ++ [i] } : Block).subseqOk = true := by
  rw [subseqOk_def] at h ⊢
  exact subseqOkL_right _ _ _ h

/-- live chain: every live block's stack is a subsequence of the next outer one's -/
def chainOk : List Block → Bool
  | [] => true
  | [_] => true
  | a :: b :: rest => isSubseq a.context b.context && chainOk (b :: rest)

structure SubInv (s : St) : Prop where
  trees : ∀ b ∈ s.frames, b.subseqOk = true
  chain : chainOk s.frames = true

theorem subInv_init : SubInv St.init := by
  refine ⟨?_, ?_⟩
  · intro b hb; simp [St.frames, St.init] at hb; subst hb; rfl
  · rfl

theorem chainOk_map_push (i : Instr) : ∀ (l : List Block), chainOk l = true →
    chainOk (l.map fun b => { b with context := b.context ++ [i] }) = true
  | [], _ => rfl
  | [_], _ => rfl
  | a :: b :: rest, h => by
    unfold chainOk at h
    simp only [Bool.and_eq_true] at h
    simp only [List.map_cons]
    unfold chainOk
    simp only [Bool.and_eq_true]
    exact ⟨isSubseq_push i h.1, by have := chainOk_map_push i (b :: rest) h.2; simpa using this⟩

theorem subInv_push {s : St} (h : SubInv s) (i : Instr) : SubInv (s.push i) := by
  refine ⟨?_, ?_⟩
  · intro b hb
    unfold St.push at hb
    rw [frames_mapFrames] at hb
    simp at hb
    obtain ⟨b', hb', rfl⟩ := hb
    exact subseqOk_push b' i (h.trees b' hb')
  · unfold St.push; rw [frames_mapFrames]; exact chainOk_map_push i _ h.chain

/-- maps that keep stack and children keep the invariant -/
theorem subseqOk_congr (b b' : Block) (h1 : b'.context = b.context) (h2 : b'.children = b.children) :
    b'.subseqOk = b.subseqOk := by
  rw [subseqOk_def, subseqOk_def, h1, h2]

theorem chainOk_congr : ∀ (l l' : List Block), l'.map (·.context) = l.map (·.context) → chainOk l' = chainOk l
  | [], [], _ => rfl
  | [], _ :: _, h => by simp at h
  | _ :: _, [], h => by simp at h
  | [a], [a'], _ => rfl
  | [a], _ :: _ :: _, h => by simp at h
  | _ :: _ :: _, [a'], h => by simp at h
  | a :: b :: rest, a' :: b' :: rest', h => by
    simp only [List.map_cons, List.cons.injEq] at h
    unfold chainOk
    rw [h.1, h.2.1, chainOk_congr (b :: rest) (b' :: rest') (by simp [h.2.1, h.2.2])]

theorem subInv_mapFrames {s : St} (f : Block → Block) (hf : ∀ b, (f b).context = b.context ∧ (f b).children = b.children)
    (h : SubInv s) : SubInv (s.mapFrames f) := by
  refine ⟨?_, ?_⟩
  · intro b hb
    rw [frames_mapFrames] at hb
    simp at hb
    obtain ⟨b', hb', rfl⟩ := hb
    rw [subseqOk_congr b' (f b') (hf b').1 (hf b').2]; exact h.trees b' hb'
  · rw [frames_mapFrames, chainOk_congr s.frames (s.frames.map f) (by simp [List.map_map, Function.comp_def, hf])]
    exact h.chain

theorem subInv_same {s s' : St} (hf : s'.frames = s.frames) (h : SubInv s) : SubInv s' :=
  ⟨by rw [hf]; exact h.trees, by rw [hf]; exact h.chain⟩

theorem subInv_mapCur {s : St} (f : Block → Block) (hf : ∀ b, (f b).context = b.context ∧ (f b).children = b.children)
    (h : SubInv s) : SubInv (s.mapCur f) := by
  refine ⟨?_, ?_⟩
  · intro b hb
    rw [frames_mapCur] at hb
    cases hfr : s.frames with
    | nil => rw [hfr] at hb; cases hb
    | cons b0 rest =>
      rw [hfr] at hb; simp at hb
      rcases hb with rfl | hb
      · rw [subseqOk_congr b0 (f b0) (hf b0).1 (hf b0).2]; exact h.trees b0 (by simp [hfr])
      · exact h.trees b (by simp [hfr, hb])
  · rw [frames_mapCur]
    cases hfr : s.frames with
    | nil => rfl
    | cons b0 rest =>
      dsimp only
      rw [chainOk_congr (b0 :: rest) (f b0 :: rest) (by simp [(hf b0).1])]
      rw [← hfr]; exact h.chain

/-- the invariant only looks at the stacks and children of the live blocks -/
theorem subInv_of_cc {s s' : St} (hcc : s'.frames.map (fun b => (b.context, b.children)) = s.frames.map (fun b => (b.context, b.children)))
    (h : SubInv s) : SubInv s' := by
  have hlen : s'.frames.length = s.frames.length := by simpa using congrArg List.length hcc
  refine ⟨?_, ?_⟩
  · intro b hb
    obtain ⟨k, hk, rfl⟩ := List.getElem_of_mem hb
    have hk' : k < s.frames.length := by omega
    have := congrArg (fun l => l[k]?) hcc
    simp only [List.getElem?_map, List.getElem?_eq_getElem hk, List.getElem?_eq_getElem hk', Option.map_some, Option.some.injEq, Prod.mk.injEq] at this
    rw [subseqOk_congr (s.frames[k]) (s'.frames[k]) this.1 this.2]
    exact h.trees _ (List.getElem_mem hk')
  · rw [chainOk_congr s.frames s'.frames (by
      have := congrArg (List.map Prod.fst) hcc
      simpa [List.map_map, Function.comp_def] using this)]
    exact h.chain

theorem subInv_estep {s s' : St} (h : SubInv s) (st : EStep s s') : SubInv s' := by
  cases st with
  | incReg => exact subInv_of_cc (by unfold St.incReg; rw [frames_mapFrames]; simp [List.map_map, Function.comp_def]) h
  | emit i _ _ _ _ => exact subInv_push h i
  | incEmit i _ _ _ _ =>
    exact subInv_push (subInv_of_cc (by unfold St.incReg; rw [frames_mapFrames]; simp [List.map_map, Function.comp_def]) h) i
  | addErr k v l o => exact subInv_of_cc (s := s) rfl h
  | declare n v i _ _ _ _ _ =>
    apply subInv_push
    apply subInv_of_cc _ h
    unfold St.registerInner St.insertValue
    rw [frames_mapFrames, frames_mapCur]
    cases hfr : s.frames with
    | nil => rfl
    | cons b0 rest => simp [List.map_map, Function.comp_def]

theorem subseqOkL_append (ctx : List Instr) (b : Block) (hb1 : isSubseq b.context ctx = true) (hb2 : b.subseqOk = true) :
    ∀ (cs : List Block), Block.subseqOkL ctx cs = true → Block.subseqOkL ctx (cs ++ [b]) = true
  | [], _ => by
    simp only [List.nil_append]
    unfold Block.subseqOkL
    simp only [Bool.and_eq_true]
    exact ⟨⟨hb1, hb2⟩, by unfold Block.subseqOkL; rfl⟩
  | c :: cs, h => by
    simp only [List.cons_append]
    unfold Block.subseqOkL at h ⊢
    simp only [Bool.and_eq_true] at h ⊢
    exact ⟨h.1, subseqOkL_append ctx b hb1 hb2 cs h.2⟩

theorem subseqOkL_via (ctx : List Instr) (i : Instr) : ∀ (k : Nat) (cs : List Block), Block.subseqOkL ctx cs = true →
    Block.subseqOkL (ctx ++ [i]) (modifyNth (fun c => { c with context := c.context ++ [i] }) k cs) = true
  | _, [], _ => by unfold modifyNth Block.subseqOkL; rfl
  | 0, c :: cs, h => by
    unfold modifyNth
    unfold Block.subseqOkL at h ⊢
    simp only [Bool.and_eq_true] at h ⊢
    exact ⟨⟨isSubseq_push i h.1.1, subseqOk_push c i h.1.2⟩, subseqOkL_right ctx i cs h.2⟩
  | k + 1, c :: cs, h => by
    unfold modifyNth
    unfold Block.subseqOkL at h ⊢
    simp only [Bool.and_eq_true] at h ⊢
    exact ⟨⟨isSubseq_right i h.1.1, h.1.2⟩, subseqOkL_via ctx i k cs h.2⟩

theorem subInv_step {s s' : St} (h : SubInv s) (st : Step s s') : SubInv s' := by
  cases st with
  | e he => exact subInv_estep h he
  | enter =>
    refine ⟨?_, ?_⟩
    · intro b hb
      rw [frames_enter] at hb
      simp at hb
      rcases hb with rfl | hb
      · rfl
      · exact h.trees b (by simpa [St.frames] using hb)
    · rw [frames_enter]
      cases hfr : s.frames with
      | nil => rfl
      | cons b0 rest =>
        unfold chainOk
        simp only [Bool.and_eq_true]
        exact ⟨isSubseq_nil _, by rw [← hfr]; exact h.chain⟩
  | leave =>
    unfold St.leave
    cases hi : s.inner with
    | nil => simpa [hi] using h
    | cons b rest =>
      have hb : b.subseqOk = true := h.trees b (by simp [St.frames, hi])
      have hch := h.chain
      simp only [St.frames, hi] at hch
      cases rest with
      | nil =>
        simp only [List.cons_append, List.nil_append] at hch
        unfold chainOk at hch
        simp only [Bool.and_eq_true] at hch
        refine ⟨?_, rfl⟩
        intro x hx
        simp [St.frames] at hx
        subst hx
        have hr : s.root.subseqOk = true := h.trees s.root (by simp [St.frames])
        rw [subseqOk_def] at hr ⊢
        show Block.subseqOkL s.root.context (s.root.children ++ [b]) = true
        exact subseqOkL_append _ b hch.1 hb _ hr
      | cons p rest' =>
        simp only [List.cons_append] at hch
        unfold chainOk at hch
        simp only [Bool.and_eq_true] at hch
        have hp : p.subseqOk = true := h.trees p (by simp [St.frames, hi])
        refine ⟨?_, ?_⟩
        · intro x hx
          simp [St.frames] at hx
          rcases hx with rfl | hx | rfl
          · rw [subseqOk_def] at hp ⊢
            exact subseqOkL_append _ b hch.1 hb _ hp
          · exact h.trees x (by simp [St.frames, hi, hx])
          · exact h.trees s.root (by simp [St.frames])
        · show chainOk (({ p with children := p.children ++ [b] } :: rest') ++ [s.root]) = true
          rw [chainOk_congr ((p :: rest') ++ [s.root]) (({ p with children := p.children ++ [b] } :: rest') ++ [s.root]) (by simp)]
          exact hch.2
  | regLabel l _ => exact subInv_of_cc (by rw [frames_mapFrames]; simp [List.map_map, Function.comp_def]) h
  | ctl i _ _ _ => exact subInv_push h i
  | emitRet i _ _ _ _ _ => exact subInv_push h i
  | ctlVia k i _ _ _ =>
    unfold St.pushVia St.push
    refine ⟨?_, ?_⟩
    · intro x hx
      rw [frames_mapFrames, frames_mapCur] at hx
      cases hfr : s.frames with
      | nil => exact absurd hfr (frames_ne_nil s)
      | cons b0 rest =>
        rw [hfr] at hx
        simp at hx
        rcases hx with rfl | ⟨b', hb', rfl⟩
        · have h0 := h.trees b0 (by simp [hfr])
          rw [subseqOk_def] at h0 ⊢
          exact subseqOkL_via _ i k _ h0
        · exact subseqOk_push b' i (h.trees b' (by simp [hfr, hb']))
    · rw [frames_mapFrames, frames_mapCur]
      cases hfr : s.frames with
      | nil => rfl
      | cons b0 rest =>
        dsimp only
        have := chainOk_map_push i (b0 :: rest) (by rw [← hfr]; exact h.chain)
        rw [chainOk_congr ((b0 :: rest).map fun b => { b with context := b.context ++ [i] }) _
          (by simp [List.map_map, Function.comp_def])]
        exact this
  | setReturn => exact subInv_of_cc (by unfold St.setReturn; rw [frames_mapFrames]; simp [List.map_map, Function.comp_def]) h
  | setPanic site => exact subInv_of_cc (by unfold St.setPanic; cases s.panic <;> rfl) h

theorem subInv_steps {s s' : St} (h : SubInv s) (st : Steps s s') : SubInv s' := by
  induction st with
  | refl => exact h
  | tail _ st ih => exact subInv_step ih st

/-- C18 (subsequence) for one function -/
theorem C18_subseq_function (g : Globals) (f : FnDecl) : (functionBody g f).root.subseqOk = true :=
  (subInv_steps subInv_init (steps_functionBody g f)).trees _ (by simp [St.frames])


/-! ### Shape of the block tree -/

mutual
/-- drop the `lets` annotation -/
def Shape.erase : Shape → Shape
  | .node _ cs => .node [] (Shape.eraseL cs)
def Shape.eraseL : List Shape → List Shape
  | [] => []
  | x :: xs => Shape.erase x :: Shape.eraseL xs
end

theorem eraseL_append : ∀ (a b : List Shape), Shape.eraseL (a ++ b) = Shape.eraseL a ++ Shape.eraseL b
  | [], b => rfl
  | x :: xs, b => by simp [Shape.eraseL, eraseL_append xs b]

mutual
theorem same_erase : ∀ (a b : Shape), a = Shape.erase b → Shape.same a b = true
  | .node la ca, .node lb cb, h => by
    unfold Shape.erase at h
    injection h with _ h2
    unfold Shape.same
    exact sameL_erase ca cb h2
theorem sameL_erase : ∀ (a b : List Shape), a = Shape.eraseL b → Shape.sameL a b = true
  | [], [], _ => rfl
  | [], _ :: _, h => by simp [Shape.eraseL] at h
  | _ :: _, [], h => by simp [Shape.eraseL] at h
  | x :: xs, y :: ys, h => by
    unfold Shape.eraseL at h
    injection h with h1 h2
    unfold Shape.sameL
    simp [same_erase x y h1, sameL_erase xs ys h2]
end

theorem shape_def (b : Block) : b.shape = .node [] (Block.shapes b.children) := by
  cases b; unfold Block.shape; rfl

theorem shapes_append : ∀ (cs : List Block) (b : Block), Block.shapes (cs ++ [b]) = Block.shapes cs ++ [b.shape]
  | [], b => by simp [Block.shapes]
  | c :: cs, b => by simp [Block.shapes, shapes_append cs b]

theorem shapes_modifyNth (f : Block → Block) (hf : ∀ c, (f c).shape = c.shape) : ∀ (k : Nat) (cs : List Block),
    Block.shapes (modifyNth f k cs) = Block.shapes cs
  | _, [] => by unfold modifyNth; rfl
  | 0, c :: cs => by simp [modifyNth, Block.shapes, hf]
  | k + 1, c :: cs => by simp [modifyNth, Block.shapes, shapes_modifyNth f hf k cs]

/-- per live block (innermost first) the shapes of its children so far -/
def St.shapesStack (s : St) : List (List Shape) := s.frames.map fun b => Block.shapes b.children

/-- the current block got the children `sh`; nothing else changed -/
def Grow (s s' : St) (sh : List Shape) : Prop :=
  ∃ top rest, s.shapesStack = top :: rest ∧ s'.shapesStack = (top ++ sh) :: rest

theorem ss_ne_nil (s : St) : s.shapesStack ≠ [] := by simp [St.shapesStack, St.frames]

theorem Grow.refl (s : St) : Grow s s [] := by
  cases h : s.shapesStack with
  | nil => exact absurd h (ss_ne_nil s)
  | cons top rest => exact ⟨top, rest, h, by simp [h]⟩

theorem Grow.of_eq {s s' : St} (h : s'.shapesStack = s.shapesStack) : Grow s s' [] := by
  obtain ⟨top, rest, h1, h2⟩ := Grow.refl s
  exact ⟨top, rest, h1, by rw [h, h2]⟩

theorem Grow.trans {a b c : St} {x y : List Shape} (h1 : Grow a b x) (h2 : Grow b c y) : Grow a c (x ++ y) := by
  obtain ⟨t1, r1, ha, hb⟩ := h1
  obtain ⟨t2, r2, hb', hc⟩ := h2
  rw [hb] at hb'
  injection hb' with e1 e2
  subst e1; subst e2
  exact ⟨t1, r1, ha, by rw [hc, List.append_assoc]⟩

theorem ss_mapFrames (f : Block → Block) (s : St) (hf : ∀ b, (f b).children = b.children) :
    (s.mapFrames f).shapesStack = s.shapesStack := by
  unfold St.shapesStack; rw [frames_mapFrames]; simp [List.map_map, Function.comp_def, hf]

theorem ss_push (i : Instr) (s : St) : (s.push i).shapesStack = s.shapesStack := by
  unfold St.push; exact ss_mapFrames _ s (fun _ => rfl)
theorem ss_incReg (s : St) : s.incReg.shapesStack = s.shapesStack := by
  unfold St.incReg; exact ss_mapFrames _ s (fun _ => rfl)
theorem ss_probeLabel (stem : Name) (s : St) : (s.probeLabel stem).2.shapesStack = s.shapesStack := by
  unfold St.probeLabel; exact ss_mapFrames _ s (fun _ => rfl)
theorem ss_setReturn (s : St) : s.setReturn.shapesStack = s.shapesStack := by
  unfold St.setReturn; exact ss_mapFrames _ s (fun _ => rfl)
theorem ss_enter (s : St) : s.enter.shapesStack = [] :: s.shapesStack := by
  unfold St.shapesStack; rw [frames_enter]; simp [Block.child, Block.shapes]

theorem ss_pushVia (k : Nat) (i : Instr) (s : St) : (s.pushVia k i).shapesStack = s.shapesStack := by
  unfold St.pushVia
  rw [ss_push]
  unfold St.shapesStack
  rw [frames_mapCur]
  cases s.frames with
  | nil => rfl
  | cons b0 rest =>
    simp only [List.map_cons]
    rw [shapes_modifyNth _ (fun c => by rw [shape_def, shape_def])]

theorem ss_estep {s s' : St} (st : EStep s s') : s'.shapesStack = s.shapesStack := by
  cases st with
  | incReg => exact ss_incReg s
  | emit i _ _ _ _ => exact ss_push i s
  | incEmit i _ _ _ _ => rw [ss_push]; exact ss_incReg s
  | addErr k v l o => rfl
  | declare n v i _ _ _ _ _ =>
    rw [ss_push]
    unfold St.registerInner
    refine Eq.trans (ss_mapFrames _ _ (fun _ => rfl)) ?_
    unfold St.shapesStack St.insertValue
    rw [frames_mapCur]
    cases s.frames <;> rfl

theorem ss_esteps {s s' : St} (h : ESteps s s') : s'.shapesStack = s.shapesStack := by
  induction h with
  | refl => rfl
  | tail _ st ih => rw [ss_estep st, ih]

theorem ss_bsteps {s s' : St} (h : BSteps s s') : s'.shapesStack = s.shapesStack := by
  obtain ⟨s1, h1, rfl | ⟨i, rfl, _⟩⟩ := h
  · exact ss_esteps h1
  · rw [ss_push, ss_esteps h1]

theorem ss_leave (s : St) (t p : List Shape) (r : List (List Shape)) (h : s.shapesStack = t :: p :: r) :
    s.leave.2.shapesStack = (p ++ [.node [] t]) :: r := by
  unfold St.shapesStack St.frames at h
  unfold St.leave
  cases hi : s.inner with
  | nil => rw [hi] at h; simp at h
  | cons b rest =>
    rw [hi] at h
    cases rest with
    | nil =>
      simp at h
      obtain ⟨h1, h2, h3⟩ := h
      simp [St.shapesStack, St.frames, shapes_append, shape_def, h1, h2, h3]
    | cons q rest' =>
      simp at h
      obtain ⟨h1, h2, h3⟩ := h
      simp [St.shapesStack, St.frames, shapes_append, shape_def, h1, h2, h3]

/-- a child block: enter, analysis that grows the new block by `sh`, leave -/
theorem grow_block {s s1 s2 s3 : St} {sh : List Shape} (h1 : s1.shapesStack = [] :: s.shapesStack) (h2 : Grow s1 s2 sh)
    (h3 : ∀ t p r, s2.shapesStack = t :: p :: r → s3.shapesStack = (p ++ [.node [] t]) :: r) :
    Grow s s3 [.node [] sh] := by
  obtain ⟨top, rest, hs, _⟩ := Grow.refl s
  obtain ⟨t, r, ha, hb⟩ := h2
  rw [h1, hs] at ha
  injection ha with e1 e2
  subst e1; subst e2
  exact ⟨top, rest, hs, h3 _ _ _ (by simpa using hb)⟩


theorem Grow.pre {s s0 s' : St} {sh : List Shape} (h : s0.shapesStack = s.shapesStack) (h2 : Grow s0 s' sh) :
    Grow s s' sh := by
  unfold Grow at *; rw [← h]; exact h2

theorem Grow.post {s s0 s' : St} {sh : List Shape} (h2 : Grow s s0 sh) (h : s'.shapesStack = s0.shapesStack) :
    Grow s s' sh := by
  unfold Grow at *; rw [h]; exact h2

theorem Grow.cons {s s1 s2 : St} {n : Shape} {sh : List Shape} (h1 : Grow s s1 [n]) (h2 : Grow s1 s2 sh) :
    Grow s s2 (n :: sh) := h1.trans h2

theorem ss_ifPrologue (g : Globals) (cond : IfCond) (dup isElse : Bool) (labelEnd : Option Name) (s : St) :
    (ifPrologue g cond dup isElse labelEnd s).2.2.shapesStack = [] :: s.shapesStack := by
  unfold ifPrologue ifLabels
  dsimp only
  have h0 : (if dup then s.addErr .ifElseDuplicated "if-condition".toList 1 0 else s).shapesStack = s.shapesStack := by
    cases dup <;> rfl
  generalize (if dup then s.addErr .ifElseDuplicated "if-condition".toList 1 0 else s) = s0 at h0
  rw [← h0, ← ss_enter s0]
  have h2 := ss_probeLabel "if_begin".toList s0.enter
  generalize s0.enter.probeLabel "if_begin".toList = p1 at h2
  obtain ⟨lb, s2⟩ := p1
  have h3 := ss_probeLabel "if_else".toList s2
  generalize s2.probeLabel "if_else".toList = p2 at h3
  obtain ⟨le, s3⟩ := p2
  dsimp only at h2 h3 ⊢
  rw [← h2, ← h3]
  cases labelEnd with
  | some l =>
    dsimp only
    rw [ss_push, ss_bsteps (esteps_ifCondCalc g cond lb le l isElse s3)]
  | none =>
    dsimp only
    have h4 := ss_probeLabel "if_end".toList s3
    generalize s3.probeLabel "if_end".toList = p3 at h4
    obtain ⟨ln, s4⟩ := p3
    dsimp only at h4 ⊢
    rw [ss_push, ss_bsteps (esteps_ifCondCalc g cond lb le ln isElse s4), h4]

theorem ss_ifAfterBody (isElse r : Bool) (lElse lEnd : Name) (s : St) (t p : List Shape) (rs : List (List Shape))
    (h : s.shapesStack = t :: p :: rs) :
    (ifAfterBody isElse r lElse lEnd s).2.shapesStack = (p ++ [.node [] t]) :: rs := by
  unfold ifAfterBody
  dsimp only
  apply ss_leave
  cases isElse <;> cases r <;> simp [ss_push, h]

theorem ss_ifAfterElse (k : Nat) (r : Bool) (lEnd : Name) (s : St) (t p : List Shape) (rs : List (List Shape))
    (h : s.shapesStack = t :: p :: rs) :
    (ifAfterElse k r lEnd s).shapesStack = (p ++ [.node [] t]) :: rs := by
  unfold ifAfterElse
  dsimp only
  cases r
  · simp only [Bool.false_eq_true, if_false]; rw [ss_pushVia]; exact ss_leave s t p rs h
  · simp only [if_true]; exact ss_leave s t p rs h

theorem ss_ifEpilogue (k : Nat) (labelEnd : Option Name) (lEnd : Name) (s : St) :
    (ifEpilogue k labelEnd lEnd s).shapesStack = s.shapesStack := by
  unfold ifEpilogue
  cases labelEnd
  · simp [ss_pushVia]
  · simp

theorem ss_loopPrologue (s : St) : (loopPrologue s).2.2.shapesStack = [] :: s.shapesStack := by
  unfold loopPrologue
  dsimp only
  rw [← ss_enter s]
  have h2 := ss_probeLabel "loop_begin".toList s.enter
  generalize s.enter.probeLabel "loop_begin".toList = p1 at h2
  obtain ⟨lb, s2⟩ := p1
  have h3 := ss_probeLabel "loop_end".toList s2
  generalize s2.probeLabel "loop_end".toList = p2 at h3
  obtain ⟨le, s3⟩ := p2
  dsimp only at h2 h3 ⊢
  rw [ss_push, ss_push, h3, h2]

theorem ss_loopEpilogue (r : Bool) (lb le : Name) (s : St) (t p : List Shape) (rs : List (List Shape))
    (h : s.shapesStack = t :: p :: rs) :
    (loopEpilogue r lb le s).shapesStack = (p ++ [.node [] t]) :: rs := by
  unfold loopEpilogue
  dsimp only
  apply ss_leave
  cases r <;> simp [ss_push, h]

theorem ss_nestedReturn (g : Globals) (e : Expr) (s : St) : (nestedReturn g e s).1.shapesStack = s.shapesStack := by
  obtain ⟨s1, h1, h | ⟨r, h⟩⟩ := esteps_nestedReturn_pre g e s
  · rw [h]; exact ss_esteps h1
  · rw [h]; dsimp only; rw [ss_setReturn, ss_push]; exact ss_esteps h1

theorem grow_loopWrap (k : Name → Name → Bool → Bool → Bool → St → St × Bool) (sh : List Shape)
    (hk : ∀ lb le rc bc cc s, Grow s (k lb le rc bc cc s).1 sh) (s : St) : Grow s (loopWrap k s) [.node [] sh] := by
  unfold loopWrap
  dsimp only
  have h1 := ss_loopPrologue s
  generalize loopPrologue s = p at h1
  obtain ⟨lb, le, s1⟩ := p
  dsimp only at h1 ⊢
  have h2 := hk lb le false false false s1
  generalize k lb le false false false s1 = q at h2
  obtain ⟨s2, r⟩ := q
  exact grow_block h1 h2 (ss_loopEpilogue r lb le s2)

theorem erase_node (l : List Name) (cs : List Shape) : Shape.erase (.node l cs) = .node [] (Shape.eraseL cs) := by
  unfold Shape.erase; rfl
theorem eraseL_cons (x : Shape) (xs : List Shape) : Shape.eraseL (x :: xs) = x.erase :: Shape.eraseL xs := by
  conv => lhs; unfold Shape.eraseL
theorem eraseL_nil : Shape.eraseL [] = [] := by unfold Shape.eraseL; rfl

mutual
theorem grow_ifCondition (g : Globals) : ∀ (i : IfStmt) (le : Option Name) (ll : Option (Name × Name)) (s : St),
    IfStmt.loopOK ll.isSome i = true → Grow s (ifCondition g i le ll s) (Shape.eraseL (IfStmt.shapes i))
  | .mk cond body els elif, labelEnd, labelLoop, s, hok => by
    unfold IfStmt.loopOK at hok
    simp only [Bool.and_eq_true] at hok
    obtain ⟨⟨hok1, hok2⟩, hok3⟩ := hok
    unfold ifCondition IfStmt.shapes
    dsimp only
    have h1 := ss_ifPrologue g cond (els.isSome && elif.isSome) (els.isSome || elif.isSome) labelEnd s
    generalize ifPrologue g cond (els.isSome && elif.isSome) (els.isSome || elif.isSome) labelEnd s = p at h1
    obtain ⟨lElse, lEnd, s1⟩ := p
    dsimp only at h1 ⊢
    have h2 := grow_ifBodies g body lEnd labelLoop s1 hok1
    generalize ifBodies g body lEnd labelLoop s1 = q at h2
    obtain ⟨s2, r⟩ := q
    dsimp only at h2 ⊢
    have h3 := grow_block h1 h2 (ss_ifAfterBody (els.isSome || elif.isSome) r lElse lEnd s2)
    generalize ifAfterBody (els.isSome || elif.isSome) r lElse lEnd s2 = q3 at h3
    obtain ⟨k, s3⟩ := q3
    dsimp only at h3 ⊢
    refine Grow.post ?_ (ss_ifEpilogue k labelEnd lEnd _)
    rw [eraseL_cons, erase_node]
    refine Grow.cons h3 ?_
    cases els with
    | some eb =>
      dsimp only
      have h4 := grow_ifBodies g eb lEnd labelLoop s3.enter hok2
      generalize ifBodies g eb lEnd labelLoop s3.enter = q4 at h4
      obtain ⟨s4, r4⟩ := q4
      rw [eraseL_cons, erase_node, eraseL_nil]
      exact grow_block (ss_enter s3) h4 (ss_ifAfterElse k r4 lEnd s4)
    | none =>
      cases elif with
      | some ei => exact grow_ifCondition g ei (some lEnd) labelLoop s3 hok3
      | none => dsimp only; rw [eraseL_nil]; exact Grow.refl _
theorem grow_ifBodies (g : Globals) : ∀ (b : IfBodies) (lEnd : Name) (ll : Option (Name × Name)) (s : St),
    IfBodies.loopOK ll.isSome b = true → Grow s (ifBodies g b lEnd ll s).1 (Shape.eraseL (IfBodies.shapes b))
  | .ifb l, lEnd, ll, s, hok => by
    unfold IfBodies.loopOK at hok
    unfold ifBodies IfBodies.shapes; exact grow_ifBody g l lEnd ll false s hok
  | .loopb l, lEnd, some (lb, le), s, hok => by
    unfold IfBodies.loopOK at hok
    simp only [Bool.and_eq_true] at hok
    unfold ifBodies IfBodies.shapes; exact grow_ifLoopBody g l lEnd lb le false false false s hok.2
  | .loopb _, _, none, s, hok => by
    unfold IfBodies.loopOK at hok
    simp at hok
theorem grow_ifBody (g : Globals) : ∀ (l : List IfBodyStmt) (lEnd : Name) (ll : Option (Name × Name)) (rc : Bool) (s : St),
    IfBodyStmt.loopOKL ll.isSome l = true → Grow s (ifBody g l lEnd ll rc s).1 (Shape.eraseL (IfBodyStmt.shapesL l))
  | [], _, _, _, s, _ => by unfold ifBody IfBodyStmt.shapesL; rw [eraseL_nil]; exact Grow.refl _
  | st :: tl, lEnd, ll, rc, s, hok => by
    unfold ifBody
    dsimp only
    have h0 := ss_esteps (esteps_forbidden rc false false s)
    generalize forbidden rc false false s = s0 at h0
    refine Grow.pre h0 ?_
    cases st with
    | letB b =>
      simp only [IfBodyStmt.shapesL, IfBodyStmt.loopOKL] at hok ⊢
      exact Grow.pre (ss_esteps (esteps_letBinding g b s0)) (grow_ifBody g tl lEnd ll rc _ hok)
    | bind b =>
      simp only [IfBodyStmt.shapesL, IfBodyStmt.loopOKL] at hok ⊢
      exact Grow.pre (ss_esteps (esteps_binding g b s0)) (grow_ifBody g tl lEnd ll rc _ hok)
    | call c =>
      simp only [IfBodyStmt.shapesL, IfBodyStmt.loopOKL] at hok ⊢
      exact Grow.pre (ss_esteps (esteps_callStmt g c s0)) (grow_ifBody g tl lEnd ll rc _ hok)
    | ifS i =>
      simp only [IfBodyStmt.shapesL, IfBodyStmt.loopOKL, Bool.and_eq_true] at hok ⊢
      rw [eraseL_append]
      exact (grow_ifCondition g i (some lEnd) ll s0 hok.1).trans (grow_ifBody g tl lEnd ll rc _ hok.2)
    | loop b =>
      simp only [IfBodyStmt.shapesL, IfBodyStmt.loopOKL, Bool.and_eq_true] at hok ⊢
      rw [eraseL_cons, erase_node]
      exact Grow.cons (grow_loopWrap _ _ (fun lb le rc bc cc s => grow_loopBody g b lb le rc bc cc s hok.1) s0)
        (grow_ifBody g tl lEnd ll rc _ hok.2)
    | ret e =>
      simp only [IfBodyStmt.shapesL, IfBodyStmt.loopOKL] at hok ⊢
      have h1 := ss_nestedReturn g e s0
      generalize nestedReturn g e s0 = q at h1
      obtain ⟨s1, r⟩ := q
      exact Grow.pre h1 (grow_ifBody g tl lEnd ll (rc || r) s1 hok)
theorem grow_ifLoopBody (g : Globals) : ∀ (l : List IfLoopStmt) (lEnd lb le : Name) (rc bc cc : Bool) (s : St),
    IfLoopStmt.loopOKL l = true → Grow s (ifLoopBody g l lEnd lb le rc bc cc s).1 (Shape.eraseL (IfLoopStmt.shapesL l))
  | [], _, _, _, _, _, _, s, _ => by unfold ifLoopBody IfLoopStmt.shapesL; rw [eraseL_nil]; exact Grow.refl _
  | st :: tl, lEnd, lb, le, rc, bc, cc, s, hok => by
    unfold ifLoopBody
    dsimp only
    have h0 := ss_esteps (esteps_forbidden rc bc cc s)
    generalize forbidden rc bc cc s = s0 at h0
    refine Grow.pre h0 ?_
    cases st with
    | letB b =>
      simp only [IfLoopStmt.shapesL, IfLoopStmt.loopOKL] at hok ⊢
      exact Grow.pre (ss_esteps (esteps_letBinding g b s0)) (grow_ifLoopBody g tl lEnd lb le rc bc cc _ hok)
    | bind b =>
      simp only [IfLoopStmt.shapesL, IfLoopStmt.loopOKL] at hok ⊢
      exact Grow.pre (ss_esteps (esteps_binding g b s0)) (grow_ifLoopBody g tl lEnd lb le rc bc cc _ hok)
    | call c =>
      simp only [IfLoopStmt.shapesL, IfLoopStmt.loopOKL] at hok ⊢
      exact Grow.pre (ss_esteps (esteps_callStmt g c s0)) (grow_ifLoopBody g tl lEnd lb le rc bc cc _ hok)
    | ifS i =>
      simp only [IfLoopStmt.shapesL, IfLoopStmt.loopOKL, Bool.and_eq_true] at hok ⊢
      rw [eraseL_append]
      exact (grow_ifCondition g i (some lEnd) (some (lb, le)) s0 hok.1).trans (grow_ifLoopBody g tl lEnd lb le rc bc cc _ hok.2)
    | loop b =>
      simp only [IfLoopStmt.shapesL, IfLoopStmt.loopOKL, Bool.and_eq_true] at hok ⊢
      rw [eraseL_cons, erase_node]
      exact Grow.cons (grow_loopWrap _ _ (fun lb le rc bc cc s => grow_loopBody g b lb le rc bc cc s hok.1) s0)
        (grow_ifLoopBody g tl lEnd lb le rc bc cc _ hok.2)
    | ret e =>
      simp only [IfLoopStmt.shapesL, IfLoopStmt.loopOKL] at hok ⊢
      have h1 := ss_nestedReturn g e s0
      generalize nestedReturn g e s0 = q at h1
      obtain ⟨s1, r⟩ := q
      exact Grow.pre h1 (grow_ifLoopBody g tl lEnd lb le (rc || r) bc cc s1 hok)
    | cont =>
      simp only [IfLoopStmt.shapesL, IfLoopStmt.loopOKL] at hok ⊢
      exact Grow.pre (ss_push _ s0) (grow_ifLoopBody g tl lEnd lb le rc bc true _ hok)
    | brk =>
      simp only [IfLoopStmt.shapesL, IfLoopStmt.loopOKL] at hok ⊢
      exact Grow.pre (ss_push _ s0) (grow_ifLoopBody g tl lEnd lb le rc true cc _ hok)
theorem grow_loopBody (g : Globals) : ∀ (l : List LoopStmt) (lb le : Name) (rc bc cc : Bool) (s : St),
    LoopStmt.loopOKL l = true → Grow s (loopBody g l lb le rc bc cc s).1 (Shape.eraseL (LoopStmt.shapesL l))
  | [], _, _, _, _, _, s, _ => by unfold loopBody LoopStmt.shapesL; rw [eraseL_nil]; exact Grow.refl _
  | st :: tl, lb, le, rc, bc, cc, s, hok => by
    unfold loopBody
    dsimp only
    have h0 := ss_esteps (esteps_forbidden rc bc cc s)
    generalize forbidden rc bc cc s = s0 at h0
    refine Grow.pre h0 ?_
    cases st with
    | letB b =>
      simp only [LoopStmt.shapesL, LoopStmt.loopOKL] at hok ⊢
      exact Grow.pre (ss_esteps (esteps_letBinding g b s0)) (grow_loopBody g tl lb le rc bc cc _ hok)
    | bind b =>
      simp only [LoopStmt.shapesL, LoopStmt.loopOKL] at hok ⊢
      exact Grow.pre (ss_esteps (esteps_binding g b s0)) (grow_loopBody g tl lb le rc bc cc _ hok)
    | call c =>
      simp only [LoopStmt.shapesL, LoopStmt.loopOKL] at hok ⊢
      exact Grow.pre (ss_esteps (esteps_callStmt g c s0)) (grow_loopBody g tl lb le rc bc cc _ hok)
    | ifS i =>
      simp only [LoopStmt.shapesL, LoopStmt.loopOKL, Bool.and_eq_true] at hok ⊢
      rw [eraseL_append]
      exact (grow_ifCondition g i none (some (lb, le)) s0 hok.1).trans (grow_loopBody g tl lb le rc bc cc _ hok.2)
    | loop b =>
      simp only [LoopStmt.shapesL, LoopStmt.loopOKL, Bool.and_eq_true] at hok ⊢
      rw [eraseL_cons, erase_node]
      exact Grow.cons (grow_loopWrap _ _ (fun lb le rc bc cc s => grow_loopBody g b lb le rc bc cc s hok.1) s0)
        (grow_loopBody g tl lb le rc bc cc _ hok.2)
    | ret e =>
      simp only [LoopStmt.shapesL, LoopStmt.loopOKL] at hok ⊢
      have h1 := ss_nestedReturn g e s0
      generalize nestedReturn g e s0 = q at h1
      obtain ⟨s1, r⟩ := q
      exact Grow.pre h1 (grow_loopBody g tl lb le (rc || r) bc cc s1 hok)
    | brk =>
      simp only [LoopStmt.shapesL, LoopStmt.loopOKL] at hok ⊢
      exact Grow.pre (ss_push _ s0) (grow_loopBody g tl lb le rc true cc _ hok)
    | cont =>
      simp only [LoopStmt.shapesL, LoopStmt.loopOKL] at hok ⊢
      exact Grow.pre (ss_push _ s0) (grow_loopBody g tl lb le rc bc true _ hok)
end


theorem ss_fnReturn (g : Globals) (resTy : Ty) (e : Expr) (rc : Bool) (s : St) :
    (fnReturn g resTy e rc s).1.shapesStack = s.shapesStack := by
  obtain ⟨s2, h, hq | ⟨r, hq⟩⟩ := fnReturn_split g resTy e rc s
  · rw [hq]; exact ss_esteps h
  · rw [hq]; dsimp only; split <;> (rw [ss_push]; exact ss_esteps h)

theorem grow_bodyStmts (g : Globals) (resTy : Ty) : ∀ (l : List BodyStmt) (rc : Bool) (s : St),
    BodyStmt.loopOKL l = true → Grow s (bodyStmts g resTy l rc s).1 (Shape.eraseL (BodyStmt.shapesL l))
  | [], _, s, _ => by unfold bodyStmts BodyStmt.shapesL; rw [eraseL_nil]; exact Grow.refl _
  | st :: tl, rc, s, hok => by
    unfold bodyStmts
    dsimp only
    have h0 := ss_esteps (esteps_forbidden rc false false s)
    generalize forbidden rc false false s = s0 at h0
    refine Grow.pre h0 ?_
    cases st with
    | letB b =>
      simp only [BodyStmt.shapesL, BodyStmt.loopOKL] at hok ⊢
      exact Grow.pre (ss_esteps (esteps_letBinding g b s0)) (grow_bodyStmts g resTy tl rc _ hok)
    | bind b =>
      simp only [BodyStmt.shapesL, BodyStmt.loopOKL] at hok ⊢
      exact Grow.pre (ss_esteps (esteps_binding g b s0)) (grow_bodyStmts g resTy tl rc _ hok)
    | call c =>
      simp only [BodyStmt.shapesL, BodyStmt.loopOKL] at hok ⊢
      exact Grow.pre (ss_esteps (esteps_callStmt g c s0)) (grow_bodyStmts g resTy tl rc _ hok)
    | ifS i =>
      simp only [BodyStmt.shapesL, BodyStmt.loopOKL, Bool.and_eq_true] at hok ⊢
      rw [eraseL_append]
      exact (grow_ifCondition g i none none s0 hok.1).trans (grow_bodyStmts g resTy tl rc _ hok.2)
    | loop b =>
      simp only [BodyStmt.shapesL, BodyStmt.loopOKL, Bool.and_eq_true] at hok ⊢
      rw [eraseL_cons, erase_node]
      exact Grow.cons (grow_loopWrap _ _ (fun lb le rc bc cc s => grow_loopBody g b lb le rc bc cc s hok.1) s0)
        (grow_bodyStmts g resTy tl rc _ hok.2)
    | expr e =>
      simp only [BodyStmt.shapesL, BodyStmt.loopOKL] at hok ⊢
      have h1 := ss_fnReturn g resTy e rc s0
      generalize fnReturn g resTy e rc s0 = q at h1
      obtain ⟨s1, r⟩ := q
      exact Grow.pre h1 (grow_bodyStmts g resTy tl r s1 hok)
    | ret e =>
      simp only [BodyStmt.shapesL, BodyStmt.loopOKL] at hok ⊢
      have h1 := ss_fnReturn g resTy e rc s0
      generalize fnReturn g resTy e rc s0 = q at h1
      obtain ⟨s1, r⟩ := q
      exact Grow.pre h1 (grow_bodyStmts g resTy tl r s1 hok)

/-- the block tree of one function has the source nesting of the function -/
theorem C18_shape_function (g : Globals) (f : FnDecl) (hok : BodyStmt.loopOKL f.body = true) :
    (functionBody g f).root.shape.same f.sourceShape = true := by
  apply same_erase
  unfold FnDecl.sourceShape
  rw [erase_node, shape_def]
  congr 1
  have h0 : (initParams f.params St.init).shapesStack = [[]] := by
    rw [ss_esteps (esteps_initParams f.params St.init paramInv_init)]
    simp [St.shapesStack, St.frames, St.init, Block.fresh]; unfold Block.shapes; rfl
  have h1 := grow_bodyStmts g f.result.toTy f.body false (initParams f.params St.init) hok
  have h2 : (functionBody g f).shapesStack = (bodyStmts g f.result.toTy f.body false (initParams f.params St.init)).1.shapesStack := by
    unfold functionBody
    dsimp only
    generalize bodyStmts g f.result.toTy f.body false (initParams f.params St.init) = q
    obtain ⟨s1, r⟩ := q
    cases r <;> rfl
  obtain ⟨top, rest, ha, hb⟩ := h1
  rw [h0] at ha
  injection ha with e1 e2
  subst e1; subst e2
  rw [← h2] at hb
  unfold St.shapesStack St.frames at hb
  cases hi : (functionBody g f).inner with
  | nil => rw [hi] at hb; simpa using hb
  | cons b rest => rw [hi] at hb; simp at hb

/-- **C18 (tree shape and subsequence)** — for every program of the domain (`LoopOKB`), every function's block tree has
exactly the nesting of its source, one root per function, and every block's instruction stack is a subsequence of its
parent's.  (`linksOk` — the parent back-references — is a property of the `Rc` representation, checked by the
correspondence; the model's tree is parent-linked by construction.) -/
theorem C18 (p : Program) (hok : LoopOKB p = true) : P_C18_shape p (run p) true = [] := by
  unfold P_C18_shape
  have hr : (run p).roots = p.fns.map fun f => (functionBody (pass2 p (pass1 p GState.init)).globals f).root := by
    unfold run; simp [List.map_map, Function.comp_def]
  rw [hr]
  simp only [List.length_map, beq_self_eq_true, if_true, List.nil_append, List.append_eq_nil_iff, List.flatMap_eq_nil_iff]
  intro x hx
  obtain ⟨⟨f, b⟩, i⟩ := x
  have hm := List.fst_mem_of_mem_zipIdx hx
  rw [List.zip_map_right] at hm
  simp only [List.mem_map] at hm
  obtain ⟨⟨f', f''⟩, hz, he⟩ := hm
  have hff : f' = f'' := by
    have := List.of_mem_zip hz
    rw [List.zip_eq_zipWith] at hz
    simp [List.zipWith_self] at hz
    exact hz.2.symm ▸ rfl
  simp only [Prod.map, id] at he
  injection he with e1 e2
  subst e1; subst e2; subst hff
  have hmem : f' ∈ p.fnDecls := by rw [← fns_eq_fnDecls]; exact (List.of_mem_zip hz).1
  unfold LoopOKB at hok
  rw [List.all_eq_true] at hok
  simp [C18_shape_function _ f' (hok f' hmem), C18_subseq_function]

end SemVerif
