import SemVerif.Spec.Preds
import SemVerif.Inventory
/-! # Property C04 — theorems (under construction) -/
namespace SemVerif
end SemVerif
