import SemVerif.Props.C06
import SemVerif.Lemmas.TypedFull
/-!
# Property C04 — the emitted instruction stack is well-typed

`typedStack` (Spec/Typed.lean) scans a function stack once, remembering the type each register
was produced with and the value record of each declaration, and checks on every instruction that
the recorded types are mutually consistent (operand against producer, both sides of operations and
comparisons, call arguments against the recorded signature, let / assignment against the
declaration, returns against the result type, constants and callees against the global tables of the
same run).

`C04`: on the model's result the output predicate reports nothing, for every program: for an
accepted program the rule checker admits (`WellFormedB`: no violation, enforced or not — the domain
of the property), the typed scan of every function stack reports nothing.  The scan invariant is
threaded through the T2 induction; the two rules the analyzer does not enforce (argument count, F8;
type of a nested return, F9) are transported from the rule checker to the stack through the
abstract reading (`Lemmas/RuleLock.lean`, `Lemmas/TypedFull.lean`).

`C04_scan`: for every accepted program, every function and every instruction of its stack, every
check passes — except the two checks that the recorded findings F8 (argument count) and F9 (type of
a return nested in an if / loop body) can fail (`TyBad.known`).  The invariant is threaded through
the T2 induction (`TOK` in `Trans`, `DRel`, `Quiet`), so it holds for every body, nesting depth and
chain length.
-/
namespace SemVerif

/-- **C04 (scan form)** — accepted programs: on every function stack the typed scan reports nothing
but the checks F8 / F9 leave open -/
theorem C04_scan (p : Program) (hnp : (run p).panic = none) (hacc : (run p).errors = []) :
    ∀ fb ∈ p.fnDecls.zip (run p).roots,
      ∀ pb ∈ typedGo (fun c => assocGet c.name (run p).consts == some c) (fun fd => assocGet fd.name (run p).funcs == some fd)
          fb.1.result.toTy fb.2.context TyEnv.init 0,
        ∃ i, fb.2.context[pb.1]? = some i ∧ pb.2.known i = true := by
  have hrel := rel_run p
  have hg := globRel_of_rel hrel
  have hn := gnames_of_rel hrel
  have hok := anaOK_of_no_panic p hnp
  unfold run at hacc ⊢
  dsimp only at hacc ⊢
  rw [List.append_eq_nil_iff] at hacc
  have hfl := flatten_eq_nil_mem hacc.2
  rw [List.map_map, fns_eq_fnDecls]
  intro fb hfb
  obtain ⟨f, b⟩ := fb
  have hf : f ∈ p.fnDecls := (List.of_mem_zip hfb).1
  have hb : b = (functionBody (pass2 p (pass1 p GState.init)).globals f).root := by
    have := List.of_mem_zip hfb
    clear hfl hacc
    generalize p.fnDecls = l at hfb
    induction l with
    | nil => simp at hfb
    | cons x xs ih =>
      simp only [List.map_cons, List.zip_cons_cons, List.mem_cons, Prod.mk.injEq] at hfb
      rcases hfb with ⟨rfl, rfl⟩ | h
      · rfl
      · exact ih h
  subst hb
  unfold AnaOKB at hok
  rw [List.all_eq_true] at hok
  have he : (functionBody (pass2 p (pass1 p GState.init)).globals f).errors = [] := by
    apply hfl
    rw [List.mem_map]
    exact ⟨functionBody (pass2 p (pass1 p GState.init)).globals f, by
      rw [List.mem_map]; exact ⟨f, by rw [fns_eq_fnDecls]; exact hf, rfl⟩, rfl⟩
  exact (T2_function hg hn f (hok f hf) he).2.2.1

theorem zip_roots (p : Program) (gs : GState) : ∀ (l : List FnDecl) (f : FnDecl) (b : Block),
    (f, b) ∈ l.zip ((l.map (functionBody gs.globals)).map (·.root)) → b = (functionBody gs.globals f).root
  | [], _, _, h => by simp at h
  | x :: xs, f, b, h => by
    simp only [List.map_cons, List.zip_cons_cons, List.mem_cons, Prod.mk.injEq] at h
    rcases h with ⟨rfl, rfl⟩ | h
    · rfl
    · exact zip_roots p gs xs f b h

/-- the typed scan of every function stack of an accepted, rule-abiding program reports nothing -/
theorem C04_stacks (p : Program) (hnp : (run p).panic = none) (hacc : (run p).errors = []) (hwf : WellFormedB p = true) :
    ∀ fb ∈ p.fnDecls.zip (run p).roots, typedStack (run p).funcs (run p).consts fb.1 fb.2.context = [] := by
  have hrel := rel_run p
  have hg := globRel_of_rel hrel
  have hn := gnames_of_rel hrel
  have hok := anaOK_of_no_panic p hnp
  have hchk : ∀ f ∈ p.fnDecls, checkFn p.rglobals f = [] := by
    intro f hf
    unfold WellFormedB refCheck at hwf
    dsimp only at hwf
    rw [List.isEmpty_iff, List.append_eq_nil_iff] at hwf
    exact flatten_eq_nil_mem hwf.2 _ (List.mem_map.mpr ⟨f, hf, rfl⟩)
  unfold run at hacc ⊢
  dsimp only at hacc ⊢
  rw [List.append_eq_nil_iff] at hacc
  have hfl := flatten_eq_nil_mem hacc.2
  rw [fns_eq_fnDecls]
  intro fb hfb
  obtain ⟨f, b⟩ := fb
  have hf : f ∈ p.fnDecls := (List.of_mem_zip hfb).1
  have hb := zip_roots p _ _ f b hfb
  subst hb
  unfold AnaOKB at hok
  rw [List.all_eq_true] at hok
  have he : (functionBody (pass2 p (pass1 p GState.init)).globals f).errors = [] := by
    apply hfl
    rw [List.mem_map]
    exact ⟨functionBody (pass2 p (pass1 p GState.init)).globals f, by
      rw [List.mem_map]; exact ⟨f, by rw [fns_eq_fnDecls]; exact hf, rfl⟩, rfl⟩
  have := typed_function hg hn f (hok f hf) he (hchk f hf)
  unfold typedStack
  dsimp only
  have h2 : typedGo (fun c => assocGet c.name (pass2 p (pass1 p GState.init)).consts == some c)
      (fun fd => assocGet fd.name (pass2 p (pass1 p GState.init)).funcs == some fd) f.result.toTy
      (functionBody (pass2 p (pass1 p GState.init)).globals f).root.context TyEnv.init 0 = [] := this
  rw [h2]; rfl

/-- **C04** — the output predicate of the property holds on the model's result for every program -/
theorem C04 (p : Program) : P_C04 p (run p) = [] := by
  unfold P_C04
  split
  · rfl
  · rename_i h
    have hx : acceptedWF p (run p) = true := by
      cases hx : acceptedWF p (run p) with
      | true => rfl
      | false => rw [hx] at h; simp at h
    unfold acceptedWF at hx
    simp only [Bool.and_eq_true] at hx
    obtain ⟨hnp, he⟩ := (accepted_iff _).mp hx.1
    have hs := C04_stacks p hnp he hx.2
    rw [List.flatMap_eq_nil_iff]
    intro x hx'
    obtain ⟨⟨f, b⟩, i⟩ := x
    have hm : (f, b) ∈ p.fnDecls.zip (run p).roots := List.fst_mem_of_mem_zipIdx hx'
    dsimp only
    rw [hs (f, b) hm]; rfl

/-- non-vacuity: `exampleT2` is accepted and admitted by the rule set, its function stack is not
empty, and a stack with a stale operand type is reported by the scan -/
example : acceptedWF exampleT2 (run exampleT2) = true ∧ ((run exampleT2).roots.map (·.context.length)) ≠ [] := by
  decide +kernel

/-- the scan is not trivially quiet: an operation whose operands are stamped with different types, and
a return of a `bool` from a function declared to return `u8`, are both reported -/
example : (typedGo (fun _ => true) (fun _ => true) (.prim .u8)
    [.exprOp .plus ⟨.prim .u8, .prim (.u8 1)⟩ ⟨.prim .u16, .prim (.u16 2)⟩ 1, .fnReturn ⟨.prim .bool, .prim (.bool true)⟩]
    TyEnv.init 0).map (fun pb => (pb.1, pb.2.msg)) =
    [(0, "operation-operands-differ"), (1, "return-type-differs-from-result-type")] := by
  decide +kernel

end SemVerif
