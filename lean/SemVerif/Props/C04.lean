import SemVerif.Props.T2
/-!
# Property C04 — the emitted instruction stack is well-typed

`typedStack` (Spec/Typed.lean) scans a function stack once, remembering the type each register
was produced with and the value record of each declaration, and checks on every instruction that
the recorded types are mutually consistent (operand against producer, both sides of operations and
comparisons, call arguments against the recorded signature, let / assignment against the
declaration, returns against the result type, constants and callees against the global tables of the
same run).

`C04_scan`: for every accepted program, every function and every instruction of its stack, every
check passes — except the two checks that the recorded findings F8 (argument count) and F9 (type of
a return nested in an if / loop body) can fail (`TyBad.known`).  The invariant is threaded through
the T2 induction (`TOK` in `Trans`, `DRel`, `Quiet`), so it holds for every body, nesting depth and
chain length.
-/
namespace SemVerif

/-- **C04 (scan form)** — accepted programs: on every function stack the typed scan reports nothing
but the checks F8 / F9 leave open -/
theorem C04_scan (p : Program) (hnp : (run p).panic = none) (hacc : (run p).errors = []) :
    ∀ fb ∈ p.fnDecls.zip (run p).roots,
      ∀ pb ∈ typedGo (fun c => assocGet c.name (run p).consts == some c) (fun fd => assocGet fd.name (run p).funcs == some fd)
          fb.1.result.toTy fb.2.context TyEnv.init 0,
        ∃ i, fb.2.context[pb.1]? = some i ∧ pb.2.known i = true := by
  have hrel := rel_run p
  have hg := globRel_of_rel hrel
  have hn := gnames_of_rel hrel
  have hok := anaOK_of_no_panic p hnp
  unfold run at hacc ⊢
  dsimp only at hacc ⊢
  rw [List.append_eq_nil_iff] at hacc
  have hfl := flatten_eq_nil_mem hacc.2
  rw [List.map_map, fns_eq_fnDecls]
  intro fb hfb
  obtain ⟨f, b⟩ := fb
  have hf : f ∈ p.fnDecls := (List.of_mem_zip hfb).1
  have hb : b = (functionBody (pass2 p (pass1 p GState.init)).globals f).root := by
    have := List.of_mem_zip hfb
    clear hfl hacc
    generalize p.fnDecls = l at hfb
    induction l with
    | nil => simp at hfb
    | cons x xs ih =>
      simp only [List.map_cons, List.zip_cons_cons, List.mem_cons, Prod.mk.injEq] at hfb
      rcases hfb with ⟨rfl, rfl⟩ | h
      · rfl
      · exact ih h
  subst hb
  unfold AnaOKB at hok
  rw [List.all_eq_true] at hok
  have he : (functionBody (pass2 p (pass1 p GState.init)).globals f).errors = [] := by
    apply hfl
    rw [List.mem_map]
    exact ⟨functionBody (pass2 p (pass1 p GState.init)).globals f, by
      rw [List.mem_map]; exact ⟨f, by rw [fns_eq_fnDecls]; exact hf, rfl⟩, rfl⟩
  exact (T2_function hg hn f (hok f hf) he).2.2

end SemVerif
