import SemVerif.Driver
import SemVerif.Props.C12Lex
/-! What the driver prints for C12 on the model's own result (`failingOf .C12` is the expression
`Main.lean` evaluates): nothing, or nothing but instances of the recorded findings of C12. -/
namespace SemVerif

theorem driver_C12 (p : Program) : failingOf .C12 p (run p) true = [] := C12_lexical p

end SemVerif
