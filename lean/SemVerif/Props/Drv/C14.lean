import SemVerif.Driver
import SemVerif.Props.C14
/-! What the driver prints for C14 on the model's own result (`failingOf .C14` is the expression
`Main.lean` evaluates): nothing, or nothing but instances of the recorded findings of C14. -/
namespace SemVerif

theorem driver_C14 (p : Program) : failingOf .C14 p (run p) true = [] := C14 p

end SemVerif
