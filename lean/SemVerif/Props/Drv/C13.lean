import SemVerif.Driver
import SemVerif.Props.C13
/-! What the driver prints for C13 on the model's own result (`failingOf .C13` is the expression
`Main.lean` evaluates): nothing, or nothing but instances of the recorded findings of C13. -/
namespace SemVerif

theorem driver_C13 (p : Program) : failingOf .C13 p (run p) true = [] := C13 p

end SemVerif
