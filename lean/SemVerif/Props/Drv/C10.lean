import SemVerif.Driver
import SemVerif.Props.C10
import SemVerif.Props.C10Res
/-! What the driver prints for C10 on the model's own result (`failingOf .C10` is the expression
`Main.lean` evaluates): nothing, or nothing but instances of the recorded findings of C10. -/
namespace SemVerif

theorem driver_C10 (p : Program) : ∀ t ∈ failingOf .C10 p (run p) true, t ∈ knownTagsOf .C10 := by
  intro t ht
  have := C10 p t ht
  rw [this]; simp [knownTagsOf]

end SemVerif
