import SemVerif.Driver
import SemVerif.Props.C01
/-! What the driver prints for C01 on the model's own result (`failingOf .C01` is the expression
`Main.lean` evaluates): nothing, or nothing but instances of the recorded findings of C01. -/
namespace SemVerif

theorem driver_C01 (p : Program) (hok : LoopOKB p = true) : ∀ t ∈ failingOf .C01 p (run p) true, t ∈ knownTagsOf .C01 := C01 p hok

end SemVerif
