import SemVerif.Driver
import SemVerif.Props.C03
/-! What the driver prints for C03 on the model's own result (`failingOf .C03` is the expression
`Main.lean` evaluates): nothing, or nothing but instances of the recorded findings of C03. -/
namespace SemVerif

theorem driver_C03 (p : Program) : failingOf .C03 p (run p) true = [] := C03 p

end SemVerif
