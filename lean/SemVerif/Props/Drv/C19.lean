import SemVerif.Driver
import SemVerif.Props.C19
/-! What the driver prints for C19 on the model's own result (`failingOf .C19` is the expression
`Main.lean` evaluates): nothing, or nothing but instances of the recorded findings of C19. -/
namespace SemVerif

theorem driver_C19 (p : Program) : failingOf .C19 p (run p) true = [] := C19_all p

end SemVerif
