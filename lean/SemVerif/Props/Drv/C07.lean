import SemVerif.Driver
import SemVerif.Props.C07
import SemVerif.Props.C07Stack
/-! What the driver prints for C07 on the model's own result (`failingOf .C07` is the expression
`Main.lean` evaluates): nothing, or nothing but instances of the recorded findings of C07. -/
namespace SemVerif

theorem driver_C07 (p : Program) : failingOf .C07 p (run p) true = [] := C07 p

end SemVerif
