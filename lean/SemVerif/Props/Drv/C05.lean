import SemVerif.Driver
import SemVerif.Props.C05
/-! What the driver prints for C05 on the model's own result (`failingOf .C05` is the expression
`Main.lean` evaluates): nothing, or nothing but instances of the recorded findings of C05. -/
namespace SemVerif

theorem driver_C05 (p : Program) (h3 : ∀ f ∈ p.fnDecls, f.hasF3 = false) : ∀ t ∈ failingOf .C05 p (run p) true, t ∈ knownTagsOf .C05 := by
  intro t ht
  have := C05_upto_F2 p h3 t ht
  rw [this]; simp [knownTagsOf]

end SemVerif
