import SemVerif.Driver
import SemVerif.Props.C09
/-! What the driver prints for C09 on the model's own result (`failingOf .C09` is the expression
`Main.lean` evaluates): nothing, or nothing but instances of the recorded findings of C09. -/
namespace SemVerif

theorem driver_C09 (p : Program) : failingOf .C09 p (run p) true = [] := C09 p

end SemVerif
