import SemVerif.Driver
import SemVerif.Props.C08
/-! What the driver prints for C08 on the model's own result (`failingOf .C08` is the expression
`Main.lean` evaluates): nothing, or nothing but instances of the recorded findings of C08. -/
namespace SemVerif

theorem driver_C08 (p : Program) : ∀ t ∈ failingOf .C08 p (run p) true, t ∈ knownTagsOf .C08 := by
  intro t ht
  have := C08_partial p t ht
  rw [this]; simp [knownTagsOf]

end SemVerif
