import SemVerif.Driver
import SemVerif.Props.C15
/-! What the driver prints for C15 on the model's own result (`failingOf .C15` is the expression
`Main.lean` evaluates): nothing, or nothing but instances of the recorded findings of C15. -/
namespace SemVerif

theorem driver_C15 (p : Program) : failingOf .C15 p (run p) true = [] := C15 p

end SemVerif
