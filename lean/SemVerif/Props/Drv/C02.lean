import SemVerif.Driver
import SemVerif.Props.C02
/-! What the driver prints for C02 on the model's own result (`failingOf .C02` is the expression
`Main.lean` evaluates): nothing, or nothing but instances of the recorded findings of C02. -/
namespace SemVerif

theorem driver_C02 (p : Program) : failingOf .C02 p (run p) true = [] := C02 p

end SemVerif
