import SemVerif.Driver
import SemVerif.Props.C04
/-! What the driver prints for C04 on the model's own result (`failingOf .C04` is the expression
`Main.lean` evaluates): nothing, or nothing but instances of the recorded findings of C04. -/
namespace SemVerif

theorem driver_C04 (p : Program) : failingOf .C04 p (run p) true = [] := C04 p

end SemVerif
