import SemVerif.Driver
import SemVerif.Props.C11
/-! What the driver prints for C11 on the model's own result (`failingOf .C11` is the expression
`Main.lean` evaluates): nothing, or nothing but instances of the recorded findings of C11. -/
namespace SemVerif

theorem driver_C11 (p : Program) : failingOf .C11 p (run p) true = [] := C11 p

end SemVerif
