import SemVerif.Driver
import SemVerif.Props.C06
/-! What the driver prints for C06 on the model's own result (`failingOf .C06` is the expression
`Main.lean` evaluates): nothing, or nothing but instances of the recorded findings of C06. -/
namespace SemVerif

theorem driver_C06 (p : Program) : failingOf .C06 p (run p) true = [] := C06 p

end SemVerif
