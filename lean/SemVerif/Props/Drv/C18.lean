import SemVerif.Driver
import SemVerif.Props.C18
import SemVerif.Props.C18Values
import SemVerif.Props.C13
/-! What the driver prints for C18 on the model's own result (`failingOf .C18` is the expression
`Main.lean` evaluates): nothing, or nothing but instances of the recorded findings of C18. -/
namespace SemVerif

theorem driver_C18 (p : Program) (hok : LoopOKB p = true) : failingOf .C18 p (run p) true = [] := by
  unfold failingOf
  dsimp only
  rw [C18 p hok, C18_values_guarded, if_neg]
  · rfl
  · have := C13 p
    unfold P_C13 at this
    rw [hok] at this
    simp only [Bool.true_and] at this
    intro hp
    rw [if_pos hp] at this
    cases this

end SemVerif
