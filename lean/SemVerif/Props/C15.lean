import SemVerif.Spec.Preds
import SemVerif.Inventory
/-! # Property C15 — theorems (under construction) -/
namespace SemVerif
end SemVerif
