import SemVerif.Spec.Preds
import SemVerif.Inventory
import SemVerif.Lemmas.Misc
/-!
# Property C15 — global symbol tables match the declarations; first declaration wins

`C15`: for every program the tables and the global stack computed by the model's declaration
passes are exactly the ones of the declarative registration `declPhase` of the rule set: the
first declaration of each name whose own checks pass, types first, then constants and functions in
source order, one declaration instruction each; one root block per function; no key twice.
Proved by a simulation between `pass1`/`pass2` and `declTypes`/`declConstsFns`.
-/
namespace SemVerif

theorem rlookup_eq_assocGet {β : Type} (n : Name) : ∀ (l : List (Name × β)), rlookup n l = assocGet n l
  | [] => rfl
  | (k, v) :: rest => by
    unfold rlookup assocGet
    split <;> simp_all [rlookup_eq_assocGet n rest]

theorem assocInsert_absent {β : Type} (k : Name) (v : β) : ∀ (l : List (Name × β)),
    assocGet k l = none → assocInsert k v l = l ++ [(k, v)]
  | [], _ => rfl
  | (k', v') :: rest, h => by
    unfold assocGet at h
    split at h
    · cases h
    · rename_i hk
      unfold assocInsert
      simp [hk, assocInsert_absent k v rest h]

theorem assocGet_map_isSome {β γ : Type} (f : β → γ) (n : Name) : ∀ (l : List (Name × β)),
    (assocGet n (l.map fun x => (x.1, f x.2))).isSome = (assocGet n l).isSome
  | [] => rfl
  | (k, v) :: rest => by
    simp only [List.map_cons, assocGet]
    split
    · simp
    · exact assocGet_map_isSome f n rest

theorem isSome_false_none' {β : Type} {o : Option β} (h : o.isSome = false) : o = none := by
  cases o <;> simp_all

theorem assocGet_none_not_mem_keys {β : Type} (n : Name) : ∀ (l : List (Name × β)),
    assocGet n l = none → n ∉ l.map (·.1)
  | [], _ => by simp
  | (k, v) :: rest, h => by
    unfold assocGet at h
    split at h
    · cases h
    · rename_i hk
      simp only [List.map_cons, List.mem_cons, not_or]
      exact ⟨hk, assocGet_none_not_mem_keys n rest h⟩

/-- simulation relation between the model's global state and the rule checker's -/
structure Rel (gs : GState) (ds : DS) : Prop where
  types : gs.types = ds.rtypes.map tyEntry
  gtypes : ds.g.types = ds.rtypes.map tyEntry
  consts : gs.consts = ds.rdecls.filterMap constEntry
  gconsts : ds.g.consts = gs.consts.map fun x => (x.1, x.2.ty)
  funcs : gs.funcs = ds.rdecls.filterMap funcEntry
  gfuncs : ds.g.funcs = gs.funcs.map fun x => (x.1, x.2.params, x.2.ty)
  ctx : gs.context = ds.rtypes.map tyInstr ++ ds.rdecls.filterMap declInstr
  errs : gs.errors.map (fun e => errKey e.kind e.value) =
    (ds.viols.filter (·.enforced)).map (fun v => errKey v.kind v.name)
  ktypes : (gs.types.map (·.1)).Nodup
  kconsts : (gs.consts.map (·.1)).Nodup
  kfuncs : (gs.funcs.map (·.1)).Nodup

theorem rel_init : Rel GState.init { g := { types := [], consts := [], funcs := [] }, viols := [] } := by
  refine ⟨rfl, rfl, rfl, rfl, rfl, rfl, rfl, rfl, ?_, ?_, ?_⟩ <;> simp [GState.init]

theorem rel_addErr {gs : GState} {ds : DS} (h : Rel gs ds) (k : ErrKind) (n : Name) (r : String) :
    Rel (gs.addErr k n) (ds.viol r k n true) :=
  ⟨h.types, h.gtypes, h.consts, h.gconsts, h.funcs, h.gfuncs, h.ctx,
   by simp [GState.addErr, DS.viol, List.filter_append, h.errs], h.ktypes, h.kconsts, h.kfuncs⟩

/-- an unenforced note changes nothing the relation looks at -/
theorem rel_note {gs : GState} {ds : DS} (h : Rel gs ds) (k : ErrKind) (n : Name) (r : String) :
    Rel gs (ds.viol r k n false) :=
  ⟨h.types, h.gtypes, h.consts, h.gconsts, h.funcs, h.gfuncs, h.ctx,
   by simp [DS.viol, List.filter_append, h.errs], h.ktypes, h.kconsts, h.kfuncs⟩

theorem nodup_keys_insert {β : Type} (k : Name) (v : β) (l : List (Name × β)) (hnone : assocGet k l = none)
    (hk : (l.map (·.1)).Nodup) : ((assocInsert k v l).map (·.1)).Nodup := by
  rw [assocInsert_absent k v l hnone]
  simp only [List.map_append, List.map_cons, List.map_nil]
  rw [List.nodup_append]
  refine ⟨hk, by simp, ?_⟩
  intro a ha b hb
  simp at hb; subst hb
  intro heq; subst heq
  exact assocGet_none_not_mem_keys _ _ hnone ha

theorem rel_regType {gs : GState} {ds : DS} (h : Rel gs ds) (d : StructDecl) (hnone : assocGet d.name gs.types = none)
    (hd : ds.rdecls = []) :
    Rel { gs with types := assocInsert d.name (.struct d.name (attrsToMap d.attrs 0 .nil)) gs.types,
                  context := gs.context ++ [.types d.name (attrsToMap d.attrs 0 .nil)] }
        { ds with g := { ds.g with types := ds.g.types ++ [(d.name, .struct d.name (attrsToMap d.attrs 0 .nil))] },
                  rtypes := ds.rtypes ++ [d] } := by
  have hins := assocInsert_absent d.name (Ty.struct d.name (attrsToMap d.attrs 0 .nil)) gs.types hnone
  refine ⟨?_, ?_, h.consts, h.gconsts, h.funcs, h.gfuncs, ?_, h.errs, ?_, h.kconsts, h.kfuncs⟩
  · show assocInsert d.name _ gs.types = List.map tyEntry (ds.rtypes ++ [d])
    rw [hins, h.types]; simp [tyEntry]
  · show ds.g.types ++ [_] = List.map tyEntry (ds.rtypes ++ [d])
    rw [h.gtypes]; simp [tyEntry]
  · show gs.context ++ [_] = List.map tyInstr (ds.rtypes ++ [d]) ++ List.filterMap declInstr ds.rdecls
    rw [h.ctx, hd]; simp [tyInstr]
  · exact nodup_keys_insert _ _ _ hnone h.ktypes

theorem rel_pass1 (names : List Name) : ∀ (p : Program) (gs : GState) (ds : DS), Rel gs ds → ds.rdecls = [] →
    Rel (pass1 p gs) (declTypes names p ds) ∧ (declTypes names p ds).rdecls = []
  | [], gs, ds, h, hd => by unfold pass1 declTypes; exact ⟨h, hd⟩
  | .types d :: rest, gs, ds, h, hd => by
    unfold pass1 declTypes
    have hlook : (rlookup d.name ds.g.types).isSome = (assocGet d.name gs.types).isSome := by
      rw [rlookup_eq_assocGet, h.gtypes, h.types]
    unfold declType
    rw [hlook]
    cases hs : (assocGet d.name gs.types).isSome with
    | true =>
      simp only [if_true]
      exact rel_pass1 names rest _ _ (rel_addErr h _ _ _) hd
    | false =>
      simp only [Bool.false_eq_true, if_false]
      have hnone : assocGet d.name gs.types = none := isSome_false_none' hs
      split
      · exact rel_pass1 names rest _ _ (rel_regType (rel_note h _ _ _) d hnone hd) hd
      · exact rel_pass1 names rest _ _ (rel_regType h d hnone hd) hd
  | .imp _ :: rest, gs, ds, h, hd => by unfold pass1 declTypes; exact rel_pass1 names rest gs ds h hd
  | .const _ :: rest, gs, ds, h, hd => by unfold pass1 declTypes; exact rel_pass1 names rest gs ds h hd
  | .fn _ :: rest, gs, ds, h, hd => by unfold pass1 declTypes; exact rel_pass1 names rest gs ds h hd

theorem typeExists_eq {gs : GState} {ds : DS} (h : Rel gs ds) (t : Ty) : gs.typeExists t = typeRegistered ds.g t := by
  unfold GState.typeExists typeRegistered
  cases t with
  | prim _ => rfl
  | struct n a => simp only; rw [rlookup_eq_assocGet, h.gtypes, h.types]
  | array u n => simp only; rw [rlookup_eq_assocGet, h.gtypes, h.types]

theorem constLookup_eq {gs : GState} {ds : DS} (h : Rel gs ds) (n : Name) :
    (rlookup n ds.g.consts).isSome = (assocGet n gs.consts).isSome := by
  rw [rlookup_eq_assocGet, h.gconsts]; exact assocGet_map_isSome _ n gs.consts

theorem checkConstTail_go_eq {gs : GState} {ds : DS} (h : Rel gs ds) : ∀ (e : CExpr),
    checkConstTail.go gs e = constTailMissing ds.g e
  | .last (.const n) => by unfold checkConstTail.go constTailMissing; rw [constLookup_eq h]
  | .last (.val _) => by unfold checkConstTail.go constTailMissing; rfl
  | .cons (.const n) _ rest => by
    unfold checkConstTail.go constTailMissing
    rw [constLookup_eq h, checkConstTail_go_eq h rest]
  | .cons (.val _) _ rest => by
    unfold checkConstTail.go constTailMissing
    exact checkConstTail_go_eq h rest

theorem checkConstTail_eq {gs : GState} {ds : DS} (h : Rel gs ds) (e : CExpr) :
    checkConstTail gs e.operation = e.tail?.bind (constTailMissing ds.g) := by
  cases e with
  | last v => rfl
  | cons v o r => simp [CExpr.operation, CExpr.tail?, checkConstTail, checkConstTail_go_eq h]

theorem checkParamTypes_eq {gs : GState} {ds : DS} (h : Rel gs ds) : ∀ (ps : List (Name × ATy)),
    checkParamTypes gs ps = paramTypeMissing ds.g ps
  | [] => rfl
  | (n, t) :: rest => by
    unfold checkParamTypes paramTypeMissing
    rw [typeExists_eq h, checkParamTypes_eq h rest]

theorem rel_noteHead {gs : GState} {ds : DS} (h : Rel gs ds) (d : ConstDecl) : Rel gs (noteHead d ds) := by
  unfold noteHead
  cases d.value.headV with
  | const n => dsimp only; split; exact h; exact rel_note h _ _ _
  | val _ => exact h

theorem rel_regConst {gs : GState} {ds : DS} (h : Rel gs ds) (d : ConstDecl) (hnone : assocGet d.name gs.consts = none) :
    Rel { gs with consts := assocInsert d.name ⟨d.name, d.ty.toTy, d.value⟩ gs.consts,
                  context := gs.context ++ [.const ⟨d.name, d.ty.toTy, d.value⟩] }
        { ds with g := { ds.g with consts := ds.g.consts ++ [(d.name, d.ty.toTy)] }, rdecls := ds.rdecls ++ [.const d] } := by
  have hins := assocInsert_absent d.name (⟨d.name, d.ty.toTy, d.value⟩ : ConstSem) gs.consts hnone
  refine ⟨h.types, h.gtypes, ?_, ?_, ?_, h.gfuncs, ?_, h.errs, h.ktypes, ?_, h.kfuncs⟩
  · show assocInsert d.name _ gs.consts = List.filterMap constEntry (ds.rdecls ++ [.const d])
    rw [hins, h.consts]; simp [constEntry]
  · show ds.g.consts ++ [(d.name, d.ty.toTy)] = List.map _ (assocInsert d.name _ gs.consts)
    rw [hins, h.gconsts]; simp
  · show gs.funcs = List.filterMap funcEntry (ds.rdecls ++ [.const d])
    rw [h.funcs]; simp [funcEntry]
  · show gs.context ++ [_] = List.map tyInstr ds.rtypes ++ List.filterMap declInstr (ds.rdecls ++ [.const d])
    rw [h.ctx]; simp [declInstr]
  · exact nodup_keys_insert _ _ _ hnone h.kconsts

theorem rel_regFn {gs : GState} {ds : DS} (h : Rel gs ds) (f : FnDecl) (hnone : assocGet f.name gs.funcs = none) :
    Rel { gs with funcs := assocInsert f.name ⟨f.name, f.result.toTy, f.params.map fun p => p.2.toTy⟩ gs.funcs,
                  context := gs.context ++ [.fnDecl f.name (f.params.map fun p => ⟨p.1, p.2.toTy⟩) f.result.toTy] }
        { ds with g := { ds.g with funcs := ds.g.funcs ++ [(f.name, f.params.map (·.2.toTy), f.result.toTy)] },
                  rdecls := ds.rdecls ++ [.fn f] } := by
  have hins := assocInsert_absent f.name (⟨f.name, f.result.toTy, f.params.map fun p => p.2.toTy⟩ : Func) gs.funcs hnone
  refine ⟨h.types, h.gtypes, ?_, h.gconsts, ?_, ?_, ?_, h.errs, h.ktypes, h.kconsts, ?_⟩
  · show gs.consts = List.filterMap constEntry (ds.rdecls ++ [.fn f])
    rw [h.consts]; simp [constEntry]
  · show assocInsert f.name _ gs.funcs = List.filterMap funcEntry (ds.rdecls ++ [.fn f])
    rw [hins, h.funcs]; simp [funcEntry]
  · show ds.g.funcs ++ [(f.name, f.params.map (·.2.toTy), f.result.toTy)] = List.map _ (assocInsert f.name _ gs.funcs)
    rw [hins, h.gfuncs]; simp
  · show gs.context ++ [_] = List.map tyInstr ds.rtypes ++ List.filterMap declInstr (ds.rdecls ++ [.fn f])
    rw [h.ctx]; simp [declInstr]
  · exact nodup_keys_insert _ _ _ hnone h.kfuncs

theorem rel_pass2 : ∀ (p : Program) (gs : GState) (ds : DS), Rel gs ds → Rel (pass2 p gs) (declConstsFns p ds)
  | [], gs, ds, h => by unfold pass2 declConstsFns; exact h
  | .imp _ :: rest, gs, ds, h => by unfold pass2 declConstsFns; exact rel_pass2 rest gs ds h
  | .types _ :: rest, gs, ds, h => by unfold pass2 declConstsFns; exact rel_pass2 rest gs ds h
  | .const d :: rest, gs, ds, h => by
    unfold pass2 declConstsFns declConst
    rw [constLookup_eq h]
    cases hs : (assocGet d.name gs.consts).isSome with
    | true => simp only [if_true]; exact rel_pass2 rest _ _ (rel_addErr h _ _ _)
    | false =>
      simp only [Bool.false_eq_true, if_false]
      have hnone := isSome_false_none' hs
      have h0 : Rel gs (noteHead d ds) := rel_noteHead h d
      generalize noteHead d ds = ds0 at h0
      rw [checkConstTail_eq h0]
      cases ht : (d.value.tail?.bind (constTailMissing ds0.g)) with
      | some n => dsimp only; exact rel_pass2 rest _ _ (rel_addErr h0 _ _ _)
      | none =>
        dsimp only
        rw [typeExists_eq h0]
        cases hty : typeRegistered ds0.g d.ty.toTy with
        | false => simp only [Bool.not_false, if_true]; exact rel_pass2 rest _ _ (rel_addErr h0 _ _ _)
        | true =>
          simp only [Bool.not_true, Bool.false_eq_true, if_false]
          exact rel_pass2 rest _ _ (rel_regConst h0 d hnone)
  | .fn f :: rest, gs, ds, h => by
    unfold pass2 declConstsFns declFn
    have hlook : (rlookup f.name ds.g.funcs).isSome = (assocGet f.name gs.funcs).isSome := by
      rw [rlookup_eq_assocGet, h.gfuncs]; exact assocGet_map_isSome (fun (x : Func) => (x.params, x.ty)) f.name gs.funcs
    rw [hlook]
    cases hs : (assocGet f.name gs.funcs).isSome with
    | true => simp only [if_true]; exact rel_pass2 rest _ _ (rel_addErr h _ _ _)
    | false =>
      simp only [Bool.false_eq_true, if_false]
      have hnone := isSome_false_none' hs
      rw [typeExists_eq h]
      cases hty : typeRegistered ds.g f.result.toTy with
      | false => simp only [Bool.not_false, if_true]; exact rel_pass2 rest _ _ (rel_addErr h _ _ _)
      | true =>
        simp only [Bool.not_true, Bool.false_eq_true, if_false]
        rw [checkParamTypes_eq h]
        cases hp : paramTypeMissing ds.g f.params with
        | some n => dsimp only; exact rel_pass2 rest _ _ (rel_addErr h _ _ _)
        | none => dsimp only; exact rel_pass2 rest _ _ (rel_regFn h f hnone)

/-- the model's declaration passes compute the declarative registration -/
theorem rel_run (p : Program) : Rel (pass2 p (pass1 p GState.init)) (declPhase p) := by
  unfold declPhase
  exact rel_pass2 p _ _ (rel_pass1 p.typeNames p _ _ rel_init rfl).1

theorem nodupB_of_nodup' {α : Type} [DecidableEq α] : ∀ (l : List α), l.Nodup → nodupB l = true
  | [], _ => rfl
  | a :: rest, h => by
    rw [List.nodup_cons] at h
    unfold nodupB
    simp [h.1, nodupB_of_nodup' rest h.2]

/-- **C15** — for every program the global tables, the global stack and the number of root blocks
of the model's result are those of the declarative registration -/
theorem C15 (p : Program) : P_C15 p (run p) = [] := by
  have h := rel_run p
  have hp : (run p).panic = none ∨ (run p).panic.isSome = true := by
    cases (run p).panic <;> simp
  unfold P_C15
  split
  · rfl
  · have hfn : (run p).roots.length = p.fnDecls.length := by
      unfold run; simp [fns_eq_fnDecls]
    have ht : (declPhase p).rtypes.map tyEntry = (run p).types := h.types.symm
    have hc : (declPhase p).rdecls.filterMap constEntry = (run p).consts := h.consts.symm
    have hf : (declPhase p).rdecls.filterMap funcEntry = (run p).funcs := h.funcs.symm
    have hx : (declPhase p).rtypes.map tyInstr ++ (declPhase p).rdecls.filterMap declInstr = (run p).gcontext := h.ctx.symm
    have hk1 : nodupB (List.map (fun x => x.1) (run p).types) = true := nodupB_of_nodup' _ h.ktypes
    have hk2 : nodupB (List.map (fun x => x.1) (run p).consts) = true := nodupB_of_nodup' _ h.kconsts
    have hk3 : nodupB (List.map (fun x => x.1) (run p).funcs) = true := nodupB_of_nodup' _ h.kfuncs
    simp only [ht, hc, hf, hx, hfn, hk1, hk2, hk3, beq_self_eq_true, if_true, List.append_nil, Bool.and_self]

end SemVerif
