import SemVerif.Props.C06
/-!
# Property C03 — names resolve by lexical scoping and operands keep source order

`C03`: on the model's result the output predicate reports nothing, for every program.  For an
accepted program the resolution facts of every function's stack — each variable read, field read
and assignment with the *index of the declaration* (`FunctionArg` / `LetBinding` instruction) that
introduced the internal name it carries, each constant read, call, declaration and return, in stack
order — are exactly those of the source under the independent lexical resolver of
`Spec/Denote.lean` (`dlookup`: innermost enclosing block that declares the name, most recent
declaration in it; the frame of an if-, else-, else-if- or loop-body is popped at its end; a `let`
is entered after its initialiser; a constant only when no value is visible), in source evaluation
order.  Projection (`DStmt.refs`) of the equation `C06_exact`, hence of `T2`.
-/
namespace SemVerif

/-- **C03** — the output predicate of the property holds on the model's result for every program -/
theorem C03 (p : Program) : P_C03 p (run p) = [] := by
  unfold P_C03
  split
  · rfl
  · rename_i h
    have ha : (run p).accepted = true := by
      cases hx : acceptedWF p (run p) with
      | true => unfold acceptedWF at hx; simp only [Bool.and_eq_true] at hx; exact hx.1
      | false => rw [hx] at h; simp at h
    obtain ⟨hnp, he⟩ := (accepted_iff _).mp ha
    exact cmpRendered_nil _ _ _ (denotePairs_eq p hnp he)

/-- the scoping consequences named in the property, on the resolver: a declaration made inside a
body is not visible after the body (the frame is popped), and an initialiser is resolved before its
`let` is entered -/
theorem resolver_pop (s : SpecSt) : (s.push.pop).dscope = s.dscope := rfl

/-- non-vacuity: in `exampleT2` the `let x = x + K * 2` reads the parameter (declaration 0) and
declares index 1; the call `g(x)` (an event, then the initialiser of `y`) and the final `return x`
read declaration 1 -/
example : ((specStmts true exampleT2.rglobals) <$> exampleT2.fnDecls).head?.map (fun l => l.flatMap DStmt.refs) =
    some ["param:v0", "read:v0", "const:K", "let:v1", "read:v1", "call:g", "read:v1", "call:g", "let:v2", "read:v1", "return"] := by
  decide +kernel

end SemVerif
