import SemVerif.Spec.Preds
import SemVerif.Inventory
/-! # Property C03 — theorems (under construction) -/
namespace SemVerif
end SemVerif
