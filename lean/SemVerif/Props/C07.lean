import SemVerif.Spec.Preds
import SemVerif.Spec.PrecTree
import SemVerif.Inventory
/-!
# Property C07 — operator chains are bracketed by the documented priority table

`C07_fold_correct`: the operator-stack fold of the analyzer (`foldChain`, mirror of
`expression_operations_priority`) yields, for **every** priority table, operand type and chain
length, a tree with the chain's in-order tokens that satisfies `Correct`.
`C07_fold_unique`: any tree with these two properties is that tree — so it is *the* precedence
tree.  The model runs the fold with `Generated.prio`, regenerated from `ast.rs` on every run.
That the emitted `ExpressionOperation`s, read through their register operands, are this tree is
checked on the implementation by the correspondence run (predicate `P_C07`: the bracketing read
off the stack equals the reference tree `specTree`), exhaustively over the six priority classes.
-/
namespace SemVerif

variable {α : Type} (prio : Op → Nat)

theorem flat_length_pos (t : W α) : 0 < t.flat.length := by
  cases t <;> simp [W.flat] <;> omega

theorem mem_flat_op (t : W α) (o : Op) : Tok.op o ∈ t.flat ↔ o ∈ t.ops := by
  induction t with
  | atom a => simp [W.flat, W.ops]
  | pair l o' r ihl ihr =>
    simp only [W.flat, W.ops, List.mem_append, List.mem_cons, ihl, ihr]
    constructor
    · rintro (h | h | h)
      · exact Or.inl h
      · exact Or.inr (Or.inl (by injection h))
      · exact Or.inr (Or.inr h)
    · rintro (h | h | h)
      · exact Or.inl h
      · exact Or.inr (Or.inl (by rw [h]))
      · exact Or.inr (Or.inr h)

/-- Uniqueness: the in-order token sequence and the priority constraints determine the tree. -/
theorem correct_unique (t1 t2 : W α) (h1 : Correct prio t1) (h2 : Correct prio t2)
    (hf : t1.flat = t2.flat) : t1 = t2 := by
  induction t1 generalizing t2 with
  | atom a =>
    cases t2 with
    | atom b => simp [W.flat] at hf; rw [hf]
    | pair l o r =>
      have := congrArg List.length hf
      have hl := flat_length_pos l
      simp [W.flat] at this
      omega
  | pair l1 o1 r1 ihl ihr =>
    cases t2 with
    | atom b =>
      have := congrArg List.length hf
      have hl := flat_length_pos l1
      simp [W.flat] at this
      omega
    | pair l2 o2 r2 =>
      obtain ⟨c1l, c1r, c1lo, c1ro⟩ := h1
      obtain ⟨c2l, c2r, c2lo, c2ro⟩ := h2
      simp only [W.flat] at hf
      rcases List.append_eq_append_iff.mp hf with ⟨a', ha1, ha2⟩ | ⟨c', hc1, hc2⟩
      · -- flat l2 = flat l1 ++ a'
        cases a' with
        | nil =>
          simp at ha1 ha2
          obtain ⟨ho, hr⟩ := ha2
          have := ihl l2 c1l c2l ha1.symm
          have := ihr r2 c1r c2r hr
          subst_vars; rfl
        | cons x a'' =>
          simp at ha2
          obtain ⟨hx, hr⟩ := ha2
          subst hx
          have m2 : o2 ∈ r1.ops := (mem_flat_op r1 o2).mp (by rw [hr]; simp)
          have m1 : o1 ∈ l2.ops := (mem_flat_op l2 o1).mp (by rw [ha1]; simp)
          have := c1ro o2 m2
          have := c2lo o1 m1
          omega
      · cases c' with
        | nil =>
          simp at hc1 hc2
          obtain ⟨ho, hr⟩ := hc2
          have := ihl l2 c1l c2l hc1
          have := ihr r2 c1r c2r hr.symm
          subst_vars; rfl
        | cons x c'' =>
          simp at hc2
          obtain ⟨hx, hr⟩ := hc2
          subst hx
          have m1 : o1 ∈ r2.ops := (mem_flat_op r2 o1).mp (by rw [hr]; simp)
          have m2 : o2 ∈ l1.ops := (mem_flat_op l1 o2).mp (by rw [hc1]; simp)
          have := c2ro o1 m1
          have := c1lo o2 m2
          omega

/-- stack invariant; value stack and operator stack are top-first -/
inductive StackInv : List (W α) → List Op → Prop
  | base (v : W α) : Correct prio v → StackInv [v] []
  | push (v vp : W α) (vs : List (W α)) (o : Op) (os : List Op) :
      StackInv (vp :: vs) os → Correct prio v →
      (∀ o' ∈ v.ops, prio o < prio o') →        -- everything above `o` binds tighter
      (∀ o' ∈ vp.ops, prio o ≤ prio o') →       -- everything merged below is ≥ `o`
      (∀ o' ∈ os.head?, prio o' < prio o) →      -- operator stack strictly increasing
      StackInv (v :: vp :: vs) (o :: os)

/-- tokens of the whole stack, bottom to top -/
def stackFlat : List (W α) → List Op → List (Tok α)
  | [v], _ => v.flat
  | v :: vs, o :: os => stackFlat vs os ++ Tok.op o :: v.flat
  | _, _ => []

theorem popWhile_inv (p : Nat) (os : List Op) : ∀ (vs : List (W α)),
    StackInv prio vs os → (∀ v ∈ vs.head?, ∀ o' ∈ v.ops, p ≤ prio o') →
    let r := popWhile prio p vs os
    StackInv prio r.1 r.2 ∧ stackFlat r.1 r.2 = stackFlat vs os ∧
    (∀ v ∈ r.1.head?, ∀ o' ∈ v.ops, p ≤ prio o') ∧ (∀ o' ∈ r.2.head?, prio o' < p) := by
  induction os with
  | nil =>
    intro vs h htop
    cases h with
    | base v hv =>
      simp only [popWhile]
      refine ⟨StackInv.base v hv, ?_, htop, by simp⟩
      simp
  | cons o os ih =>
    intro vs h htop
    cases h with
    | push v vp vs' _ _ hrest hv habove hbelow hinc =>
      simp only [popWhile]
      split
      · rename_i hp
        -- reduce: new top = pair vp o v
        have hnew : StackInv prio (W.pair vp o v :: vs') os := by
          cases hrest with
          | base _ hvp =>
            exact StackInv.base _ ⟨hvp, hv, hbelow, habove⟩
          | push _ vpp vs'' o2 os2 hrest2 hvp habove2 hbelow2 hinc2 =>
            refine StackInv.push _ vpp vs'' o2 os2 hrest2 ⟨hvp, hv, hbelow, habove⟩ ?_ hbelow2 hinc2
            intro o' ho'
            simp [W.ops] at ho'
            have hlt : prio o2 < prio o := hinc o2 (by simp)
            rcases ho' with h | h | h
            · exact habove2 o' h
            · rw [h]; exact hlt
            · have := habove o' h; omega
        have htop' : ∀ w ∈ (W.pair vp o v :: vs').head?, ∀ o' ∈ w.ops, p ≤ prio o' := by
          intro w hw o' ho'
          simp at hw; subst hw
          simp [W.ops] at ho'
          rcases ho' with h | h | h
          · have := hbelow o' h; omega
          · rw [h]; exact hp
          · have := habove o' h; omega
        have := ih (W.pair vp o v :: vs') hnew htop'
        obtain ⟨a, b, c, d⟩ := this
        refine ⟨a, ?_, c, d⟩
        rw [b]
        cases hrest with
        | base _ _ => simp [stackFlat, W.flat]
        | push _ vpp vs'' o2 os2 _ _ _ _ _ => simp [stackFlat, W.flat]
      · rename_i hp
        refine ⟨StackInv.push v vp vs' o os hrest hv habove hbelow hinc, rfl, htop, ?_⟩
        intro o' ho'; simp at ho'; subst ho'; omega

theorem stackInv_nonempty {vs : List (W α)} {os : List Op} (h : StackInv prio vs os) :
    vs ≠ [] := by cases h <;> simp

theorem step_inv (st : List (W α) × List Op) (x : Op × α) (h : StackInv prio st.1 st.2)
    (htop : ∀ v ∈ st.1.head?, v.ops = []) :
    let r := foldStep prio st x
    StackInv prio r.1 r.2 ∧ stackFlat r.1 r.2 = stackFlat st.1 st.2 ++ [Tok.op x.1, Tok.val x.2] ∧
    (∀ v ∈ r.1.head?, v.ops = []) := by
  have hp := popWhile_inv prio (prio x.1) st.2 st.1 h
    (by intro v hv o' ho'; rw [htop v hv] at ho'; simp at ho')
  obtain ⟨a, b, c, d⟩ := hp
  simp only [foldStep]
  generalize hr : popWhile prio (prio x.1) st.1 st.2 = r at a b c d
  obtain ⟨rv, ro⟩ := r
  simp only at a b c d ⊢
  have hne := stackInv_nonempty prio a
  cases rv with
  | nil => exact absurd rfl hne
  | cons vp vs =>
    refine ⟨StackInv.push (W.atom x.2) vp vs x.1 ro a trivial ?_ ?_ d, ?_, ?_⟩
    · intro o' ho'; simp [W.ops] at ho'
    · intro o' ho'; exact c vp (by simp) o' ho'
    · rw [← b]; simp [stackFlat, W.flat]
    · intro v hv; simp at hv; subst hv; rfl

theorem foldl_inv (rest : List (Op × α)) : ∀ (st : List (W α) × List Op),
    StackInv prio st.1 st.2 → (∀ v ∈ st.1.head?, v.ops = []) →
    let r := rest.foldl (foldStep prio) st
    StackInv prio r.1 r.2 ∧
      stackFlat r.1 r.2 = stackFlat st.1 st.2 ++ rest.flatMap (fun x => [Tok.op x.1, Tok.val x.2]) := by
  induction rest with
  | nil => intro st h _; simp [h]
  | cons x tl ih =>
    intro st h htop
    obtain ⟨a, b, c⟩ := step_inv prio st x h htop
    obtain ⟨a', b'⟩ := ih (foldStep prio st x) a c
    refine ⟨a', ?_⟩
    simp only [List.foldl_cons]
    rw [b', b]
    simp

/-- C07 on the model: the fold yields a tree with the chain's in-order token sequence that
    satisfies the priority constraints — for every table, every operand type, every length. -/
theorem C07_fold_correct (v0 : α) (rest : List (Op × α)) :
    (foldChain prio v0 rest).flat = chainFlat v0 rest ∧ Correct prio (foldChain prio v0 rest) := by
  have h0 : StackInv prio [(W.atom v0 : W α)] ([] : List Op) := StackInv.base _ trivial
  obtain ⟨a, b⟩ := foldl_inv prio rest (([W.atom v0], []) : List (W α) × List Op) h0
    (by intro v hv; simp at hv; subst hv; rfl)
  simp only [foldChain]
  generalize List.foldl (foldStep prio) ([W.atom v0], []) rest = st at a b
  have hp := popWhile_inv prio 0 st.2 st.1 a (by intros; omega)
  obtain ⟨a2, b2, _, d2⟩ := hp
  generalize popWhile prio 0 st.1 st.2 = r at a2 b2 d2
  obtain ⟨rv, ro⟩ := r
  simp only at a2 b2 d2 ⊢
  cases a2 with
  | base v hv =>
    simp [stackFlat] at b2
    simp [List.headD, chainFlat]
    refine ⟨?_, hv⟩
    rw [b2, b]; simp [stackFlat, W.flat]
  | push v vp vs o os _ _ _ _ _ =>
    have := d2 o (by simp)
    omega

/-- …and therefore it is *the* precedence tree: any tree with these two properties is equal to it. -/
theorem C07_fold_unique (v0 : α) (rest : List (Op × α)) (t : W α)
    (hf : t.flat = chainFlat v0 rest) (hc : Correct prio t) : t = foldChain prio v0 rest := by
  obtain ⟨f, c⟩ := C07_fold_correct prio v0 rest
  exact correct_unique prio t _ hc c (by rw [hf, f])


/-- the table the analyzer publishes: priorities in source are those the model runs with (regenerated) -/
theorem C07_table : (Generated.prio .multiply, Generated.prio .divide, Generated.prio .plus, Generated.prio .minus) = (9, 8, 5, 4) := by decide

/-- non-vacuity / documentation example: `a / b * c * d` folds to `((a / b) * c) * d`... with the
published table `*` (9) binds tighter than `/` (8): `a / ((b * c) * d)` -/
example : (foldChain Generated.prio 'a' [(.divide, 'b'), (.multiply, 'c'), (.multiply, 'd')]).flat =
    chainFlat 'a' [(.divide, 'b'), (.multiply, 'c'), (.multiply, 'd')] := (C07_fold_correct _ _ _).1

end SemVerif
