import SemVerif.Spec.Preds
import SemVerif.Inventory
/-! # Property C07 — theorems (under construction) -/
namespace SemVerif
end SemVerif
