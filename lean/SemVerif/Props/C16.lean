import SemVerif.Spec.Preds
import SemVerif.Inventory
import SemVerif.Props.C17
/-!
# Property C16 — results do not depend on the textual order of top-level declarations

`C16`: let `p'` be any permutation of the top-level statements of `p` that keeps the constant
declarations in the same relative order, and let the struct names and the function names of `p` be
pairwise distinct.  Then the two runs have
* the same constant table, and type and function tables that are permutations of each other with
  pairwise distinct keys (the same finite maps), hence the same lookups (`C16_globals`);
* error lists that are permutations of each other (the same multiset), hence the same verdict;
* for every function the identical root block — stack and block tree (`C16_roots`: the lists of
  (function, root block) pairs are permutations of each other);
* a panic in one exactly when there is one in the other.

Proof: the type pass registers every struct (distinct names: no duplicate is ever rejected), so
`typeExists` is the same predicate in both runs; constants only read the constant table and
`typeExists`, functions only read the function table (for the duplicate check, which never fires)
and `typeExists`; so the second pass splits into its constant part — identical in both runs — and
its function part — a `filterMap` over the functions.  Bodies see the tables only through the
lookups of `Globals`.
-/
namespace SemVerif

def TopStmt.ty? : TopStmt → Option StructDecl
  | .types d => some d
  | _ => none
def TopStmt.const? : TopStmt → Option ConstDecl
  | .const d => some d
  | _ => none
def TopStmt.fn? : TopStmt → Option FnDecl
  | .fn f => some f
  | _ => none

def Program.tds (p : Program) : List StructDecl := p.filterMap TopStmt.ty?
def Program.cds (p : Program) : List ConstDecl := p.filterMap TopStmt.const?

@[simp] theorem tds_types (d : StructDecl) (r : Program) : Program.tds (.types d :: r) = d :: Program.tds r := rfl
@[simp] theorem tds_fn (f : FnDecl) (r : Program) : Program.tds (.fn f :: r) = Program.tds r := rfl
@[simp] theorem tds_imp (x : List Name) (r : Program) : Program.tds (.imp x :: r) = Program.tds r := rfl
@[simp] theorem tds_const (d : ConstDecl) (r : Program) : Program.tds (.const d :: r) = Program.tds r := rfl
@[simp] theorem cds_types (d : StructDecl) (r : Program) : Program.cds (.types d :: r) = Program.cds r := rfl
@[simp] theorem cds_fn (f : FnDecl) (r : Program) : Program.cds (.fn f :: r) = Program.cds r := rfl
@[simp] theorem cds_imp (x : List Name) (r : Program) : Program.cds (.imp x :: r) = Program.cds r := rfl
@[simp] theorem cds_const (d : ConstDecl) (r : Program) : Program.cds (.const d :: r) = d :: Program.cds r := rfl
@[simp] theorem fns_types (d : StructDecl) (r : Program) : Program.fns (.types d :: r) = Program.fns r := rfl
@[simp] theorem fns_fn (f : FnDecl) (r : Program) : Program.fns (.fn f :: r) = f :: Program.fns r := rfl
@[simp] theorem fns_imp (x : List Name) (r : Program) : Program.fns (.imp x :: r) = Program.fns r := rfl
@[simp] theorem fns_const (d : ConstDecl) (r : Program) : Program.fns (.const d :: r) = Program.fns r := rfl

theorem fns_eq_filterMap : ∀ (p : Program), p.fns = p.filterMap TopStmt.fn?
  | [] => rfl
  | .fn f :: rest => by rw [fns_fn, fns_eq_filterMap rest]; rfl
  | .imp _ :: rest => by rw [fns_imp, fns_eq_filterMap rest]; rfl
  | .types _ :: rest => by rw [fns_types, fns_eq_filterMap rest]; rfl
  | .const _ :: rest => by rw [fns_const, fns_eq_filterMap rest]; rfl

/-! ### Association lists -/

theorem assocGet_append {β : Type} (k : Name) : ∀ (l m : List (Name × β)),
    assocGet k (l ++ m) = match assocGet k l with
      | some v => some v
      | none => assocGet k m
  | [], m => rfl
  | (k', v') :: rest, m => by
    simp only [List.cons_append, assocGet]
    by_cases h : k = k'
    · simp [h]
    · simp only [h, if_false]; exact assocGet_append k rest m

theorem assocInsert_absent {β : Type} (k : Name) (v : β) : ∀ (l : List (Name × β)), assocGet k l = none →
    assocInsert k v l = l ++ [(k, v)]
  | [], _ => rfl
  | (k', v') :: rest, h => by
    simp only [assocGet] at h
    by_cases hk : k = k'
    · simp [hk] at h
    · simp only [hk, if_false] at h
      simp [assocInsert, hk, assocInsert_absent k v rest h]

theorem assocGet_none_of_not_mem {β : Type} (k : Name) : ∀ (l : List (Name × β)), k ∉ l.map (·.1) → assocGet k l = none
  | [], _ => rfl
  | (k', v') :: rest, h => by
    simp only [List.map_cons, List.mem_cons, not_or] at h
    simp [assocGet, h.1, assocGet_none_of_not_mem k rest h.2]

theorem assocGet_some_iff {β : Type} (k : Name) (v : β) : ∀ (l : List (Name × β)), (l.map (·.1)).Nodup →
    (assocGet k l = some v ↔ (k, v) ∈ l)
  | [], _ => by simp [assocGet]
  | (k', v') :: rest, h => by
    simp only [List.map_cons, List.nodup_cons] at h
    simp only [assocGet, List.mem_cons, Prod.mk.injEq]
    by_cases hk : k = k'
    · subst hk
      simp only [if_true, Option.some.injEq, true_and]
      constructor
      · intro e; exact Or.inl e.symm
      · rintro (e | hm)
        · exact e.symm
        · exact absurd (List.mem_map.mpr ⟨(k, v), hm, rfl⟩) h.1
    · simp only [hk, if_false, false_and, false_or]
      exact assocGet_some_iff k v rest h.2

theorem assocGet_perm {β : Type} (k : Name) {l l' : List (Name × β)} (hp : l.Perm l') (hn : (l.map (·.1)).Nodup) :
    assocGet k l = assocGet k l' := by
  have hn' : (l'.map (·.1)).Nodup := (hp.map _).nodup_iff.mp hn
  apply Option.ext
  intro v
  rw [assocGet_some_iff k v l hn, assocGet_some_iff k v l' hn', hp.mem_iff]

/-! ### The type pass -/

theorem pass1_eq_foldl : ∀ (p : Program) (gs : GState), pass1 p gs = p.tds.foldl (fun gs d => declType d gs) gs
  | [], _ => rfl
  | .types d :: rest, gs => by rw [tds_types, List.foldl_cons]; simp only [pass1]; exact pass1_eq_foldl rest _
  | .fn _ :: rest, gs => by rw [tds_fn]; simp only [pass1]; exact pass1_eq_foldl rest _
  | .imp _ :: rest, gs => by rw [tds_imp]; simp only [pass1]; exact pass1_eq_foldl rest _
  | .const _ :: rest, gs => by rw [tds_const]; simp only [pass1]; exact pass1_eq_foldl rest _

theorem types_foldl : ∀ (ds : List StructDecl) (gs : GState), (ds.map (·.name)).Nodup →
    (∀ d ∈ ds, assocGet d.name gs.types = none) →
    ds.foldl (fun gs d => declType d gs) gs =
      { gs with types := gs.types ++ ds.map tyEntry, context := gs.context ++ ds.map tyInstr }
  | [], gs, _, _ => by simp
  | d :: ds, gs, hn, hfresh => by
    simp only [List.map_cons, List.nodup_cons] at hn
    have hd := hfresh d (by simp)
    have h1 : declType d gs = { gs with types := gs.types ++ [tyEntry d], context := gs.context ++ [tyInstr d] } := by
      unfold declType
      rw [hd]
      simp only [Option.isSome_none, Bool.false_eq_true, if_false]
      rw [assocInsert_absent _ _ _ hd]
      rfl
    simp only [List.foldl_cons]
    rw [h1, types_foldl ds _ hn.2]
    · simp [List.append_assoc]
    · intro d' hd'
      rw [assocGet_append, hfresh d' (by simp [hd'])]
      have hne : d'.name ≠ d.name := by
        intro e; exact hn.1 (List.mem_map.mpr ⟨d', hd', e⟩)
      simp [tyEntry, assocGet, hne]

theorem pass1_init (p : Program) (hn : (p.tds.map (·.name)).Nodup) :
    pass1 p GState.init = { GState.init with types := p.tds.map tyEntry, context := p.tds.map tyInstr } := by
  rw [pass1_eq_foldl, types_foldl p.tds GState.init hn (fun _ _ => rfl)]
  simp [GState.init]

/-- the two states agree on which types exist -/
def TEq (a b : GState) : Prop := ∀ t, a.typeExists t = b.typeExists t

theorem TEq.refl (a : GState) : TEq a a := fun _ => rfl
theorem TEq.symm {a b : GState} (h : TEq a b) : TEq b a := fun t => (h t).symm
theorem TEq.trans {a b c : GState} (h1 : TEq a b) (h2 : TEq b c) : TEq a c := fun t => (h1 t).trans (h2 t)
theorem TEq.of_types {a b : GState} (h : a.types = b.types) : TEq a b := by
  intro t; unfold GState.typeExists; rw [h]

theorem tyEntry_keys (ds : List StructDecl) : (ds.map tyEntry).map (·.1) = ds.map (·.name) := by
  simp [List.map_map, Function.comp_def, tyEntry]

/-! ### The second pass splits into its constant part and its function part -/

def pc (cs : List ConstDecl) (gs : GState) : GState := cs.foldl (fun gs d => declConst d gs) gs
def pf (fs : List FnDecl) (gs : GState) : GState := fs.foldl (fun gs f => declFn f gs) gs

theorem checkConstTail_go_congr {a b : GState} (h : a.consts = b.consts) : ∀ (e : CExpr),
    checkConstTail.go a e = checkConstTail.go b e
  | .last (.const n) => by simp [checkConstTail.go, h]
  | .last (.val _) => by simp [checkConstTail.go]
  | .cons (.const n) _ rest => by simp [checkConstTail.go, h, checkConstTail_go_congr h rest]
  | .cons (.val _) _ rest => by simp [checkConstTail.go, checkConstTail_go_congr h rest]

theorem checkConstTail_congr {a b : GState} (h : a.consts = b.consts) (x : Option (Op × CExpr)) :
    checkConstTail a x = checkConstTail b x := by
  cases x with
  | none => rfl
  | some q => obtain ⟨o, e⟩ := q; simp [checkConstTail, checkConstTail_go_congr h e]

theorem checkParamTypes_congr {a b : GState} (h : TEq a b) : ∀ (ps : List (Name × ATy)),
    checkParamTypes a ps = checkParamTypes b ps
  | [] => rfl
  | (n, t) :: rest => by simp [checkParamTypes, h t.toTy, checkParamTypes_congr h rest]

theorem declConst_frame (d : ConstDecl) (gs : GState) :
    (declConst d gs).types = gs.types ∧ (declConst d gs).funcs = gs.funcs := by
  unfold declConst
  split
  · exact ⟨rfl, rfl⟩
  · split
    · exact ⟨rfl, rfl⟩
    · dsimp only; split <;> exact ⟨rfl, rfl⟩

theorem declFn_frame (f : FnDecl) (gs : GState) :
    (declFn f gs).types = gs.types ∧ (declFn f gs).consts = gs.consts := by
  unfold declFn
  split
  · exact ⟨rfl, rfl⟩
  · split
    · exact ⟨rfl, rfl⟩
    · split <;> exact ⟨rfl, rfl⟩

theorem declConst_congr (d : ConstDecl) {a b : GState} (h1 : a.consts = b.consts) (h2 : TEq a b) :
    (declConst d a).consts = (declConst d b).consts ∧
    ∃ Δ, (declConst d a).errors = a.errors ++ Δ ∧ (declConst d b).errors = b.errors ++ Δ := by
  have e : ∀ t, a.typeExists t = b.typeExists t := h2
  unfold declConst
  dsimp only
  rw [h1, checkConstTail_congr h1, e]
  split
  · exact ⟨h1, _, rfl, rfl⟩
  · split
    · exact ⟨h1, _, rfl, rfl⟩
    · split
      · exact ⟨h1, _, rfl, rfl⟩
      · exact ⟨rfl, [], by simp, by simp⟩

theorem declFn_congr (f : FnDecl) {a b : GState} (h1 : a.funcs = b.funcs) (h2 : TEq a b) :
    (declFn f a).funcs = (declFn f b).funcs ∧
    ∃ Δ, (declFn f a).errors = a.errors ++ Δ ∧ (declFn f b).errors = b.errors ++ Δ := by
  have e : ∀ t, a.typeExists t = b.typeExists t := h2
  unfold declFn
  rw [h1, checkParamTypes_congr h2, e]
  split
  · exact ⟨h1, _, rfl, rfl⟩
  · split
    · exact ⟨h1, _, rfl, rfl⟩
    · split
      · exact ⟨h1, _, rfl, rfl⟩
      · exact ⟨rfl, [], by simp, by simp⟩

theorem pc_frame : ∀ (cs : List ConstDecl) (gs : GState), (pc cs gs).types = gs.types ∧ (pc cs gs).funcs = gs.funcs
  | [], _ => ⟨rfl, rfl⟩
  | d :: cs, gs => by
    have h := pc_frame cs (declConst d gs)
    have h2 := declConst_frame d gs
    exact ⟨h.1.trans h2.1, h.2.trans h2.2⟩

theorem pf_frame : ∀ (fs : List FnDecl) (gs : GState), (pf fs gs).types = gs.types ∧ (pf fs gs).consts = gs.consts
  | [], _ => ⟨rfl, rfl⟩
  | f :: fs, gs => by
    have h := pf_frame fs (declFn f gs)
    have h2 := declFn_frame f gs
    exact ⟨h.1.trans h2.1, h.2.trans h2.2⟩

theorem pc_congr : ∀ (cs : List ConstDecl) (a b : GState), a.consts = b.consts → TEq a b →
    (pc cs a).consts = (pc cs b).consts ∧ ∃ Δ, (pc cs a).errors = a.errors ++ Δ ∧ (pc cs b).errors = b.errors ++ Δ
  | [], a, b, h1, _ => ⟨h1, [], by simp [pc], by simp [pc]⟩
  | d :: cs, a, b, h1, h2 => by
    obtain ⟨c1, δ, e1, e2⟩ := declConst_congr d h1 h2
    have t : TEq (declConst d a) (declConst d b) :=
      (TEq.of_types (declConst_frame d a).1).trans (h2.trans (TEq.of_types (declConst_frame d b).1.symm))
    obtain ⟨c2, Δ, f1, f2⟩ := pc_congr cs _ _ c1 t
    refine ⟨c2, δ ++ Δ, ?_, ?_⟩
    · show (pc cs (declConst d a)).errors = _; rw [f1, e1, List.append_assoc]
    · show (pc cs (declConst d b)).errors = _; rw [f2, e2, List.append_assoc]

theorem pass2_split : ∀ (p : Program) (gs gc gf : GState), gs.consts = gc.consts → gs.funcs = gf.funcs →
    TEq gs gc → TEq gs gf →
    (pass2 p gs).consts = (pc p.cds gc).consts ∧ (pass2 p gs).funcs = (pf p.fns gf).funcs ∧
    (pass2 p gs).types = gs.types ∧
    ∃ Δ ΔC ΔF, (pass2 p gs).errors = gs.errors ++ Δ ∧ (pc p.cds gc).errors = gc.errors ++ ΔC ∧
      (pf p.fns gf).errors = gf.errors ++ ΔF ∧ Δ.Perm (ΔC ++ ΔF)
  | [], gs, gc, gf, h1, h2, _, _ => ⟨h1, h2, rfl, [], [], [], by simp [pass2], by simp [pc, Program.cds], by simp [pf, Program.fns], List.Perm.refl _⟩
  | .imp _ :: rest, gs, gc, gf, h1, h2, t1, t2 => by
    simpa [pass2] using pass2_split rest gs gc gf h1 h2 t1 t2
  | .types _ :: rest, gs, gc, gf, h1, h2, t1, t2 => by
    simpa [pass2] using pass2_split rest gs gc gf h1 h2 t1 t2
  | .const d :: rest, gs, gc, gf, h1, h2, t1, t2 => by
    obtain ⟨c1, δ, e1, e2⟩ := declConst_congr d h1 t1
    have fr := declConst_frame d gs
    have frc := declConst_frame d gc
    have t1' : TEq (declConst d gs) (declConst d gc) :=
      (TEq.of_types fr.1).trans (t1.trans (TEq.of_types frc.1.symm))
    have t2' : TEq (declConst d gs) gf := (TEq.of_types fr.1).trans t2
    obtain ⟨a1, a2, a3, Δ, ΔC, ΔF, b1, b2, b3, b4⟩ :=
      pass2_split rest (declConst d gs) (declConst d gc) gf c1 (fr.2.trans h2) t1' t2'
    refine ⟨?_, ?_, ?_, δ ++ Δ, δ ++ ΔC, ΔF, ?_, ?_, ?_, ?_⟩
    · simpa [pass2, pc] using a1
    · simpa [pass2] using a2
    · simp only [pass2]; rw [a3, fr.1]
    · simp only [pass2]; rw [b1, e1, List.append_assoc]
    · rw [cds_const]
      show (pc (Program.cds rest) (declConst d gc)).errors = _
      rw [b2, e2, List.append_assoc]
    · simpa using b3
    · rw [List.append_assoc]; exact b4.append_left δ
  | .fn f :: rest, gs, gc, gf, h1, h2, t1, t2 => by
    obtain ⟨c1, δ, e1, e2⟩ := declFn_congr f h2 t2
    have fr := declFn_frame f gs
    have frf := declFn_frame f gf
    have t2' : TEq (declFn f gs) (declFn f gf) :=
      (TEq.of_types fr.1).trans (t2.trans (TEq.of_types frf.1.symm))
    have t1' : TEq (declFn f gs) gc := (TEq.of_types fr.1).trans t1
    obtain ⟨a1, a2, a3, Δ, ΔC, ΔF, b1, b2, b3, b4⟩ :=
      pass2_split rest (declFn f gs) gc (declFn f gf) (fr.2.trans h1) c1 t1' t2'
    refine ⟨?_, ?_, ?_, δ ++ Δ, ΔC, δ ++ ΔF, ?_, ?_, ?_, ?_⟩
    · simpa [pass2] using a1
    · simpa [pass2, pf] using a2
    · simp only [pass2]; rw [a3, fr.1]
    · simp only [pass2]; rw [b1, e1, List.append_assoc]
    · simpa using b2
    · rw [fns_fn]
      show (pf (Program.fns rest) (declFn f gf)).errors = _
      rw [b3, e2, List.append_assoc]
    · refine (b4.append_left δ).trans ?_
      rw [← List.append_assoc, ← List.append_assoc]
      exact List.Perm.append_right ΔF List.perm_append_comm


/-! ### The function part, for pairwise distinct function names -/

def fnEntry? (gs : GState) (f : FnDecl) : Option (Name × Func) :=
  if !gs.typeExists f.result.toTy then none
  else match checkParamTypes gs f.params with
    | some _ => none
    | none => some (f.name, ⟨f.name, f.result.toTy, f.params.map fun p => p.2.toTy⟩)

def fnErrs (gs : GState) (f : FnDecl) : List Err :=
  if !gs.typeExists f.result.toTy then [⟨.typeNotFound, f.name, 1, 0⟩]
  else match checkParamTypes gs f.params with
    | some n => [⟨.typeNotFound, n, 1, 0⟩]
    | none => []

theorem fnEntry?_congr {a b : GState} (h : TEq a b) (f : FnDecl) : fnEntry? a f = fnEntry? b f := by
  unfold fnEntry?; rw [h, checkParamTypes_congr h]
theorem fnErrs_congr {a b : GState} (h : TEq a b) (f : FnDecl) : fnErrs a f = fnErrs b f := by
  unfold fnErrs; rw [h, checkParamTypes_congr h]

theorem fnEntry?_key {gs : GState} {f : FnDecl} {e : Name × Func} (h : fnEntry? gs f = some e) : e.1 = f.name := by
  unfold fnEntry? at h
  split at h
  · cases h
  · split at h
    · cases h
    · cases h; rfl

theorem declFn_fresh (f : FnDecl) (gs : GState) (h : assocGet f.name gs.funcs = none) :
    (declFn f gs).funcs = gs.funcs ++ (fnEntry? gs f).toList ∧ (declFn f gs).errors = gs.errors ++ fnErrs gs f := by
  unfold declFn fnEntry? fnErrs
  rw [h]
  simp only [Option.isSome_none, Bool.false_eq_true, if_false]
  by_cases h1 : (!gs.typeExists f.result.toTy) = true
  · simp [h1, GState.addErr]
  · simp only [h1, if_false]
    cases h2 : checkParamTypes gs f.params with
    | some n => simp [GState.addErr]
    | none => simp [assocInsert_absent _ _ _ h]

theorem pf_char : ∀ (fs : List FnDecl) (gs : GState), (fs.map (·.name)).Nodup →
    (∀ f ∈ fs, assocGet f.name gs.funcs = none) →
    (pf fs gs).funcs = gs.funcs ++ fs.filterMap (fnEntry? gs) ∧ (pf fs gs).errors = gs.errors ++ fs.flatMap (fnErrs gs)
  | [], gs, _, _ => by simp [pf]
  | f :: fs, gs, hn, hfresh => by
    simp only [List.map_cons, List.nodup_cons] at hn
    obtain ⟨d1, d2⟩ := declFn_fresh f gs (hfresh f (by simp))
    have t : TEq (declFn f gs) gs := TEq.of_types (declFn_frame f gs).1
    have hfresh' : ∀ f' ∈ fs, assocGet f'.name (declFn f gs).funcs = none := by
      intro f' hf'
      rw [d1, assocGet_append, hfresh f' (by simp [hf'])]
      have hne : f'.name ≠ f.name := fun e => hn.1 (List.mem_map.mpr ⟨f', hf', e⟩)
      cases he : fnEntry? gs f with
      | none => rfl
      | some e =>
        have := fnEntry?_key he
        obtain ⟨k, v⟩ := e
        simp only at this
        subst this
        simp [assocGet, hne]
    obtain ⟨i1, i2⟩ := pf_char fs (declFn f gs) hn.2 hfresh'
    have e1 : fs.filterMap (fnEntry? (declFn f gs)) = fs.filterMap (fnEntry? gs) := by
      congr 1; funext x; exact fnEntry?_congr t x
    have e2 : fs.flatMap (fnErrs (declFn f gs)) = fs.flatMap (fnErrs gs) := by
      congr 1; funext x; exact fnErrs_congr t x
    refine ⟨?_, ?_⟩
    · show (pf fs (declFn f gs)).funcs = _
      rw [i1, d1, e1, List.append_assoc]
      congr 1
      cases he : fnEntry? gs f <;> simp [List.filterMap_cons, he]
    · show (pf fs (declFn f gs)).errors = _
      rw [i2, d2, e2, List.append_assoc]
      simp [List.flatMap_cons]

theorem fnEntry_keys_sublist (gs : GState) : ∀ (fs : List FnDecl),
    ((fs.filterMap (fnEntry? gs)).map (·.1)).Sublist (fs.map (·.name))
  | [] => List.Sublist.slnil
  | f :: fs => by
    cases he : fnEntry? gs f with
    | none =>
      simp only [List.filterMap_cons, he, List.map_cons]
      exact (fnEntry_keys_sublist gs fs).cons _
    | some e =>
      simp only [List.filterMap_cons, he, List.map_cons]
      rw [fnEntry?_key he]
      exact (fnEntry_keys_sublist gs fs).cons_cons _

/-! ### The declaration phase -/

/-- the same tables (as finite maps), the same errors (as a multiset) -/
structure DeclEq (s s' : GState) : Prop where
  consts : s'.consts = s.consts
  funcs : s'.funcs.Perm s.funcs
  types : s'.types.Perm s.types
  errors : s'.errors.Perm s.errors
  tkeys : (s.types.map (·.1)).Nodup
  fkeys : (s.funcs.map (·.1)).Nodup

theorem declState_char (p : Program) (ht : (p.tds.map (·.name)).Nodup) (hf : (p.fns.map (·.name)).Nodup) :
    let g1 : GState := { GState.init with types := p.tds.map tyEntry, context := p.tds.map tyInstr }
    (declState p).types = p.tds.map tyEntry ∧
    (declState p).consts = (pc p.cds g1).consts ∧
    (declState p).funcs = p.fns.filterMap (fnEntry? g1) ∧
    (declState p).errors.Perm ((pc p.cds g1).errors ++ p.fns.flatMap (fnErrs g1)) := by
  intro g1
  unfold declState
  rw [pass1_init p ht]
  obtain ⟨a1, a2, a3, Δ, ΔC, ΔF, b1, b2, b3, b4⟩ := pass2_split p g1 g1 g1 rfl rfl (TEq.refl _) (TEq.refl _)
  obtain ⟨c1, c2⟩ := pf_char p.fns g1 hf (fun _ _ => rfl)
  have hg : g1.errors = [] := rfl
  have hgf : g1.funcs = [] := rfl
  rw [hg, List.nil_append] at b1 b2 b3 c2
  rw [hgf, List.nil_append] at c1
  refine ⟨a3, a1, by rw [a2, c1], ?_⟩
  show (pass2 p g1).errors.Perm _
  rw [b1, b2, ← c2, b3]
  exact b4

theorem teq_of_perm {a b : GState} (h : a.types.Perm b.types) (hn : (a.types.map (·.1)).Nodup) : TEq a b := by
  intro t
  unfold GState.typeExists
  cases t with
  | prim _ => rfl
  | struct n at_ => simp only; rw [assocGet_perm _ h hn]
  | array t n => simp only; rw [assocGet_perm _ h hn]

/-- the declaration phase of a permuted program -/
theorem decl_perm (p p' : Program) (hperm : p.Perm p') (hc : p.cds = p'.cds)
    (ht : (p.tds.map (·.name)).Nodup) (hf : (p.fns.map (·.name)).Nodup) : DeclEq (declState p) (declState p') := by
  have pt : p.tds.Perm p'.tds := hperm.filterMap _
  have pfn : p.fns.Perm p'.fns := by rw [fns_eq_filterMap, fns_eq_filterMap]; exact hperm.filterMap _
  have ht' : (p'.tds.map (·.name)).Nodup := (pt.map _).nodup_iff.mp ht
  have hf' : (p'.fns.map (·.name)).Nodup := (pfn.map _).nodup_iff.mp hf
  obtain ⟨t1, c1, f1, e1⟩ := declState_char p ht hf
  obtain ⟨t2, c2, f2, e2⟩ := declState_char p' ht' hf'
  generalize hg1 : ({ GState.init with types := p.tds.map tyEntry, context := p.tds.map tyInstr } : GState) = g1 at c1 f1 e1
  generalize hg2 : ({ GState.init with types := p'.tds.map tyEntry, context := p'.tds.map tyInstr } : GState) = g2 at c2 f2 e2
  have hty1 : g1.types = p.tds.map tyEntry := by rw [← hg1]
  have hty2 : g2.types = p'.tds.map tyEntry := by rw [← hg2]
  have hk1 : (g1.types.map (·.1)).Nodup := by rw [hty1, tyEntry_keys]; exact ht
  have teq : TEq g1 g2 := teq_of_perm (by rw [hty1, hty2]; exact pt.map _) hk1
  have hcs : g1.consts = g2.consts := by rw [← hg1, ← hg2]
  obtain ⟨pc1, Δ0, pe1, pe2⟩ := pc_congr p.cds g1 g2 hcs teq
  have hge1 : g1.errors = [] := by rw [← hg1]; rfl
  have hge2 : g2.errors = [] := by rw [← hg2]; rfl
  rw [hge1, List.nil_append] at pe1
  rw [hge2, List.nil_append] at pe2
  refine ⟨?_, ?_, ?_, ?_, ?_, ?_⟩
  · rw [c1, c2, ← hc, pc1]
  · rw [f1, f2]
    have : p'.fns.filterMap (fnEntry? g2) = p'.fns.filterMap (fnEntry? g1) := by
      congr 1; funext x; exact (fnEntry?_congr teq x).symm
    rw [this]
    exact (pfn.filterMap _).symm
  · rw [t1, t2]; exact (pt.map _).symm
  · refine e2.trans (List.Perm.trans ?_ e1.symm)
    rw [← hc, pe1, pe2]
    have : p'.fns.flatMap (fnErrs g2) = p'.fns.flatMap (fnErrs g1) := by
      congr 1; funext x; exact (fnErrs_congr teq x).symm
    rw [this]
    exact List.Perm.append_left _ (pfn.flatMap_right _).symm
  · rw [t1, tyEntry_keys]; exact ht
  · rw [f1]; exact (fnEntry_keys_sublist g1 p.fns).nodup hf

theorem globals_eq {s s' : GState} (h : DeclEq s s') : s'.globals = s.globals := by
  unfold GState.globals
  congr 1
  · funext n; exact (assocGet_perm n h.types.symm h.tkeys).symm
  · rw [h.consts]
  · funext n; exact (assocGet_perm n h.funcs.symm h.fkeys).symm

/-! ### The whole run -/

theorem firstPanic_isSome : ∀ (l : List St), (firstPanic l).isSome = l.any (·.panic.isSome)
  | [] => rfl
  | s :: rest => by
    unfold firstPanic
    cases h : s.panic with
    | some x => simp [h]
    | none => simp [h, firstPanic_isSome rest]

theorem zip_map_self {α β : Type} (F : α → β) : ∀ (l : List α), l.zip (l.map F) = l.map fun a => (a, F a)
  | [] => rfl
  | a :: l => by simp [zip_map_self F l]

/-- **C16** — the run of a program and of any permutation of its top-level statements that keeps the constants in the
same relative order (struct names and function names pairwise distinct): same constant table; type and function tables
equal as finite maps (permutations with pairwise distinct keys); the same multiset of errors; a panic in both or in
neither; and for every function the identical root block, i.e. the identical instruction stack and block tree. -/
theorem C16 (p p' : Program) (hperm : p.Perm p') (hc : p.cds = p'.cds)
    (ht : (p.tds.map (·.name)).Nodup) (hf : (p.fns.map (·.name)).Nodup) :
    (run p').consts = (run p).consts ∧
    (run p').types.Perm (run p).types ∧ ((run p).types.map (·.1)).Nodup ∧
    (run p').funcs.Perm (run p).funcs ∧ ((run p).funcs.map (·.1)).Nodup ∧
    (run p').errors.Perm (run p).errors ∧
    ((run p').panic.isSome = (run p).panic.isSome) ∧
    (p'.fns.zip (run p').roots).Perm (p.fns.zip (run p).roots) := by
  have hd := decl_perm p p' hperm hc ht hf
  have hg := globals_eq hd
  have pfn : p.fns.Perm p'.fns := by rw [fns_eq_filterMap, fns_eq_filterMap]; exact hperm.filterMap _
  have hrun : ∀ q : Program, run q =
      { panic := firstPanic (q.fns.map (functionBody (declState q).globals)),
        errors := (declState q).errors ++ ((q.fns.map (functionBody (declState q).globals)).map (·.errors)).flatten,
        types := (declState q).types, consts := (declState q).consts, funcs := (declState q).funcs,
        gcontext := (declState q).context,
        roots := (q.fns.map (functionBody (declState q).globals)).map (·.root) } := fun _ => rfl
  rw [hrun p, hrun p']
  dsimp only
  rw [hg]
  refine ⟨hd.consts, hd.types, hd.tkeys, hd.funcs, hd.fkeys, ?_, ?_, ?_⟩
  · refine List.Perm.append hd.errors ?_
    exact (((pfn.map _).map _).flatten).symm
  · rw [firstPanic_isSome, firstPanic_isSome]
    exact ((pfn.map _).any_eq).symm
  · rw [List.map_map, List.map_map, zip_map_self, zip_map_self]
    exact (pfn.map _).symm

end SemVerif
