import SemVerif.Spec.Preds
import SemVerif.Inventory
/-! # Property C16 — theorems (under construction) -/
namespace SemVerif
end SemVerif
