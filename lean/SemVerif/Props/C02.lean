import SemVerif.Props.C14
/-!
# Property C02 — a well-formed program is accepted

`C02`: if the reference rule checker finds no violation at all (`WellFormedB p`) and the program is
inside the documented domain (`LoopOKB p`), the run neither panics nor reports any error.
Corollary of T1 (no violation ⇒ no first error) and C13 (no panic).
-/
namespace SemVerif

theorem C02_errors (p : Program) (hwf : refCheck p = []) (hok : LoopOKB p = true) : (run p).errors = [] := by
  rcases T1 p hok with ⟨he, _⟩ | ⟨_, _, v, _, hv, _⟩
  · exact he
  · rw [hwf] at hv; simp [firstEnf] at hv

/-- **C02** — the output predicate holds on the model's result for every program -/
theorem C02 (p : Program) : P_C02 p (run p) = [] := by
  unfold P_C02
  split
  · rename_i h
    simp only [Bool.and_eq_true, Bool.not_eq_true'] at h
    obtain ⟨⟨hwf, hok⟩, hacc⟩ := h
    have hwf' : refCheck p = [] := by unfold WellFormedB at hwf; simpa [List.isEmpty_iff] using hwf
    have he := C02_errors p hwf' hok
    have hp : (run p).panic = none := by
      have := C13 p
      unfold P_C13 at this
      rw [hok] at this
      cases hpp : (run p).panic with
      | none => rfl
      | some x => rw [hpp] at this; simp at this
    unfold Result.accepted at hacc
    rw [he, hp] at hacc
    simp at hacc
  · rfl

/-- non-vacuity: the premises are satisfiable (a well-formed program with shadowing, a forward
reference to a function, a nested block and a constant) — checked by evaluation -/
example : WellFormedB
    [.fn ⟨['m'], [(['x'], .prim .u8)], .prim .u8,
      [.letB ⟨['x'], false, none, .mk (.var ['x']) (some (.plus, .mk (.var ['K']) none))⟩,
       .ifS (.mk (.single (.mk (.lit (.bool true)) none)) (.ifb [.letB ⟨['y'], false, none, .mk (.call ['g'] [.mk (.var ['x']) none]) none⟩]) none none),
       .ret (.mk (.var ['x']) none)]⟩,
     .const ⟨['K'], .prim .u8, .last (.val (.u8 1))⟩,
     .fn ⟨['g'], [(['a'], .prim .u8)], .prim .u8, [.ret (.mk (.var ['a']) none)]⟩] = true := by decide +kernel

end SemVerif
