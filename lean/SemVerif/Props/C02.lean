import SemVerif.Spec.Preds
import SemVerif.Inventory
/-! # Property C02 — theorems (under construction) -/
namespace SemVerif
end SemVerif
