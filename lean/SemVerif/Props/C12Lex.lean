import SemVerif.Props.C12
import SemVerif.Props.C03
/-!
# Property C12, second sentence read lexically

"Every read or assignment carries a value record identical to the one its declaration introduced":
`C12` proves that the record is the one *a* declaration of that internal name introduced, for every
program; which declaration is "its" declaration is a matter of lexical scoping, and for accepted
well-formed programs that is theorem T2 through the resolver projection (as in C03).
-/
namespace SemVerif

/-- **C12 (with the lexical clause)** — the output predicate the check evaluates for C12 holds on the
model's result for every program -/
theorem C12_lexical (p : Program) : P_C12g p (run p) = [] := by
  unfold P_C12g
  rw [C12, List.nil_append]
  split
  · rename_i h
    have ha : (run p).accepted = true := by
      unfold acceptedWF at h; simp only [Bool.and_eq_true] at h; exact h.1
    obtain ⟨hnp, he⟩ := (accepted_iff _).mp ha
    exact cmpRendered_nil _ _ _ (denotePairs_eq p hnp he)
  · rfl

end SemVerif
