import SemVerif.Spec.Codec
import SemVerif.Inventory
/-! # Property C20 — codec data model (round-trip theorem under construction) -/
namespace SemVerif
/-- the serde attribute inventory of the sources is the one the codec model follows -/
theorem C20_shapes : Generated.serdeShapes = Model.serdeShapes := inv_serdeShapes
end SemVerif
