import SemVerif.Spec.Codec
import SemVerif.Inventory
import SemVerif.Lemmas.CodecInj
import SemVerif.Lemmas.CodecStackInj
/-!
# Property C20 — serialised forms round-trip (the part a model can carry)

* `C20_shapes`: the serde attribute inventory regenerated from the sources is the one the data-model
  encoder `encProgram` (Spec/Codec.lean) follows.
* `C20_ast_injective`: the data model of the serialised AST is injective — two programs with the same
  JSON value are the same program, for every program, size and nesting depth.  The correspondence
  run checks that `encProgram` *is* serde_json's value of the real AST; so the real serialiser
  loses no information on the AST domain, which is the half of "deserialising the result yields a
  value equal to the original" that does not depend on the deserialiser.  That the real
  deserialiser inverts it, that re-serialising gives the same text, and that the deserialised AST
  analyses identically are checked natively on every generated program (and are where the
  recorded findings F11, F12 live).
-/
namespace SemVerif

/-- the serde attribute inventory of the sources is the one the codec model follows -/
theorem C20_shapes : Generated.serdeShapes = Model.serdeShapes := inv_serdeShapes

/-- **C20 (information preservation, AST)** -/
theorem C20_ast_injective (p q : Program) (h : encProgram p = encProgram q) : p = q := encProgram_inj p q h

/-- **C20 (information preservation, instruction stacks)** — for every pair of instruction stacks -/
theorem C20_stack_injective (a b : List Instr) (h : encStack a = encStack b) : a = b := encStack_inj a b h

/-- tag and field names of an adjacently tagged struct variant -/
def Json.tagKeys : Json → Option (String × List String)
  | .obj [("type", .str t), ("content", .obj kv)] => some (String.ofList t, kv.map (·.1))
  | _ => none

/-- one instruction per variant the data model encodes field by field (`FunctionDeclaration` is
abbreviated in the model, `ExtendedExpression` carries the harness's own payload) -/
def sampleInstrs : List Instr :=
  let v : Value := default
  let r : ExprResult := default
  [.exprValue v 0, .exprConst default 0, .exprStructValue v 0 0, .exprOp .plus r r 0, .call default [] 0,
   .letBinding v r, .binding v r, .const default, .types [] .nil, .fnReturn r, .fnReturnWithLabel r, .setLabel [],
   .jumpTo [], .ifCondExpr r [] [], .condExpr r r .eq 0, .jumpFnReturn r, .logicCond .and 0 0 0, .ifCondLogic [] [] 0,
   .fnArg v default]

/-- the variant and field names the stack encoder writes are those of `SemanticStackContext` in the
sources (regenerated on every run): renaming a field or a variant there breaks this obligation -/
theorem C20_instr_keys :
    sampleInstrs.filterMap (fun i => (encInstr i).tagKeys) =
      Generated.instrShapes.filter (fun s => s.1 != "FunctionDeclaration" && s.1 != "ExtendedExpression") := by
  decide +kernel

/-- non-vacuity: two programs that differ only in one literal have different encodings -/
example : encProgram [.const ⟨['K'], .prim .u8, .last (.val (.u8 1))⟩] ≠ encProgram [.const ⟨['K'], .prim .u8, .last (.val (.u8 2))⟩] := by
  intro h
  have := C20_ast_injective _ _ h
  simp at this

end SemVerif
