import SemVerif.Spec.Preds
import SemVerif.Inventory
/-! # Property C08 — theorems (under construction) -/
namespace SemVerif
end SemVerif
