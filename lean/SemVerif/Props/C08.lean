import SemVerif.Props.T2
/-!
# Property C08 — every register that is read has been written earlier in the same function

The unrestricted statement is false on the current tree (recorded finding F7: a call or a field
read used as an operand names the register *after* the one it wrote; pinned by the existing tests).
`C08_partial`: for every program, on the model's result, the output predicate reports nothing but
instances of F7 — in the root stack of every function of an accepted program, each register read
(operand, logic-condition input, subject of a conditional instruction, argument, initialiser,
assigned or returned value) is the result register of an earlier instruction of the same stack, or
else it is `r+1` where `r` is the result register of an earlier `Call` / `ExpressionStructValue`
instruction *and no instruction of the stack writes it* (the matcher of F7, `isF7alias`).

Proof: the T2 simulation carries the reads invariant `RdInv` (every register read had a tree in the
abstract reading at that point — i.e. an earlier instruction wrote it or it is the alias register
after an earlier call / field read —, it was not above the counter, and every register written
by that instruction or later is above it); `c08_of_rdInv` turns that into the stack-level predicate.
The witness that the full statement fails is `C08_full_false` (3 instructions).
-/
namespace SemVerif

def Instr.aliasBase : Instr → Option Nat
  | .call _ _ r | .exprStructValue _ _ r => some r
  | _ => none

theorem bound_step_inv (A : AbsSt) (i : Instr) (q : Nat) (h : (abstractStep A i).bound q = true) :
    A.bound q = true ∨ i.writes = some q ∨ ∃ r, i.aliasBase = some r ∧ q = r + 1 := by
  cases i <;> simp [abstractStep, AbsSt.emit_bound, AbsSt.bind_bound, Instr.writes, Instr.aliasBase] at h ⊢ <;>
    first | exact h | exact Or.inl h | (rcases h with h | h <;> simp [h]) | (rcases h with h | h | h <;> simp [h])

theorem bound_fold_inv (pre : List Instr) : ∀ (A : AbsSt) (q : Nat), (pre.foldl abstractStep A).bound q = true →
    A.bound q = true ∨ q ∈ resultRegs pre ∨ ∃ j ∈ pre, ∃ r, j.aliasBase = some r ∧ q = r + 1 := by
  induction pre with
  | nil => intro A q h; exact Or.inl h
  | cons i rest ih =>
    intro A q h
    simp only [List.foldl_cons] at h
    rcases ih _ q h with h1 | h1 | ⟨j, hj, r, hr⟩
    · rcases bound_step_inv A i q h1 with h2 | h2 | ⟨r, hr⟩
      · exact Or.inl h2
      · right; left; simp [resultRegs, List.filterMap_cons, h2]
      · right; right; exact ⟨i, by simp, r, hr⟩
    · right; left
      unfold resultRegs at h1 ⊢
      rw [List.filterMap_cons]
      cases i.writes <;> simp [h1]
    · right; right; exact ⟨j, by simp [hj], r, hr⟩

theorem readsBound_split (pre : List Instr) (i : Instr) (post : List Instr) : ∀ (A : AbsSt),
    readsBound (pre ++ i :: post) A = true → ∀ q ∈ i.reads, (pre.foldl abstractStep A).bound q = true := by
  induction pre with
  | nil =>
    intro A h q hq
    simp only [List.nil_append, readsBound, Bool.and_eq_true, List.all_eq_true] at h
    exact h.1 q hq
  | cons x xs ih =>
    intro A h q hq
    simp only [List.cons_append, readsBound, Bool.and_eq_true] at h
    exact ih _ h.2 q hq

theorem unwrittenReads_mem : ∀ (rest : List Instr) (written : List Nat) (pos p r : Nat),
    (p, r) ∈ unwrittenReads rest written pos →
    ∃ pre i post, rest = pre ++ i :: post ∧ p = pos + pre.length ∧ r ∈ i.reads ∧ r ∉ written ∧ r ∉ resultRegs pre
  | [], _, _, _, _, h => by simp [unwrittenReads] at h
  | i :: rest, written, pos, p, r, h => by
    unfold unwrittenReads at h
    simp only [List.mem_append, List.mem_map, List.mem_filter] at h
    rcases h with ⟨q, ⟨hq, hnw⟩, he⟩ | h
    · injection he with h1 h2
      subst h1; subst h2
      refine ⟨[], i, rest, rfl, by simp, hq, ?_, by simp [resultRegs]⟩
      simpa using hnw
    · obtain ⟨pre, j, post, hd, hp, hr, hnw, hnp⟩ := unwrittenReads_mem rest _ (pos + 1) p r h
      refine ⟨i :: pre, j, post, by rw [hd]; rfl, by rw [hp]; simp; omega, hr, ?_, ?_⟩
      · cases hw : i.writes with
        | none => rw [hw] at hnw; exact hnw
        | some w => rw [hw] at hnw; simp at hnw; exact hnw.2
      · unfold resultRegs at hnp ⊢
        rw [List.filterMap_cons]
        cases hw : i.writes with
        | none => exact hnp
        | some w =>
          rw [hw] at hnw
          simp at hnw ⊢
          exact ⟨hnw.1, by simpa using hnp⟩

/-- the reads invariant gives the stack-level predicate: every read without an earlier writer is an
instance of the F7 matcher -/
theorem c08_of_rdInv {s : St} (h : RdInv s) : ∀ p r, (p, r) ∈ unwrittenReads s.root.context [] 0 →
    isF7alias s.root.context p r = true := by
  intro p r hm
  obtain ⟨pre, i, post, hd, hp, hr, _, hnp⟩ := unwrittenReads_mem _ _ _ _ _ hm
  simp only [Nat.zero_add] at hp
  have hb := readsBound_split pre i post AbsSt.init (by rw [← hd]; exact h.ok) r hr
  obtain ⟨_, hlw⟩ := h.lw pre i post hd r hr
  rcases bound_fold_inv pre AbsSt.init r hb with h0 | h0 | ⟨j, hj, r', hr', hq⟩
  · simp [AbsSt.bound, AbsSt.init] at h0
  · exact absurd h0 hnp
  · unfold isF7alias
    simp only [Bool.and_eq_true, decide_eq_true_eq, Bool.not_eq_true', List.any_eq_true]
    refine ⟨⟨by omega, ?_⟩, j, ?_, ?_⟩
    · rw [hd]
      have : resultRegs (pre ++ i :: post) = resultRegs pre ++ resultRegs (i :: post) := by
        unfold resultRegs; rw [List.filterMap_append]
      rw [this]
      simp only [List.contains_eq_mem, List.mem_append, decide_eq_false_iff_not, not_or]
      exact ⟨hnp, fun hw => Nat.lt_irrefl _ (hlw r hw)⟩
    · rw [hd, hp, List.take_left' rfl]; exact hj
    · cases j <;> simp [Instr.aliasBase] at hr' <;> simp [hr', hq]

theorem P_C08_stack_F7 {s : St} (h : RdInv s) (i : Nat) :
    ∀ t ∈ P_C08_stack s.root.context i, t = "F7:operand-names-register-after-call-or-field-read" := by
  intro t ht
  unfold P_C08_stack at ht
  simp only [List.mem_map] at ht
  obtain ⟨⟨p, r⟩, hm, rfl⟩ := ht
  dsimp only
  rw [c08_of_rdInv h p r hm]
  rfl

/-- **C08 (partial: up to the recorded finding F7)** — on the model's result the output predicate
reports only instances of F7, for every program -/
theorem C08_partial (p : Program) :
    ∀ t ∈ P_C08g p (run p), t = "F7:operand-names-register-after-call-or-field-read" := by
  intro t ht
  unfold P_C08g at ht
  split at ht
  · rename_i hacc
    have ha : (run p).accepted = true := by
      unfold acceptedWF at hacc; simp only [Bool.and_eq_true] at hacc; exact hacc.1
    have hnp : (run p).panic = none ∧ (run p).errors = [] := by
      unfold Result.accepted at ha
      simpa [Option.isNone_iff_eq_none, List.isEmpty_iff] using ha
    unfold P_C08 at ht
    rw [List.mem_eraseDups, List.mem_flatMap] at ht
    obtain ⟨⟨b, i⟩, hbi, ht⟩ := ht
    have hb := List.fst_mem_of_mem_zipIdx hbi
    -- every root is the root of an error-free function analysis
    have hrel := rel_run p
    have hg := globRel_of_rel hrel
    have hn := gnames_of_rel hrel
    have hok := anaOK_of_no_panic p hnp.1
    have he := hnp.2
    unfold run at he hb
    dsimp only at he hb
    rw [List.append_eq_nil_iff] at he
    have hfl := flatten_eq_nil_mem he.2
    rw [List.map_map, List.mem_map] at hb
    obtain ⟨f, hf, rfl⟩ := hb
    have hfe : (functionBody (pass2 p (pass1 p GState.init)).globals f).errors = [] := by
      apply hfl
      rw [List.mem_map]
      exact ⟨functionBody (pass2 p (pass1 p GState.init)).globals f, by rw [List.mem_map]; exact ⟨f, hf, rfl⟩, rfl⟩
    unfold AnaOKB at hok
    rw [List.all_eq_true] at hok
    have hrd := (T2_function hg hn f (hok f (by rw [← fns_eq_fnDecls]; exact hf)) hfe).2
    exact P_C08_stack_F7 hrd.1 i t ht
  · cases ht

/-- the full statement (no register is read before it is written) fails on the current tree: the
analysis of `fn m() -> u8 { return g() + 1 }` reads register 2, which nothing writes -/
theorem C08_full_false :
    unwrittenReads (run [.fn ⟨['g'], [], .prim .u8, [.ret (.mk (.lit (.u8 1)) none)]⟩,
      .fn ⟨['m'], [], .prim .u8, [.ret (.mk (.call ['g'] []) (some (.plus, .mk (.lit (.u8 1)) none)))]⟩]).roots[1]!.context [] 0
      = [(1, 2)] := by decide +kernel

end SemVerif
