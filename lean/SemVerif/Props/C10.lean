import SemVerif.Spec.Preds
import SemVerif.Inventory
import SemVerif.Lemmas.StmtSteps
import SemVerif.Lemmas.Frames
/-!
# Property C10 — labels are set once (every program)

`C10_unique`: for every program and every function, no label is set twice in the function's stack.
Invariant `LInv`: the labels set in the root stack are pairwise distinct and registered.  Frame
property `Ext`: the registry only grows, and a registered label that is not yet set stays unset
unless the construct allocated it itself (`Pending`).  A label is set only by the construct that
obtained it from the probe, which returns a name outside the function-wide registry
(`St.probeLabel_fresh`).  Mutual structural induction over the control constructs; everything
below statement level is an expression-level step chain and touches neither registry nor labels.

The resolution half of C10 (every jump target is set, for accepted well-formed programs without
finding F3) is checked by the correspondence run only; see DESIGN.md.
-/
namespace SemVerif

theorem setLabels_append (a b : List Instr) : setLabels (a ++ b) = setLabels a ++ setLabels b := by
  simp [setLabels, List.filterMap_append]

theorem setLabels_snoc_plain (c : List Instr) (i : Instr) (h : i.setsLabel = none) :
    setLabels (c ++ [i]) = setLabels c := by
  rw [setLabels_append]; simp [setLabels, List.filterMap, h]

theorem setLabels_snoc_label (c : List Instr) (l : Name) :
    setLabels (c ++ [.setLabel l]) = setLabels c ++ [l] := by
  rw [setLabels_append]; simp [setLabels, List.filterMap, Instr.setsLabel]

/-- labels set in the root stack are pairwise distinct and registered -/
def LInv (s : St) : Prop :=
  (setLabels s.root.context).Nodup ∧ ∀ l ∈ setLabels s.root.context, l ∈ s.root.labels

/-- `s'` extends `s`: the registry grows; registered-but-unset labels of `s` are still unset -/
def LExt (s s' : St) : Prop :=
  (∀ l ∈ s.root.labels, l ∈ s'.root.labels) ∧
  (∀ l ∈ s.root.labels, l ∉ setLabels s.root.context → l ∉ setLabels s'.root.context)

def Good (s s' : St) : Prop := LInv s → LInv s' ∧ LExt s s'

theorem LExt.refl (s : St) : LExt s s := ⟨fun _ h => h, fun _ _ h => h⟩
theorem LExt.trans {a b c : St} (h1 : LExt a b) (h2 : LExt b c) : LExt a c :=
  ⟨fun l h => h2.1 l (h1.1 l h), fun l h hn => h2.2 l (h1.1 l h) (h1.2 l h hn)⟩
theorem Good.refl (s : St) : Good s s := fun h => ⟨h, LExt.refl s⟩
theorem Good.trans {a b c : St} (h1 : Good a b) (h2 : Good b c) : Good a c := fun h =>
  let ⟨i1, e1⟩ := h1 h
  let ⟨i2, e2⟩ := h2 i1
  ⟨i2, e1.trans e2⟩

/-- operations that leave the root's registry and its label-setting instructions alone -/
theorem good_of_same {s s' : St} (hl : s'.root.labels = s.root.labels)
    (hc : setLabels s'.root.context = setLabels s.root.context) : Good s s' := by
  intro ⟨h1, h2⟩
  refine ⟨⟨by rw [hc]; exact h1, by rw [hc, hl]; exact h2⟩, ⟨by rw [hl]; exact fun _ h => h, ?_⟩⟩
  rw [hc]; exact fun _ _ h => h

theorem root_push (i : Instr) (s : St) :
    (s.push i).root.context = s.root.context ++ [i] ∧ (s.push i).root.labels = s.root.labels := ⟨rfl, rfl⟩

theorem root_pushVia (k : Nat) (i : Instr) (s : St) :
    (s.pushVia k i).root.context = s.root.context ++ [i] ∧ (s.pushVia k i).root.labels = s.root.labels := by
  unfold St.pushVia St.push St.mapFrames St.mapCur
  cases s.inner <;> exact ⟨rfl, rfl⟩

theorem good_push_plain (s : St) (i : Instr) (h : i.setsLabel = none) : Good s (s.push i) :=
  good_of_same rfl (by rw [(root_push i s).1, setLabels_snoc_plain _ _ h])

theorem good_fnReturn_aux {s s2 : St} (h : ESteps s s2) (q : St × Bool) (hq : q = (s2, q.2) ∨ ∃ r, q =
    (if s2.cur.manualReturn then s2.push (.fnReturnWithLabel r) else s2.push (.fnReturn r), true))
    (ge : ∀ {a b : St}, ESteps a b → Good a b) : Good s q.1 := by
  rcases hq with hq | ⟨r, hq⟩
  · rw [hq]; exact ge h
  · rw [hq]; dsimp only; split
    · exact (ge h).trans (good_push_plain _ _ rfl)
    · exact (ge h).trans (good_push_plain _ _ rfl)

theorem good_pushVia_plain (s : St) (k : Nat) (i : Instr) (h : i.setsLabel = none) : Good s (s.pushVia k i) :=
  good_of_same (root_pushVia k i s).2 (by rw [(root_pushVia k i s).1, setLabels_snoc_plain _ _ h])

theorem good_enter (s : St) : Good s s.enter := good_of_same rfl rfl
theorem good_setReturn (s : St) : Good s s.setReturn := good_of_same rfl rfl
theorem good_leave (s : St) : Good s s.leave.2 :=
  good_of_same (root_leave_fields s).2.2.2.1 (by rw [(root_leave_fields s).1])

theorem good_estep {s s' : St} (st : EStep s s') : Good s s' := by
  cases st with
  | incReg => exact good_of_same rfl rfl
  | emit i _ _ hl _ => exact good_push_plain s i hl
  | incEmit i _ _ hl _ => exact (good_of_same (s := s) (s' := s.incReg) rfl rfl).trans (good_push_plain _ i hl)
  | addErr k v l o => exact good_of_same rfl rfl
  | declare n v i _ _ hl _ _ =>
    refine Good.trans (good_of_same ?_ ?_) (good_push_plain _ i hl)
    · unfold St.registerInner St.mapFrames St.insertValue St.mapCur; cases s.inner <;> rfl
    · unfold St.registerInner St.mapFrames St.insertValue St.mapCur; cases s.inner <;> rfl

theorem good_esteps {s s' : St} (st : ESteps s s') : Good s s' := by
  induction st with
  | refl => exact Good.refl _
  | tail _ st ih => exact ih.trans (good_estep st)

theorem good_bsteps {s s' : St} (h : BSteps s s') : Good s s' := by
  obtain ⟨s1, h1, rfl | ⟨i, rfl, _, _, hl, _⟩⟩ := h
  · exact good_esteps h1
  · exact (good_esteps h1).trans (good_push_plain _ i hl)

theorem good_fnReturn (g : Globals) (resTy : Ty) (e : Expr) (rc : Bool) (s : St) : Good s (fnReturn g resTy e rc s).1 := by
  obtain ⟨s2, h, hq | ⟨r, hq⟩⟩ := fnReturn_split g resTy e rc s
  · exact good_fnReturn_aux h _ (Or.inl (by rw [hq])) good_esteps
  · exact good_fnReturn_aux h _ (Or.inr ⟨r, hq⟩) good_esteps

/-- what a label probe does to the root block -/
theorem fresh_spec (s : St) (stem : Name) :
    (s.probeLabel stem).1 ∉ s.root.labels ∧
    (∀ x, x ∈ (s.probeLabel stem).2.root.labels ↔ x = (s.probeLabel stem).1 ∨ x ∈ s.root.labels) ∧
    (s.probeLabel stem).2.root.context = s.root.context := by
  have hf := St.probeLabel_fresh s stem
  refine ⟨?_, ?_, rfl⟩
  · intro hm
    unfold St.labelUsed at hf
    have : (s.frames.any fun b => b.labels.contains (s.probeLabel stem).1) = true := by
      rw [List.any_eq_true]
      exact ⟨s.root, by simp [St.frames], by simpa using hm⟩
    rw [this] at hf; cases hf
  · intro x
    show x ∈ setInsert _ s.root.labels ↔ _
    exact mem_setInsert _ _ _

theorem good_fresh (s : St) (stem : Name) : Good s (s.probeLabel stem).2 := by
  intro ⟨h1, h2⟩
  obtain ⟨_, hl, hc⟩ := fresh_spec s stem
  refine ⟨⟨by rw [hc]; exact h1, ?_⟩, ⟨?_, ?_⟩⟩
  · intro l hl'; rw [hc] at hl'; exact (hl l).mpr (Or.inr (h2 l hl'))
  · intro l h; exact (hl l).mpr (Or.inr h)
  · intro l _ hn; rw [hc]; exact hn

/-- setting a registered, still unset label keeps the invariant -/
theorem inv_setLabel (s s' : St) (l : Name) (hi : LInv s) (hr : l ∈ s.root.labels)
    (hn : l ∉ setLabels s.root.context)
    (hroot : s'.root.context = s.root.context ++ [.setLabel l] ∧ s'.root.labels = s.root.labels) :
    LInv s' ∧ setLabels s'.root.context = setLabels s.root.context ++ [l] := by
  obtain ⟨h1, h2⟩ := hi
  have hc : setLabels s'.root.context = setLabels s.root.context ++ [l] := by
    rw [hroot.1, setLabels_snoc_label]
  refine ⟨⟨?_, ?_⟩, hc⟩
  · rw [hc]
    exact List.nodup_append.mpr ⟨h1, by simp, by intro a ha b hb; simp at hb; subst hb; intro h; subst h; exact hn ha⟩
  · intro l' hl'; rw [hc] at hl'; rw [hroot.2]
    rcases List.mem_append.mp hl' with h | h
    · exact h2 l' h
    · simp at h; subst h; exact hr

/-- result of a construct relative to its start state -/
def Res (s0 s : St) : Prop := LInv s ∧ LExt s0 s

theorem Res.step {s0 s s' : St} (h : Res s0 s) (g : Good s s') : Res s0 s' :=
  let ⟨i, e⟩ := g h.1
  ⟨i, h.2.trans e⟩

/-- a label allocated after `s0`, registered and not yet set -/
def Pending (s0 s : St) (l : Name) : Prop :=
  l ∈ s.root.labels ∧ l ∉ setLabels s.root.context ∧ l ∉ s0.root.labels

theorem Pending.step {s0 s s' : St} {l : Name} (h : Pending s0 s l) (hi : LInv s) (g : Good s s') :
    Pending s0 s' l :=
  let ⟨_, e⟩ := g hi
  ⟨e.1 l h.1, e.2 l h.1 h.2.1, h.2.2⟩

/-- push `SetLabel l'` (directly or through the suspended block): another pending label stays pending -/
theorem Pending.setOther {s0 s s' : St} {l l' : Name} (h : Pending s0 s l) (hne : l ≠ l')
    (hroot : s'.root.context = s.root.context ++ [.setLabel l'] ∧ s'.root.labels = s.root.labels) :
    Pending s0 s' l := by
  refine ⟨hroot.2 ▸ h.1, ?_, h.2.2⟩
  rw [hroot.1, setLabels_snoc_label]; intro hm
  rcases List.mem_append.mp hm with hm | hm
  · exact h.2.1 hm
  · simp at hm; exact hne hm

theorem Res.setPending {s0 s s' : St} {l : Name} (h : Res s0 s) (p : Pending s0 s l)
    (hroot : s'.root.context = s.root.context ++ [.setLabel l] ∧ s'.root.labels = s.root.labels) :
    Res s0 s' := by
  obtain ⟨i', hc⟩ := inv_setLabel s s' l h.1 p.1 p.2.1 hroot
  refine ⟨i', ⟨fun x hx => by rw [hroot.2]; exact h.2.1 x hx, ?_⟩⟩
  intro x hx hxn
  rw [hc]
  intro hmem
  rcases List.mem_append.mp hmem with hm | hm
  · exact h.2.2 x hx hxn hm
  · simp at hm; subst hm; exact p.2.2 hx

theorem ifPrologue_spec (g : Globals) (cond : IfCond) (dup isElse : Bool) (le : Option Name) (s : St) (hi : LInv s) :
    let p := ifPrologue g cond dup isElse le s
    Res s p.2.2 ∧ Pending s p.2.2 p.1 ∧ (le = none → Pending s p.2.2 p.2.1 ∧ p.2.1 ≠ p.1) ∧ (∀ l, le = some l → p.2.1 = l) := by
  unfold ifPrologue ifLabels
  dsimp only
  have g0 : Good s (if dup then s.addErr .ifElseDuplicated "if-condition".toList 1 0 else s) := by
    cases dup
    · exact Good.refl _
    · exact good_of_same rfl rfl
  have hroot0 : (if dup then s.addErr .ifElseDuplicated "if-condition".toList 1 0 else s).root = s.root := by
    cases dup <;> rfl
  generalize (if dup then s.addErr .ifElseDuplicated "if-condition".toList 1 0 else s) = s0 at g0 hroot0
  have h0 : Res s s0.enter := (Res.step ⟨hi, LExt.refl s⟩ g0).step (good_enter s0)
  have eroot : s0.enter.root = s.root := hroot0
  obtain ⟨f1n, f1l, f1c⟩ := fresh_spec s0.enter "if_begin".toList
  have h1 : Res s (s0.enter.probeLabel "if_begin".toList).2 := h0.step (good_fresh _ _)
  generalize s0.enter.probeLabel "if_begin".toList = r1 at f1n f1l f1c h1
  obtain ⟨lb, s1⟩ := r1
  dsimp only at f1n f1l f1c h1 ⊢
  rw [eroot] at f1n f1l f1c
  obtain ⟨f2n, f2l, f2c⟩ := fresh_spec s1 "if_else".toList
  have h2 : Res s (s1.probeLabel "if_else".toList).2 := h1.step (good_fresh _ _)
  generalize s1.probeLabel "if_else".toList = r2 at f2n f2l f2c h2
  obtain ⟨le2, s2⟩ := r2
  dsimp only at f2n f2l f2c h2 ⊢
  have b_reg : lb ∈ s2.root.labels := (f2l lb).mpr (Or.inr ((f1l lb).mpr (Or.inl rfl)))
  have b_new : lb ∉ s.root.labels := f1n
  have e_reg : le2 ∈ s2.root.labels := (f2l le2).mpr (Or.inl rfl)
  have e_new : le2 ∉ s.root.labels := by intro h; exact f2n ((f1l le2).mpr (Or.inr h))
  have e_ne_b : le2 ≠ lb := by intro h; exact f2n ((f1l le2).mpr (Or.inl h))
  have ctx2 : s2.root.context = s.root.context := by rw [f2c, f1c]
  have unset_of_new : ∀ l, l ∉ s.root.labels → l ∉ setLabels s.root.context := fun l hn hm => hn (hi.2 l hm)
  cases le with
  | some l =>
    dsimp only
    have gc := good_bsteps (esteps_ifCondCalc g cond lb le2 l isElse s2)
    have h3 := h2.step gc
    have pb : Pending s s2 lb := ⟨b_reg, by rw [ctx2]; exact unset_of_new _ b_new, b_new⟩
    have pe : Pending s s2 le2 := ⟨e_reg, by rw [ctx2]; exact unset_of_new _ e_new, e_new⟩
    have pb' := pb.step h2.1 gc
    have pe' := pe.step h2.1 gc
    exact ⟨h3.setPending pb' (root_push _ _), pe'.setOther e_ne_b (root_push _ _), (by intro h; cases h),
      (by intro l' hl'; cases hl'; rfl)⟩
  | none =>
    dsimp only
    obtain ⟨f3n, f3l, f3c⟩ := fresh_spec s2 "if_end".toList
    have h2' : Res s (s2.probeLabel "if_end".toList).2 := h2.step (good_fresh _ _)
    generalize s2.probeLabel "if_end".toList = r3 at f3n f3l f3c h2'
    obtain ⟨ln, s3⟩ := r3
    dsimp only at f3n f3l f3c h2' ⊢
    have d_reg : ln ∈ s3.root.labels := (f3l ln).mpr (Or.inl rfl)
    have d_new : ln ∉ s.root.labels := by
      intro h; exact f3n ((f2l ln).mpr (Or.inr ((f1l ln).mpr (Or.inr h))))
    have d_ne_b : ln ≠ lb := by intro h; exact f3n ((f2l ln).mpr (Or.inr ((f1l ln).mpr (Or.inl h))))
    have d_ne_e : ln ≠ le2 := by intro h; exact f3n ((f2l ln).mpr (Or.inl h))
    have ctx3 : s3.root.context = s.root.context := by rw [f3c, ctx2]
    have gc := good_bsteps (esteps_ifCondCalc g cond lb le2 ln isElse s3)
    have h3 := h2'.step gc
    have mk : ∀ l, l ∈ s3.root.labels → l ∉ s.root.labels → Pending s s3 l := fun l hr hn =>
      ⟨hr, by rw [ctx3]; exact unset_of_new _ hn, hn⟩
    have pb := (mk lb ((f3l lb).mpr (Or.inr b_reg)) b_new).step h2'.1 gc
    have pe := (mk le2 ((f3l le2).mpr (Or.inr e_reg)) e_new).step h2'.1 gc
    have pd := (mk ln d_reg d_new).step h2'.1 gc
    exact ⟨h3.setPending pb (root_push _ _), pe.setOther e_ne_b (root_push _ _),
      fun _ => ⟨pd.setOther d_ne_b (root_push _ _), d_ne_e⟩, (by intro l' hl'; cases hl')⟩

theorem loopPrologue_spec (s : St) (hi : LInv s) :
    let p := loopPrologue s
    Res s p.2.2 ∧ Pending s p.2.2 p.2.1 := by
  unfold loopPrologue
  dsimp only
  have h0 : Res s s.enter := Res.step ⟨hi, LExt.refl s⟩ (good_enter s)
  have eroot : s.enter.root = s.root := rfl
  obtain ⟨f1n, f1l, f1c⟩ := fresh_spec s.enter "loop_begin".toList
  have h1 : Res s (s.enter.probeLabel "loop_begin".toList).2 := h0.step (good_fresh _ _)
  generalize s.enter.probeLabel "loop_begin".toList = r1 at f1n f1l f1c h1
  obtain ⟨lb, s1⟩ := r1
  dsimp only at f1n f1l f1c h1 ⊢
  rw [eroot] at f1n f1l f1c
  obtain ⟨f2n, f2l, f2c⟩ := fresh_spec s1 "loop_end".toList
  have h2 : Res s (s1.probeLabel "loop_end".toList).2 := h1.step (good_fresh _ _)
  generalize s1.probeLabel "loop_end".toList = r2 at f2n f2l f2c h2
  obtain ⟨le, s2⟩ := r2
  dsimp only at f2n f2l f2c h2 ⊢
  have b_new : lb ∉ s.root.labels := f1n
  have e_new : le ∉ s.root.labels := by intro h; exact f2n ((f1l le).mpr (Or.inr h))
  have e_ne_b : le ≠ lb := by intro h; exact f2n ((f1l le).mpr (Or.inl h))
  have ctx2 : s2.root.context = s.root.context := by rw [f2c, f1c]
  have unset_of_new : ∀ l, l ∉ s.root.labels → l ∉ setLabels s.root.context := fun l hn hm => hn (hi.2 l hm)
  have g1 : Good s2 (s2.push (.jumpTo lb)) := good_push_plain _ _ rfl
  have h3 := h2.step g1
  have pb : Pending s s2 lb := ⟨(f2l lb).mpr (Or.inr ((f1l lb).mpr (Or.inl rfl))), by rw [ctx2]; exact unset_of_new _ b_new, b_new⟩
  have pe : Pending s s2 le := ⟨(f2l le).mpr (Or.inl rfl), by rw [ctx2]; exact unset_of_new _ e_new, e_new⟩
  exact ⟨h3.setPending (pb.step h2.1 g1) (root_push _ _), (pe.step h2.1 g1).setOther e_ne_b (root_push _ _)⟩

theorem ifAfterBody_spec {s0 : St} (isElse r : Bool) (lElse lEnd : Name) (s : St)
    (h : Res s0 s) (pe : Pending s0 s lElse) :
    Res s0 (ifAfterBody isElse r lElse lEnd s).2 ∧
    ∀ l, Pending s0 s l → l ≠ lElse → Pending s0 (ifAfterBody isElse r lElse lEnd s).2 l := by
  unfold ifAfterBody
  dsimp only
  have g1 : Good s (if r then s else s.push (.jumpTo lEnd)) := by
    cases r
    · exact good_push_plain _ _ rfl
    · exact Good.refl _
  have h1 := h.step g1
  have pe1 := pe.step h.1 g1
  have hp1 : ∀ l, Pending s0 s l → Pending s0 (if r then s else s.push (.jumpTo lEnd)) l := fun l pl => pl.step h.1 g1
  generalize (if r then s else s.push (.jumpTo lEnd)) = s1 at h1 pe1 hp1
  cases isElse with
  | false =>
    simp only [Bool.false_eq_true, if_false]
    exact ⟨h1.step (good_leave s1), fun l pl _ => (hp1 l pl).step h1.1 (good_leave s1)⟩
  | true =>
    simp only [if_true]
    have h2 := h1.setPending pe1 (root_push (.setLabel lElse) s1)
    exact ⟨h2.step (good_leave _), fun l pl hne =>
      ((hp1 l pl).setOther hne (root_push (.setLabel lElse) s1)).step h2.1 (good_leave _)⟩

theorem ifAfterElse_spec {s0 : St} (k : Nat) (r : Bool) (lEnd : Name) (s : St) (h : Res s0 s) :
    Res s0 (ifAfterElse k r lEnd s) ∧ ∀ l, Pending s0 s l → Pending s0 (ifAfterElse k r lEnd s) l := by
  unfold ifAfterElse
  dsimp only
  have h1 := h.step (good_leave s)
  cases r with
  | true => exact ⟨h1, fun l pl => pl.step h.1 (good_leave s)⟩
  | false =>
    have g2 : Good s.leave.2 (s.leave.2.pushVia k (.jumpTo lEnd)) := good_pushVia_plain _ _ _ rfl
    exact ⟨h1.step g2, fun l pl => (pl.step h.1 (good_leave s)).step h1.1 g2⟩

theorem good_nestedReturn (g : Globals) (e : Expr) (s : St) : Good s (nestedReturn g e s).1 := by
  obtain ⟨s1, h1, h | ⟨r, h⟩⟩ := esteps_nestedReturn_pre g e s
  · rw [h]; exact good_esteps h1
  · rw [h]; exact ((good_esteps h1).trans (good_push_plain _ _ rfl)).trans (good_setReturn _)

theorem good_loopWrap (k : Name → Name → Bool → Bool → Bool → St → St × Bool)
    (hk : ∀ lb le rc bc cc s, Good s (k lb le rc bc cc s).1) (s : St) : Good s (loopWrap k s) := by
  intro hi
  unfold loopWrap
  dsimp only
  obtain ⟨hp, pe⟩ := loopPrologue_spec s hi
  generalize loopPrologue s = p at hp pe
  obtain ⟨lb, le, s1⟩ := p
  dsimp only at hp pe ⊢
  have gb := hk lb le false false false s1
  have hb := hp.step gb
  have peb := pe.step hp.1 gb
  generalize k lb le false false false s1 = q at hb peb
  obtain ⟨s2, r⟩ := q
  dsimp only at hb peb ⊢
  unfold loopEpilogue
  dsimp only
  cases r with
  | true => have := hb.step (good_leave s2); exact ⟨this.1, this.2⟩
  | false =>
    simp only [Bool.false_eq_true, if_false]
    have g1 : Good s2 (s2.push (.jumpTo lb)) := good_push_plain _ _ rfl
    have h1 := hb.step g1
    have h2 := h1.setPending (peb.step hb.1 g1) (root_push (.setLabel le) _)
    have := h2.step (good_leave _)
    exact ⟨this.1, this.2⟩

mutual
theorem good_ifCondition (g : Globals) : ∀ (i : IfStmt) (le : Option Name) (ll : Option (Name × Name)) (s : St),
    Good s (ifCondition g i le ll s)
  | .mk cond body els elif, le, ll, s => by
    intro hi
    unfold ifCondition
    dsimp only
    obtain ⟨hp, pe, pd, pl⟩ := ifPrologue_spec g cond (els.isSome && elif.isSome) (els.isSome || elif.isSome) le s hi
    generalize ifPrologue g cond (els.isSome && elif.isSome) (els.isSome || elif.isSome) le s = p at hp pe pd pl
    obtain ⟨lElse, lEnd, s1⟩ := p
    dsimp only at hp pe pd pl ⊢
    have gb := good_ifBodies g body lEnd ll s1
    have hb := hp.step gb
    have peb := pe.step hp.1 gb
    have pdb : le = none → Pending s (ifBodies g body lEnd ll s1).1 lEnd := fun h => (pd h).1.step hp.1 gb
    generalize ifBodies g body lEnd ll s1 = q at hb peb pdb
    obtain ⟨s2, r⟩ := q
    dsimp only at hb peb pdb ⊢
    obtain ⟨ha, pa⟩ := ifAfterBody_spec (els.isSome || elif.isSome) r lElse lEnd s2 hb peb
    generalize ifAfterBody (els.isSome || elif.isSome) r lElse lEnd s2 = q3 at ha pa
    obtain ⟨k, s3⟩ := q3
    dsimp only at ha pa ⊢
    -- the epilogue, for any result `se` of the else / else-if part
    have epi : ∀ se, Res s se → (∀ l, Pending s s3 l → Pending s se l) →
        LInv (ifEpilogue k le lEnd se) ∧ LExt s (ifEpilogue k le lEnd se) := by
      intro se he pse
      unfold ifEpilogue
      cases le with
      | some l => simp only [Option.isSome_some, if_true]; exact ⟨he.1, he.2⟩
      | none =>
        simp only [Option.isSome_none, Bool.false_eq_true, if_false]
        obtain ⟨_, hne⟩ := pd rfl
        have pd2 := pse _ (pa _ (pdb rfl) hne)
        have := he.setPending pd2 (root_pushVia k (.setLabel lEnd) se)
        exact ⟨this.1, this.2⟩
    cases els with
    | some eb =>
      dsimp only
      have ge := good_ifBodies g eb lEnd ll s3.enter
      have he := (ha.step (good_enter s3)).step ge
      have hpe : ∀ l, Pending s s3 l → Pending s (ifBodies g eb lEnd ll s3.enter).1 l :=
        fun l pl => (pl.step ha.1 (good_enter s3)).step (ha.step (good_enter s3)).1 ge
      generalize ifBodies g eb lEnd ll s3.enter = q4 at he hpe
      obtain ⟨s4, r4⟩ := q4
      obtain ⟨h3, p3⟩ := ifAfterElse_spec k r4 lEnd s4 he
      exact epi _ h3 (fun l pl => p3 l (hpe l pl))
    | none =>
      cases elif with
      | some ei =>
        dsimp only
        have gi := good_ifCondition g ei (some lEnd) ll s3
        exact epi _ (ha.step gi) (fun l pl => pl.step ha.1 gi)
      | none => exact epi _ ha (fun l pl => pl)
theorem good_ifBodies (g : Globals) : ∀ (b : IfBodies) (lEnd : Name) (ll : Option (Name × Name)) (s : St),
    Good s (ifBodies g b lEnd ll s).1
  | .ifb l, lEnd, ll, s => by unfold ifBodies; exact good_ifBody g l lEnd ll false s
  | .loopb l, lEnd, some (lb, le), s => by unfold ifBodies; exact good_ifLoopBody g l lEnd lb le false false false s
  | .loopb _, _, none, s => by unfold ifBodies; unfold St.setPanic; cases s.panic <;> exact good_of_same rfl rfl
theorem good_ifBody (g : Globals) : ∀ (l : List IfBodyStmt) (lEnd : Name) (ll : Option (Name × Name)) (rc : Bool) (s : St),
    Good s (ifBody g l lEnd ll rc s).1
  | [], _, _, _, s => by unfold ifBody; exact Good.refl _
  | st :: tl, lEnd, ll, rc, s => by
    unfold ifBody
    dsimp only
    have h0 := good_esteps (esteps_forbidden rc false false s)
    generalize forbidden rc false false s = s0 at h0
    cases st with
    | letB b => exact (h0.trans (good_esteps (esteps_letBinding g b s0))).trans (good_ifBody g tl lEnd ll rc _)
    | bind b => exact (h0.trans (good_esteps (esteps_binding g b s0))).trans (good_ifBody g tl lEnd ll rc _)
    | call c => exact (h0.trans (good_esteps (esteps_callStmt g c s0))).trans (good_ifBody g tl lEnd ll rc _)
    | ifS i => exact (h0.trans (good_ifCondition g i (some lEnd) ll s0)).trans (good_ifBody g tl lEnd ll rc _)
    | loop b => exact (h0.trans (good_loopWrap _ (good_loopBody g b) s0)).trans (good_ifBody g tl lEnd ll rc _)
    | ret e =>
      dsimp only
      have h1 := h0.trans (good_nestedReturn g e s0)
      generalize nestedReturn g e s0 = q at h1
      obtain ⟨s1, r⟩ := q
      exact h1.trans (good_ifBody g tl lEnd ll (rc || r) s1)
theorem good_ifLoopBody (g : Globals) : ∀ (l : List IfLoopStmt) (lEnd lb le : Name) (rc bc cc : Bool) (s : St),
    Good s (ifLoopBody g l lEnd lb le rc bc cc s).1
  | [], _, _, _, _, _, _, s => by unfold ifLoopBody; exact Good.refl _
  | st :: tl, lEnd, lb, le, rc, bc, cc, s => by
    unfold ifLoopBody
    dsimp only
    have h0 := good_esteps (esteps_forbidden rc bc cc s)
    generalize forbidden rc bc cc s = s0 at h0
    cases st with
    | letB b => exact (h0.trans (good_esteps (esteps_letBinding g b s0))).trans (good_ifLoopBody g tl lEnd lb le rc bc cc _)
    | bind b => exact (h0.trans (good_esteps (esteps_binding g b s0))).trans (good_ifLoopBody g tl lEnd lb le rc bc cc _)
    | call c => exact (h0.trans (good_esteps (esteps_callStmt g c s0))).trans (good_ifLoopBody g tl lEnd lb le rc bc cc _)
    | ifS i => exact (h0.trans (good_ifCondition g i (some lEnd) (some (lb, le)) s0)).trans (good_ifLoopBody g tl lEnd lb le rc bc cc _)
    | loop b => exact (h0.trans (good_loopWrap _ (good_loopBody g b) s0)).trans (good_ifLoopBody g tl lEnd lb le rc bc cc _)
    | ret e =>
      dsimp only
      have h1 := h0.trans (good_nestedReturn g e s0)
      generalize nestedReturn g e s0 = q at h1
      obtain ⟨s1, r⟩ := q
      exact h1.trans (good_ifLoopBody g tl lEnd lb le (rc || r) bc cc s1)
    | cont => exact (h0.trans (good_push_plain _ _ rfl)).trans (good_ifLoopBody g tl lEnd lb le rc bc true _)
    | brk => exact (h0.trans (good_push_plain _ _ rfl)).trans (good_ifLoopBody g tl lEnd lb le rc true cc _)
theorem good_loopBody (g : Globals) : ∀ (l : List LoopStmt) (lb le : Name) (rc bc cc : Bool) (s : St),
    Good s (loopBody g l lb le rc bc cc s).1
  | [], _, _, _, _, _, s => by unfold loopBody; exact Good.refl _
  | st :: tl, lb, le, rc, bc, cc, s => by
    unfold loopBody
    dsimp only
    have h0 := good_esteps (esteps_forbidden rc bc cc s)
    generalize forbidden rc bc cc s = s0 at h0
    cases st with
    | letB b => exact (h0.trans (good_esteps (esteps_letBinding g b s0))).trans (good_loopBody g tl lb le rc bc cc _)
    | bind b => exact (h0.trans (good_esteps (esteps_binding g b s0))).trans (good_loopBody g tl lb le rc bc cc _)
    | call c => exact (h0.trans (good_esteps (esteps_callStmt g c s0))).trans (good_loopBody g tl lb le rc bc cc _)
    | ifS i => exact (h0.trans (good_ifCondition g i none (some (lb, le)) s0)).trans (good_loopBody g tl lb le rc bc cc _)
    | loop b => exact (h0.trans (good_loopWrap _ (good_loopBody g b) s0)).trans (good_loopBody g tl lb le rc bc cc _)
    | ret e =>
      dsimp only
      have h1 := h0.trans (good_nestedReturn g e s0)
      generalize nestedReturn g e s0 = q at h1
      obtain ⟨s1, r⟩ := q
      exact h1.trans (good_loopBody g tl lb le (rc || r) bc cc s1)
    | brk => exact (h0.trans (good_push_plain _ _ rfl)).trans (good_loopBody g tl lb le rc true cc _)
    | cont => exact (h0.trans (good_push_plain _ _ rfl)).trans (good_loopBody g tl lb le rc bc true _)
end

theorem good_bodyStmts (g : Globals) (resTy : Ty) : ∀ (l : List BodyStmt) (rc : Bool) (s : St),
    Good s (bodyStmts g resTy l rc s).1
  | [], _, s => by unfold bodyStmts; exact Good.refl _
  | st :: tl, rc, s => by
    unfold bodyStmts
    dsimp only
    have h0 := good_esteps (esteps_forbidden rc false false s)
    generalize forbidden rc false false s = s0 at h0
    cases st with
    | letB b => exact (h0.trans (good_esteps (esteps_letBinding g b s0))).trans (good_bodyStmts g resTy tl rc _)
    | bind b => exact (h0.trans (good_esteps (esteps_binding g b s0))).trans (good_bodyStmts g resTy tl rc _)
    | call c => exact (h0.trans (good_esteps (esteps_callStmt g c s0))).trans (good_bodyStmts g resTy tl rc _)
    | ifS i => exact (h0.trans (good_ifCondition g i none none s0)).trans (good_bodyStmts g resTy tl rc _)
    | loop b => exact (h0.trans (good_loopWrap _ (good_loopBody g b) s0)).trans (good_bodyStmts g resTy tl rc _)
    | expr e =>
      dsimp only
      have h1 := h0.trans (good_fnReturn g resTy e rc s0)
      generalize fnReturn g resTy e rc s0 = q at h1
      obtain ⟨s1, r⟩ := q
      exact h1.trans (good_bodyStmts g resTy tl r s1)
    | ret e =>
      dsimp only
      have h1 := h0.trans (good_fnReturn g resTy e rc s0)
      generalize fnReturn g resTy e rc s0 = q at h1
      obtain ⟨s1, r⟩ := q
      exact h1.trans (good_bodyStmts g resTy tl r s1)

theorem lInv_init : LInv St.init := by simp [LInv, St.init, Block.fresh, setLabels]

/-- C10 (uniqueness) for one function, as a `List.Nodup` statement -/
theorem C10_nodup_function (g : Globals) (f : FnDecl) : (setLabels (functionBody g f).root.context).Nodup := by
  have hgood : Good St.init (functionBody g f) := by
    unfold functionBody
    dsimp only
    have h1 := good_esteps (esteps_initParams f.params St.init paramInv_init)
    generalize initParams f.params St.init = s1 at h1
    have h2 := h1.trans (good_bodyStmts g f.result.toTy f.body false s1)
    generalize bodyStmts g f.result.toTy f.body false s1 = q at h2
    obtain ⟨s2, rc⟩ := q
    cases rc
    · exact h2.trans (good_estep (EStep.addErr _ _ _ _ _))
    · exact h2
  exact (hgood lInv_init).1.1

/-- C10 (uniqueness) for one function: no label is set twice -/
theorem C10_unique_function (g : Globals) (f : FnDecl) :
    nodupB (setLabels (functionBody g f).root.context) = true := by
  have hgood : Good St.init (functionBody g f) := by
    unfold functionBody
    dsimp only
    have h1 := good_esteps (esteps_initParams f.params St.init paramInv_init)
    generalize initParams f.params St.init = s1 at h1
    have h2 := h1.trans (good_bodyStmts g f.result.toTy f.body false s1)
    generalize bodyStmts g f.result.toTy f.body false s1 = q at h2
    obtain ⟨s2, rc⟩ := q
    cases rc
    · exact h2.trans (good_estep (EStep.addErr _ _ _ _ _))
    · exact h2
  have := (hgood lInv_init).1.1
  -- `nodupB` is the executable form of `List.Nodup`
  have nodupB_of_nodup : ∀ (l : List Name), l.Nodup → nodupB l = true := by
    intro l
    induction l with
    | nil => intro _; rfl
    | cons a rest ih =>
      intro h
      rw [List.nodup_cons] at h
      unfold nodupB
      simp [h.1, ih h.2]
  exact nodupB_of_nodup _ this

/-- **C10 (uniqueness)** — for every program, no function stack sets a label twice -/
theorem C10_unique (p : Program) : P_C10_unique (run p) = [] := by
  unfold P_C10_unique run
  rw [List.map_eq_nil_iff, List.filter_eq_nil_iff]
  intro x hx
  obtain ⟨b, i⟩ := x
  have hb := List.mem_zipIdx hx
  have : b ∈ List.map (fun s => s.root) (List.map (functionBody (pass2 p (pass1 p GState.init)).globals) p.fns) := by
    have := hb.2.2
    simp only at this
    rw [this]; exact List.getElem_mem _
  simp only [List.mem_map] at this
  obtain ⟨s, ⟨f, _, rfl⟩, rfl⟩ := this
  simp [C10_unique_function]

end SemVerif
