import SemVerif.Spec.Preds
import SemVerif.Inventory
/-! # Property C10 — theorems (under construction) -/
namespace SemVerif
end SemVerif
