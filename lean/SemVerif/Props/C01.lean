import SemVerif.Spec.Preds
import SemVerif.Inventory
/-! # Property C01 — theorems (under construction) -/
namespace SemVerif
end SemVerif
