import SemVerif.Props.C14
/-!
# Property C01 — an accepted program is well-formed

`C01_enforced`: if the run leaves the error list empty, the reference rule checker finds no
*enforced* violation.  `C01`: every failing instance the output predicate reports on the model's
result is an instance of one of the four recorded findings (F6a, F8, F9, F10) — the rule instances
the current analyzer does not enforce and that could not be repaired under the constraints.
The full-strength statement (accepted ⇒ `refCheck p = []`) is false on the current tree; the four
witnesses are in the corpus (`corpus/C01.txt`) and replayed on the implementation on every run.
Corollaries of T1 (Props/C14).
-/
namespace SemVerif

theorem C01_enforced (p : Program) (hok : LoopOKB p = true) (hacc : (run p).errors = []) : refCheckEnf p = [] := by
  rcases T1 p hok with ⟨_, hv⟩ | ⟨e, rest, v, he, _, _⟩
  · unfold refCheckEnf; unfold firstEnf at hv
    cases hf : (refCheck p).filter (·.enforced) with
    | nil => rfl
    | cons x xs => rw [hf] at hv; simp at hv
  · rw [hacc] at he; cases he

theorem violTag_unenforced (v : Viol) (h : v.enforced = false) : violTag v ∈ c01Known := by
  unfold violTag c01Known
  simp only [h, Bool.false_eq_true, if_false]
  split <;> simp

/-- **C01** — on the model's result the only failing instances are the recorded findings -/
theorem C01 (p : Program) (hok : LoopOKB p = true) : ∀ t ∈ P_C01 p (run p), t ∈ c01Known := by
  intro t ht
  unfold P_C01 at ht
  split at ht
  · rename_i hacc
    have herr : (run p).errors = [] := by
      unfold Result.accepted at hacc
      simp only [Bool.and_eq_true, List.isEmpty_iff] at hacc
      exact hacc.2
    have henf := C01_enforced p hok herr
    have hmem : t ∈ (refCheck p).map violTag := List.mem_eraseDups.mp ht
    rw [List.mem_map] at hmem
    obtain ⟨v, hv, rfl⟩ := hmem
    apply violTag_unenforced
    cases hve : v.enforced with
    | false => rfl
    | true =>
      have : v ∈ refCheckEnf p := by unfold refCheckEnf; exact List.mem_filter.mpr ⟨hv, hve⟩
      rw [henf] at this; cases this
  · cases ht

end SemVerif
