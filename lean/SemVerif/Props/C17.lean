import SemVerif.Spec.Preds
import SemVerif.Inventory
/-! # Property C17 — theorems (under construction) -/
namespace SemVerif
end SemVerif
