import SemVerif.Spec.Preds
import SemVerif.Inventory
/-!
# Property C17 — each function body is analysed independently of the other bodies

In the model a body is analysed from a fresh block state, sees the global tables only through the
lookups of `Globals`, and the declaration passes never look at a body.  Hence:
* `C17_decls`: two programs that differ only in function bodies have the same declaration phase
  (tables, global stack, declaration errors);
* `C17_root`: the block tree and stack of function `i` are `functionBody (globals) f_i` — a function
  of the global tables and of that function alone; so they are equal in two such programs whenever
  function `i` has the same body in both (`C17_swap`);
* `C17_errors`: the error list is the declaration errors followed by each function's own body
  errors in source order.
That the *Rust* code has this structure is the content of the tie: the regenerated inventory of
statements mutating `self.global` / `self.errors` / `self.context` (`inv_mutationSites`) and the
`swap` correspondence profile.
-/
namespace SemVerif

/-- the program with every function body removed -/
def stubBodies : Program → Program
  | [] => []
  | .fn f :: rest => .fn { f with body := [] } :: stubBodies rest
  | t :: rest => t :: stubBodies rest

theorem declFn_stub (f : FnDecl) (gs : GState) : declFn { f with body := [] } gs = declFn f gs := rfl

theorem pass1_stub : ∀ (p : Program) (gs : GState), pass1 (stubBodies p) gs = pass1 p gs
  | [], _ => rfl
  | .fn f :: rest, gs => by simp only [stubBodies, pass1]; exact pass1_stub rest gs
  | .imp _ :: rest, gs => by simp only [stubBodies, pass1]; exact pass1_stub rest gs
  | .types d :: rest, gs => by simp only [stubBodies, pass1]; exact pass1_stub rest _
  | .const _ :: rest, gs => by simp only [stubBodies, pass1]; exact pass1_stub rest gs

theorem pass2_stub : ∀ (p : Program) (gs : GState), pass2 (stubBodies p) gs = pass2 p gs
  | [], _ => rfl
  | .fn f :: rest, gs => by simp only [stubBodies, pass2, declFn_stub]; exact pass2_stub rest _
  | .imp _ :: rest, gs => by simp only [stubBodies, pass2]; exact pass2_stub rest gs
  | .types _ :: rest, gs => by simp only [stubBodies, pass2]; exact pass2_stub rest gs
  | .const d :: rest, gs => by simp only [stubBodies, pass2]; exact pass2_stub rest _

/-- the declaration phase of a program -/
def declState (p : Program) : GState := pass2 p (pass1 p GState.init)

/-- **C17 (declarations)** — the declaration phase does not depend on function bodies -/
theorem C17_decls (p q : Program) (h : stubBodies p = stubBodies q) : declState p = declState q := by
  unfold declState
  rw [← pass2_stub p, ← pass1_stub p, h, pass2_stub, pass1_stub]

/-- **C17 (one function)** — root block (stack and block tree) of the `i`-th function -/
theorem C17_root (p : Program) (i : Nat) :
    (run p).roots[i]? = (p.fns[i]?).map fun f => (functionBody (declState p).globals f).root := by
  unfold run declState
  simp only [List.getElem?_map, Option.map_map]
  rfl

/-- **C17 (errors)** — declaration errors, then each function's own body errors in source order -/
theorem C17_errors (p : Program) :
    (run p).errors = (declState p).errors ++ (p.fns.map fun f => (functionBody (declState p).globals f).errors).flatten := by
  unfold run declState
  simp [List.map_map, Function.comp_def]

/-- **C17 (swap)** — replacing the bodies of the other functions by arbitrary bodies leaves the
stack and block tree of function `i` unchanged, and the global tables too -/
theorem C17_swap (p q : Program) (h : stubBodies p = stubBodies q) (i : Nat) (hi : p.fns[i]? = q.fns[i]?) :
    (run p).roots[i]? = (run q).roots[i]? ∧ (run p).types = (run q).types ∧ (run p).consts = (run q).consts ∧
    (run p).funcs = (run q).funcs ∧ (run p).gcontext = (run q).gcontext := by
  have hd := C17_decls p q h
  refine ⟨?_, ?_, ?_, ?_, ?_⟩
  · rw [C17_root, C17_root, hd, hi]
  · show (declState p).types = (declState q).types; rw [hd]
  · show (declState p).consts = (declState q).consts; rw [hd]
  · show (declState p).funcs = (declState q).funcs; rw [hd]
  · show (declState p).context = (declState q).context; rw [hd]

end SemVerif
