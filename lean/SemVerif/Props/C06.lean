import SemVerif.Spec.Preds
import SemVerif.Inventory
/-! # Property C06 — theorems (under construction) -/
namespace SemVerif
end SemVerif
