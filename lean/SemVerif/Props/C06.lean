import SemVerif.Props.T2
import SemVerif.Lemmas.SpecRef
/-!
# Property C06 — every computed value is the value the source expression denotes

`C06`: on the model's result the output predicate of the property reports nothing, for every
program: whenever the program is accepted, the abstract reading of each function's root stack —
every register operand expanded through the instruction that wrote it (the F7 reading included),
every value record replaced by the index of its declaration, calls as events in evaluation order —
is, statement by statement, the list the source function denotes (operands in source order,
literals, reads resolved lexically, calls with their arguments, extension leaves, comparisons and
logic connectives with their nesting), rendered modulo the bracketing of operator chains.

`C06_exact` is the stronger equation behind it (bracketing included): corollary of `T2`
(`Props/T2.lean`: mutual structural induction over expressions, statements and control constructs)
and of `specStmts_ref` (the independent reference tree `specTree` is the fold's tree).  No bound on
nesting depth, chain length or program size.
-/
namespace SemVerif

theorem map_eq_zip {α β γ : Type} (f : β → γ) (g : α → γ) : ∀ (l1 : List β) (l2 : List α),
    l1.map f = l2.map g → ∀ x ∈ l2.zip l1, g x.1 = f x.2
  | [], l2, _ => by intro x hx; simp at hx
  | b :: bs, [], _ => by intro x hx; simp at hx
  | b :: bs, a :: as, h => by
    simp only [List.map_cons, List.cons.injEq] at h
    intro x hx
    simp only [List.zip_cons_cons, List.mem_cons] at hx
    rcases hx with rfl | hx
    · exact h.1.symm
    · exact map_eq_zip f g bs as h.2 x hx

/-- accepted programs: every (source denotation, stack denotation) pair is an equation -/
theorem denotePairs_eq (p : Program) (hnp : (run p).panic = none) (hacc : (run p).errors = []) :
    ∀ x ∈ denotePairs p (run p), x.1 = x.2 := by
  intro x hx
  unfold denotePairs at hx
  simp only [List.mem_map] at hx
  obtain ⟨⟨f, b⟩, hfb, rfl⟩ := hx
  have := map_eq_zip (fun b : Block => abstractStack b.context) (specStmts false p.rglobals) _ _ (T2 p hnp hacc) (f, b) hfb
  dsimp only at this ⊢
  rw [specStmts_ref]
  exact this

theorem cmpRendered_nil (tag : String) (f : DStmt → String) (pairs : List (List DStmt × List DStmt))
    (h : ∀ x ∈ pairs, x.1 = x.2) : cmpRendered tag f pairs = [] := by
  unfold cmpRendered
  rw [List.flatMap_eq_nil_iff]
  rintro ⟨⟨spec, abs⟩, i⟩ hx
  have := h _ (List.fst_mem_of_mem_zipIdx hx)
  dsimp only at this ⊢
  subst this
  simp

theorem accepted_iff (r : Result) : r.accepted = true ↔ r.panic = none ∧ r.errors = [] := by
  unfold Result.accepted
  simp [Option.isNone_iff_eq_none, List.isEmpty_iff]

/-- **C06 (exact form)** — accepted programs: the stack of every function denotes exactly the
statement list of the source, bracketing included -/
theorem C06_exact (p : Program) (hacc : (run p).accepted = true) :
    (run p).roots.map (fun b => abstractStack b.context) = p.fnDecls.map (specStmts true p.rglobals) := by
  obtain ⟨hnp, he⟩ := (accepted_iff _).mp hacc
  rw [T2 p hnp he]
  apply List.map_congr_left
  intro f _
  rw [specStmts_ref]

/-- **C06** — the output predicate of the property holds on the model's result for every program -/
theorem C06 (p : Program) : P_C06 p (run p) = [] := by
  unfold P_C06
  split
  · rfl
  · rename_i h
    simp only [Bool.not_eq_true, Bool.not_eq_false'] at h
    have ha : (run p).accepted = true := by
      cases hx : acceptedWF p (run p) with
      | true => unfold acceptedWF at hx; simp only [Bool.and_eq_true] at hx; exact hx.1
      | false => rw [hx] at h; simp at h
    obtain ⟨hnp, he⟩ := (accepted_iff _).mp ha
    exact cmpRendered_nil _ _ _ (denotePairs_eq p hnp he)

/-- a well-formed program with shadowing, a forward reference, a nested block, a constant and a
three-operator chain whose bracketing is not left-to-right -/
def exampleT2 : Program :=
  [.fn ⟨['m'], [(['x'], .prim .u8)], .prim .u8,
      [.letB ⟨['x'], false, none, .mk (.var ['x']) (some (.plus, .mk (.var ['K']) (some (.multiply, .mk (.lit (.u8 2)) none))))⟩,
       .ifS (.mk (.single (.mk (.lit (.bool true)) none)) (.ifb [.letB ⟨['y'], false, none, .mk (.call ['g'] [.mk (.var ['x']) none]) none⟩]) none none),
       .ret (.mk (.var ['x']) none)]⟩,
     .const ⟨['K'], .prim .u8, .last (.val (.u8 1))⟩,
     .fn ⟨['g'], [(['a'], .prim .u8)], .prim .u8, [.ret (.mk (.var ['a']) none)]⟩]

/-- non-vacuity: the premise is satisfiable and the conclusion is not trivial — the example is
accepted, and the first function denotes six statements (parameter, `let` with the bracketed chain
`x + (K * 2)`, branch, call event, `let`, return) -/
example : (run exampleT2).accepted = true ∧
    ((p_specs : List (List DStmt)) = exampleT2.fnDecls.map (specStmts true exampleT2.rglobals) →
      (p_specs.map List.length = [6, 2])) := by
  refine ⟨by decide +kernel, ?_⟩
  intro h; subst h; decide +kernel

end SemVerif
