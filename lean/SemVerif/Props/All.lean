import SemVerif.Props.Drv.C01
import SemVerif.Props.Drv.C02
import SemVerif.Props.Drv.C03
import SemVerif.Props.Drv.C04
import SemVerif.Props.Drv.C05
import SemVerif.Props.Drv.C06
import SemVerif.Props.Drv.C07
import SemVerif.Props.Drv.C08
import SemVerif.Props.Drv.C09
import SemVerif.Props.Drv.C10
import SemVerif.Props.Drv.C11
import SemVerif.Props.Drv.C12
import SemVerif.Props.Drv.C13
import SemVerif.Props.Drv.C14
import SemVerif.Props.Drv.C15
import SemVerif.Props.Drv.C18
import SemVerif.Props.Drv.C19
/-!
# Props/All — what the driver prints on the model's own result, property by property

`driver_sound`: for every single-program property, every program of the documented domain
(`LoopOKB`: loop-flavoured if-bodies only inside loops), the failing instances the driver computes
on the model's result (`failingOf id p (run p) true` — exactly the expression `Main.lean` evaluates)
are instances of the recorded findings of that property (`knownTagsOf`, the tags of
`known_findings.json`), and none at all for the thirteen properties without a recorded finding.
For C05 the statement is for programs no function of which matches F3 (for functions that match F3
there is no theorem: DESIGN §8.3).  The per-property pieces (`Props/Drv/Cxx.lean`, `driver_Cxx`) are
obligations of the respective checks; this file only assembles them.  The group properties C16 /
C17 and C20 are not single-program predicates and are stated in their own files.
-/
namespace SemVerif

theorem driver_sound (id : PropId) (p : Program) (hok : LoopOKB p = true)
    (h3 : id = .C05 → ∀ f ∈ p.fnDecls, f.hasF3 = false) :
    ∀ t ∈ failingOf id p (run p) true, t ∈ knownTagsOf id := by
  intro t ht
  cases id with
  | C01 => exact driver_C01 p hok t ht
  | C02 => rw [driver_C02 p] at ht; cases ht
  | C03 => rw [driver_C03 p] at ht; cases ht
  | C04 => rw [driver_C04 p] at ht; cases ht
  | C05 => exact driver_C05 p (h3 rfl) t ht
  | C06 => rw [driver_C06 p] at ht; cases ht
  | C07 => rw [driver_C07 p] at ht; cases ht
  | C08 => exact driver_C08 p t ht
  | C09 => rw [driver_C09 p] at ht; cases ht
  | C10 => exact driver_C10 p t ht
  | C11 => rw [driver_C11 p] at ht; cases ht
  | C12 => rw [driver_C12 p] at ht; cases ht
  | C13 => rw [driver_C13 p] at ht; cases ht
  | C14 => rw [driver_C14 p] at ht; cases ht
  | C15 => rw [driver_C15 p] at ht; cases ht
  | C18 => rw [driver_C18 p hok] at ht; cases ht
  | C19 => rw [driver_C19 p] at ht; cases ht

/-- the properties without a recorded finding: nothing is reported on the model's result -/
theorem driver_quiet (id : PropId) (p : Program) (hok : LoopOKB p = true) (hk : knownTagsOf id = []) :
    failingOf id p (run p) true = [] := by
  rw [List.eq_nil_iff_forall_not_mem]
  intro t ht
  have := driver_sound id p hok (by intro h; subst h; simp [knownTagsOf] at hk) t ht
  rw [hk] at this
  cases this

end SemVerif
