import SemVerif.Names
/-!
# BlockState — the frames model of `src/types/block_state.rs`

At any moment the blocks that the Rust code can still mutate form a path (current block and
its ancestors).  `St.inner` is that path without the function's root block, innermost first;
`St.root` is the root block.  Every Rust method "do X here, then `parent.borrow_mut().X`" is
`mapFrames X`.  A block that is finished is `leave`d: it is appended to the `children` of its
parent; the only later writes to it (`jump_to`/`set_label` through a suspended if-block) are
`pushVia`.
-/
namespace SemVerif

/-- `BlockState` (the `parent` pointer is implicit in the tree) -/
structure Block where
  values : List (Name × Value)
  innerNames : List Name
  labels : List Name
  reg : Nat
  manualReturn : Bool
  children : List Block
  context : List Instr
  deriving Repr, Inhabited

/-- `BlockState::new(None)` -/
def Block.fresh : Block :=
  { values := [], innerNames := [], labels := [], reg := 0, manualReturn := false,
    children := [], context := [] }

/-- `BlockState::new(Some(parent))`: copies counter, both registries and the flag -/
def Block.child (p : Block) : Block :=
  { values := [], innerNames := p.innerNames, labels := p.labels, reg := p.reg,
    manualReturn := p.manualReturn, children := [], context := [] }

/-- `HashMap::insert` on an association list (replace in place, else append) -/
def assocInsert {β : Type} (k : Name) (v : β) : List (Name × β) → List (Name × β)
  | [] => [(k, v)]
  | (k', v') :: rest => if k = k' then (k, v) :: rest else (k', v') :: assocInsert k v rest

def assocGet {β : Type} (k : Name) : List (Name × β) → Option β
  | [] => none
  | (k', v') :: rest => if k = k' then some v' else assocGet k rest

/-- `HashSet::insert` on a list -/
def setInsert (k : Name) (l : List Name) : List Name := if l.contains k then l else l ++ [k]

/-- analysis state of one function body -/
structure St where
  inner : List Block
  root : Block
  errors : List Err
  panic : Option Nat
  deriving Repr, Inhabited

def St.init : St := { inner := [], root := Block.fresh, errors := [], panic := none }

/-- the block the Rust code calls its methods on -/
def St.cur (s : St) : Block := s.inner.headD s.root

def St.mapFrames (f : Block → Block) (s : St) : St :=
  { s with inner := s.inner.map f, root := f s.root }

def St.mapCur (f : Block → Block) (s : St) : St :=
  match s.inner with
  | [] => { s with root := f s.root }
  | b :: rest => { s with inner := f b :: rest }

/-- all live frames, innermost first -/
def St.frames (s : St) : List Block := s.inner ++ [s.root]

def St.addErr (k : ErrKind) (v : Name) (line off : Nat) (s : St) : St :=
  { s with errors := s.errors ++ [⟨k, v, line, off⟩] }

/-- `inc_register` (`set_register(self.last_register_number + 1)` on the block and all ancestors) -/
def St.incReg (s : St) : St :=
  let r := s.cur.reg + 1
  s.mapFrames fun b => { b with reg := r }

def St.curReg (s : St) : Nat := s.cur.reg

/-- every `SemanticContext` method of `BlockState`: push here and to all ancestors -/
def St.push (i : Instr) (s : St) : St :=
  s.mapFrames fun b => { b with context := b.context ++ [i] }

/-- `BlockState::new(Some(cur))` + `set_child` -/
def St.enter (s : St) : St := { s with inner := s.cur.child :: s.inner }

/-- the current block is finished: it becomes the next child of its parent; returns its index -/
def St.leave (s : St) : Nat × St :=
  match s.inner with
  | [] => (0, s)                       -- never called on the root
  | b :: [] => (s.root.children.length, { s with inner := [], root := { s.root with children := s.root.children ++ [b] } })
  | b :: p :: rest => (p.children.length, { s with inner := { p with children := p.children ++ [b] } :: rest })

def modifyNth {β : Type} (f : β → β) : Nat → List β → List β
  | _, [] => []
  | 0, x :: xs => f x :: xs
  | n + 1, x :: xs => x :: modifyNth f n xs

/-- a `SemanticContext` method called on the suspended if-block (child `k` of the current block):
its own stack, then the current block and all ancestors -/
def St.pushVia (k : Nat) (i : Instr) (s : St) : St :=
  (s.mapCur fun b =>
    { b with children := modifyNth (fun c => { c with context := c.context ++ [i] }) k b.children }).push i

/-- `get_value_name` -/
def St.lookupValue (n : Name) (s : St) : Option Value :=
  s.frames.findSome? fun b => assocGet n b.values

/-- `is_inner_value_name_exist` -/
def St.innerUsed (s : St) (n : Name) : Bool := s.frames.any fun b => b.innerNames.contains n

/-- `is_label_name_exist` -/
def St.labelUsed (s : St) (n : Name) : Bool := s.frames.any fun b => b.labels.contains n

def St.innerCount (s : St) : Nat := (s.frames.map fun b => b.innerNames.length).sum
def St.labelCount (s : St) : Nat := (s.frames.map fun b => b.labels.length).sum

/-- `get_next_inner_name` -/
def St.probeInner (s : St) (n : Name) : Name := probeInnerF s.innerUsed (s.innerCount + 1) n

/-- `values.insert` on the current block only -/
def St.insertValue (n : Name) (v : Value) (s : St) : St :=
  s.mapCur fun b => { b with values := assocInsert n v b.values }

/-- `set_inner_value_name` -/
def St.registerInner (n : Name) (s : St) : St :=
  s.mapFrames fun b => { b with innerNames := setInsert n b.innerNames }

/-- `get_and_set_next_label` -/
def St.probeLabel (stem : Name) (s : St) : Name × St :=
  let l := probeLabelF s.labelUsed (s.labelCount + 1) stem
  (l, s.mapFrames fun b => { b with labels := setInsert l b.labels })

/-- `set_return` -/
def St.setReturn (s : St) : St := s.mapFrames fun b => { b with manualReturn := true }

def St.setPanic (site : Nat) (s : St) : St :=
  match s.panic with
  | some _ => s
  | none => { s with panic := some site }

end SemVerif
