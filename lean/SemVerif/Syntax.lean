/-!
# Syntax — the AST of `src/ast.rs` as Lean inductives

Identifiers are `List Char` (kernel-reducible, decidable equality).  Every `Ident` is built by
`Ident::new`, so its location is the constant `(1, 0)` and is not carried.
The shapes mirror the Rust types one to one: `Expression` is a value plus an optional
`(operation, Box<Expression>)`, the four statement enums are four inductives.
-/
namespace SemVerif

abbrev Name := List Char

/-- `ast::PrimitiveTypes` / `types::PrimitiveTypes` (identical enums, converted 1:1) -/
inductive PrimTy
  | u8 | u16 | u32 | u64 | i8 | i16 | i32 | i64 | f32 | f64 | bool | char | ptr | none
  deriving DecidableEq, Repr, Inhabited

/-- `ast::Type` — a struct type reference carries the whole declaration -/
inductive ATy where
  | prim (p : PrimTy)
  | struct (name : Name) (attrs : List (Name × ATy))
  | array (t : ATy) (n : Nat)
  deriving Repr, Inhabited

/-- `ExpressionOperations` (15 binary operators) -/
inductive Op
  | plus | minus | multiply | divide | shiftLeft | shiftRight | and | or | xor
  | eq | notEq | great | less | greatEq | lessEq
  deriving DecidableEq, Repr, Inhabited

/-- `Condition` -/
inductive Cond | great | less | eq | greatEq | lessEq | notEq
  deriving DecidableEq, Repr, Inhabited

/-- `LogicCondition` -/
inductive Logic | and | or
  deriving DecidableEq, Repr, Inhabited

/-- `PrimitiveValue`.  Integers as `Nat`/`Int` (range fixed by the constructor on the Rust side),
floats as bit pattern plus the Rust `Display` text (needed only inside error values),
chars as code points. -/
inductive PrimVal
  | u8 (n : Nat) | u16 (n : Nat) | u32 (n : Nat) | u64 (n : Nat)
  | i8 (n : Int) | i16 (n : Int) | i32 (n : Int) | i64 (n : Int)
  | f32 (bits : Nat) (text : Name) | f64 (bits : Nat) (text : Name)
  | bool (b : Bool) | char (c : Char) | ptr | none
  deriving DecidableEq, Repr, Inhabited

def PrimVal.ty : PrimVal → PrimTy
  | .u8 _ => .u8 | .u16 _ => .u16 | .u32 _ => .u32 | .u64 _ => .u64
  | .i8 _ => .i8 | .i16 _ => .i16 | .i32 _ => .i32 | .i64 _ => .i64
  | .f32 _ _ => .f32 | .f64 _ _ => .f64 | .bool _ => .bool | .char _ => .char
  | .ptr => .ptr | .none => .none

mutual
/-- `ast::ExpressionValue`; `ext` is the harness extension (tag, primitive result type) -/
inductive ExprValue : Type
  | var (n : Name)
  | lit (v : PrimVal)
  | call (f : Name) (args : List Expr)
  | field (v : Name) (attr : Name)
  | sub (e : Expr)
  | ext (tag : Nat) (ty : PrimTy)
/-- `ast::Expression` -/
inductive Expr : Type
  | mk (v : ExprValue) (rest : Option (Op × Expr))
end

instance : Inhabited ExprValue := ⟨.lit .none⟩
instance : Inhabited Expr := ⟨.mk default none⟩

def Expr.head : Expr → ExprValue | .mk v _ => v
def Expr.rest : Expr → Option (Op × Expr) | .mk _ r => r

structure LetB where
  name : Name
  mutable : Bool
  ty : Option ATy
  value : Expr
  deriving Inhabited

structure Bind where
  name : Name
  value : Expr
  deriving Inhabited

structure CallS where
  name : Name
  args : List Expr
  deriving Inhabited

/-- `ExpressionCondition` -/
structure CmpCond where
  left : Expr
  cond : Cond
  right : Expr
  deriving Inhabited

/-- `ExpressionLogicCondition` -/
inductive LogicCond : Type
  | mk (left : CmpCond) (right : Option (Logic × LogicCond))

instance : Inhabited LogicCond := ⟨.mk default none⟩

/-- `IfCondition` -/
inductive IfCond : Type
  | single (e : Expr)
  | logic (c : LogicCond)
  deriving Inhabited

mutual
/-- `IfStatement` -/
inductive IfStmt : Type
  | mk (cond : IfCond) (body : IfBodies) (els : Option IfBodies) (elif : Option IfStmt)
/-- `IfBodyStatements` -/
inductive IfBodies : Type
  | ifb (l : List IfBodyStmt)
  | loopb (l : List IfLoopStmt)
/-- `IfBodyStatement` -/
inductive IfBodyStmt : Type
  | letB (b : LetB) | bind (b : Bind) | call (c : CallS) | ifS (s : IfStmt)
  | loop (l : List LoopStmt) | ret (e : Expr)
/-- `IfLoopBodyStatement` -/
inductive IfLoopStmt : Type
  | letB (b : LetB) | bind (b : Bind) | call (c : CallS) | ifS (s : IfStmt)
  | loop (l : List LoopStmt) | ret (e : Expr) | brk | cont
/-- `LoopBodyStatement` -/
inductive LoopStmt : Type
  | letB (b : LetB) | bind (b : Bind) | call (c : CallS) | ifS (s : IfStmt)
  | loop (l : List LoopStmt) | ret (e : Expr) | brk | cont
end

/-- `BodyStatement` -/
inductive BodyStmt : Type
  | letB (b : LetB) | bind (b : Bind) | call (c : CallS) | ifS (s : IfStmt)
  | loop (l : List LoopStmt) | expr (e : Expr) | ret (e : Expr)

/-- `StructTypes` (declaration) -/
structure StructDecl where
  name : Name
  attrs : List (Name × ATy)
  deriving Inhabited

/-- `ConstantValue` -/
inductive CVal
  | const (n : Name)
  | val (v : PrimVal)
  deriving DecidableEq, Repr, Inhabited

/-- `ConstantExpression`: `last v` is `{value: v, operation: None}`,
`cons v op rest` is `{value: v, operation: Some((op, rest))}` -/
inductive CExpr : Type
  | last (v : CVal)
  | cons (v : CVal) (op : Op) (rest : CExpr)
  deriving DecidableEq, Repr, Inhabited

structure ConstDecl where
  name : Name
  ty : ATy
  value : CExpr
  deriving Inhabited

structure FnDecl where
  name : Name
  params : List (Name × ATy)
  result : ATy
  body : List BodyStmt

/-- `MainStatement` -/
inductive TopStmt : Type
  | imp (path : List Name)
  | types (s : StructDecl)
  | const (c : ConstDecl)
  | fn (f : FnDecl)

abbrev Program := List TopStmt

end SemVerif
