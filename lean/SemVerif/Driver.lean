import SemVerif.Spec.Preds
/-!
# Driver — what the check evaluates for each single-program property

`evalPropId id p r linksOk` is the list of failing instances the driver prints for property `id` on a
result `r` of program `p` (of the model or of the implementation) together with the projection that
is compared.  Kept in the library so that `Props/All.lean` can state, property by property, that on
the model's own result it reports nothing but instances of the recorded findings.
-/
namespace SemVerif

inductive PropId
  | C01 | C02 | C03 | C04 | C05 | C06 | C07 | C08 | C09 | C10 | C11 | C12 | C13 | C14 | C15 | C18 | C19
  deriving DecidableEq, Repr, Inhabited

def PropId.ofString : String → Option PropId
  | "C01" => some .C01 | "C02" => some .C02 | "C03" => some .C03 | "C04" => some .C04
  | "C05" => some .C05 | "C06" => some .C06 | "C07" => some .C07 | "C08" => some .C08
  | "C09" => some .C09 | "C10" => some .C10 | "C11" => some .C11 | "C12" => some .C12
  | "C13" => some .C13 | "C14" => some .C14 | "C15" => some .C15 | "C18" => some .C18
  | "C19" => some .C19
  | _ => none

/-- failing instances on a result -/
def failingOf (id : PropId) (p : Program) (r : Result) (linksOk : Bool) : List String :=
  match id with
  | .C01 => P_C01 p r
  | .C02 => P_C02 p r
  | .C03 => P_C03 p r
  | .C04 => P_C04 p r
  | .C05 => P_C05 p r
  | .C06 => P_C06 p r
  | .C07 => P_C07 p r
  | .C08 => P_C08g p r
  | .C09 => P_C09 r
  | .C10 => P_C10 p r
  | .C11 => P_C11g p r
  | .C12 => P_C12g p r
  | .C13 => P_C13 p r
  | .C14 => P_C14 p r
  | .C15 => P_C15 p r
  | .C18 => if r.panic.isSome then [] else P_C18_shape p r linksOk ++ (if acceptedWF p r then P_C18_values p r else [])
  | .C19 => P_C19 p r ++ P_C19_visited p r

/-- validated-only clauses (no theorem says they are empty on the model's result; they are evaluated
on the implementation's dump and on the model's result alike, like `failingOf`) -/
def failingExtra (id : PropId) (r : Result) : List String :=
  match id with
  | .C19 => P_C19_local r
  | _ => []

/-- projection of a result that the correspondence compares -/
def projOf (id : PropId) (r : Result) : String :=
  match id with
  | .C01 | .C02 => pi_verdict r
  | .C03 => pi_stacks (fun i => isValueInstr i || i.isEffect || (match i with | .exprConst _ _ => true | _ => false)) r
  | .C04 => pi_stacks (fun _ => true) r ++ tablesStr r
  | .C05 => pi_stacks isFlowInstr r
  | .C06 => pi_stacks (fun _ => true) r
  | .C07 => pi_stacks (fun i => match i with | .exprOp _ _ _ _ => true | _ => false) r
  | .C08 => pi_stacks (fun i => i.writes.isSome || !i.reads.isEmpty) r
  | .C09 => pi_C09 r
  | .C10 => pi_stacks isLabelInstr r
  | .C11 => pi_stacks isReturnInstr r
  | .C12 => pi_stacks isValueInstr r
  | .C13 => "ok"
  | .C14 => pi_firstError r
  | .C15 => pi_C15 r
  | .C18 => pi_C18 r ++ " || " ++ " | ".intercalate (r.roots.map wBlock)
  | .C19 => pi_stacks (fun i => isExtInstr i || !i.reads.isEmpty) r

/-- the tags of the recorded findings a property's predicate may report (`known_findings.json`) -/
def knownTagsOf : PropId → List String
  | .C01 => c01Known
  | .C05 => ["F2:nested-if-in-if-body-reuses-the-enclosing-end-label", "F3:loop-end-label-never-set-after-loop-level-return"]
  | .C08 => ["F7:operand-names-register-after-call-or-field-read"]
  | .C10 => ["F3:loop-end-label-never-set-after-loop-level-return"]
  | _ => []

end SemVerif
