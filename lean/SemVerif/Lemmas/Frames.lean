import SemVerif.Lemmas.Steps
/-! # Lemmas/Frames — how the primitive operations act on the list of live blocks -/
namespace SemVerif

theorem mem_frames {s : St} {b : Block} : b ∈ s.frames ↔ b ∈ s.inner ∨ b = s.root := by
  simp [St.frames]

theorem frames_mapFrames (f : Block → Block) (s : St) : (s.mapFrames f).frames = s.frames.map f := by
  simp [St.mapFrames, St.frames]

theorem root_mapFrames (f : Block → Block) (s : St) : (s.mapFrames f).root = f s.root := rfl
theorem inner_mapFrames (f : Block → Block) (s : St) : (s.mapFrames f).inner = s.inner.map f := rfl

/-- `mapCur` changes exactly the head of the live blocks -/
theorem frames_mapCur (f : Block → Block) (s : St) :
    (s.mapCur f).frames = match s.frames with
      | [] => []
      | b :: rest => f b :: rest := by
  unfold St.mapCur St.frames
  cases s.inner <;> simp

theorem frames_ne_nil (s : St) : s.frames ≠ [] := by simp [St.frames]

theorem cur_eq_head (s : St) : s.frames.head? = some s.cur := by
  unfold St.cur St.frames
  cases s.inner <;> simp

theorem cur_mem_frames (s : St) : s.cur ∈ s.frames := by
  unfold St.cur St.frames
  cases s.inner <;> simp

theorem frames_enter (s : St) : s.enter.frames = s.cur.child :: s.frames := by
  simp [St.enter, St.frames]

theorem root_enter (s : St) : s.enter.root = s.root := rfl

/-- after `leave` the live blocks are the old ones without the head, the new head having one more
child; the root's stack and registries are untouched -/
theorem frames_leave (s : St) : ∀ b ∈ s.leave.2.frames,
    ∃ b' ∈ s.frames, b.context = b'.context ∧ b.values = b'.values ∧ b.innerNames = b'.innerNames ∧
      b.labels = b'.labels ∧ b.reg = b'.reg ∧ b.manualReturn = b'.manualReturn := by
  intro b hb
  unfold St.leave at hb
  unfold St.frames
  cases hi : s.inner with
  | nil => rw [hi] at hb; simp [St.frames, hi] at hb; subst hb; exact ⟨s.root, by simp, rfl, rfl, rfl, rfl, rfl, rfl⟩
  | cons b0 rest =>
    rw [hi] at hb
    cases rest with
    | nil =>
      simp [St.frames] at hb; subst hb
      exact ⟨s.root, by simp, rfl, rfl, rfl, rfl, rfl, rfl⟩
    | cons p rest' =>
      simp [St.frames] at hb
      rcases hb with rfl | hb | rfl
      · exact ⟨p, by simp, rfl, rfl, rfl, rfl, rfl, rfl⟩
      · exact ⟨b, by simp [hb], rfl, rfl, rfl, rfl, rfl, rfl⟩
      · exact ⟨s.root, by simp, rfl, rfl, rfl, rfl, rfl, rfl⟩

theorem root_leave_fields (s : St) :
    s.leave.2.root.context = s.root.context ∧ s.leave.2.root.values = s.root.values ∧
    s.leave.2.root.innerNames = s.root.innerNames ∧ s.leave.2.root.labels = s.root.labels ∧
    s.leave.2.root.reg = s.root.reg ∧ s.leave.2.root.manualReturn = s.root.manualReturn := by
  unfold St.leave
  cases s.inner with
  | nil => simp
  | cons b rest => cases rest <;> simp

theorem inner_leave (s : St) : ∀ b ∈ s.leave.2.inner,
    ∃ b' ∈ s.inner, b.context = b'.context ∧ b.values = b'.values ∧ b.innerNames = b'.innerNames ∧
      b.labels = b'.labels ∧ b.reg = b'.reg ∧ b.manualReturn = b'.manualReturn := by
  intro b hb
  unfold St.leave at hb
  cases hi : s.inner with
  | nil => rw [hi] at hb; simp [hi] at hb
  | cons b0 rest =>
    rw [hi] at hb
    cases rest with
    | nil => simp at hb
    | cons p rest' =>
      simp at hb
      rcases hb with rfl | hb
      · exact ⟨p, by simp, rfl, rfl, rfl, rfl, rfl, rfl⟩
      · exact ⟨b, by simp [hb], rfl, rfl, rfl, rfl, rfl, rfl⟩

/-- a successful lookup finds the value in the table of some live block -/
theorem assocGet_mem {β : Type} (n : Name) (l : List (Name × β)) (v : β) (h : assocGet n l = some v) : (n, v) ∈ l := by
  induction l with
  | nil => simp [assocGet] at h
  | cons x xs ih =>
    obtain ⟨k, w⟩ := x
    unfold assocGet at h
    split at h
    · rename_i hk; injection h with h; subst h; subst hk; simp
    · simp [ih h]

theorem lookupValue_mem (s : St) (n : Name) (v : Value) (h : s.lookupValue n = some v) :
    ∃ b ∈ s.frames, (n, v) ∈ b.values := by
  unfold St.lookupValue at h
  obtain ⟨b, hb, hv⟩ := List.exists_of_findSome?_eq_some h
  exact ⟨b, hb, assocGet_mem n _ v hv⟩

theorem mem_assocInsert {β : Type} (k : Name) (v : β) (l : List (Name × β)) (x : Name × β)
    (h : x ∈ assocInsert k v l) : x = (k, v) ∨ x ∈ l := by
  induction l with
  | nil => simp [assocInsert] at h; exact Or.inl h
  | cons y ys ih =>
    obtain ⟨k', v'⟩ := y
    unfold assocInsert at h
    split at h
    · simp at h
      rcases h with h | h
      · exact Or.inl h
      · exact Or.inr (by simp [h])
    · simp at h
      rcases h with h | h
      · exact Or.inr (by simp [h])
      · rcases ih h with h | h
        · exact Or.inl h
        · exact Or.inr (by simp [h])

theorem mem_setInsert (k x : Name) (l : List Name) : x ∈ setInsert k l ↔ x = k ∨ x ∈ l := by
  unfold setInsert
  split
  · rename_i h
    constructor
    · intro hx; exact Or.inr hx
    · rintro (rfl | hx)
      · simpa using h
      · exact hx
  · simp; exact Or.comm

end SemVerif
