import SemVerif.Fold
/-! # Lemmas/FoldAtoms — the precedence fold keeps the operands, in order -/
namespace SemVerif

variable {α : Type} (prio : Op → Nat)

/-- operands held by a value stack (top first), bottom to top -/
def stackAtoms : List (W α) → List α
  | [] => []
  | v :: vs => stackAtoms vs ++ v.atoms

theorem stackAtoms_popWhile (p : Nat) : ∀ (os : List Op) (vs : List (W α)),
    stackAtoms (popWhile prio p vs os).1 = stackAtoms vs := by
  intro os
  induction os with
  | nil => intro vs; cases vs with
    | nil => simp [popWhile]
    | cons r vs => cases vs <;> simp [popWhile]
  | cons o os ih =>
    intro vs
    match vs with
    | [] => simp [popWhile]
    | [r] => simp [popWhile]
    | r :: l :: vs =>
      simp only [popWhile]
      split
      · rw [ih]; simp [stackAtoms, W.atoms]
      · rfl

theorem stackAtoms_foldStep (st : List (W α) × List Op) (x : Op × α) :
    stackAtoms (foldStep prio st x).1 = stackAtoms st.1 ++ [x.2] := by
  simp [foldStep, stackAtoms, stackAtoms_popWhile, W.atoms]

theorem stackAtoms_foldl (rest : List (Op × α)) : ∀ (st : List (W α) × List Op),
    stackAtoms (rest.foldl (foldStep prio) st).1 = stackAtoms st.1 ++ rest.map (·.2) := by
  induction rest with
  | nil => intro st; simp
  | cons x tl ih => intro st; simp [ih, stackAtoms_foldStep]

/-- every operand of the folded expression is an operand of the chain (the fold neither drops nor
invents operands; by `stackAtoms` it also keeps them in order) -/
theorem foldChain_atoms_subset (v0 : α) (rest : List (Op × α)) :
    ∀ a ∈ (foldChain prio v0 rest).atoms, a = v0 ∨ a ∈ rest.map (·.2) := by
  intro a ha
  unfold foldChain at ha
  simp only at ha
  generalize hst : List.foldl (foldStep prio) ([W.atom v0], []) rest = st at ha
  have h1 := stackAtoms_foldl prio rest ([W.atom v0], [])
  rw [hst] at h1
  have h2 := stackAtoms_popWhile prio 0 st.2 st.1
  generalize hr : popWhile prio 0 st.1 st.2 = r at ha h2
  have hmem : a ∈ stackAtoms r.1 ∨ a = v0 := by
    cases hr1 : r.1 with
    | nil => rw [hr1] at ha; simp [List.headD, W.atoms] at ha; exact Or.inr ha
    | cons w ws => rw [hr1] at ha; simp [List.headD] at ha; left; simp [stackAtoms, ha]
  rcases hmem with h | h
  · rw [h2, h1] at h
    simp [stackAtoms, W.atoms] at h
    rcases h with h | h
    · exact Or.inl h
    · right; simp; exact h
  · exact Or.inl h

end SemVerif
