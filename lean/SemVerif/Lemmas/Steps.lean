import SemVerif.Analyzer
import SemVerif.Spec.Stack
/-!
# Lemmas/Steps — every run of the analyzer is a sequence of primitive steps

`EStep` are the primitive state changes made below statement level (expressions, let, assignment,
call): bump the counter, push an instruction that sets no label, report an error, declare a value.
`Step` adds what the control constructs do: enter / leave a block, probe a label, push through a
suspended block, set a label, raise the return flag.  `exprM_steps` … `bodyStmts_steps` show by
(mutual) structural induction that the whole analysis of a function body is a `Steps` chain;
family T3 then only has to look at single steps.
-/
namespace SemVerif

/-- instructions pushed below statement level never set a label -/
def Instr.plain (i : Instr) : Prop := i.setsLabel = none

inductive EStep : St → St → Prop
  | incReg (s : St) : EStep s s.incReg
  /-- push an instruction that writes no register, declares nothing, sets no label; a value record
  it uses is visible -/
  | emit (s : St) (i : Instr) (hw : i.writes = none) (hd : i.declares = none) (hl : i.setsLabel = none)
      (hu : ∀ v, i.usesValue = some v → ∃ n, s.lookupValue n = some v) (hr : i.isRet = false)
      (ht : i.targets = []) : EStep s (s.push i)
  /-- bump the counter and push an instruction that writes the new register -/
  | incEmit (s : St) (i : Instr) (hw : i.writes = some s.incReg.curReg) (hd : i.declares = none)
      (hl : i.setsLabel = none) (hu : ∀ v, i.usesValue = some v → ∃ n, s.lookupValue n = some v)
      (ht : i.targets = []) : EStep s (s.incReg.push i)
  | addErr (s : St) (k : ErrKind) (v : Name) (l o : Nat) : EStep s (s.addErr k v l o)
  /-- declare a value under a fresh internal name and push its declaring instruction -/
  | declare (s : St) (n : Name) (v : Value) (i : Instr) (hi : i.declares = some v) (hw : i.writes = none)
      (hl : i.setsLabel = none) (hu : i.usesValue = none) (hfresh : s.innerUsed v.innerName = false)
      (ht : i.targets = []) : EStep s (((s.insertValue n v).registerInner v.innerName).push i)

inductive Step : St → St → Prop
  | e {s s' : St} (h : EStep s s') : Step s s'
  | enter (s : St) : Step s s.enter
  | leave (s : St) : Step s s.leave.2
  /-- register a label name that is in use nowhere -/
  | regLabel (s : St) (l : Name) (h : s.labelUsed l = false) :
      Step s (s.mapFrames fun b => { b with labels := setInsert l b.labels })
  /-- label / jump instruction pushed through the current block -/
  | ctl (s : St) (i : Instr) (hw : i.writes = none) (hd : i.declares = none) (hu : i.usesValue = none)
      (hr : i.isRet = false) : Step s (s.push i)
  /-- a function-return or jump-to-return instruction (`function_body` Return/Expression arms, nested returns) -/
  | emitRet (s : St) (i : Instr) (hi : i.isRet = true) (hw : i.writes = none) (hd : i.declares = none)
      (hl : i.setsLabel = none) (hu : i.usesValue = none) : Step s (s.push i)
  /-- label / jump instruction pushed through the suspended if-block -/
  | ctlVia (s : St) (k : Nat) (i : Instr) (hw : i.writes = none) (hd : i.declares = none) (hu : i.usesValue = none)
      (hr : i.isRet = false) : Step s (s.pushVia k i)
  | setReturn (s : St) : Step s s.setReturn
  /-- the documented `expect` on the loop labels -/
  | setPanic (s : St) (site : Nat) : Step s (s.setPanic site)

inductive ESteps : St → St → Prop
  | refl (s : St) : ESteps s s
  | tail {a b c : St} : ESteps a b → EStep b c → ESteps a c

inductive Steps : St → St → Prop
  | refl (s : St) : Steps s s
  | tail {a b c : St} : Steps a b → Step b c → Steps a c

theorem ESteps.trans {a b c : St} (h1 : ESteps a b) (h2 : ESteps b c) : ESteps a c := by
  induction h2 with
  | refl => exact h1
  | tail _ st ih => exact ESteps.tail ih st

theorem Steps.trans {a b c : St} (h1 : Steps a b) (h2 : Steps b c) : Steps a c := by
  induction h2 with
  | refl => exact h1
  | tail _ st ih => exact Steps.tail ih st

theorem ESteps.toSteps {a b : St} (h : ESteps a b) : Steps a b := by
  induction h with
  | refl => exact Steps.refl _
  | tail _ st ih => exact Steps.tail ih (Step.e st)

theorem ESteps.single {a b : St} (h : EStep a b) : ESteps a b := ESteps.tail (ESteps.refl _) h
theorem Steps.single {a b : St} (h : Step a b) : Steps a b := Steps.tail (Steps.refl _) h

/-- nothing below statement level can panic -/
theorem EStep.panic_eq {s s' : St} (h : EStep s s') : s'.panic = s.panic := by
  cases h <;> first | rfl | (unfold St.push St.registerInner St.mapFrames St.insertValue St.mapCur; cases s.inner <;> rfl)

theorem ESteps.panic_eq {s s' : St} (h : ESteps s s') : s'.panic = s.panic := by
  induction h with
  | refl => rfl
  | tail _ st ih => rw [st.panic_eq, ih]

/-- an expression-level step chain followed by at most one conditional-branch instruction
(`if_condition_calculation`: the only place below the control constructs that names labels) -/
def BSteps (s s' : St) : Prop :=
  ∃ s1, ESteps s s1 ∧ (s' = s1 ∨ ∃ i : Instr, s' = s1.push i ∧ i.writes = none ∧ i.declares = none ∧
    i.setsLabel = none ∧ i.usesValue = none ∧ i.isRet = false)

theorem BSteps.toSteps {a b : St} (h : BSteps a b) : Steps a b := by
  obtain ⟨s1, h1, rfl | ⟨i, rfl, hw, hd, _, hu, hr⟩⟩ := h
  · exact h1.toSteps
  · exact h1.toSteps.tail (Step.ctl _ _ hw hd hu hr)

theorem BSteps.panic_eq {s s' : St} (h : BSteps s s') : s'.panic = s.panic := by
  obtain ⟨s1, h1, rfl | ⟨i, rfl, _⟩⟩ := h
  · exact h1.panic_eq
  · rw [← h1.panic_eq]; rfl

/-- a state transformer all of whose runs are expression-level step chains -/
def EM {α : Type} (m : St → α × St) : Prop := ∀ s, ESteps s (m s).2

end SemVerif
