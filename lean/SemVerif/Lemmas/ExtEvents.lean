import SemVerif.Lemmas.SpecRef
import SemVerif.Spec.Traverse
/-!
# Lemmas/ExtEvents — the extension-evaluation events of a denotation

* of a stack: exactly its `ExtendedExpression` instructions, in order (`evTags_abstractStack`);
* of a source function: exactly its extension leaves in evaluation order (`evTags_specStmts`),
  through the precedence fold (which keeps the operands of a chain in order).
-/
namespace SemVerif

def extEv : DStmt → Option Nat
  | .extS t => some t
  | _ => none

/-- tags of the extension evaluations of a statement list, in order -/
def evTags (l : List DStmt) : List Nat := l.filterMap extEv

theorem evTags_append (a b : List DStmt) : evTags (a ++ b) = evTags a ++ evTags b := by
  unfold evTags; rw [List.filterMap_append]

theorem evTags_step (A : AbsSt) (i : Instr) :
    evTags (abstractStep A i).out = evTags A.out ++ i.extTag.toList := by
  cases i <;> simp [abstractStep, AbsSt.emit, AbsSt.bind, evTags, extEv, Instr.extTag, List.filterMap_append]

theorem evTags_fold (stack : List Instr) : ∀ (A : AbsSt),
    evTags (stack.foldl abstractStep A).out = evTags A.out ++ stack.filterMap Instr.extTag := by
  induction stack with
  | nil => intro A; simp
  | cons i rest ih =>
    intro A
    simp only [List.foldl_cons]
    rw [ih, evTags_step, List.append_assoc]
    congr 1
    cases h : i.extTag <;> simp [List.filterMap_cons, h]

/-- the extension events of the reading of a stack are its extension instructions -/
theorem evTags_abstractStack (stack : List Instr) : evTags (abstractStack stack) = stack.filterMap Instr.extTag := by
  unfold abstractStack abstractFold
  rw [evTags_fold]
  simp [AbsSt.init, evTags]

/-! ### Source side -/

def Tok.val? {α : Type} : Tok α → Option α
  | .val a => some a
  | .op _ => none

theorem atoms_of_flat {α : Type} : ∀ (t : W α), t.atoms = t.flat.filterMap Tok.val?
  | .atom a => by simp [W.atoms, W.flat, Tok.val?]
  | .pair l o r => by
    simp only [W.atoms, W.flat, List.filterMap_append, List.filterMap_cons, Tok.val?]
    rw [atoms_of_flat l, atoms_of_flat r]

/-- the fold keeps the operands of the chain, in order -/
theorem foldChain_atoms {α : Type} (prio : Op → Nat) (v : α) (rest : List (Op × α)) :
    (foldChain prio v rest).atoms = v :: rest.map (·.2) := by
  rw [atoms_of_flat, (C07_fold_correct prio v rest).1]
  unfold chainFlat
  simp only [List.filterMap_cons, Tok.val?]
  congr 1
  induction rest with
  | nil => rfl
  | cons x xs ih => simp [List.flatMap_cons, List.filterMap_cons, Tok.val?, ih]

theorem denTree_events : ∀ (t : W Den), (denTree t).1 = (t.atoms.map (·.1)).flatten
  | .atom d => by simp [denTree, W.atoms]
  | .pair l o r => by
    simp only [denTree, W.atoms, List.map_append, List.flatten_append]
    rw [denTree_events l, denTree_events r]

theorem specExpr_events (s : SpecSt) (v : ExprValue) (rest : Option (Op × Expr)) :
    (specExpr false s (.mk v rest)).1 = (specVal false s v).1 ++ ((specRest false s rest).map (·.2.1)).flatten := by
  unfold specExpr buildTree
  simp only [Bool.false_eq_true, if_false]
  unfold precTree
  rw [denTree_events, foldChain_atoms]
  simp [List.map_map, Function.comp_def]

theorem extLeavesL_eq : ∀ (es : List Expr), Expr.extLeavesL es = es.flatMap Expr.extLeaves
  | [] => by unfold Expr.extLeavesL; rfl
  | e :: es => by unfold Expr.extLeavesL; rw [extLeavesL_eq es]; simp

theorem extLeaves_more (v : ExprValue) (o : Op) (e : Expr) :
    (Expr.mk v (some (o, e))).extLeaves = v.extLeaves ++ e.extLeaves := by rw [Expr.extLeaves]
theorem extLeaves_last (v : ExprValue) : (Expr.mk v none).extLeaves = v.extLeaves := by rw [Expr.extLeaves]

mutual
theorem ev_specExpr (s : SpecSt) : ∀ e, evTags (specExpr false s e).1 = e.extLeaves.map (·.1)
  | .mk v none => by
    rw [specExpr_events]
    unfold specRest Expr.extLeaves
    simp only [List.map_nil, List.flatten_nil, List.append_nil]
    exact ev_specVal s v
  | .mk v (some (o, e)) => by
    rw [specExpr_events, evTags_append, ev_specVal s v]
    unfold Expr.extLeaves
    rw [List.map_append]
    congr 1
    exact ev_specRest s o e
theorem ev_specRest (s : SpecSt) : ∀ o e, evTags ((specRest false s (some (o, e))).map (·.2.1)).flatten = e.extLeaves.map (·.1)
  | o, .mk v none => by
    unfold specRest
    simp only [List.map_cons, List.flatten_cons]
    unfold specRest Expr.extLeaves
    simp only [List.map_nil, List.flatten_nil, List.append_nil]
    exact ev_specVal s v
  | o, .mk v (some (o2, e2)) => by
    unfold specRest
    simp only [List.map_cons, List.flatten_cons]
    rw [evTags_append, ev_specVal s v, ev_specRest s o2 e2, extLeaves_more, List.map_append]
theorem ev_specVal (s : SpecSt) : ∀ v, evTags (specVal false s v).1 = v.extLeaves.map (·.1)
  | .var x => by unfold specVal ExprValue.extLeaves; rfl
  | .lit v => by unfold specVal ExprValue.extLeaves; rfl
  | .call f args => by
    unfold specVal ExprValue.extLeaves
    dsimp only
    rw [evTags_append, ev_specArgs s args]
    simp [evTags, extEv]
  | .field x a => by unfold specVal ExprValue.extLeaves; rfl
  | .sub e => by unfold specVal ExprValue.extLeaves; exact ev_specExpr s e
  | .ext tag ty => by unfold specVal ExprValue.extLeaves; rfl
theorem ev_specArgs (s : SpecSt) : ∀ as, evTags (specArgs false s as).1 = (Expr.extLeavesL as).map (·.1)
  | [] => by unfold specArgs Expr.extLeavesL; rfl
  | e :: es => by
    unfold specArgs Expr.extLeavesL
    dsimp only
    rw [evTags_append, ev_specExpr s e, ev_specArgs s es, List.map_append]
end

/-- leaves of a list of expressions -/
def leafTags (es : List Expr) : List Nat := (es.flatMap Expr.extLeaves).map (·.1)

theorem leafTags_append (a b : List Expr) : leafTags (a ++ b) = leafTags a ++ leafTags b := by
  unfold leafTags; simp [List.flatMap_append]
theorem leafTags_cons (e : Expr) (b : List Expr) : leafTags (e :: b) = e.extLeaves.map (·.1) ++ leafTags b := by
  unfold leafTags; simp [List.flatMap_cons]
theorem leafTags_nil : leafTags [] = [] := rfl

/-- a source-denotation step that adds the extension events of the expressions `es` -/
def Adds (F : SpecSt → SpecSt) (es : List Expr) : Prop :=
  ∀ s, evTags (F s).out = evTags s.out ++ leafTags es

theorem Adds.comp {F G : SpecSt → SpecSt} {a b : List Expr} (hF : Adds F a) (hG : Adds G b) :
    Adds (fun s => G (F s)) (a ++ b) := by
  intro s; rw [hG, hF, leafTags_append, List.append_assoc]

theorem Adds.id : Adds (fun s => s) [] := by intro s; simp [leafTags_nil]

theorem Adds.block {F : SpecSt → SpecSt} {a : List Expr} (hF : Adds F a) : Adds (fun s => (F s.push).pop) a := by
  intro s
  show evTags (F s.push).out = _
  rw [hF]; rfl

theorem adds_emits_emit (ev : SpecSt → List DStmt) (d : SpecSt → DStmt) (es : List Expr)
    (hev : ∀ s, evTags (ev s) = leafTags es) (hd : ∀ s, extEv (d s) = none) :
    Adds (fun s => (s.emits (ev s)).emit (d s)) es := by
  intro s
  simp only [SpecSt.emits, SpecSt.emit]
  rw [evTags_append, evTags_append, hev]
  simp [evTags, hd]

theorem adds_let (g : RGlobals) (b : LetB) : Adds (specLet false g b) [b.value] := by
  intro s
  unfold specLet
  simp only [SpecSt.declare, SpecSt.emits, SpecSt.emit]
  rw [evTags_append, evTags_append, ev_specExpr, leafTags_cons, leafTags_nil]
  simp [evTags, extEv]

theorem adds_bind (b : Bind) : Adds (specBind false b) [b.value] := by
  intro s
  unfold specBind
  simp only [SpecSt.emits, SpecSt.emit]
  rw [evTags_append, evTags_append, ev_specExpr, leafTags_cons, leafTags_nil]
  simp [evTags, extEv]

theorem adds_callS (c : CallS) : Adds (specCallS false c) c.args := by
  intro s
  unfold specCallS
  simp only [SpecSt.emits]
  rw [evTags_append, ev_specVal]
  unfold ExprValue.extLeaves leafTags
  rw [extLeavesL_eq]

theorem adds_jret (e : Expr) : Adds (specJret false rg e) [e] := by
  intro s
  unfold specJret
  simp only [SpecSt.emits, SpecSt.emit]
  rw [evTags_append, evTags_append, ev_specExpr, leafTags_cons, leafTags_nil]
  simp [evTags, extEv]

theorem adds_ret (e : Expr) : Adds (specRet false e) [e] := by
  intro s
  unfold specRet
  simp only [SpecSt.emits, SpecSt.emit]
  rw [evTags_append, evTags_append, ev_specExpr, leafTags_cons, leafTags_nil]
  simp [evTags, extEv]

theorem ev_specLogic (s : SpecSt) : ∀ lc, evTags (specLogic false s lc).1 = leafTags lc.exprs
  | .mk c none => by
    unfold specLogic LogicCond.exprs
    dsimp only
    rw [evTags_append, ev_specExpr, ev_specExpr, leafTags_cons, leafTags_cons, leafTags_nil, List.append_nil]
  | .mk c (some (lg, rc)) => by
    unfold specLogic LogicCond.exprs
    dsimp only
    rw [evTags_append, evTags_append, ev_specExpr, ev_specExpr, ev_specLogic s rc, leafTags_cons, leafTags_cons,
      List.append_assoc]

theorem adds_ifCond (c : IfCond) : Adds (specIfCond false c) c.exprs := by
  intro s
  unfold specIfCond IfCond.exprs
  cases c with
  | single e =>
    simp only [SpecSt.emits, SpecSt.emit]
    rw [evTags_append, evTags_append, ev_specExpr, leafTags_cons, leafTags_nil]
    simp [evTags, extEv]
  | logic lc =>
    simp only [SpecSt.emits, SpecSt.emit]
    rw [evTags_append, evTags_append, ev_specLogic]
    simp [evTags, extEv]

mutual
theorem adds_if (g : RGlobals) : ∀ i, Adds (specIf false g i) i.exprs
  | .mk cond body els elif => by
    intro s
    unfold specIf IfStmt.exprs
    dsimp only
    have h1 : evTags (specBodies false g body (specIfCond false cond s.push)).pop.out =
        evTags s.out ++ leafTags (cond.exprs ++ IfBodies.exprs body) := by
      show evTags (specBodies false g body (specIfCond false cond s.push)).out = _
      rw [adds_bodies g body, adds_ifCond cond, leafTags_append, List.append_assoc]; rfl
    cases els with
    | some eb =>
      dsimp only
      show evTags (specBodies false g eb _).out = _
      rw [adds_bodies g eb]
      show evTags (specBodies false g body (specIfCond false cond s.push)).pop.out ++ _ = _
      rw [h1, leafTags_append (cond.exprs ++ IfBodies.exprs body), List.append_assoc]
    | none =>
      cases elif with
      | some ei =>
        dsimp only
        rw [adds_if g ei, h1, leafTags_append (cond.exprs ++ IfBodies.exprs body), List.append_assoc]
      | none =>
        dsimp only
        rw [h1, List.append_nil]
theorem adds_bodies (g : RGlobals) : ∀ b, Adds (specBodies false g b) b.exprs
  | .ifb l => by intro s; unfold specBodies IfBodies.exprs; exact adds_ifBody g l s
  | .loopb l => by intro s; unfold specBodies IfBodies.exprs; exact adds_ifLoopBody g l s
theorem adds_ifBody (g : RGlobals) : ∀ l, Adds (specIfBody false g l) (IfBodyStmt.exprsL l)
  | [] => by intro s; unfold specIfBody IfBodyStmt.exprsL; simp [leafTags_nil]
  | .letB b :: tl => by
    intro s; unfold specIfBody IfBodyStmt.exprsL
    rw [adds_ifBody g tl, adds_let, leafTags_cons b.value, leafTags_cons, leafTags_nil, List.append_assoc]; simp
  | .bind b :: tl => by
    intro s; unfold specIfBody IfBodyStmt.exprsL
    rw [adds_ifBody g tl, adds_bind, leafTags_cons b.value, leafTags_cons, leafTags_nil, List.append_assoc]; simp
  | .call c :: tl => by
    intro s; unfold specIfBody IfBodyStmt.exprsL
    rw [adds_ifBody g tl, adds_callS, leafTags_append, List.append_assoc]
  | .ifS i :: tl => by
    intro s; unfold specIfBody IfBodyStmt.exprsL
    rw [adds_ifBody g tl, adds_if g i, leafTags_append, List.append_assoc]
  | .loop b :: tl => by
    intro s; unfold specIfBody IfBodyStmt.exprsL
    rw [adds_ifBody g tl]
    show evTags (specLoopBody false g b s.push).out ++ _ = _
    rw [adds_loopBody g b, leafTags_append, List.append_assoc]; rfl
  | .ret e :: tl => by
    intro s; unfold specIfBody IfBodyStmt.exprsL
    rw [adds_ifBody g tl, adds_jret, leafTags_cons e, leafTags_cons, leafTags_nil, List.append_assoc]; simp
theorem adds_ifLoopBody (g : RGlobals) : ∀ l, Adds (specIfLoopBody false g l) (IfLoopStmt.exprsL l)
  | [] => by intro s; unfold specIfLoopBody IfLoopStmt.exprsL; simp [leafTags_nil]
  | .letB b :: tl => by
    intro s; unfold specIfLoopBody IfLoopStmt.exprsL
    rw [adds_ifLoopBody g tl, adds_let, leafTags_cons b.value, leafTags_cons, leafTags_nil, List.append_assoc]; simp
  | .bind b :: tl => by
    intro s; unfold specIfLoopBody IfLoopStmt.exprsL
    rw [adds_ifLoopBody g tl, adds_bind, leafTags_cons b.value, leafTags_cons, leafTags_nil, List.append_assoc]; simp
  | .call c :: tl => by
    intro s; unfold specIfLoopBody IfLoopStmt.exprsL
    rw [adds_ifLoopBody g tl, adds_callS, leafTags_append, List.append_assoc]
  | .ifS i :: tl => by
    intro s; unfold specIfLoopBody IfLoopStmt.exprsL
    rw [adds_ifLoopBody g tl, adds_if g i, leafTags_append, List.append_assoc]
  | .loop b :: tl => by
    intro s; unfold specIfLoopBody IfLoopStmt.exprsL
    rw [adds_ifLoopBody g tl]
    show evTags (specLoopBody false g b s.push).out ++ _ = _
    rw [adds_loopBody g b, leafTags_append, List.append_assoc]; rfl
  | .ret e :: tl => by
    intro s; unfold specIfLoopBody IfLoopStmt.exprsL
    rw [adds_ifLoopBody g tl, adds_jret, leafTags_cons e, leafTags_cons, leafTags_nil, List.append_assoc]; simp
  | .brk :: tl => by intro s; unfold specIfLoopBody IfLoopStmt.exprsL; exact adds_ifLoopBody g tl s
  | .cont :: tl => by intro s; unfold specIfLoopBody IfLoopStmt.exprsL; exact adds_ifLoopBody g tl s
theorem adds_loopBody (g : RGlobals) : ∀ l, Adds (specLoopBody false g l) (LoopStmt.exprsL l)
  | [] => by intro s; unfold specLoopBody LoopStmt.exprsL; simp [leafTags_nil]
  | .letB b :: tl => by
    intro s; unfold specLoopBody LoopStmt.exprsL
    rw [adds_loopBody g tl, adds_let, leafTags_cons b.value, leafTags_cons, leafTags_nil, List.append_assoc]; simp
  | .bind b :: tl => by
    intro s; unfold specLoopBody LoopStmt.exprsL
    rw [adds_loopBody g tl, adds_bind, leafTags_cons b.value, leafTags_cons, leafTags_nil, List.append_assoc]; simp
  | .call c :: tl => by
    intro s; unfold specLoopBody LoopStmt.exprsL
    rw [adds_loopBody g tl, adds_callS, leafTags_append, List.append_assoc]
  | .ifS i :: tl => by
    intro s; unfold specLoopBody LoopStmt.exprsL
    rw [adds_loopBody g tl, adds_if g i, leafTags_append, List.append_assoc]
  | .loop b :: tl => by
    intro s; unfold specLoopBody LoopStmt.exprsL
    rw [adds_loopBody g tl]
    show evTags (specLoopBody false g b s.push).out ++ _ = _
    rw [adds_loopBody g b, leafTags_append, List.append_assoc]; rfl
  | .ret e :: tl => by
    intro s; unfold specLoopBody LoopStmt.exprsL
    rw [adds_loopBody g tl, adds_jret, leafTags_cons e, leafTags_cons, leafTags_nil, List.append_assoc]; simp
  | .brk :: tl => by intro s; unfold specLoopBody LoopStmt.exprsL; exact adds_loopBody g tl s
  | .cont :: tl => by intro s; unfold specLoopBody LoopStmt.exprsL; exact adds_loopBody g tl s
end

theorem adds_body (g : RGlobals) : ∀ l, Adds (specBody false g l) (BodyStmt.exprsL l)
  | [] => by intro s; unfold specBody BodyStmt.exprsL; simp [leafTags_nil]
  | .letB b :: tl => by
    intro s; unfold specBody BodyStmt.exprsL
    rw [adds_body g tl, adds_let, leafTags_cons b.value, leafTags_cons, leafTags_nil, List.append_assoc]; simp
  | .bind b :: tl => by
    intro s; unfold specBody BodyStmt.exprsL
    rw [adds_body g tl, adds_bind, leafTags_cons b.value, leafTags_cons, leafTags_nil, List.append_assoc]; simp
  | .call c :: tl => by
    intro s; unfold specBody BodyStmt.exprsL
    rw [adds_body g tl, adds_callS, leafTags_append, List.append_assoc]
  | .ifS i :: tl => by
    intro s; unfold specBody BodyStmt.exprsL
    rw [adds_body g tl, adds_if g i, leafTags_append, List.append_assoc]
  | .loop b :: tl => by
    intro s; unfold specBody BodyStmt.exprsL
    rw [adds_body g tl]
    show evTags (specLoopBody false g b s.push).out ++ _ = _
    rw [adds_loopBody g b, leafTags_append, List.append_assoc]; rfl
  | .expr e :: tl => by
    intro s; unfold specBody BodyStmt.exprsL
    rw [adds_body g tl, adds_ret, leafTags_cons e, leafTags_cons, leafTags_nil, List.append_assoc]; simp
  | .ret e :: tl => by
    intro s; unfold specBody BodyStmt.exprsL
    rw [adds_body g tl, adds_ret, leafTags_cons e, leafTags_cons, leafTags_nil, List.append_assoc]; simp

theorem ev_specParams : ∀ (ps : List (Name × ATy)) (s : SpecSt), evTags (specParams ps s).out = evTags s.out
  | [], s => by unfold specParams; rfl
  | (n, t) :: rest, s => by
    unfold specParams
    dsimp only
    rw [ev_specParams rest]
    simp [SpecSt.declare, SpecSt.emit, evTags, extEv]

/-- the extension events of the source denotation are the function's extension leaves, in
evaluation order -/
theorem evTags_specStmts (g : RGlobals) (f : FnDecl) : evTags (specStmts false g f) = f.extLeaves.map (·.1) := by
  unfold specStmts
  rw [adds_body g f.body, ev_specParams]
  simp [SpecSt.init, evTags, leafTags, FnDecl.extLeaves, FnDecl.exprs]

end SemVerif
