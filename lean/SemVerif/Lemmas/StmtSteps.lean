import SemVerif.Lemmas.ExprSteps
import SemVerif.Lemmas.Names
/-! # Lemmas/StmtSteps — let, parameters, control constructs and whole bodies are step chains -/
namespace SemVerif

theorem esteps_letBinding (g : Globals) (b : LetB) (s : St) : ESteps s (letBinding g b s) := by
  unfold letBinding
  have h1 := em_exprM g b.value s
  cases he : exprM g b.value s with
  | mk a s1 =>
    rw [he] at h1
    cases a with
    | none => exact h1
    | some r =>
      dsimp only
      cases letTypeBad b.ty r.ty with
      | true => exact h1.tail (EStep.addErr _ _ _ _ _)
      | false =>
        simp only [Bool.false_eq_true, if_false]
        apply h1.tail
        have hfresh : s1.innerUsed (letInnerName s1 b.name) = false := by
          unfold letInnerName
          cases s1.lookupValue b.name <;> exact St.probeInner_fresh _ _
        exact EStep.declare s1 b.name ⟨letInnerName s1 b.name, r.ty, b.mutable, false, false⟩
          (.letBinding ⟨letInnerName s1 b.name, r.ty, b.mutable, false, false⟩ r) rfl rfl rfl rfl hfresh rfl

/-- while the parameters are registered the root block is the only block and its internal names
are the keys of its value table -/
def ParamInv (s : St) : Prop :=
  s.inner = [] ∧ ∀ n, n ∈ s.root.innerNames → (assocGet n s.root.values).isSome

theorem assocGet_insert_self {β : Type} (k : Name) (v : β) (l : List (Name × β)) :
    assocGet k (assocInsert k v l) = some v := by
  induction l with
  | nil => simp [assocInsert, assocGet]
  | cons x xs ih =>
    obtain ⟨k', v'⟩ := x
    unfold assocInsert
    split
    · simp [assocGet]
    · rename_i h; simp [assocGet, h, ih]

theorem assocGet_insert_ne {β : Type} (k k2 : Name) (v : β) (l : List (Name × β)) (h : k2 ≠ k) :
    assocGet k2 (assocInsert k v l) = assocGet k2 l := by
  induction l with
  | nil => simp [assocInsert, assocGet, h]
  | cons x xs ih =>
    obtain ⟨k', v'⟩ := x
    unfold assocInsert
    split
    · rename_i hk; subst hk; simp [assocGet, h]
    · simp [assocGet, ih]

theorem esteps_initParams : ∀ (ps : List (Name × ATy)) (s : St), ParamInv s → ESteps s (initParams ps s)
  | [], s, _ => ESteps.refl _
  | (n, t) :: rest, s, hinv => by
    unfold initParams
    obtain ⟨hin, hkeys⟩ := hinv
    cases hl : s.lookupValue n with
    | some v => exact ESteps.single (EStep.addErr _ _ _ _ _)
    | none =>
      dsimp only
      have hlook : assocGet n s.root.values = none := by
        simpa [St.lookupValue, St.frames, hin] using hl
      have hfresh : s.innerUsed n = false := by
        by_cases hc : n ∈ s.root.innerNames
        · have := hkeys n hc; rw [hlook] at this; simp at this
        · simp [St.innerUsed, St.frames, hin, hc]
      have hstep : EStep s (((s.insertValue n ⟨n, t.toTy, false, false, false⟩).registerInner n).push
          (.fnArg ⟨n, t.toTy, false, false, false⟩ ⟨n, t.toTy⟩)) :=
        EStep.declare s n ⟨n, t.toTy, false, false, false⟩ _ rfl rfl rfl rfl hfresh rfl
      refine (ESteps.single hstep).trans (esteps_initParams rest _ ⟨?_, ?_⟩)
      · simp [St.push, St.mapFrames, St.registerInner, St.insertValue, St.mapCur, hin]
      · intro m hm
        simp [St.push, St.mapFrames, St.registerInner, St.insertValue, St.mapCur, hin] at hm ⊢
        by_cases hmn : m = n
        · subst hmn; simp [assocGet_insert_self]
        · rw [assocGet_insert_ne _ _ _ _ hmn]
          apply hkeys
          unfold setInsert at hm
          split at hm
          · exact hm
          · simp at hm
            rcases hm with h | h
            · exact h
            · exact absurd h hmn

theorem paramInv_init : ParamInv St.init := by
  simp [ParamInv, St.init, Block.fresh]

end SemVerif

namespace SemVerif

theorem steps_probeLabel (stem : Name) (s : St) : Steps s (s.probeLabel stem).2 := by
  have h := St.probeLabel_fresh s stem
  unfold St.probeLabel at h ⊢
  exact Steps.single (Step.regLabel s _ h)

theorem steps_ifPrologue (g : Globals) (cond : IfCond) (dup isElse : Bool) (labelEnd : Option Name) (s : St) :
    Steps s (ifPrologue g cond dup isElse labelEnd s).2.2 := by
  unfold ifPrologue ifLabels
  dsimp only
  have h0 : Steps s (if dup then s.addErr .ifElseDuplicated "if-condition".toList 1 0 else s) := by
    cases dup
    · exact Steps.refl _
    · exact Steps.single (Step.e (EStep.addErr _ _ _ _ _))
  generalize (if dup then s.addErr .ifElseDuplicated "if-condition".toList 1 0 else s) = s0 at h0
  have h1 : Steps s s0.enter := h0.tail (Step.enter _)
  have h2 := h1.trans (steps_probeLabel "if_begin".toList s0.enter)
  generalize s0.enter.probeLabel "if_begin".toList = p1 at h2
  obtain ⟨lb, s2⟩ := p1
  have h3 := h2.trans (steps_probeLabel "if_else".toList s2)
  generalize s2.probeLabel "if_else".toList = p2 at h3
  obtain ⟨le, s3⟩ := p2
  dsimp only at h3 ⊢
  cases labelEnd with
  | some l =>
    dsimp only
    exact (h3.trans (esteps_ifCondCalc g cond lb le l isElse s3).toSteps).tail (Step.ctl _ _ rfl rfl rfl rfl)
  | none =>
    dsimp only
    have h4 := h3.trans (steps_probeLabel "if_end".toList s3)
    generalize s3.probeLabel "if_end".toList = p3 at h4
    obtain ⟨ln, s4⟩ := p3
    exact (h4.trans (esteps_ifCondCalc g cond lb le ln isElse s4).toSteps).tail (Step.ctl _ _ rfl rfl rfl rfl)

theorem steps_ifAfterBody (isElse r : Bool) (lElse lEnd : Name) (s : St) :
    Steps s (ifAfterBody isElse r lElse lEnd s).2 := by
  unfold ifAfterBody
  dsimp only
  have h0 : Steps s (if r then s else s.push (.jumpTo lEnd)) := by
    cases r
    · exact Steps.single (Step.ctl _ _ rfl rfl rfl rfl)
    · exact Steps.refl _
  generalize (if r then s else s.push (.jumpTo lEnd)) = s0 at h0
  have h1 : Steps s (if isElse then s0.push (.setLabel lElse) else s0) := by
    cases isElse
    · exact h0
    · exact h0.tail (Step.ctl _ _ rfl rfl rfl rfl)
  exact h1.tail (Step.leave _)

theorem steps_ifAfterElse (k : Nat) (r : Bool) (lEnd : Name) (s : St) : Steps s (ifAfterElse k r lEnd s) := by
  unfold ifAfterElse
  dsimp only
  cases r
  · exact (Steps.single (Step.leave _)).tail (Step.ctlVia _ _ _ rfl rfl rfl rfl)
  · exact Steps.single (Step.leave _)

theorem steps_ifEpilogue (k : Nat) (labelEnd : Option Name) (lEnd : Name) (s : St) :
    Steps s (ifEpilogue k labelEnd lEnd s) := by
  unfold ifEpilogue
  cases labelEnd
  · exact Steps.single (Step.ctlVia _ _ _ rfl rfl rfl rfl)
  · exact Steps.refl _

theorem steps_loopPrologue (s : St) : Steps s (loopPrologue s).2.2 := by
  unfold loopPrologue
  dsimp only
  have h1 : Steps s s.enter := Steps.single (Step.enter _)
  have h2 := h1.trans (steps_probeLabel "loop_begin".toList s.enter)
  generalize s.enter.probeLabel "loop_begin".toList = p1 at h2
  obtain ⟨lb, s2⟩ := p1
  have h3 := h2.trans (steps_probeLabel "loop_end".toList s2)
  generalize s2.probeLabel "loop_end".toList = p2 at h3
  obtain ⟨le, s3⟩ := p2
  exact (h3.tail (Step.ctl _ _ rfl rfl rfl rfl)).tail (Step.ctl _ _ rfl rfl rfl rfl)

theorem steps_loopEpilogue (r : Bool) (lb le : Name) (s : St) : Steps s (loopEpilogue r lb le s) := by
  unfold loopEpilogue
  dsimp only
  cases r
  · exact ((Steps.single (Step.ctl _ _ rfl rfl rfl rfl)).tail (Step.ctl _ _ rfl rfl rfl rfl)).tail (Step.leave _)
  · exact Steps.single (Step.leave _)

theorem steps_nestedReturn (g : Globals) (e : Expr) (s : St) : Steps s (nestedReturn g e s).1 := by
  obtain ⟨s1, h1, h | ⟨r, h⟩⟩ := esteps_nestedReturn_pre g e s
  · rw [h]; exact h1.toSteps
  · rw [h]
    exact (h1.toSteps.tail (Step.emitRet _ _ rfl rfl rfl rfl rfl)).tail (Step.setReturn _)

theorem steps_loopWrap (k : Name → Name → Bool → Bool → Bool → St → St × Bool)
    (hk : ∀ lb le rc bc cc s, Steps s (k lb le rc bc cc s).1) (s : St) : Steps s (loopWrap k s) := by
  unfold loopWrap
  dsimp only
  have h1 := steps_loopPrologue s
  generalize loopPrologue s = p at h1
  obtain ⟨lb, le, s1⟩ := p
  dsimp only at h1 ⊢
  have h2 := h1.trans (hk lb le false false false s1)
  generalize k lb le false false false s1 = q at h2
  obtain ⟨s2, r⟩ := q
  exact h2.trans (steps_loopEpilogue r lb le s2)

mutual
theorem steps_ifCondition (g : Globals) : ∀ (i : IfStmt) (le : Option Name) (ll : Option (Name × Name)) (s : St),
    Steps s (ifCondition g i le ll s)
  | .mk cond body els elif, labelEnd, labelLoop, s => by
    unfold ifCondition
    dsimp only
    have h1 := steps_ifPrologue g cond (els.isSome && elif.isSome) (els.isSome || elif.isSome) labelEnd s
    generalize ifPrologue g cond (els.isSome && elif.isSome) (els.isSome || elif.isSome) labelEnd s = p at h1
    obtain ⟨lElse, lEnd, s1⟩ := p
    dsimp only at h1 ⊢
    have h2 := h1.trans (steps_ifBodies g body lEnd labelLoop s1)
    generalize ifBodies g body lEnd labelLoop s1 = q at h2
    obtain ⟨s2, r⟩ := q
    dsimp only at h2 ⊢
    have h3 := h2.trans (steps_ifAfterBody (els.isSome || elif.isSome) r lElse lEnd s2)
    generalize ifAfterBody (els.isSome || elif.isSome) r lElse lEnd s2 = q3 at h3
    obtain ⟨k, s3⟩ := q3
    dsimp only at h3 ⊢
    refine Steps.trans ?_ (steps_ifEpilogue k labelEnd lEnd _)
    cases els with
    | some eb =>
      dsimp only
      have h4 := (h3.tail (Step.enter _)).trans (steps_ifBodies g eb lEnd labelLoop s3.enter)
      generalize ifBodies g eb lEnd labelLoop s3.enter = q4 at h4
      obtain ⟨s4, r4⟩ := q4
      exact h4.trans (steps_ifAfterElse k r4 lEnd s4)
    | none =>
      cases elif with
      | some ei => exact h3.trans (steps_ifCondition g ei (some lEnd) labelLoop s3)
      | none => exact h3
theorem steps_ifBodies (g : Globals) : ∀ (b : IfBodies) (lEnd : Name) (ll : Option (Name × Name)) (s : St),
    Steps s (ifBodies g b lEnd ll s).1
  | .ifb l, lEnd, ll, s => by unfold ifBodies; exact steps_ifBody g l lEnd ll false s
  | .loopb l, lEnd, some (lb, le), s => by unfold ifBodies; exact steps_ifLoopBody g l lEnd lb le false false false s
  | .loopb _, _, none, s => by unfold ifBodies; exact Steps.single (Step.setPanic _ _)
theorem steps_ifBody (g : Globals) : ∀ (l : List IfBodyStmt) (lEnd : Name) (ll : Option (Name × Name)) (rc : Bool) (s : St),
    Steps s (ifBody g l lEnd ll rc s).1
  | [], _, _, _, s => by unfold ifBody; exact Steps.refl _
  | st :: tl, lEnd, ll, rc, s => by
    unfold ifBody
    dsimp only
    have h0 := (esteps_forbidden rc false false s).toSteps
    generalize forbidden rc false false s = s0 at h0
    cases st with
    | letB b => exact (h0.trans (esteps_letBinding g b s0).toSteps).trans (steps_ifBody g tl lEnd ll rc _)
    | bind b => exact (h0.trans (esteps_binding g b s0).toSteps).trans (steps_ifBody g tl lEnd ll rc _)
    | call c => exact (h0.trans (esteps_callStmt g c s0).toSteps).trans (steps_ifBody g tl lEnd ll rc _)
    | ifS i => exact (h0.trans (steps_ifCondition g i (some lEnd) ll s0)).trans (steps_ifBody g tl lEnd ll rc _)
    | loop b => exact (h0.trans (steps_loopWrap _ (steps_loopBody g b) s0)).trans (steps_ifBody g tl lEnd ll rc _)
    | ret e =>
      dsimp only
      have h1 := h0.trans (steps_nestedReturn g e s0)
      generalize nestedReturn g e s0 = q at h1
      obtain ⟨s1, r⟩ := q
      exact h1.trans (steps_ifBody g tl lEnd ll (rc || r) s1)
theorem steps_ifLoopBody (g : Globals) : ∀ (l : List IfLoopStmt) (lEnd lb le : Name) (rc bc cc : Bool) (s : St),
    Steps s (ifLoopBody g l lEnd lb le rc bc cc s).1
  | [], _, _, _, _, _, _, s => by unfold ifLoopBody; exact Steps.refl _
  | st :: tl, lEnd, lb, le, rc, bc, cc, s => by
    unfold ifLoopBody
    dsimp only
    have h0 := (esteps_forbidden rc bc cc s).toSteps
    generalize forbidden rc bc cc s = s0 at h0
    cases st with
    | letB b => exact (h0.trans (esteps_letBinding g b s0).toSteps).trans (steps_ifLoopBody g tl lEnd lb le rc bc cc _)
    | bind b => exact (h0.trans (esteps_binding g b s0).toSteps).trans (steps_ifLoopBody g tl lEnd lb le rc bc cc _)
    | call c => exact (h0.trans (esteps_callStmt g c s0).toSteps).trans (steps_ifLoopBody g tl lEnd lb le rc bc cc _)
    | ifS i => exact (h0.trans (steps_ifCondition g i (some lEnd) (some (lb, le)) s0)).trans (steps_ifLoopBody g tl lEnd lb le rc bc cc _)
    | loop b => exact (h0.trans (steps_loopWrap _ (steps_loopBody g b) s0)).trans (steps_ifLoopBody g tl lEnd lb le rc bc cc _)
    | ret e =>
      dsimp only
      have h1 := h0.trans (steps_nestedReturn g e s0)
      generalize nestedReturn g e s0 = q at h1
      obtain ⟨s1, r⟩ := q
      exact h1.trans (steps_ifLoopBody g tl lEnd lb le (rc || r) bc cc s1)
    | cont => exact (h0.tail (Step.ctl _ _ rfl rfl rfl rfl)).trans (steps_ifLoopBody g tl lEnd lb le rc bc true _)
    | brk => exact (h0.tail (Step.ctl _ _ rfl rfl rfl rfl)).trans (steps_ifLoopBody g tl lEnd lb le rc true cc _)
theorem steps_loopBody (g : Globals) : ∀ (l : List LoopStmt) (lb le : Name) (rc bc cc : Bool) (s : St),
    Steps s (loopBody g l lb le rc bc cc s).1
  | [], _, _, _, _, _, s => by unfold loopBody; exact Steps.refl _
  | st :: tl, lb, le, rc, bc, cc, s => by
    unfold loopBody
    dsimp only
    have h0 := (esteps_forbidden rc bc cc s).toSteps
    generalize forbidden rc bc cc s = s0 at h0
    cases st with
    | letB b => exact (h0.trans (esteps_letBinding g b s0).toSteps).trans (steps_loopBody g tl lb le rc bc cc _)
    | bind b => exact (h0.trans (esteps_binding g b s0).toSteps).trans (steps_loopBody g tl lb le rc bc cc _)
    | call c => exact (h0.trans (esteps_callStmt g c s0).toSteps).trans (steps_loopBody g tl lb le rc bc cc _)
    | ifS i => exact (h0.trans (steps_ifCondition g i none (some (lb, le)) s0)).trans (steps_loopBody g tl lb le rc bc cc _)
    | loop b => exact (h0.trans (steps_loopWrap _ (steps_loopBody g b) s0)).trans (steps_loopBody g tl lb le rc bc cc _)
    | ret e =>
      dsimp only
      have h1 := h0.trans (steps_nestedReturn g e s0)
      generalize nestedReturn g e s0 = q at h1
      obtain ⟨s1, r⟩ := q
      exact h1.trans (steps_loopBody g tl lb le (rc || r) bc cc s1)
    | brk => exact (h0.tail (Step.ctl _ _ rfl rfl rfl rfl)).trans (steps_loopBody g tl lb le rc true cc _)
    | cont => exact (h0.tail (Step.ctl _ _ rfl rfl rfl rfl)).trans (steps_loopBody g tl lb le rc bc true _)
end

end SemVerif

namespace SemVerif

theorem esteps_checkTypeExists (g : Globals) (t : Ty) (n : Name) (s : St) : ESteps s (checkTypeExists g t n s).2 := by
  unfold checkTypeExists
  split
  · exact ESteps.refl _
  · split
    · exact ESteps.refl _
    · exact ESteps.single (EStep.addErr _ _ _ _ _)

theorem steps_fnReturnTail (g : Globals) (resTy : Ty) (e : Expr) (r : ExprResult) (s : St) :
    Steps s (fnReturnTail g resTy e r s) := by
  unfold fnReturnTail
  dsimp only
  have h3 := esteps_checkTypeExists g r.ty e.show s
  generalize (checkTypeExists g r.ty e.show s).2 = s3 at h3
  have h4 : ESteps s (if resTy ≠ r.ty then s3.addErr .wrongReturnType e.show 1 0 else s3) := by
    split
    · exact h3.tail (EStep.addErr _ _ _ _ _)
    · exact h3
  generalize (if resTy ≠ r.ty then s3.addErr .wrongReturnType e.show 1 0 else s3) = s4 at h4
  split
  · exact h4.toSteps.tail (Step.emitRet _ _ rfl rfl rfl rfl rfl)
  · exact h4.toSteps.tail (Step.emitRet _ _ rfl rfl rfl rfl rfl)

/-- a function-level return is an expression-level chain, optionally followed by the push of the return instruction -/
theorem fnReturn_split (g : Globals) (resTy : Ty) (e : Expr) (rc : Bool) (s : St) :
    ∃ s2, ESteps s s2 ∧ (fnReturn g resTy e rc s = (s2, rc) ∨
      ∃ r, fnReturn g resTy e rc s =
        (if s2.cur.manualReturn then s2.push (.fnReturnWithLabel r) else s2.push (.fnReturn r), true)) := by
  unfold fnReturn
  have h1 := em_exprM g e s
  cases he : exprM g e s with
  | mk a s1 =>
    rw [he] at h1
    dsimp only
    have h2 : ESteps s (if rc then s1.addErr .returnAlreadyCalled e.show 1 0 else s1) := by
      cases rc
      · exact h1
      · exact h1.tail (EStep.addErr _ _ _ _ _)
    generalize (if rc then s1.addErr .returnAlreadyCalled e.show 1 0 else s1) = s2 at h2
    cases a with
    | none => exact ⟨s2, h2, Or.inl rfl⟩
    | some r =>
      dsimp only
      unfold fnReturnTail
      dsimp only
      have h3 := h2.trans (esteps_checkTypeExists g r.ty e.show s2)
      generalize (checkTypeExists g r.ty e.show s2).2 = s3 at h3
      have h4 : ESteps s (if resTy ≠ r.ty then s3.addErr .wrongReturnType e.show 1 0 else s3) := by
        split
        · exact h3.tail (EStep.addErr _ _ _ _ _)
        · exact h3
      exact ⟨_, h4, Or.inr ⟨r, rfl⟩⟩

theorem steps_fnReturn (g : Globals) (resTy : Ty) (e : Expr) (rc : Bool) (s : St) :
    Steps s (fnReturn g resTy e rc s).1 := by
  unfold fnReturn
  have h1 := em_exprM g e s
  cases he : exprM g e s with
  | mk a s1 =>
    rw [he] at h1
    dsimp only
    have h2 : ESteps s (if rc then s1.addErr .returnAlreadyCalled e.show 1 0 else s1) := by
      cases rc
      · exact h1
      · exact h1.tail (EStep.addErr _ _ _ _ _)
    generalize (if rc then s1.addErr .returnAlreadyCalled e.show 1 0 else s1) = s2 at h2
    cases a with
    | none => exact h2.toSteps
    | some r => exact h2.toSteps.trans (steps_fnReturnTail g resTy e r s2)

theorem steps_bodyStmts (g : Globals) (resTy : Ty) : ∀ (l : List BodyStmt) (rc : Bool) (s : St),
    Steps s (bodyStmts g resTy l rc s).1
  | [], _, s => by unfold bodyStmts; exact Steps.refl _
  | st :: tl, rc, s => by
    unfold bodyStmts
    dsimp only
    have h0 := (esteps_forbidden rc false false s).toSteps
    generalize forbidden rc false false s = s0 at h0
    cases st with
    | letB b => exact (h0.trans (esteps_letBinding g b s0).toSteps).trans (steps_bodyStmts g resTy tl rc _)
    | bind b => exact (h0.trans (esteps_binding g b s0).toSteps).trans (steps_bodyStmts g resTy tl rc _)
    | call c => exact (h0.trans (esteps_callStmt g c s0).toSteps).trans (steps_bodyStmts g resTy tl rc _)
    | ifS i => exact (h0.trans (steps_ifCondition g i none none s0)).trans (steps_bodyStmts g resTy tl rc _)
    | loop b => exact (h0.trans (steps_loopWrap _ (steps_loopBody g b) s0)).trans (steps_bodyStmts g resTy tl rc _)
    | expr e =>
      dsimp only
      have h1 := h0.trans (steps_fnReturn g resTy e rc s0)
      generalize fnReturn g resTy e rc s0 = q at h1
      obtain ⟨s1, r⟩ := q
      exact h1.trans (steps_bodyStmts g resTy tl r s1)
    | ret e =>
      dsimp only
      have h1 := h0.trans (steps_fnReturn g resTy e rc s0)
      generalize fnReturn g resTy e rc s0 = q at h1
      obtain ⟨s1, r⟩ := q
      exact h1.trans (steps_bodyStmts g resTy tl r s1)

theorem steps_loopStmt (g : Globals) (body : List LoopStmt) (s : St) : Steps s (loopStmt g body s) :=
  steps_loopWrap _ (steps_loopBody g body) s

/-- the analysis of a whole function body is a chain of primitive steps from the initial state -/
theorem steps_functionBody (g : Globals) (f : FnDecl) : Steps St.init (functionBody g f) := by
  unfold functionBody
  dsimp only
  have h1 := (esteps_initParams f.params St.init paramInv_init).toSteps
  generalize initParams f.params St.init = s1 at h1
  have h2 := h1.trans (steps_bodyStmts g f.result.toTy f.body false s1)
  generalize bodyStmts g f.result.toTy f.body false s1 = q at h2
  obtain ⟨s2, rc⟩ := q
  cases rc
  · exact h2.tail (Step.e (EStep.addErr _ _ _ _ _))
  · exact h2

end SemVerif
