import SemVerif.Lemmas.Dts
import SemVerif.Lemmas.StmtSteps
import SemVerif.Spec.Denote
/-!
# Lemmas/ValInv — value tables against direct declarations (C18), list level

`FramesOk dts inner dscope kids`: for every live block, innermost first: its value table is what
inserting its direct declarations so far under the names the source denotation has declared in the
corresponding open block yields; its finished children satisfy the value-table clause for the
shapes the denotation has closed; the declarations of a child's stack are among its own, and
those of the block inside it (`inner`) too.
-/
namespace SemVerif

def foldIns (l : List (Name × Value)) : List (Name × Value) :=
  l.foldl (fun acc (p : Name × Value) => assocInsert p.1 p.2 acc) []

theorem foldIns_snoc (l : List (Name × Value)) (n : Name) (v : Value) :
    foldIns (l ++ [(n, v)]) = assocInsert n v (foldIns l) := by
  unfold foldIns; rw [List.foldl_append]; rfl

def frameNames (fr : List (Name × Nat)) : List Name := fr.reverse.map (·.1)

theorem frameNames_cons (n : Name) (d : Nat) (fr : List (Name × Nat)) : frameNames ((n, d) :: fr) = frameNames fr ++ [n] := by
  simp [frameNames]

structure FrameOk (t : DT) (inner : List Value) (fr : List (Name × Nat)) (kids : List Shape) : Prop where
  len : (frameNames fr).length = (t.directDecls inner).length
  tab : t.values = foldIns ((frameNames fr).zip (t.directDecls inner))
  kids : valuesOkDL kids t.children = true
  sub : ∀ c ∈ t.children, ∀ x ∈ c.decls, x ∈ t.decls

inductive FramesOk : List DT → List Value → List (List (Name × Nat)) → List (List Shape) → Prop
  | nil (inner : List Value) : FramesOk [] inner [] []
  | cons {t : DT} {ts : List DT} {inner : List Value} {fr : List (Name × Nat)} {frs : List (List (Name × Nat))}
      {k : List Shape} {ks : List (List Shape)} :
      FrameOk t inner fr k → (∀ x ∈ inner, x ∈ t.decls) → FramesOk ts t.decls frs ks →
      FramesOk (t :: ts) inner (fr :: frs) (k :: ks)

theorem FramesOk.inv_cons {t : DT} {ts : List DT} {inner : List Value} {frs' : List (List (Name × Nat))} {ks' : List (List Shape)}
    (h : FramesOk (t :: ts) inner frs' ks') :
    ∃ fr frs k ks, frs' = fr :: frs ∧ ks' = k :: ks ∧ FrameOk t inner fr k ∧ (∀ x ∈ inner, x ∈ t.decls) ∧
      FramesOk ts t.decls frs ks := by
  cases h with
  | cons hf hin hrest => exact ⟨_, _, _, _, rfl, rfl, hf, hin, hrest⟩

/-! ### direct declarations under a new declaration -/

theorem DT.addDecl_values (v : Value) (t : DT) : (t.addDecl v).values = t.values := by cases t; rfl
theorem DT.addDecl_decls (v : Value) (t : DT) : (t.addDecl v).decls = t.decls ++ [v] := by cases t; rfl
theorem DT.addDecl_children (v : Value) (t : DT) : (t.addDecl v).children = t.children := by cases t; rfl
theorem DT.setValues_values (f : List (Name × Value) → List (Name × Value)) (t : DT) : (t.setValues f).values = f t.values := by cases t; rfl
theorem DT.setValues_decls (f : List (Name × Value) → List (Name × Value)) (t : DT) : (t.setValues f).decls = t.decls := by cases t; rfl
theorem DT.setValues_children (f : List (Name × Value) → List (Name × Value)) (t : DT) : (t.setValues f).children = t.children := by cases t; rfl

theorem dd_def (t : DT) (inner : List Value) :
    t.directDecls inner = t.decls.filter fun v => !(t.children.any fun c => c.decls.contains v) && !(inner.contains v) := rfl

/-- in the block that declares: the new record is direct -/
theorem dd_addDecl_top (t : DT) (v : Value) (hc : ∀ c ∈ t.children, v ∉ c.decls) :
    (t.addDecl v).directDecls [] = t.directDecls [] ++ [v] := by
  rw [dd_def, dd_def, DT.addDecl_decls, DT.addDecl_children, List.filter_append]
  congr 1
  have : (t.children.any fun c => decide (v ∈ c.decls)) = false := by
    rw [List.any_eq_false]
    intro c hc'
    simpa using hc c hc'
  simp [List.filter, this]

/-- in an enclosing block: the new record is also in the stack of the block inside it -/
theorem dd_addDecl_outer (t : DT) (inner : List Value) (v : Value) (hv : v ∉ t.decls) :
    (t.addDecl v).directDecls (inner ++ [v]) = t.directDecls inner := by
  rw [dd_def, dd_def, DT.addDecl_decls, DT.addDecl_children, List.filter_append]
  have h1 : List.filter (fun x => !(t.children.any fun c => c.decls.contains x) && !((inner ++ [v]).contains x)) [v] = [] := by
    simp [List.filter]
  rw [h1, List.append_nil]
  apply List.filter_congr
  intro x hx
  have hne : x ≠ v := fun e => hv (e ▸ hx)
  simp [hne]

theorem dd_setValues (f : List (Name × Value) → List (Name × Value)) (t : DT) (inner : List Value) :
    (t.setValues f).directDecls inner = t.directDecls inner := by cases t; rfl

/-! ### a declaration in the innermost block -/

theorem framesOk_addDecl_tail {v : Value} : ∀ {ts : List DT} {inner : List Value} {frs : List (List (Name × Nat))} {ks : List (List Shape)},
    FramesOk ts inner frs ks → (∀ t ∈ ts, v ∉ t.decls) → FramesOk (ts.map (DT.addDecl v)) (inner ++ [v]) frs ks
  | _, _, _, _, .nil inner, _ => FramesOk.nil _
  | _, _, _, _, @FramesOk.cons t ts inner fr frs k ks hf hin hrest, hv => by
    have hvt : v ∉ t.decls := hv t (by simp)
    simp only [List.map_cons]
    refine FramesOk.cons ⟨?_, ?_, ?_, ?_⟩ ?_ ?_
    · rw [dd_addDecl_outer t inner v hvt]; exact hf.len
    · rw [dd_addDecl_outer t inner v hvt, DT.addDecl_values]; exact hf.tab
    · rw [DT.addDecl_children]; exact hf.kids
    · rw [DT.addDecl_children, DT.addDecl_decls]
      intro c hc x hx
      exact List.mem_append_left _ (hf.sub c hc x hx)
    · rw [DT.addDecl_decls]
      intro x hx
      rw [List.mem_append] at hx ⊢
      rcases hx with hx | hx
      · exact Or.inl (hin x hx)
      · exact Or.inr hx
    · rw [DT.addDecl_decls]
      exact framesOk_addDecl_tail hrest (fun t' ht' => hv t' (by simp [ht']))

theorem framesOk_declare {t : DT} {ts : List DT} {fr : List (Name × Nat)} {frs : List (List (Name × Nat))}
    {k : List Shape} {ks : List (List Shape)} (h : FramesOk (t :: ts) [] (fr :: frs) (k :: ks))
    (n : Name) (v : Value) (d : Nat) (hv : ∀ t' ∈ t :: ts, v ∉ t'.decls) :
    FramesOk (((t.setValues (assocInsert n v)).addDecl v) :: ts.map (DT.addDecl v)) [] (((n, d) :: fr) :: frs) (k :: ks) := by
  cases h with
  | cons hf hin hrest =>
    have hvt : v ∉ t.decls := hv t (by simp)
    have hch : ∀ c ∈ t.children, v ∉ c.decls := fun c hc hx => hvt (hf.sub c hc v hx)
    have hdd : ((t.setValues (assocInsert n v)).addDecl v).directDecls [] = t.directDecls [] ++ [v] := by
      rw [dd_addDecl_top _ _ (by rw [DT.setValues_children]; exact hch), dd_setValues]
    refine FramesOk.cons ⟨?_, ?_, ?_, ?_⟩ (by intro x hx; cases hx) ?_
    · rw [hdd, frameNames_cons]; simp [hf.len]
    · rw [hdd, frameNames_cons, DT.addDecl_values, DT.setValues_values,
        List.zip_append hf.len, hf.tab]
      exact (foldIns_snoc _ n v).symm
    · rw [DT.addDecl_children, DT.setValues_children]; exact hf.kids
    · rw [DT.addDecl_children, DT.setValues_children, DT.addDecl_decls, DT.setValues_decls]
      intro c hc x hx
      exact List.mem_append_left _ (hf.sub c hc x hx)
    · have := framesOk_addDecl_tail (v := v) hrest (fun t' ht' => hv t' (by simp [ht']))
      rw [DT.addDecl_decls, DT.setValues_decls]
      exact this

/-! ### entering and leaving a block -/

theorem framesOk_enter {ts : List DT} {frs : List (List (Name × Nat))} {ks : List (List Shape)}
    (h : FramesOk ts [] frs ks) : FramesOk (.node [] [] [] :: ts) [] ([] :: frs) ([] :: ks) := by
  refine FramesOk.cons ⟨rfl, rfl, ?_, ?_⟩ (by intro x hx; cases hx) h
  · unfold valuesOkDL; rfl
  · intro c hc; cases hc

/-! ### the executable table check from the equation -/

theorem keys_assocInsert_mem (k : Name) (v : Value) : ∀ (l : List (Name × Value)) (x : Name),
    x ∈ (assocInsert k v l).map (·.1) → x = k ∨ x ∈ l.map (·.1)
  | [], x, h => by simp [assocInsert] at h; exact Or.inl h
  | (k', v') :: rest, x, h => by
    unfold assocInsert at h
    split at h
    · simp only [List.map_cons, List.mem_cons] at h ⊢
      rcases h with h | h
      · exact Or.inl h
      · exact Or.inr (Or.inr h)
    · simp only [List.map_cons, List.mem_cons] at h ⊢
      rcases h with h | h
      · exact Or.inr (Or.inl h)
      · rcases keys_assocInsert_mem k v rest x h with h | h
        · exact Or.inl h
        · exact Or.inr (Or.inr h)

theorem keys_assocInsert_nodup (k : Name) (v : Value) : ∀ (l : List (Name × Value)),
    (l.map (·.1)).Nodup → ((assocInsert k v l).map (·.1)).Nodup
  | [], _ => by simp [assocInsert]
  | (k', v') :: rest, h => by
    simp only [List.map_cons, List.nodup_cons] at h
    unfold assocInsert
    split
    · rename_i hk
      simp only [List.map_cons, List.nodup_cons]
      exact ⟨hk ▸ h.1, h.2⟩
    · rename_i hk
      simp only [List.map_cons, List.nodup_cons]
      refine ⟨?_, keys_assocInsert_nodup k v rest h.2⟩
      intro hm
      rcases keys_assocInsert_mem k v rest k' hm with e | e
      · exact hk e.symm
      · exact h.1 e

theorem foldIns_nodup : ∀ (l : List (Name × Value)) (acc : List (Name × Value)), (acc.map (·.1)).Nodup →
    ((l.foldl (fun acc (p : Name × Value) => assocInsert p.1 p.2 acc) acc).map (·.1)).Nodup
  | [], _, h => h
  | p :: l, acc, h => foldIns_nodup l _ (keys_assocInsert_nodup p.1 p.2 acc h)

theorem assocGet_of_mem_nodup : ∀ (l : List (Name × Value)) (n : Name) (v : Value), (l.map (·.1)).Nodup → (n, v) ∈ l →
    assocGet n l = some v
  | [], _, _, _, h => by cases h
  | (k, w) :: rest, n, v, hnd, h => by
    simp only [List.map_cons, List.nodup_cons] at hnd
    simp only [List.mem_cons, Prod.mk.injEq] at h
    unfold assocGet
    rcases h with ⟨rfl, rfl⟩ | h
    · simp
    · have hne : n ≠ k := by
        intro e; subst e
        exact hnd.1 (List.mem_map.mpr ⟨(n, v), h, rfl⟩)
      rw [if_neg hne]
      exact assocGet_of_mem_nodup rest n v hnd.2 h

theorem tabOk_of_eq (names : List Name) (values : List (Name × Value)) (D : List Value)
    (hl : names.length = D.length) (he : values = foldIns (names.zip D)) : tabOk names values D = true := by
  unfold tabOk
  have hf : (names.zip D).foldl (fun acc (x : Name × Value) => match x with | (n, v) => assocInsert n v acc) [] = foldIns (names.zip D) := by
    unfold foldIns
    congr 1
  simp only [hf, ← he, hl, beq_self_eq_true, Bool.true_and, List.all_eq_true]
  intro x hx
  obtain ⟨n, v⟩ := x
  have hnd : (values.map (·.1)).Nodup := by rw [he]; exact foldIns_nodup _ [] (by simp)
  simp [assocGet_of_mem_nodup values n v hnd hx]

/-! ### leaving a block -/

theorem valuesOkDL_append : ∀ (ks : List Shape) (cs : List DT) (k : Shape) (c : DT),
    valuesOkDL ks cs = true → valuesOkD k c = true → valuesOkDL (ks ++ [k]) (cs ++ [c]) = true
  | [], [], k, c, _, h => by simp [valuesOkDL, h]
  | [], _ :: _, _, _, h, _ => by simp [valuesOkDL] at h
  | _ :: _, [], _, _, h, _ => by simp [valuesOkDL] at h
  | x :: ks, y :: cs, k, c, h, hk => by
    simp only [List.cons_append]
    unfold valuesOkDL at h ⊢
    simp only [Bool.and_eq_true] at h ⊢
    exact ⟨h.1, valuesOkDL_append ks cs k c h.2 hk⟩

theorem valuesOkD_of_frame {t : DT} {fr : List (Name × Nat)} {k : List Shape} (h : FrameOk t [] fr k) :
    valuesOkD (.node (frameNames fr) k) t = true := by
  cases t with
  | node v d c =>
    unfold valuesOkD
    rw [Bool.and_eq_true]
    exact ⟨tabOk_of_eq _ _ _ h.len h.tab, h.kids⟩

theorem framesOk_leave {t0 : DT} {v1 : List (Name × Value)} {d1 : List Value} {c1 : List DT} {ts : List DT}
    {fr0 fr1 : List (Name × Nat)} {frs : List (List (Name × Nat))} {k0 k1 : List Shape} {ks : List (List Shape)}
    (h : FramesOk (t0 :: .node v1 d1 c1 :: ts) [] (fr0 :: fr1 :: frs) (k0 :: k1 :: ks)) :
    FramesOk (.node v1 d1 (c1 ++ [t0]) :: ts) [] (fr1 :: frs) ((k1 ++ [.node (frameNames fr0) k0]) :: ks) := by
  cases h with
  | cons hf0 _ hrest =>
    cases hrest with
    | cons hf1 hin1 hrest' =>
      have hdd : (DT.node v1 d1 (c1 ++ [t0])).directDecls [] = (DT.node v1 d1 c1).directDecls t0.decls := by
        rw [dd_def, dd_def]
        apply List.filter_congr
        intro x _
        simp [DT.children, List.any_append]
      refine FramesOk.cons ⟨?_, ?_, ?_, ?_⟩ (by intro x hx; cases hx) hrest'
      · rw [hdd]; exact hf1.len
      · rw [hdd]; exact hf1.tab
      · exact valuesOkDL_append _ _ _ _ hf1.kids (valuesOkD_of_frame hf0)
      · intro c hc x hx
        simp only [DT.children, List.mem_append, List.mem_singleton] at hc
        rcases hc with hc | rfl
        · exact hf1.sub c hc x hx
        · exact hin1 x hx

end SemVerif
