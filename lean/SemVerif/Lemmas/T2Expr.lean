import SemVerif.Spec.Denote
import SemVerif.Lemmas.T1Stmt
import SemVerif.Lemmas.ValInv
/-!
# Lemmas/T2Expr — the denotation of the emitted stack is the denotation of the source (family T2),
expression level

`St.abs s` is the abstract reading of the root stack of the analysis state (`abstractFold`).
`Trans g s s' evs`: between the two states only call events `evs` were appended to the statement
list, no declaration was made, every operand already held (a literal or a register not above the
counter of `s`) still denotes the same tree, value tables and registries are unchanged.
`DenSim g ss m d`: whenever the evaluator `m` succeeds without reporting an error from a state whose
visible declarations are those of the source scope `ss`, the transition is `Trans` with the events
of `d` and the returned operand denotes the tree of `d`.
-/
namespace SemVerif

/-! ### Abstract states -/

theorem AbsSt.bind_out (A : AbsSt) (q : Nat) (t : DTree) : (A.bind q t).out = A.out := rfl
theorem AbsSt.bind_decls (A : AbsSt) (q : Nat) (t : DTree) : (A.bind q t).decls = A.decls := rfl
theorem AbsSt.emit_out (A : AbsSt) (d : DStmt) : (A.emit d).out = A.out ++ [d] := rfl
theorem AbsSt.emit_decls (A : AbsSt) (d : DStmt) : (A.emit d).decls = A.decls := rfl
theorem AbsSt.emit_env (A : AbsSt) (d : DStmt) : (A.emit d).env = A.env := rfl

theorem AbsSt.bind_reg (A : AbsSt) (q : Nat) (t : DTree) (x : Nat) :
    (A.bind q t).reg x = if x = q then t else A.reg x := by
  unfold AbsSt.reg AbsSt.bind
  simp only [List.find?_cons]
  by_cases h : x = q
  · subst h; simp
  · have : (q == x) = false := by simp; exact fun e => h e.symm
    simp [this, h]

theorem AbsSt.emit_reg (A : AbsSt) (d : DStmt) (x : Nat) : (A.emit d).reg x = A.reg x := rfl

theorem AbsSt.res_prim (A : AbsSt) (ty : Ty) (v : PrimVal) : A.res ⟨ty, .prim v⟩ = .lit v := rfl
theorem AbsSt.res_reg (A : AbsSt) (ty : Ty) (q : Nat) : A.res ⟨ty, .reg q⟩ = A.reg q := rfl

theorem AbsSt.res_congr {A B : AbsSt} (x : ExprResult) (h : ∀ q, x.val = .reg q → B.reg q = A.reg q) : B.res x = A.res x := by
  obtain ⟨ty, v⟩ := x
  cases v with
  | prim p => rfl
  | reg q => exact h q rfl

def St.abs (s : St) : AbsSt := abstractFold s.root.context

theorem abs_of_ctx {s s' : St} (h : s'.root.context = s.root.context) : s'.abs = s.abs := by
  unfold St.abs; rw [h]

theorem abs_push (i : Instr) (s : St) : (s.push i).abs = abstractStep s.abs i := by
  unfold St.abs abstractFold
  show List.foldl abstractStep AbsSt.init (s.root.context ++ [i]) = _
  rw [List.foldl_append]; rfl

theorem abs_incReg (s : St) : s.incReg.abs = s.abs := abs_of_ctx rfl
theorem abs_addErr (k : ErrKind) (v : Name) (l o : Nat) (s : St) : (s.addErr k v l o).abs = s.abs := rfl

/-! ### The typed reading (C04) -/

def St.tenv (s : St) : TyEnv := s.root.context.foldl tyStepEnv TyEnv.init

theorem tenv_of_ctx {s s' : St} (h : s'.root.context = s.root.context) : s'.tenv = s.tenv := by
  unfold St.tenv; rw [h]

theorem tenv_push (i : Instr) (s : St) : (s.push i).tenv = tyStepEnv s.tenv i := by
  unfold St.tenv
  show List.foldl tyStepEnv TyEnv.init (s.root.context ++ [i]) = _
  rw [List.foldl_append]; rfl

theorem tenv_incReg (s : St) : s.incReg.tenv = s.tenv := tenv_of_ctx rfl
theorem tenv_addErr (k : ErrKind) (v : Name) (l o : Nat) (s : St) : (s.addErr k v l o).tenv = s.tenv := rfl

def cOkOf (g : Globals) : ConstSem → Bool := fun c => g.consts c.name == some c
def fOkOf (g : Globals) : Func → Bool := fun f => g.funcs f.name == some f

/-- every check of the typed scan passes on the root stack, up to the checks F8 / F9 can fail -/
def TOK (g : Globals) (R : Ty) (s : St) : Prop :=
  ∀ pb ∈ typedGo (cOkOf g) (fOkOf g) R s.root.context TyEnv.init 0,
    ∃ i, s.root.context[pb.1]? = some i ∧ pb.2.known i = true

theorem typedGo_append (c : ConstSem → Bool) (f : Func → Bool) (R : Ty) (i : Instr) : ∀ (l : List Instr) (e : TyEnv) (pos : Nat),
    typedGo c f R (l ++ [i]) e pos =
      typedGo c f R l e pos ++ (tyStepBad c f R (l.foldl tyStepEnv e) i).map (fun b => (pos + l.length, b))
  | [], e, pos => by simp [typedGo]
  | x :: xs, e, pos => by
    simp only [List.cons_append, typedGo, List.foldl_cons, List.length_cons]
    rw [typedGo_append c f R i xs, List.append_assoc]
    rw [show pos + 1 + xs.length = pos + (xs.length + 1) by omega]

theorem tok_push {g : Globals} {R : Ty} {s : St} (i : Instr) (h : TOK g R s)
    (hi : ∀ b ∈ tyStepBad (cOkOf g) (fOkOf g) R s.tenv i, b.known i = true) : TOK g R (s.push i) := by
  unfold TOK at h ⊢
  intro pb hpb
  have hctx : (s.push i).root.context = s.root.context ++ [i] := rfl
  rw [hctx, typedGo_append] at hpb
  rw [hctx]
  rcases List.mem_append.mp hpb with hpb | hpb
  · obtain ⟨j, hj, hk⟩ := h pb hpb
    refine ⟨j, ?_, hk⟩
    have hlt : pb.1 < s.root.context.length := by
      rcases Nat.lt_or_ge pb.1 s.root.context.length with h | h
      · exact h
      · rw [List.getElem?_eq_none h] at hj; cases hj
    rw [List.getElem?_append_left hlt]; exact hj
  · rw [List.mem_map] at hpb
    obtain ⟨b, hb, rfl⟩ := hpb
    refine ⟨i, by simp, hi b hb⟩

theorem tok_of_ctx {g : Globals} {R : Ty} {s s' : St} (hc : s'.root.context = s.root.context) (h : TOK g R s) : TOK g R s' := by
  unfold TOK at h ⊢; rw [hc]; exact h

theorem tenv_step_decls (e : TyEnv) (i : Instr) (h1 : ∀ v n, i ≠ .fnArg v n) (h2 : ∀ v x, i ≠ .letBinding v x) :
    (tyStepEnv e i).decls = e.decls := by
  cases i <;> simp only [tyStepEnv] <;> try rfl
  all_goals first
    | exact absurd rfl (h1 _ _)
    | exact absurd rfl (h2 _ _)
    | (split <;> rfl)

/-- the environment step touches only the registers the instruction writes (and the alias after
a call / field read) -/
theorem reg_cons_ne (e : TyEnv) (ds : List Value) (ws : List (Nat × Ty)) (a q : Nat) (t : Ty) (rest : List (Nat × Ty)) (h : q < a) :
    ({ regs := (a, t) :: rest, decls := ds, written := ws } : TyEnv).reg q = ({ regs := rest, decls := ds, written := ws } : TyEnv).reg q := by
  unfold TyEnv.reg
  have : (a == q) = false := by simp; omega
  simp [List.find?_cons, this]

theorem reg_cons_eq (ds : List Value) (ws : List (Nat × Ty)) (a : Nat) (t : Ty) (rest : List (Nat × Ty)) :
    ({ regs := (a, t) :: rest, decls := ds, written := ws } : TyEnv).reg a = some t := by
  unfold TyEnv.reg; simp [List.find?_cons]

theorem reg_of_regs {e e' : TyEnv} (h : e'.regs = e.regs) (q : Nat) : e'.reg q = e.reg q := by
  unfold TyEnv.reg; rw [h]

theorem tenv_step_stable (e : TyEnv) (i : Instr) (q : Nat) (h : ∀ w, i.writes = some w → q < w) :
    (tyStepEnv e i).reg q = e.reg q := by
  cases i <;> simp only [tyStepEnv, Instr.writes] at h ⊢ <;> try rfl
  all_goals first
    | (have hq := h _ rfl
       first
         | (rw [reg_cons_ne e _ _ _ _ _ _ hq]; exact reg_of_regs rfl q)
         | (rw [reg_cons_ne e _ _ _ _ _ _ (by omega), reg_cons_ne e _ _ _ _ _ _ hq]; exact reg_of_regs rfl q)
         | (split
            · rw [reg_cons_ne e _ _ _ _ _ _ (by omega), reg_cons_ne e _ _ _ _ _ _ hq]; exact reg_of_regs rfl q
            · rfl))

/-- the registers written so far are not above the root's counter -/
def WLe (s : St) : Prop := ∀ p ∈ s.tenv.written, p.1 ≤ s.root.reg

theorem written_step (e : TyEnv) (i : Instr) : ∀ p ∈ (tyStepEnv e i).written, p ∈ e.written ∨ i.writes = some p.1 := by
  intro p hp
  cases i <;> simp only [tyStepEnv, Instr.writes] at hp ⊢ <;> try exact Or.inl hp
  all_goals first
    | (simp only [List.mem_cons] at hp
       rcases hp with rfl | hp
       · exact Or.inr rfl
       · exact Or.inl hp)
    | (split at hp
       · simp only [List.mem_cons] at hp
         rcases hp with rfl | hp
         · exact Or.inr rfl
         · exact Or.inl hp
       · exact Or.inl hp)

theorem wle_of_ctx {s s' : St} (hc : s'.root.context = s.root.context) (hr : s.root.reg ≤ s'.root.reg) (h : WLe s) : WLe s' := by
  intro p hp
  rw [tenv_of_ctx hc] at hp
  exact Nat.le_trans (h p hp) hr

/-! ### Registers -/

theorem curReg_push (i : Instr) (s : St) : (s.push i).curReg = s.curReg := by
  unfold St.curReg St.cur St.push St.mapFrames; cases s.inner <;> rfl
theorem curReg_incReg (s : St) : s.incReg.curReg = s.curReg + 1 := by
  unfold St.incReg St.curReg St.cur St.mapFrames; cases s.inner <;> rfl
theorem curReg_addErr (k : ErrKind) (v : Name) (l o : Nat) (s : St) : (s.addErr k v l o).curReg = s.curReg := rfl

/-! ### Bound registers -/

theorem AbsSt.bind_bound (A : AbsSt) (q : Nat) (t : DTree) (x : Nat) :
    (A.bind q t).bound x = (x == q || A.bound x) := by
  unfold AbsSt.bound AbsSt.bind
  simp only [List.find?_cons]
  by_cases h : x = q
  · subst h; simp
  · have : (q == x) = false := by simp; exact fun e => h e.symm
    simp [this, h]

theorem AbsSt.emit_bound (A : AbsSt) (d : DStmt) (x : Nat) : (A.emit d).bound x = A.bound x := rfl

/-- the abstract step only adds register bindings -/
theorem bound_step (A : AbsSt) (i : Instr) (q : Nat) (h : A.bound q = true) : (abstractStep A i).bound q = true := by
  cases i <;> simp [abstractStep, AbsSt.emit_bound, AbsSt.bind_bound, h] <;> exact h

theorem reg_of_bound {A B : AbsSt} (h : B.env = A.env) (q : Nat) : B.bound q = A.bound q := by
  unfold AbsSt.bound; rw [h]

/-- an operand that later evaluation cannot disturb: a literal, or a register not above the counter
that the reading has a tree for -/
def Held (s : St) (x : ExprResult) : Prop :=
  match x.val with
  | .prim v => x.ty = .prim v.ty
  | .reg q => (q ≤ s.curReg ∧ s.abs.bound q = true) ∧ s.tenv.reg q = some x.ty

theorem Held.mono {s s' : St} {x : ExprResult} (h : Held s x) (hm : s.curReg ≤ s'.curReg)
    (hb : ∀ q, s.abs.bound q = true → s'.abs.bound q = true)
    (ht : ∀ q, q ≤ s.curReg → s'.tenv.reg q = s.tenv.reg q) : Held s' x := by
  unfold Held at *
  cases hx : x.val with
  | prim _ => rw [hx] at h; exact h
  | reg q => rw [hx] at h; exact ⟨⟨Nat.le_trans h.1.1 hm, hb q h.1.2⟩, by rw [ht q h.1.1]; exact h.2⟩

/-- a held operand passes the operand check of the typed scan -/
theorem Held.operandOk {s : St} {x : ExprResult} (h : Held s x) : operandOk s.tenv x = true := by
  unfold Held at h
  unfold SemVerif.operandOk
  cases hx : x.val with
  | prim v => rw [hx] at h; simp [h]
  | reg q => rw [hx] at h; simp [h.2]

theorem Held.regs {s : St} {x : ExprResult} (h : Held s x) : ∀ q ∈ x.regs, q ≤ s.curReg ∧ s.abs.bound q = true := by
  intro q hq
  unfold ExprResult.regs at hq
  unfold Held at h
  cases hx : x.val with
  | prim _ => rw [hx] at hq; simp [RVal.regs] at hq
  | reg r => rw [hx] at hq h; simp [RVal.regs] at hq; subst hq; exact h.1

theorem Held.le {s : St} {ty : Ty} {q : Nat} (h : Held s ⟨ty, .reg q⟩) : q ≤ s.curReg := h.1.1
theorem Held.bnd {s : St} {ty : Ty} {q : Nat} (h : Held s ⟨ty, .reg q⟩) : s.abs.bound q = true := h.1.2
theorem Held.ty {s : St} {ty : Ty} {q : Nat} (h : Held s ⟨ty, .reg q⟩) : s.tenv.reg q = some ty := h.2

/-! ### The reads invariant (C08)

`RdInv s`: all live blocks carry the root's counter; every register read by an instruction of the
root stack had a tree in the reading at that point; it is not above the counter, and it is smaller
than every register written by that instruction or a later one. -/

structure RdInv (s : St) : Prop where
  sync : ∀ b ∈ s.inner, b.reg = s.root.reg
  ok : readsBound s.root.context AbsSt.init = true
  lw : ∀ pre i post, s.root.context = pre ++ i :: post → ∀ q ∈ i.reads,
    q ≤ s.root.reg ∧ ∀ w ∈ resultRegs (i :: post), q < w

theorem readsBound_append (l : List Instr) (i : Instr) : ∀ (A : AbsSt),
    readsBound (l ++ [i]) A = (readsBound l A && i.reads.all (l.foldl abstractStep A).bound) := by
  induction l with
  | nil => intro A; simp [readsBound]
  | cons x xs ih => intro A; simp only [List.cons_append, readsBound, List.foldl_cons]; rw [ih, Bool.and_assoc]

theorem curReg_of_sync {s : St} (h : ∀ b ∈ s.inner, b.reg = s.root.reg) : s.curReg = s.root.reg := by
  unfold St.curReg St.cur
  cases hi : s.inner with
  | nil => rfl
  | cons b rest => simp [List.headD]; exact h b (by simp [hi])

theorem resultRegs_app (l : List Instr) (i : Instr) :
    resultRegs (l ++ [i]) = resultRegs l ++ (match i.writes with | some r => [r] | none => []) := by
  unfold resultRegs
  rw [List.filterMap_append]
  cases h : i.writes <;> simp [List.filterMap, h]

theorem nil_or_snoc {α : Type} : ∀ (l : List α), l = [] ∨ ∃ l' a, l = l' ++ [a]
  | [] => Or.inl rfl
  | x :: xs => by
    rcases nil_or_snoc xs with rfl | ⟨l', a, rfl⟩
    · exact Or.inr ⟨[], x, rfl⟩
    · exact Or.inr ⟨x :: l', a, rfl⟩

/-- pushing an instruction whose reads are held; it writes nothing or a register above the reads
and above the counter before the push -/
theorem rd_push {s : St} (h : RdInv s) (i : Instr) (hrd : ∀ q ∈ i.reads, q ≤ s.curReg ∧ s.abs.bound q = true)
    (hw : ∀ w, i.writes = some w → s.curReg ≤ w ∧ ∀ q ∈ i.reads, q < w)
    (hold : ∀ w, i.writes = some w → ∀ pre j post, s.root.context = pre ++ j :: post → ∀ q ∈ j.reads, q < w) :
    RdInv (s.push i) := by
  have hctx : (s.push i).root.context = s.root.context ++ [i] := rfl
  have hreg : (s.push i).root.reg = s.root.reg := rfl
  have hc := curReg_of_sync h.sync
  refine ⟨?_, ?_, ?_⟩
  · intro b hb
    simp [St.push, St.mapFrames] at hb ⊢
    obtain ⟨b', hb', rfl⟩ := hb
    exact h.sync b' hb'
  · rw [hctx, readsBound_append, h.ok, Bool.true_and, List.all_eq_true]
    intro q hq
    exact (hrd q hq).2
  · intro pre j post hdec q hq
    rw [hctx, hreg] at *
    rcases nil_or_snoc post with rfl | ⟨post', last, rfl⟩
    · -- j is the pushed instruction
      have hj : pre = s.root.context ∧ j = i := by
        have := List.append_inj' hdec (by simp)
        exact ⟨this.1.symm, by simpa using this.2.symm⟩
      obtain ⟨rfl, rfl⟩ := hj
      refine ⟨by rw [← hc]; exact (hrd q hq).1, ?_⟩
      intro w hw'
      simp [resultRegs] at hw'
      exact (hw w hw').2 q hq
    · -- j is an older instruction
      have hdec' : s.root.context = pre ++ j :: post' ∧ last = i := by
        have : s.root.context ++ [i] = (pre ++ j :: post') ++ [last] := by simpa using hdec
        have := List.append_inj' this rfl
        exact ⟨this.1, by simpa using this.2.symm⟩
      obtain ⟨hd, rfl⟩ := hdec'
      obtain ⟨h1, h2⟩ := h.lw pre j post' hd q hq
      refine ⟨h1, ?_⟩
      intro w hw'
      have : j :: (post' ++ [last]) = (j :: post') ++ [last] := rfl
      rw [this, resultRegs_app] at hw'
      rcases List.mem_append.mp hw' with hw' | hw'
      · exact h2 w hw'
      · cases hlw : last.writes with
        | none => rw [hlw] at hw'; cases hw'
        | some w0 =>
          rw [hlw] at hw'
          simp at hw'; subst hw'
          exact hold w hlw pre j post' hd q hq

theorem rd_incReg {s : St} (h : RdInv s) : RdInv s.incReg := by
  have hc := curReg_of_sync h.sync
  have hroot : s.incReg.root.reg = s.root.reg + 1 := by
    show s.cur.reg + 1 = _
    have : s.cur.reg = s.root.reg := hc
    rw [this]
  refine ⟨?_, h.ok, ?_⟩
  · intro b hb
    simp [St.incReg, St.mapFrames] at hb ⊢
    obtain ⟨b', _, rfl⟩ := hb
    rfl
  · intro pre j post hdec q hq
    obtain ⟨h1, h2⟩ := h.lw pre j post hdec q hq
    exact ⟨by rw [hroot]; omega, h2⟩

theorem rd_same {s s' : St} (h : RdInv s) (hi : ∀ b ∈ s'.inner, b.reg = s'.root.reg)
    (hc : s'.root.context = s.root.context) (hr : s'.root.reg = s.root.reg) : RdInv s' :=
  ⟨hi, by rw [hc]; exact h.ok, by rw [hc, hr]; exact h.lw⟩

theorem rd_addErr {s : St} (h : RdInv s) (k : ErrKind) (v : Name) (l o : Nat) : RdInv (s.addErr k v l o) :=
  ⟨h.sync, h.ok, h.lw⟩

/-- bump the counter, then push an instruction that writes the new register and whose reads were held -/
theorem rd_incPush {s : St} (h : RdInv s) (i : Instr) (hrd : ∀ q ∈ i.reads, q ≤ s.curReg ∧ s.abs.bound q = true)
    (hw : ∀ w, i.writes = some w → w = s.incReg.curReg) : RdInv (s.incReg.push i) := by
  have h1 := rd_incReg h
  have hc := curReg_incReg s
  have hcs := curReg_of_sync h.sync
  apply rd_push h1 i
  · intro q hq
    exact ⟨by rw [hc]; have := (hrd q hq).1; omega, by rw [abs_incReg]; exact (hrd q hq).2⟩
  · intro w hw'
    rw [hw w hw']
    exact ⟨Nat.le_refl _, fun q hq => by rw [hc]; have := (hrd q hq).1; omega⟩
  · intro w hw' pre j post hdec q hq
    rw [hw w hw', hc, hcs]
    have := (h.lw pre j post hdec q hq).1
    omega

/-! ### Transitions below statement level -/

theorem innerUsed_push (i : Instr) (s : St) (n : Name) : (s.push i).innerUsed n = s.innerUsed n := by
  unfold St.innerUsed St.push; rw [frames_mapFrames]; simp [List.any_map, Function.comp_def]
theorem innerUsed_incReg (s : St) (n : Name) : s.incReg.innerUsed n = s.innerUsed n := by
  unfold St.innerUsed St.incReg; rw [frames_mapFrames]; simp [List.any_map, Function.comp_def]

theorem root_reg_incReg {s : St} (hr : RdInv s) : s.incReg.root.reg = s.root.reg + 1 := by
  show s.cur.reg + 1 = _
  have : s.cur.reg = s.root.reg := curReg_of_sync hr.sync
  rw [this]

theorem wOk_fresh {s : St} (hwl : WLe s) (hr : RdInv s) (t : Ty) : s.tenv.wOk s.incReg.curReg t = true := by
  unfold TyEnv.wOk
  rw [List.all_eq_true]
  intro p hp
  have h1 := hwl p hp
  have h2 : s.incReg.curReg = s.root.reg + 1 := by rw [curReg_incReg, curReg_of_sync hr.sync]
  have : p.1 ≠ s.incReg.curReg := by omega
  simp [this]

structure Trans (g : Globals) (s s' : St) (evs : List DStmt) : Prop where
  out : s'.abs.out = s.abs.out ++ evs
  decls : s'.abs.decls = s.abs.decls
  stable : ∀ x, Held s x → s'.abs.res x = s.abs.res x
  mono : s.curReg ≤ s'.curReg
  vals : s'.vals = s.vals
  inner : ∀ n, s'.innerUsed n = s.innerUsed n
  rootNames : s'.root.innerNames = s.root.innerNames
  bnd : ∀ q, s.abs.bound q = true → s'.abs.bound q = true
  rd : RdInv s → RdInv s'
  tstable : ∀ q, q ≤ s.curReg → s'.tenv.reg q = s.tenv.reg q
  tdecls : s'.tenv.decls = s.tenv.decls
  tok : ∀ R, RdInv s → WLe s → TOK g R s → TOK g R s'
  wle : RdInv s → WLe s → WLe s'
  /-- nothing is declared below statement level (C18, value tables) -/
  dts : s'.dts = s.dts

theorem Trans.refl {g : Globals} (s : St) : Trans g s s [] :=
  ⟨by simp, rfl, fun _ _ => rfl, Nat.le_refl _, rfl, fun _ => rfl, rfl, fun _ h => h, fun h => h,
   fun _ _ => rfl, rfl, fun _ _ _ h => h, fun _ h => h, rfl⟩

theorem Trans.trans {g : Globals} {a b c : St} {e1 e2 : List DStmt} (h1 : Trans g a b e1) (h2 : Trans g b c e2) : Trans g a c (e1 ++ e2) :=
  ⟨by rw [h2.out, h1.out, List.append_assoc], by rw [h2.decls, h1.decls],
   fun x hx => by rw [h2.stable x (hx.mono h1.mono h1.bnd h1.tstable), h1.stable x hx],
   Nat.le_trans h1.mono h2.mono, by rw [h2.vals, h1.vals], fun n => by rw [h2.inner, h1.inner],
   by rw [h2.rootNames, h1.rootNames], fun q h => h2.bnd q (h1.bnd q h), fun h => h2.rd (h1.rd h),
   fun q hq => by rw [h2.tstable q (Nat.le_trans hq h1.mono), h1.tstable q hq],
   by rw [h2.tdecls, h1.tdecls], fun R hr hw h => h2.tok R (h1.rd hr) (h1.wle hr hw) (h1.tok R hr hw h),
   fun hr hw => h2.wle (h1.rd hr) (h1.wle hr hw), by rw [h2.dts, h1.dts]⟩

theorem Held.of_trans {g : Globals} {s s' : St} {evs : List DStmt} {x : ExprResult} (h : Held s x) (t : Trans g s s' evs) : Held s' x :=
  h.mono t.mono t.bnd t.tstable

theorem trans_addErr {g : Globals} (k : ErrKind) (v : Name) (l o : Nat) (s : St) : Trans g s (s.addErr k v l o) [] :=
  ⟨by simp [abs_addErr], rfl, fun _ _ => rfl, Nat.le_refl _, rfl, fun _ => rfl, rfl, fun _ h => h,
   fun h => rd_addErr h k v l o, fun _ _ => rfl, rfl, fun _ _ _ h => h, fun _ h => h, rfl⟩

theorem trans_incReg {g : Globals} (s : St) : Trans g s s.incReg [] :=
  ⟨by simp [abs_incReg], by rw [abs_incReg], fun _ _ => by rw [abs_incReg], by rw [curReg_incReg]; omega,
   vals_incReg s, innerUsed_incReg s, rfl, fun q h => by rw [abs_incReg]; exact h, rd_incReg,
   fun _ _ => by rw [tenv_incReg], by rw [tenv_incReg], fun _ _ _ h => tok_of_ctx rfl h,
   fun hr hw => wle_of_ctx (s := s) rfl (by rw [root_reg_incReg hr]; omega) hw, dts_incReg s⟩

/-- bump the counter, then push an instruction whose abstract step binds only registers above the old counter -/
theorem declares_none_of {i : Instr} (hnd : (∀ v n, i ≠ .fnArg v n) ∧ (∀ v x, i ≠ .letBinding v x)) : i.declares = none := by
  cases i <;> first | rfl | exact absurd rfl (hnd.1 _ _) | exact absurd rfl (hnd.2 _ _)

theorem trans_incPush {g : Globals} (i : Instr) (s : St) (evs : List DStmt)
    (hout : (abstractStep s.abs i).out = s.abs.out ++ evs) (hdecls : (abstractStep s.abs i).decls = s.abs.decls)
    (hreg : ∀ q, q ≤ s.curReg → (abstractStep s.abs i).reg q = s.abs.reg q)
    (hrd : ∀ q ∈ i.reads, q ≤ s.curReg ∧ s.abs.bound q = true)
    (hw : ∀ w, i.writes = some w → w = s.incReg.curReg)
    (hnd : (∀ v n, i ≠ .fnArg v n) ∧ (∀ v x, i ≠ .letBinding v x))
    (hty : ∀ R, RdInv s → WLe s → ∀ b ∈ tyStepBad (cOkOf g) (fOkOf g) R s.tenv i, b.known i = true) :
    Trans g s (s.incReg.push i) evs :=
  ⟨by rw [abs_push, abs_incReg]; exact hout, by rw [abs_push, abs_incReg]; exact hdecls,
   fun x hx => by
     rw [abs_push, abs_incReg]
     apply AbsSt.res_congr
     intro q hq
     unfold Held at hx; rw [hq] at hx
     exact hreg q hx.1.1,
   by rw [curReg_push, curReg_incReg]; omega, by rw [vals_push, vals_incReg],
   fun n => by rw [innerUsed_push, innerUsed_incReg], rfl,
   fun q h => by rw [abs_push, abs_incReg]; exact bound_step _ _ _ h,
   fun h => rd_incPush h i hrd hw,
   fun q hq => by
     rw [tenv_push, tenv_incReg]
     apply tenv_step_stable
     intro w hw'
     rw [hw w hw', curReg_incReg]; omega,
   by rw [tenv_push, tenv_incReg]; exact tenv_step_decls _ _ hnd.1 hnd.2,
   fun R hr hwl h => tok_push i (tok_of_ctx rfl h) (by rw [tenv_incReg]; exact hty R hr hwl),
   fun hr hwl => by
     intro p hp
     have hroot : (s.incReg.push i).root.reg = s.root.reg + 1 := root_reg_incReg hr
     rw [hroot]
     rw [tenv_push, tenv_incReg] at hp
     rcases written_step _ _ p hp with hp | hp
     · have := hwl p hp; omega
     · rw [hw p.1 hp, curReg_incReg, curReg_of_sync hr.sync]; exact Nat.le_refl _,
   by rw [dts_push_plain _ _ (declares_none_of hnd), dts_incReg]⟩

/-! ### Source scope against the value tables -/

/-- declaration index of a value: position of its internal name in the declaration list -/
def pjD (decls : List Name) (v : Value) : Option Nat := decls.findIdx? (· == v.innerName)

inductive DVals (decls : List Name) : List (List (Name × Value)) → List (List (Name × Nat)) → Prop
  | nil : DVals decls [] []
  | cons {vals : List (Name × Value)} {fr : List (Name × Nat)} {rest : List (List (Name × Value))}
      {ds : List (List (Name × Nat))} :
      (∀ n, (assocGet n vals).map (pjD decls) = (rlookup n fr).map some) → DVals decls rest ds →
      DVals decls (vals :: rest) (fr :: ds)

theorem dvals_lookup {decls : List Name} {vs : List (List (Name × Value))} {ds : List (List (Name × Nat))}
    (h : DVals decls vs ds) (n : Name) :
    (vs.findSome? fun vals => assocGet n vals).map (pjD decls) = (dlookup n ds).map some := by
  induction h with
  | nil => rfl
  | @cons vals fr rest ds' hfr _ ih =>
    simp only [List.findSome?_cons, dlookup]
    have := hfr n
    cases hg : assocGet n vals with
    | some v =>
      rw [hg] at this
      cases hr : rlookup n fr with
      | none => rw [hr] at this; simp at this
      | some d => rw [hr] at this; simpa using this
    | none =>
      rw [hg] at this
      cases hr : rlookup n fr with
      | none => exact ih
      | some d => rw [hr] at this; simp at this

/-- the visible declarations of the state are those of the source scope -/
structure DScope (s : St) (ss : SpecSt) : Prop where
  sc : ScopeRel s ss.tscope
  dv : DVals s.abs.decls s.vals ss.dscope
  /-- every visible value record is the record of the latest declaration of its internal name -/
  dk : ∀ fr ∈ s.vals, ∀ n v, assocGet n fr = some v → s.tenv.declOk v = true
  dn : ∀ d ∈ s.tenv.decls, d.innerName ∈ s.root.innerNames

theorem findSome_mem {α β : Type} (f : α → Option β) : ∀ (l : List α) (b : β), l.findSome? f = some b → ∃ a ∈ l, f a = some b
  | [], b, h => by simp at h
  | a :: l, b, h => by
    rw [List.findSome?_cons] at h
    cases hf : f a with
    | some b' => rw [hf] at h; exact ⟨a, by simp, by rw [hf]; exact h⟩
    | none =>
      rw [hf] at h
      obtain ⟨a', ha', h'⟩ := findSome_mem f l b h
      exact ⟨a', by simp [ha'], h'⟩

theorem dscope_declOk {s : St} {ss : SpecSt} (h : DScope s ss) {n : Name} {v : Value} (hv : s.lookupValue n = some v) :
    s.tenv.declOk v = true := by
  unfold St.lookupValue at hv
  obtain ⟨b, hb, hbv⟩ := findSome_mem _ _ _ hv
  exact h.dk b.values (by unfold St.vals; exact List.mem_map.mpr ⟨b, hb, rfl⟩) n v hbv

theorem dscope_lookup {s : St} {ss : SpecSt} (h : DScope s ss) (n : Name) :
    (s.lookupValue n).map (pjD s.abs.decls) = (dlookup n ss.dscope).map some := by
  have := dvals_lookup h.dv n
  unfold St.vals at this
  rw [List.findSome?_map] at this
  exact this

theorem DScope.of_trans {g : Globals} {s s' : St} {ss : SpecSt} {evs : List DStmt} (h : DScope s ss) (t : Trans g s s' evs) : DScope s' ss :=
  ⟨by unfold ScopeRel; rw [t.vals]; exact h.sc, by rw [t.decls, t.vals]; exact h.dv,
   by rw [t.vals]; intro fr hfr n v hv; unfold TyEnv.declOk; rw [t.tdecls]; exact h.dk fr hfr n v hv,
   by rw [t.tdecls, t.rootNames]; exact h.dn⟩

theorem declIdx_of_pjD {decls : List Name} {v : Value} {d : Nat} (h : pjD decls v = some d) :
    (decls.findIdx? (· == v.innerName)).getD 999999 = d := by
  unfold pjD at h; rw [h]; rfl

/-! ### The simulation statement -/

/-- the operand denotes `t` and is held -/
def ResD (s : St) (r : ExprResult) (t : DTree) : Prop := s.abs.res r = t ∧ Held s r

def DenSim (g : Globals) (ss : SpecSt) (m : EvalM) (d : Den) : Prop :=
  ∀ s r s', DScope s ss → m s = (some r, s') → s'.errors = s.errors → Trans g s s' d.1 ∧ ResD s' r d.2

theorem den_evalLit {g : Globals} (ss : SpecSt) (v : PrimVal) : DenSim g ss (evalLit v) ([], .lit v) := by
  intro s r s' _ hm _
  unfold evalLit at hm
  injection hm with h1 h2
  injection h1 with h1
  subst h1; subst h2
  exact ⟨Trans.refl s, rfl, rfl⟩

theorem den_evalExt {g : Globals} (ss : SpecSt) (tag : Nat) (ty : PrimTy) : DenSim g ss (evalExt tag ty) ([.extS tag], .ext tag) := by
  intro s r s' _ hm _
  unfold evalExt at hm
  injection hm with h1 h2
  injection h1 with h1
  subst h1; subst h2
  have hc := curReg_incReg s
  refine ⟨trans_incPush _ _ [.extS tag] ?_ ?_ ?_ ?_ ?_ ?_ ?_, ?_, ⟨?_, ?_⟩, ?_⟩
  · simp [abstractStep, AbsSt.bind_out, AbsSt.emit_out]
  · simp [abstractStep, AbsSt.bind_decls, AbsSt.emit_decls]
  · intro q hq
    simp only [abstractStep, AbsSt.emit_reg]
    rw [AbsSt.bind_reg, if_neg (by omega)]
  · intro q hq; simp [Instr.reads] at hq
  · intro w hw; simp [Instr.writes] at hw; exact hw.symm
  · exact ⟨fun _ _ h => (nomatch h), fun _ _ h => (nomatch h)⟩
  · intro R hr hwl b hb; simp [tyStepBad, badIf, wOk_fresh hwl hr] at hb
  · rw [abs_push, abs_incReg]
    simp only [abstractStep, AbsSt.res_reg, AbsSt.emit_reg]
    rw [AbsSt.bind_reg, if_pos rfl]
  · show s.incReg.curReg ≤ (s.incReg.push _).curReg
    rw [curReg_push]; exact Nat.le_refl _
  · rw [abs_push, abs_incReg]
    simp [abstractStep, AbsSt.emit_bound, AbsSt.bind_bound]
  · show (s.incReg.push _).tenv.reg _ = _
    rw [tenv_push]; exact reg_cons_eq _ _ _ _ _


/-- the attribute found under a name is the attribute found under its index -/
def Attrs.idxOK (a : Attrs) : Prop := ∀ n idx t, a.lookup n = some (idx, t) → a.byIndex idx = some t

/-- table entries are stored under their own name; attribute indices of registered struct types
are positions, hence distinct -/
structure GNames (g : Globals) : Prop where
  consts : ∀ n c, g.consts n = some c → c.name = n
  funcs : ∀ n f, g.funcs n = some f → f.name = n
  attrs : ∀ n name as, g.types n = some (.struct name as) → as.idxOK

theorem den_evalVar {g : Globals} (hn : GNames g) (ref : Bool) (ss : SpecSt) (x : Name) :
    DenSim g ss (evalVar g x) (specVal ref ss (.var x)) := by
  intro s r s' hs hm he
  unfold evalVar at hm
  dsimp only at hm
  have hl := dscope_lookup hs x
  unfold specVal
  cases hv : s.lookupValue x with
  | some val =>
    rw [hv] at hm hl
    dsimp only at hm
    injection hm with h1 h2
    injection h1 with h1
    subst h1; subst h2
    simp only [Option.map_some] at hl
    cases hd : dlookup x ss.dscope with
    | none => rw [hd] at hl; simp at hl
    | some d =>
      rw [hd] at hl
      simp only [Option.map_some, Option.some.injEq] at hl
      have hidx := declIdx_of_pjD hl
      have hc := curReg_incReg s
      refine ⟨trans_incPush _ _ [] ?_ ?_ ?_ ?_ ?_ ?_ ?_, ?_, ⟨?_, ?_⟩, ?_⟩
      · simp [abstractStep, AbsSt.bind_out]
      · simp [abstractStep, AbsSt.bind_decls]
      · intro q hq
        simp only [abstractStep]
        rw [AbsSt.bind_reg, if_neg (by omega)]
      · intro q hq; simp [Instr.reads] at hq
      · intro w hw; simp [Instr.writes] at hw; exact hw.symm
      · exact ⟨fun _ _ h => (nomatch h), fun _ _ h => (nomatch h)⟩
      · intro R hr hwl b hb
        simp [tyStepBad, badIf, dscope_declOk hs hv, wOk_fresh hwl hr] at hb
      · rw [abs_push, abs_incReg]
        simp only [abstractStep, AbsSt.res_reg]
        rw [AbsSt.bind_reg, if_pos rfl]
        unfold AbsSt.declIdx
        rw [hidx]
      · show s.incReg.curReg ≤ (s.incReg.push _).curReg
        rw [curReg_push]; exact Nat.le_refl _
      · rw [abs_push, abs_incReg]
        simp [abstractStep, AbsSt.bind_bound]
      · show (s.incReg.push _).tenv.reg _ = _
        rw [tenv_push]; exact reg_cons_eq _ _ _ _ _
  | none =>
    rw [hv] at hm hl
    dsimp only at hm
    simp only [Option.map_none] at hl
    have hd : dlookup x ss.dscope = none := by
      cases h : dlookup x ss.dscope with
      | none => rfl
      | some d => rw [h] at hl; simp at hl
    rw [hd]
    cases hc : g.consts x with
    | none =>
      rw [hc] at hm
      simp at hm
    | some c =>
      rw [hc] at hm
      dsimp only at hm
      injection hm with h1 h2
      injection h1 with h1
      subst h1; subst h2
      have hcn := hn.consts x c hc
      have hcr := curReg_incReg s
      refine ⟨trans_incPush _ _ [] ?_ ?_ ?_ ?_ ?_ ?_ ?_, ?_, ⟨?_, ?_⟩, ?_⟩
      · simp [abstractStep, AbsSt.bind_out]
      · simp [abstractStep, AbsSt.bind_decls]
      · intro q hq
        simp only [abstractStep]
        rw [AbsSt.bind_reg, if_neg (by omega)]
      · intro q hq; simp [Instr.reads] at hq
      · intro w hw; simp [Instr.writes] at hw; exact hw.symm
      · exact ⟨fun _ _ h => (nomatch h), fun _ _ h => (nomatch h)⟩
      · intro R hr hwl b hb
        simp [tyStepBad, badIf, cOkOf, hcn, hc, wOk_fresh hwl hr] at hb
      · rw [abs_push, abs_incReg]
        simp only [abstractStep, AbsSt.res_reg]
        rw [AbsSt.bind_reg, if_pos rfl, hcn]
      · show s.incReg.curReg ≤ (s.incReg.push _).curReg
        rw [curReg_push]; exact Nat.le_refl _
      · rw [abs_push, abs_incReg]
        simp [abstractStep, AbsSt.bind_bound]
      · show (s.incReg.push _).tenv.reg _ = _
        rw [tenv_push]; exact reg_cons_eq _ _ _ _ _


theorem den_evalField {g : Globals} (hn : GNames g) (ref : Bool) (ss : SpecSt) (x a : Name) :
    DenSim g ss (evalField g x a) (specVal ref ss (.field x a)) := by
  intro s r s' hs hm he
  unfold evalField at hm
  have hl := dscope_lookup hs x
  have ht := scopeRel_lookup hs.sc x
  unfold specVal fieldIdx
  cases hv : s.lookupValue x with
  | none => rw [hv] at hm; simp at hm
  | some val =>
    rw [hv] at hm hl ht
    simp only [Option.map_some] at hl ht
    dsimp only at hm
    cases hd : dlookup x ss.dscope with
    | none => rw [hd] at hl; simp at hl
    | some d =>
      rw [hd] at hl
      simp only [Option.map_some, Option.some.injEq] at hl
      have hidx := declIdx_of_pjD hl
      rw [← ht]
      unfold projV
      dsimp only
      cases hty : val.ty with
      | prim _ => rw [hty] at hm; simp at hm
      | array _ _ => rw [hty] at hm; simp at hm
      | struct sn attrs =>
        rw [hty] at hm
        dsimp only at hm
        cases hg : g.types sn with
        | none => rw [hg] at hm; simp at hm
        | some regTy =>
          rw [hg] at hm
          dsimp only at hm
          by_cases hne : Ty.struct sn attrs ≠ regTy
          · rw [if_pos hne] at hm; simp at hm
          · rw [if_neg hne] at hm
            cases hat : attrs.lookup a with
            | none => rw [hat] at hm; simp at hm
            | some q =>
              obtain ⟨idx, aty⟩ := q
              rw [hat] at hm
              dsimp only at hm
              injection hm with h1 h2
              injection h1 with h1
              subst h1; subst h2
              have hc := curReg_incReg s
              have hreg : regTy = Ty.struct sn attrs := by
                cases hd' : decide (Ty.struct sn attrs = regTy) with
                | true => exact (of_decide_eq_true hd').symm
                | false => exact absurd (of_decide_eq_false hd') hne
              have hfty : fieldTy val idx = some aty := by
                unfold fieldTy; rw [hty]
                exact hn.attrs sn sn attrs (by rw [hg, hreg]) a idx aty hat
              have t1 : Trans g s (s.incReg.push (.exprStructValue val idx s.incReg.curReg)) [] := by
                refine trans_incPush _ _ [] ?_ ?_ ?_ ?_ ?_ ?_ ?_
                · simp [abstractStep, AbsSt.bind_out]
                · simp [abstractStep, AbsSt.bind_decls]
                · intro q hq
                  simp only [abstractStep]
                  rw [AbsSt.bind_reg, if_neg (by omega), AbsSt.bind_reg, if_neg (by omega)]
                · intro q hq; simp [Instr.reads] at hq
                · intro w hw; simp [Instr.writes] at hw; exact hw.symm
                · exact ⟨fun _ _ h => (nomatch h), fun _ _ h => (nomatch h)⟩
                · intro R hr hwl b hb
                  simp [tyStepBad, hty, hfty, badIf, dscope_declOk hs hv, wOk_fresh hwl hr] at hb
              refine ⟨by simpa using t1.trans (trans_incReg _), ?_, ⟨?_, ?_⟩, ?_⟩
              · rw [abs_incReg, abs_push, abs_incReg]
                simp only [abstractStep, AbsSt.res_reg]
                have hcc : (St.push (Instr.exprStructValue val idx s.incReg.curReg) s.incReg).incReg.curReg = s.incReg.curReg + 1 := by
                  rw [curReg_incReg, curReg_push]
                rw [hcc, AbsSt.bind_reg, if_pos rfl]
                unfold AbsSt.declIdx
                rw [hidx, hat]
                simp
              · exact Nat.le_refl _
              · rw [abs_incReg, abs_push, abs_incReg]
                have hcc : (St.push (Instr.exprStructValue val idx s.incReg.curReg) s.incReg).incReg.curReg = s.incReg.curReg + 1 := by
                  rw [curReg_incReg, curReg_push]
                rw [hcc]
                simp [abstractStep, AbsSt.bind_bound]
              · have hcc : (St.push (Instr.exprStructValue val idx s.incReg.curReg) s.incReg).incReg.curReg = s.incReg.curReg + 1 := by
                  rw [curReg_incReg, curReg_push]
                rw [tenv_incReg, tenv_push, hcc]
                simp only [tyStepEnv, hfty]
                exact reg_cons_eq _ _ _ _ _


/-! ### Pairs and trees -/

theorem errs_two {a b c : List Err} {d1 d2 : List Err} (h1 : b = a ++ d1) (h2 : c = b ++ d2) (h : c = a) :
    b = a ∧ c = b := by
  subst h1; subst h2
  rw [List.append_assoc] at h
  have := List.append_right_eq_self.mp h
  rw [List.append_eq_nil_iff] at this
  obtain ⟨r1, r2⟩ := this
  subst r1; subst r2
  simp

theorem push_errors (i : Instr) (s : St) : (s.push i).errors = s.errors := rfl
theorem incReg_errors (s : St) : s.incReg.errors = s.errors := rfl

theorem den_pair {g : Globals} {ss : SpecSt} {l r : EvalM} {dl dr : Den} (o : Op) (hl : DenSim g ss l dl) (hr : DenSim g ss r dr)
    (el : EM l) (er : EM r) : DenSim g ss (evalPair l o r) (dl.1 ++ dr.1, .op o dl.2 dr.2) := by
  intro s res s' hs hm he
  unfold evalPair at hm
  have x1 := (el s).errors_ext
  cases hls : l s with
  | mk a s1 =>
    rw [hls] at hm x1
    cases a with
    | none => simp at hm
    | some lv =>
      dsimp only at hm
      have x2 := (er s1).errors_ext
      cases hrs : r s1 with
      | mk b s2 =>
        rw [hrs] at hm x2
        cases b with
        | none => simp at hm
        | some rv =>
          dsimp only at hm
          by_cases hne : lv.ty ≠ rv.ty
          · rw [if_pos hne] at hm; simp at hm
          · rw [if_neg hne] at hm
            injection hm with h1 h2
            injection h1 with h1
            subst h1; subst h2
            rw [push_errors, incReg_errors] at he
            obtain ⟨Δ1, x1⟩ := x1
            obtain ⟨Δ2, x2⟩ := x2
            obtain ⟨e1, e2⟩ := errs_two x1 x2 he
            obtain ⟨t1, r1, h1⟩ := hl s lv s1 hs hls e1
            obtain ⟨t2, r2, h2⟩ := hr s1 rv s2 (hs.of_trans t1) hrs e2
            have hlv : s2.abs.res lv = dl.2 := by rw [t2.stable lv h1, r1]
            have hc := curReg_incReg s2
            have t3 : Trans g s2 (s2.incReg.push (.exprOp o lv rv s2.incReg.curReg)) [] := by
              refine trans_incPush _ _ [] ?_ ?_ ?_ ?_ ?_ ?_ ?_
              · simp [abstractStep, AbsSt.bind_out]
              · simp [abstractStep, AbsSt.bind_decls]
              · intro q hq
                simp only [abstractStep]
                rw [AbsSt.bind_reg, if_neg (by omega)]
              · intro q hq
                simp only [Instr.reads, List.mem_append] at hq
                rcases hq with hq | hq
                · exact (h1.of_trans t2).regs q hq
                · exact h2.regs q hq
              · intro w hw; simp [Instr.writes] at hw; exact hw.symm
              · exact ⟨fun _ _ h => (nomatch h), fun _ _ h => (nomatch h)⟩
              · intro R hr hwl b hb
                have hty' : lv.ty = rv.ty := Classical.not_not.mp hne
                simp [tyStepBad, badIf, (h1.of_trans t2).operandOk, h2.operandOk, hty', wOk_fresh hwl hr] at hb
            refine ⟨by simpa using (t1.trans t2).trans t3, ?_, ⟨?_, ?_⟩, ?_⟩
            · rw [abs_push, abs_incReg]
              simp only [abstractStep, AbsSt.res_reg]
              rw [AbsSt.bind_reg, if_pos rfl, hlv, r2]
            · show s2.incReg.curReg ≤ (s2.incReg.push _).curReg
              rw [curReg_push]; exact Nat.le_refl _
            · rw [abs_push, abs_incReg]
              simp [abstractStep, AbsSt.bind_bound]
            · show (s2.incReg.push _).tenv.reg _ = _
              rw [tenv_push]; exact reg_cons_eq _ _ _ _ _

theorem den_tree {g : Globals} {ss : SpecSt} {γ : Type} (fm : γ → EvalM) (fd : γ → Den) (t : W γ)
    (h : ∀ a ∈ t.atoms, DenSim g ss (fm a) (fd a) ∧ EM (fm a)) :
    DenSim g ss (runW (t.map fm)) (denTree (t.map fd)) ∧ EM (runW (t.map fm)) := by
  induction t with
  | atom a => simpa [W.map, runW, denTree] using h a (by simp [W.atoms])
  | pair l o r ihl ihr =>
    have hl := ihl (fun a ha => h a (by simp [W.atoms, ha]))
    have hr := ihr (fun a ha => h a (by simp [W.atoms, ha]))
    simp only [W.map, runW, denTree]
    exact ⟨den_pair o hl.1 hr.1 hl.2 hr.2, em_evalPair _ _ _ hl.2 hr.2⟩


/-! ### Calls -/

def argEvents (l : List (EvalM × Den)) : List DStmt := (l.map (·.2.1)).flatten
def argTrees (l : List (EvalM × Den)) : List DTree := l.map (·.2.2)

theorem den_args {g : Globals} {ss : SpecSt} : ∀ (l : List (EvalM × Den)), (∀ x ∈ l, DenSim g ss x.1 x.2 ∧ EM x.1) →
    ∀ (tys : List Ty) (s : St) (rs : List ExprResult) (s' : St), DScope s ss →
    evalArgs (l.map (·.1)) tys s = (some rs, s') → s'.errors = s.errors →
    Trans g s s' (argEvents l) ∧ rs.map s'.abs.res = argTrees l ∧ (∀ r ∈ rs, Held s' r) ∧
    ((rs.zip tys).all fun (a, t) => a.ty == t) = true
  | [], _, tys, s, rs, s', _, hm, _ => by
    simp only [List.map_nil, evalArgs] at hm
    injection hm with h1 h2
    injection h1 with h1
    subst h1; subst h2
    exact ⟨Trans.refl s, rfl, (by intro r hr; cases hr), (by simp)⟩
  | (m, d) :: l, h, tys, s, rs, s', hs, hm, he => by
    have hmd : DenSim g ss m d ∧ EM m := h (m, d) (by simp)
    have hrest : ∀ x ∈ l, DenSim g ss x.1 x.2 ∧ EM x.1 := fun x hx => h x (by simp [hx])
    have hem : ∀ m' ∈ l.map (·.1), EM m' := by
      intro m' hm'
      rw [List.mem_map] at hm'
      obtain ⟨x, hx, rfl⟩ := hm'
      exact (hrest x hx).2
    simp only [List.map_cons, evalArgs] at hm
    obtain ⟨Δ1, x1⟩ := hmd.2.errors_ext s
    cases hms : m s with
    | mk a s1 =>
      rw [hms] at hm x1
      have x1' : s1.errors = s.errors ++ Δ1 := x1
      cases a with
      | none => simp at hm
      | some r =>
        dsimp only at hm
        cases tys with
        | nil => simp at hm
        | cons t ts =>
          dsimp only at hm
          by_cases hne : r.ty ≠ t
          · rw [if_pos hne] at hm
            exfalso
            obtain ⟨Δ2, x2⟩ := evalArgs_errors_ext (l.map (·.1)) hem ts (s1.addErr .functionParameterTypeWrong r.ty.show 1 0)
            rw [hm] at x2
            have x2' : s'.errors = (s1.addErr .functionParameterTypeWrong r.ty.show 1 0).errors ++ Δ2 := x2
            rw [he] at x2'
            simp only [St.addErr, x1', List.append_assoc] at x2'
            have := List.self_eq_append_right.mp x2'
            simp at this
          · rw [if_neg hne] at hm
            obtain ⟨Δ2, x2⟩ := evalArgs_errors_ext (l.map (·.1)) hem ts s1
            cases hrs : evalArgs (l.map (·.1)) ts s1 with
            | mk b s2 =>
              rw [hrs] at hm x2
              have x2' : s2.errors = s1.errors ++ Δ2 := x2
              cases b with
              | none => simp at hm
              | some rs' =>
                dsimp only at hm
                injection hm with h1 h2
                injection h1 with h1
                subst h1; subst h2
                obtain ⟨e1, e2⟩ := errs_two x1' x2' he
                obtain ⟨t1, r1, hd1⟩ := hmd.1 s r s1 hs hms e1
                obtain ⟨t2, r2, hd2, hz2⟩ := den_args l hrest ts s1 rs' s2 (hs.of_trans t1) hrs e2
                refine ⟨by simpa [argEvents] using t1.trans t2, ?_, ?_, ?_⟩
                · simp only [List.map_cons, argTrees]
                  rw [t2.stable r hd1, r1]
                  congr 1
                · intro x hx
                  simp only [List.mem_cons] at hx
                  rcases hx with rfl | hx
                  · exact hd1.of_trans t2
                  · exact hd2 x hx
                · have hrt : r.ty = t := Classical.not_not.mp hne
                  simp only [List.zip_cons_cons, List.all_cons, hz2, Bool.and_true]
                  simp [hrt]

theorem den_functionCall {g : Globals} (hn : GNames g) {ss : SpecSt} (f : Name) (l : List (EvalM × Den))
    (h : ∀ x ∈ l, DenSim g ss x.1 x.2 ∧ EM x.1) (s : St) (ty : Ty) (s' : St) (hs : DScope s ss)
    (hm : functionCall g f (l.map (·.1)) s = (some ty, s')) (he : s'.errors = s.errors) :
    Trans g s s' (argEvents l ++ [.callS (.call f (argTrees l))]) ∧
    s'.abs.reg (s'.curReg + 1) = .call f (argTrees l) ∧ s'.abs.bound (s'.curReg + 1) = true ∧
    s'.tenv.reg (s'.curReg + 1) = some ty := by
  unfold functionCall at hm
  cases hf : g.funcs f with
  | none => rw [hf] at hm; simp at hm
  | some fd =>
    rw [hf] at hm
    dsimp only at hm
    have hname := hn.funcs f fd hf
    by_cases hlen : fd.params.length < (l.map (·.1)).length
    · rw [if_pos hlen] at hm; simp at hm
    · rw [if_neg hlen] at hm
      cases ha : evalArgs (l.map (·.1)) fd.params s with
      | mk b s1 =>
        rw [ha] at hm
        cases b with
        | none => simp at hm
        | some ps =>
          dsimp only at hm
          injection hm with h1 h2
          subst h2
          rw [push_errors, incReg_errors] at he
          obtain ⟨t1, r1, hheld, hzip⟩ := den_args l h fd.params s ps s1 hs ha he
          have hc := curReg_incReg s1
          have t2 : Trans g s1 (s1.incReg.push (.call fd ps s1.incReg.curReg)) [.callS (.call f (argTrees l))] := by
            refine trans_incPush _ _ _ ?_ ?_ ?_ ?_ ?_ ?_ ?_
            · simp [abstractStep, AbsSt.emit_out, AbsSt.bind_out, r1, hname]
            · simp [abstractStep, AbsSt.emit_decls, AbsSt.bind_decls]
            · intro q hq
              simp only [abstractStep]
              rw [AbsSt.emit_reg, AbsSt.bind_reg, if_neg (by omega), AbsSt.bind_reg, if_neg (by omega)]
            · intro q hq
              simp only [Instr.reads, List.mem_flatMap] at hq
              obtain ⟨x, hx, hqx⟩ := hq
              exact (hheld x hx).regs q hqx
            · intro w hw; simp [Instr.writes] at hw; exact hw.symm
            · exact ⟨fun _ _ h => (nomatch h), fun _ _ h => (nomatch h)⟩
            · intro R hr hwl b hb
              have hall : ps.all (operandOk s1.tenv) = true := by
                rw [List.all_eq_true]; intro x hx; exact (hheld x hx).operandOk
              have hfok : fOkOf g fd = true := by simp [fOkOf, hname, hf]
              simp only [tyStepBad, badIf, hall, hfok, hzip, wOk_fresh hwl hr, if_true, List.nil_append, List.append_nil] at hb
              split at hb
              · cases hb
              · simp at hb; subst hb; rfl
          refine ⟨t1.trans t2, ?_, ?_, ?_⟩
          · rw [abs_push, abs_incReg, curReg_push]
            simp only [abstractStep]
            rw [AbsSt.emit_reg, AbsSt.bind_reg, if_pos rfl, r1, hname]
          · rw [abs_push, abs_incReg, curReg_push]
            simp [abstractStep, AbsSt.emit_bound, AbsSt.bind_bound]
          · rw [tenv_push, curReg_push]
            simp only [tyStepEnv]
            injection h1 with h1
            rw [← h1]
            exact reg_cons_eq _ _ _ _ _

theorem den_evalCall {g : Globals} (hn : GNames g) {ss : SpecSt} (f : Name) (l : List (EvalM × Den))
    (h : ∀ x ∈ l, DenSim g ss x.1 x.2 ∧ EM x.1) :
    DenSim g ss (evalCall g f (l.map (·.1))) (argEvents l ++ [.callS (.call f (argTrees l))], .call f (argTrees l)) := by
  intro s r s' hs hm he
  unfold evalCall at hm
  cases hfc : functionCall g f (l.map (·.1)) s with
  | mk a s1 =>
    rw [hfc] at hm
    cases a with
    | none => simp at hm
    | some ty =>
      dsimp only at hm
      injection hm with h1 h2
      injection h1 with h1
      subst h1; subst h2
      rw [incReg_errors] at he
      obtain ⟨t1, r1, b1, y1⟩ := den_functionCall hn f l h s ty s1 hs hfc he
      refine ⟨by simpa using t1.trans (trans_incReg s1), ?_, ⟨?_, ?_⟩, ?_⟩
      · rw [abs_incReg, curReg_incReg]; exact r1
      · exact Nat.le_refl _
      · rw [abs_incReg, curReg_incReg]; exact b1
      · rw [tenv_incReg, curReg_incReg]; exact y1


/-! ### Whole expressions -/

theorem specRest_eq (ref : Bool) (ss : SpecSt) : ∀ r,
    specRest ref ss r = (chainTail r).map fun x => (x.1, specVal ref ss x.2)
  | none => by simp [specRest, chainTail]
  | some (o, .mk v rest) => by simp [specRest, chainTail, specRest_eq ref ss rest]

theorem specArgs_eq (g : Globals) (ref : Bool) (ss : SpecSt) : ∀ (as : List Expr),
    specArgs ref ss as = (argEvents (as.map fun e => (exprM g e, specExpr ref ss e)),
                          argTrees (as.map fun e => (exprM g e, specExpr ref ss e)))
  | [] => by simp [specArgs, argEvents, argTrees]
  | e :: es => by
    unfold specArgs
    rw [specArgs_eq g ref ss es]
    simp [argEvents, argTrees]

mutual
theorem den_exprM {g : Globals} (hn : GNames g) (ss : SpecSt) :
    ∀ e, DenSim g ss (exprM g e) (specExpr false ss e)
  | .mk v rest => by
    unfold exprM specExpr
    simp only [buildTree, Bool.false_eq_true, if_false, precTree]
    rw [restM_eq, specRest_eq, foldChain_map Generated.prio (valM g), foldChain_map Generated.prio (specVal false ss)]
    refine (den_tree (valM g) (specVal false ss) _ ?_).1
    intro a ha
    rcases foldChain_atoms_subset Generated.prio v (chainTail rest) a ha with h | h
    · rw [h]; exact ⟨den_valM hn ss v, em_valM g v⟩
    · simp at h
      obtain ⟨o, h⟩ := h
      exact ⟨den_chain hn ss rest o a h, em_valM g a⟩
theorem den_chain {g : Globals} (hn : GNames g) (ss : SpecSt) :
    ∀ r, ∀ o a, (o, a) ∈ chainTail r → DenSim g ss (valM g a) (specVal false ss a)
  | none => by intro o a h; simp [chainTail] at h
  | some (op, .mk v rest) => by
    intro o a h
    unfold chainTail at h
    simp at h
    rcases h with ⟨_, ha⟩ | h
    · rw [ha]; exact den_valM hn ss v
    · exact den_chain hn ss rest o a h
theorem den_valM {g : Globals} (hn : GNames g) (ss : SpecSt) :
    ∀ v, DenSim g ss (valM g v) (specVal false ss v)
  | .var n => by unfold valM; exact den_evalVar hn false ss n
  | .lit v => by unfold valM specVal; exact den_evalLit ss v
  | .call f args => by
    unfold valM specVal
    rw [argsM_eq, specArgs_eq g false ss args]
    have := den_evalCall hn f (args.map fun e => (exprM g e, specExpr false ss e)) (by
      intro x hx
      rw [List.mem_map] at hx
      obtain ⟨e, he, rfl⟩ := hx
      exact ⟨den_args' hn ss args e he, em_exprM g e⟩)
    simpa [List.map_map, Function.comp_def] using this
  | .field v a => by unfold valM; exact den_evalField hn false ss v a
  | .sub e => by unfold valM specVal; exact den_exprM hn ss e
  | .ext tag ty => by unfold valM specVal; exact den_evalExt ss tag ty
theorem den_args' {g : Globals} (hn : GNames g) (ss : SpecSt) :
    ∀ (as : List Expr), ∀ e ∈ as, DenSim g ss (exprM g e) (specExpr false ss e)
  | [] => by intro e h; cases h
  | a :: as => by
    intro e h
    simp at h
    rcases h with rfl | h
    · exact den_exprM hn ss e
    · exact den_args' hn ss as e h
end

end SemVerif
