import SemVerif.Lemmas.T2Expr
import SemVerif.Lemmas.Names
/-!
# Lemmas/T2Stmt — family T2, statement level

`DRel g R s ss`: the abstract reading of the root stack so far is the statement list of the source
denotation so far; the visible declarations correspond; every declared internal name is registered.
Every statement-level analysis function that reports no error maps `DRel`-related states to
`DRel`-related states (`StD`).
-/
namespace SemVerif

structure DRel (g : Globals) (R : Ty) (s : St) (ss : SpecSt) : Prop where
  scope : DScope s ss
  out : s.abs.out = ss.out
  next : s.abs.decls.length = ss.next
  reg : ∀ n ∈ s.abs.decls, n ∈ s.root.innerNames
  rd : RdInv s
  /-- the typed scan of the root stack so far passes (C04), `R` the function's result type -/
  tok : TOK g R s
  /-- value tables of the live blocks and of their finished children against the direct
  declarations, under the names the denotation has declared / closed (C18) -/
  vinv : FramesOk s.dts [] ss.dscope ss.kids
  vreg : ∀ t ∈ s.dts, ∀ x ∈ t.decls, x.innerName ∈ s.root.innerNames
  /-- the registers written so far are not above the counter (so the next one is fresh: C04) -/
  wle : WLe s

/-- a statement-level function that reports no error preserves the relation -/
def StD (g : Globals) (R : Ty) (f : St → St) (F : SpecSt → SpecSt) : Prop :=
  ∀ s ss, DRel g R s ss → (f s).errors = s.errors → DRel g R (f s) (F ss)

/-! ### Running an expression without errors -/

theorem not_fail_of_eq {s s' : St} {vs : List Viol} (h : s'.errors = s.errors) : ¬ Fail s s' vs := by
  rintro ⟨e, rest, v, he, _, _⟩
  rw [h] at he
  have := List.self_eq_append_right.mp he
  simp at this

/-- an expression evaluated without a new error succeeds, has the type the rule checker computes,
and denotes the source expression -/
theorem expr_run {g : Globals} {rg : RGlobals} (hg : GlobRel g rg) (hn : GNames g) (e : Expr) {s : St} {ss : SpecSt}
    (hs : DScope s ss) (he : (exprM g e s).2.errors = s.errors) :
    ∃ r s1, exprM g e s = (some r, s1) ∧ s1.errors = s.errors ∧ (checkExpr rg ss.tscope e).2 = some r.ty ∧
      Trans g s s1 (specExpr false ss e).1 ∧ ResD s1 r (specExpr false ss e).2 := by
  have h1 := sim_exprM hg ss.tscope e s hs.sc
  cases hc : (checkExpr rg ss.tscope e).2 with
  | none =>
    rw [hc] at h1
    exact absurd h1 (not_fail_of_eq he)
  | some t =>
    rw [hc] at h1
    obtain ⟨_, r, hr, hrty, _, _⟩ := h1
    cases hm : exprM g e s with
    | mk a s1 =>
      rw [hm] at hr he
      simp only at hr he
      subst hr
      obtain ⟨t1, r1⟩ := den_exprM hn ss e s r s1 hs hm he
      exact ⟨r, s1, rfl, he, by rw [hrty], t1, r1⟩

theorem exprM_ext (g : Globals) (e : Expr) (s : St) : ∃ Δ, (exprM g e s).2.errors = s.errors ++ Δ :=
  (em_exprM g e s).errors_ext

theorem append_ne_self {α : Type} {a : List α} {d : List α} {x : α} : a ++ d ++ [x] ≠ a := by
  intro h
  rw [List.append_assoc] at h
  have := List.append_right_eq_self.mp h
  simp at this

/-! ### Bookkeeping under the frame operations -/

theorem abs_insertValue (n : Name) (v : Value) (s : St) : (s.insertValue n v).abs = s.abs := by
  apply abs_of_ctx
  unfold St.insertValue St.mapCur
  cases s.inner <;> rfl

theorem abs_registerInner (n : Name) (s : St) : (s.registerInner n).abs = s.abs := abs_of_ctx rfl

theorem innerUsed_insertValue (n : Name) (v : Value) (s : St) (x : Name) :
    (s.insertValue n v).innerUsed x = s.innerUsed x := by
  unfold St.innerUsed St.insertValue
  rw [frames_mapCur]
  cases s.frames <;> rfl

theorem innerUsed_registerInner (n : Name) (s : St) (x : Name) :
    (s.registerInner n).innerUsed x = (s.innerUsed x || x == n) := by
  unfold St.innerUsed St.registerInner
  rw [frames_mapFrames, Bool.eq_iff_iff]
  simp only [List.any_map, Function.comp_def, List.any_eq_true, List.contains_eq_mem, decide_eq_true_eq, Bool.or_eq_true,
    beq_iff_eq, mem_setInsert]
  constructor
  · rintro ⟨b, hb, h | h⟩
    · exact Or.inr h
    · exact Or.inl ⟨b, hb, h⟩
  · rintro (⟨b, hb, h⟩ | h)
    · exact ⟨b, hb, Or.inr h⟩
    · exact ⟨s.root, by simp [St.frames], Or.inl h⟩

theorem innerUsed_false_root' {s : St} {n : Name} (h : s.innerUsed n = false) : n ∉ s.root.innerNames := by
  intro hm
  unfold St.innerUsed at h
  have : (s.frames.any fun b => b.innerNames.contains n) = true := by
    rw [List.any_eq_true]
    exact ⟨s.root, by simp [St.frames], by simpa using hm⟩
  rw [this] at h; cases h

/-! ### Declaration scopes -/

theorem pjD_append {decls : List Name} {v : Value} {d : Nat} (x : Name) (h : pjD decls v = some d) :
    pjD (decls ++ [x]) v = some d := by
  unfold pjD at *
  rw [List.findIdx?_append, h]
  rfl

theorem dvals_append {decls : List Name} {vs : List (List (Name × Value))} {ds : List (List (Name × Nat))}
    (x : Name) (h : DVals decls vs ds) : DVals (decls ++ [x]) vs ds := by
  induction h with
  | nil => exact DVals.nil
  | @cons vals fr rest ds' hfr _ ih =>
    refine DVals.cons ?_ ih
    intro n
    have := hfr n
    cases hg : assocGet n vals with
    | none => rw [hg] at this; exact this
    | some v =>
      rw [hg] at this
      cases hr : rlookup n fr with
      | none => rw [hr] at this; simp at this
      | some d =>
        rw [hr] at this
        simp only [Option.map_some, Option.some.injEq] at this ⊢
        exact pjD_append x this

theorem pjD_new (decls : List Name) (v : Value) (h : v.innerName ∉ decls) :
    pjD (decls ++ [v.innerName]) v = some decls.length := by
  unfold pjD
  rw [List.findIdx?_append]
  have : decls.findIdx? (· == v.innerName) = none := by
    rw [List.findIdx?_eq_none_iff]
    intro x hx
    simp only [beq_iff_eq, Bool.not_eq_true, beq_eq_false_iff_ne, ne_eq]
    intro e; exact h (e ▸ hx)
  rw [this]
  simp

theorem dvals_declare {decls : List Name} {x : List (Name × Value)} {rest : List (List (Name × Value))}
    {fr : List (Name × Nat)} {outer : List (List (Name × Nat))}
    (h : DVals decls (x :: rest) (fr :: outer)) (n : Name) (v : Value) (d : Nat) (hv : pjD decls v = some d) :
    DVals decls (assocInsert n v x :: rest) (((n, d) :: fr) :: outer) := by
  cases h with
  | cons hfr hrest =>
    refine DVals.cons ?_ hrest
    intro k
    by_cases hk : k = n
    · subst hk; simp [assocGet_insert_self, rlookup, hv]
    · rw [assocGet_insert_ne _ _ _ _ hk]
      unfold rlookup
      simp [hk]; exact hfr k

/-- pushing an instruction that writes no register and whose reads are held -/
theorem rd_push_nowrite {s : St} (h : RdInv s) (i : Instr) (hw : i.writes = none)
    (hrd : ∀ q ∈ i.reads, q ≤ s.curReg ∧ s.abs.bound q = true) : RdInv (s.push i) :=
  rd_push h i hrd (fun w hw' => by rw [hw] at hw'; cases hw') (fun w hw' => by rw [hw] at hw'; cases hw')

theorem curReg_insertRegister (n m : Name) (v : Value) (s : St) : ((s.insertValue n v).registerInner m).curReg = s.curReg := by
  unfold St.curReg St.cur St.registerInner St.mapFrames St.insertValue St.mapCur
  cases s.inner <;> rfl

theorem rd_insertRegister {s : St} (h : RdInv s) (n m : Name) (v : Value) : RdInv ((s.insertValue n v).registerInner m) := by
  refine rd_same h ?_ ?_ ?_
  · intro b hb
    have hroot : ((s.insertValue n v).registerInner m).root.reg = s.root.reg := by
      unfold St.registerInner St.mapFrames St.insertValue St.mapCur
      cases s.inner <;> rfl
    rw [hroot]
    unfold St.registerInner St.mapFrames St.insertValue St.mapCur at hb
    cases hi : s.inner with
    | nil => rw [hi] at hb; simp at hb
    | cons b0 rest =>
      rw [hi] at hb
      simp at hb
      rcases hb with rfl | ⟨b', hb', rfl⟩
      · exact h.sync b0 (by simp [hi])
      · exact h.sync b' (by simp [hi, hb'])
  · unfold St.registerInner St.mapFrames St.insertValue St.mapCur
    cases s.inner <;> rfl
  · unfold St.registerInner St.mapFrames St.insertValue St.mapCur
    cases s.inner <;> rfl

theorem tenv_insertValue (n : Name) (v : Value) (s : St) : (s.insertValue n v).tenv = s.tenv := by
  apply tenv_of_ctx
  unfold St.insertValue St.mapCur
  cases s.inner <;> rfl

theorem tenv_registerInner (n : Name) (s : St) : (s.registerInner n).tenv = s.tenv := tenv_of_ctx rfl

theorem declOk_self (ds : List Value) (rs ws : List (Nat × Ty)) (v : Value) :
    ({ regs := rs, decls := v :: ds, written := ws } : TyEnv).declOk v = true := by
  unfold TyEnv.declOk; simp [List.find?_cons]

theorem declOk_cons {ds : List Value} {rs ws : List (Nat × Ty)} {v d : Value} (hne : d.innerName ≠ v.innerName)
    (h : ({ regs := rs, decls := ds, written := ws } : TyEnv).declOk v = true) :
    ({ regs := rs, decls := d :: ds, written := ws } : TyEnv).declOk v = true := by
  unfold TyEnv.declOk at h ⊢
  have : (d.innerName == v.innerName) = false := by simp [hne]
  simp only [List.find?_cons, this]
  exact h

theorem declOk_mem {e : TyEnv} {v : Value} (h : e.declOk v = true) : v ∈ e.decls := by
  unfold TyEnv.declOk at h
  have h' : e.decls.find? (fun d => d.innerName == v.innerName) = some v := by simpa using h
  exact List.mem_of_find?_eq_some h'

/-! ### `let` -/

theorem den_let {g : Globals} {R : Ty} {rg : RGlobals} (hg : GlobRel g rg) (hn : GNames g) (b : LetB) :
    StD g R (letBinding g b) (specLet false rg b) := by
  intro s ss hr he
  unfold letBinding at he ⊢
  obtain ⟨Δ1, x1⟩ := exprM_ext g b.value s
  cases hm : exprM g b.value s with
  | mk a s1 =>
    rw [hm] at he x1
    have x1' : s1.errors = s.errors ++ Δ1 := x1
    have hrun := fun h => expr_run hg hn b.value (s := s) (ss := ss) hr.scope (by rw [hm]; exact h)
    cases a with
    | none =>
      dsimp only at he
      obtain ⟨r, s2, hm2, _⟩ := hrun he
      rw [hm] at hm2; simp at hm2
    | some r =>
      dsimp only at he ⊢
      by_cases hbad : letTypeBad b.ty r.ty = true
      · rw [if_pos hbad] at he
        exfalso
        simp only [St.addErr, x1'] at he
        exact append_ne_self he
      · rw [if_neg hbad] at he ⊢
        have he1 : s1.errors = s.errors := by
          rw [← he]
          unfold St.push St.registerInner St.mapFrames St.insertValue St.mapCur
          cases s1.inner <;> rfl
        obtain ⟨r', s2, hm2, _, hty, t1, r1, hh⟩ := hrun he1
        rw [hm] at hm2
        injection hm2 with hm2 hm3
        injection hm2 with hm2
        subst hm2; subst hm3
        generalize hin : letInnerName s1 b.name = inner
        have hfresh : s1.innerUsed inner = false := by
          rw [← hin]; unfold letInnerName
          cases s1.lookupValue b.name <;> exact St.probeInner_fresh s1 _
        have hnot : inner ∉ s1.abs.decls := by
          intro hmem
          have := hr.reg inner (by rw [← t1.decls]; exact hmem)
          rw [← t1.rootNames] at this
          exact innerUsed_false_root' hfresh this
        -- the abstract reading of the new state
        have habs : (((s1.insertValue b.name ⟨inner, r.ty, b.mutable, false, false⟩).registerInner inner).push
            (.letBinding ⟨inner, r.ty, b.mutable, false, false⟩ r)).abs =
            ({ s1.abs with decls := s1.abs.decls ++ [inner] } : AbsSt).emit
              (.letD s1.abs.decls.length b.mutable (s1.abs.res r)) := by
          rw [abs_push, abs_registerInner, abs_insertValue]
          simp [abstractStep]
        unfold specLet
        dsimp only
        rw [hty]
        simp only [Option.getD_some]
        have hlen : s1.abs.decls.length = ss.next := by rw [t1.decls]; exact hr.next
        have hs1 := hr.scope.of_trans t1
        have htenv : (((s1.insertValue b.name ⟨inner, r.ty, b.mutable, false, false⟩).registerInner inner).push
            (.letBinding ⟨inner, r.ty, b.mutable, false, false⟩ r)).tenv =
            { s1.tenv with decls := ⟨inner, r.ty, b.mutable, false, false⟩ :: s1.tenv.decls } := by
          rw [tenv_push, tenv_registerInner, tenv_insertValue]; rfl
        have hroot : (((s1.insertValue b.name ⟨inner, r.ty, b.mutable, false, false⟩).registerInner inner).push
            (.letBinding ⟨inner, r.ty, b.mutable, false, false⟩ r)).root.innerNames = setInsert inner s1.root.innerNames := by
          unfold St.push St.registerInner St.mapFrames St.insertValue St.mapCur
          cases s1.inner <;> rfl
        have hold : ∀ v, s1.tenv.declOk v = true → v.innerName ≠ inner := by
          intro v hv hev
          have := hs1.dn v (declOk_mem hv)
          rw [hev] at this
          exact innerUsed_false_root' hfresh this
        have hdts : (((s1.insertValue b.name ⟨inner, r.ty, b.mutable, false, false⟩).registerInner inner).push
            (.letBinding ⟨inner, r.ty, b.mutable, false, false⟩ r)).dts =
            (mapHead (DT.setValues (assocInsert b.name ⟨inner, r.ty, b.mutable, false, false⟩)) s1.dts).map
              (DT.addDecl ⟨inner, r.ty, b.mutable, false, false⟩) := by
          rw [dts_push_decl _ ⟨inner, r.ty, b.mutable, false, false⟩ _ rfl, dts_registerInner, dts_insertValue]
        have hvi1 : FramesOk s1.dts [] ss.dscope ss.kids := by rw [t1.dts]; exact hr.vinv
        have hvr1 : ∀ t ∈ s1.dts, ∀ x ∈ t.decls, x.innerName ∈ s1.root.innerNames := by
          rw [t1.dts, t1.rootNames]; exact hr.vreg
        refine ⟨⟨?_, ?_, ?_, ?_⟩, ?_, ?_, ?_, ?_, ?_, ?_, ?_, ?_⟩
        rotate_left 7
        · -- reads
          apply rd_push_nowrite (rd_insertRegister (t1.rd hr.rd) _ _ _) _ rfl
          intro q hq
          rw [curReg_insertRegister, abs_registerInner, abs_insertValue]
          exact hh.regs q hq
        · -- typed scan
          apply tok_push _ (tok_of_ctx _ (t1.tok R hr.rd hr.wle hr.tok))
          · intro bb hb
            rw [tenv_registerInner, tenv_insertValue] at hb
            simp [tyStepBad, badIf, hh.operandOk] at hb
          · unfold St.registerInner St.mapFrames St.insertValue St.mapCur
            cases s1.inner <;> rfl
        · -- value tables
          rw [hdts]
          have hfresh' : ∀ t' ∈ s1.dts, (⟨inner, r.ty, b.mutable, false, false⟩ : Value) ∉ t'.decls := by
            intro t' ht' hx
            exact innerUsed_false_root' hfresh (hvr1 t' ht' _ hx)
          cases hd1 : s1.dts with
          | nil => exact absurd (by unfold St.dts at hd1; simpa using hd1) (frames_ne_nil s1)
          | cons t ts =>
            rw [hd1] at hvi1 hfresh'
            obtain ⟨fr, frs, k, ks, hds, hks, hf, hin, hrest⟩ := hvi1.inv_cons
            have := framesOk_declare (FramesOk.cons hf hin hrest) b.name ⟨inner, r.ty, b.mutable, false, false⟩ ss.next hfresh'
            unfold SpecSt.declare SpecSt.emit SpecSt.emits
            dsimp only [mapHead, List.map_cons]
            rw [hds, hks]
            exact this
        · -- declared records carry registered names
          rw [hdts, hroot]
          intro t ht x hx
          rw [List.mem_map] at ht
          obtain ⟨t0, ht0, rfl⟩ := ht
          rw [DT.addDecl_decls, List.mem_append] at hx
          rw [mem_setInsert]
          rcases hx with hx | hx
          · right
            cases hd1 : s1.dts with
            | nil => rw [hd1] at ht0; simp [mapHead] at ht0
            | cons t ts =>
              rw [hd1] at ht0
              simp only [mapHead, List.mem_cons] at ht0
              rcases ht0 with rfl | ht0
              · rw [DT.setValues_decls] at hx
                exact hvr1 t (by rw [hd1]; simp) x hx
              · exact hvr1 t0 (by rw [hd1]; simp [ht0]) x hx
          · left
            simp only [List.mem_singleton] at hx
            rw [hx]
        · -- written registers
          intro p hp
          rw [tenv_push, tenv_registerInner, tenv_insertValue] at hp
          have hrr : (((s1.insertValue b.name ⟨inner, r.ty, b.mutable, false, false⟩).registerInner inner).push
              (.letBinding ⟨inner, r.ty, b.mutable, false, false⟩ r)).root.reg = s1.root.reg := by
            unfold St.push St.registerInner St.mapFrames St.insertValue St.mapCur
            cases s1.inner <;> rfl
          rw [hrr]
          exact t1.wle hr.rd hr.wle p hp
        · -- types
          unfold ScopeRel
          rw [vals_push, vals_registerInner]
          obtain ⟨x, rest, hx, hins⟩ := vals_insertValue b.name ⟨inner, r.ty, b.mutable, false, false⟩ s1
          rw [hins]
          have hrel : ValsRel (x :: rest) ss.tscope := by
            rw [← hx, t1.vals]; exact hr.scope.sc
          exact valsRel_declare hrel b.name ⟨inner, r.ty, b.mutable, false, false⟩
        · -- declaration indices
          rw [habs]
          show DVals (s1.abs.decls ++ [inner]) _ _
          rw [vals_push, vals_registerInner]
          obtain ⟨x, rest, hx, hins⟩ := vals_insertValue b.name ⟨inner, r.ty, b.mutable, false, false⟩ s1
          rw [hins]
          have hdv : DVals s1.abs.decls (x :: rest) ss.dscope := by
            rw [← hx, t1.vals, t1.decls]; exact hr.scope.dv
          have hdv' := dvals_append inner hdv
          unfold SpecSt.declare SpecSt.emits SpecSt.emit
          dsimp only
          cases hds : ss.dscope with
          | nil => rw [hds] at hdv'; cases hdv'
          | cons fr outer =>
            rw [hds] at hdv'
            dsimp only
            rw [← hlen]
            exact dvals_declare hdv' b.name ⟨inner, r.ty, b.mutable, false, false⟩ _ (pjD_new _ ⟨inner, r.ty, b.mutable, false, false⟩ hnot)
        · -- value records against declarations
          rw [htenv, vals_push, vals_registerInner]
          obtain ⟨x, rest, hx, hins⟩ := vals_insertValue b.name ⟨inner, r.ty, b.mutable, false, false⟩ s1
          rw [hins]
          intro fr hfr n v hv
          have hcase : v = ⟨inner, r.ty, b.mutable, false, false⟩ ∨ s1.tenv.declOk v = true := by
            simp only [List.mem_cons] at hfr
            rcases hfr with rfl | hfr
            · by_cases hk : n = b.name
              · subst hk; rw [assocGet_insert_self] at hv; injection hv with hv; exact Or.inl hv.symm
              · rw [assocGet_insert_ne _ _ _ _ hk] at hv
                exact Or.inr (hs1.dk x (by rw [hx]; simp) n v hv)
            · exact Or.inr (hs1.dk fr (by rw [hx]; simp [hfr]) n v hv)
          rcases hcase with rfl | hok
          · exact declOk_self _ _ _ _
          · exact declOk_cons (fun e => hold v hok e.symm) hok
        · -- declared records carry registered names
          rw [htenv, hroot]
          intro d hd
          simp only [List.mem_cons] at hd
          rw [mem_setInsert]
          rcases hd with rfl | hd
          · exact Or.inl rfl
          · exact Or.inr (hs1.dn d hd)
        · rw [habs]
          simp only [AbsSt.emit_out, SpecSt.declare, SpecSt.emits, SpecSt.emit]
          rw [t1.out, hr.out, r1, hlen]
        · rw [habs]
          simp only [AbsSt.emit_decls, SpecSt.declare, SpecSt.emits, SpecSt.emit, List.length_append, List.length_singleton]
          rw [hlen]
        · intro n hnm
          rw [habs] at hnm
          simp only [AbsSt.emit_decls, List.mem_append, List.mem_singleton] at hnm
          rw [hroot, mem_setInsert]
          rcases hnm with hnm | rfl
          · right; rw [t1.rootNames]; exact hr.reg n (by rw [← t1.decls]; exact hnm)
          · left; rfl


/-! ### Relation bookkeeping for the remaining statements -/

theorem drel_trans {g : Globals} {R : Ty} {s s1 : St} {ss : SpecSt} {evs : List DStmt} (hr : DRel g R s ss) (t1 : Trans g s s1 evs) :
    DRel g R s1 (ss.emits evs) :=
  ⟨⟨(hr.scope.of_trans t1).sc, (hr.scope.of_trans t1).dv, (hr.scope.of_trans t1).dk, (hr.scope.of_trans t1).dn⟩, by rw [t1.out, hr.out]; rfl, by rw [t1.decls]; exact hr.next,
   fun n hn => by rw [t1.rootNames]; exact hr.reg n (by rw [← t1.decls]; exact hn), t1.rd hr.rd, t1.tok R hr.rd hr.wle hr.tok,
   by rw [t1.dts]; exact hr.vinv, by rw [t1.dts, t1.rootNames]; exact hr.vreg, t1.wle hr.rd hr.wle⟩

/-- pushing a statement-level instruction that only appends statement `d` to the abstract reading -/
theorem drel_push_emit {g : Globals} {R : Ty} {s : St} {ss : SpecSt} (hr : DRel g R s ss) (i : Instr) (d : DStmt)
    (ho : (abstractStep s.abs i).out = s.abs.out ++ [d]) (hd : (abstractStep s.abs i).decls = s.abs.decls)
    (hw : i.writes = none) (hrd : ∀ q ∈ i.reads, q ≤ s.curReg ∧ s.abs.bound q = true)
    (hnd : (∀ v n, i ≠ .fnArg v n) ∧ (∀ v x, i ≠ .letBinding v x))
    (hty : ∀ b ∈ tyStepBad (cOkOf g) (fOkOf g) R s.tenv i, b.known i = true) :
    DRel g R (s.push i) (ss.emit d) :=
  have htd : (s.push i).tenv.decls = s.tenv.decls := by rw [tenv_push]; exact tenv_step_decls _ _ hnd.1 hnd.2
  ⟨⟨by unfold ScopeRel; rw [vals_push]; exact hr.scope.sc, by rw [abs_push, hd, vals_push]; exact hr.scope.dv,
    by rw [vals_push]; intro fr hfr n v hv; unfold TyEnv.declOk; rw [htd]; exact hr.scope.dk fr hfr n v hv,
    by rw [htd]; exact hr.scope.dn⟩,
   by rw [abs_push, ho, hr.out]; rfl, by rw [abs_push, hd]; exact hr.next,
   fun n hn => hr.reg n (by rw [abs_push, hd] at hn; exact hn), rd_push_nowrite hr.rd i hw hrd, tok_push i hr.tok hty,
   by rw [dts_push_plain i s (declares_none_of hnd)]; exact hr.vinv,
   by rw [dts_push_plain i s (declares_none_of hnd)]; exact hr.vreg,
   by
     intro p hp
     rw [tenv_push] at hp
     rcases written_step _ _ p hp with hp | hp
     · exact hr.wle p hp
     · rw [hw] at hp; cases hp⟩

theorem len_of_ext {a b : List Err} (h : ∃ Δ, b = a ++ Δ) : a.length ≤ b.length := by
  obtain ⟨Δ, h⟩ := h; rw [h]; simp
theorem eq_of_ext_len {a b : List Err} (h : ∃ Δ, b = a ++ Δ) (hl : b.length ≤ a.length) : b = a := by
  obtain ⟨Δ, h⟩ := h
  rw [h, List.length_append] at hl
  have : Δ = [] := List.eq_nil_of_length_eq_zero (by omega)
  rw [h, this, List.append_nil]
theorem addErr_len (k : ErrKind) (v : Name) (l o : Nat) (s : St) : (s.addErr k v l o).errors.length = s.errors.length + 1 := by
  simp [St.addErr]

/-! ### Assignment -/

theorem den_bind {g : Globals} {R : Ty} {rg : RGlobals} (hg : GlobRel g rg) (hn : GNames g) (b : Bind) :
    StD g R (binding g b) (specBind false b) := by
  intro s ss hr he
  unfold binding at he ⊢
  have x1 := exprM_ext g b.value s
  cases hm : exprM g b.value s with
  | mk a s1 =>
    rw [hm] at he x1
    have l1 : s.errors.length ≤ s1.errors.length := len_of_ext x1
    have hl := congrArg List.length he
    have hrun := fun h => expr_run hg hn b.value (s := s) (ss := ss) hr.scope (by rw [hm]; exact h)
    cases a with
    | none =>
      dsimp only at he
      obtain ⟨r, s2, hm2, _⟩ := hrun he
      rw [hm] at hm2; simp at hm2
    | some r =>
      dsimp only at he hl ⊢
      cases hv : s1.lookupValue b.name with
      | none => rw [hv] at hl; dsimp only at hl; rw [addErr_len] at hl; omega
      | some value =>
        rw [hv] at he hl
        dsimp only at he hl ⊢
        by_cases hmu : (!value.mutable) = true
        · rw [if_pos hmu] at hl; rw [addErr_len] at hl; omega
        · rw [if_neg hmu] at he hl ⊢
          by_cases hty : value.ty ≠ r.ty
          · rw [if_pos hty] at hl; rw [addErr_len] at hl; omega
          · rw [if_neg hty] at he hl ⊢
            obtain ⟨r', s2, hm2, _, _, t1, r1, hh⟩ := hrun he
            rw [hm] at hm2
            injection hm2 with hm2 hm3
            injection hm2 with hm2
            subst hm2; subst hm3
            have h1 := drel_trans hr t1
            have hlk := dscope_lookup h1.scope b.name
            rw [hv] at hlk
            simp only [Option.map_some] at hlk
            unfold specBind
            dsimp only
            have hds : (ss.emits (specExpr false ss b.value).1).dscope = ss.dscope := rfl
            rw [hds] at hlk
            cases hd : dlookup b.name ss.dscope with
            | none => rw [hd] at hlk; simp at hlk
            | some d =>
              rw [hd] at hlk
              simp only [Option.map_some, Option.some.injEq] at hlk
              refine drel_push_emit h1 _ _ ?_ ?_ rfl (fun q hq => hh.regs q hq) ?_ ?_
              · simp only [abstractStep, AbsSt.emit_out, AbsSt.declIdx]
                rw [declIdx_of_pjD hlk, r1]
                rfl
              · simp [abstractStep, AbsSt.emit_decls]
              · exact ⟨fun _ _ h => (nomatch h), fun _ _ h => (nomatch h)⟩
              · intro bb hb
                have hty' : value.ty = r.ty := Classical.not_not.mp hty
                have hmu' : value.mutable = true := by
                  cases hvm : value.mutable with
                  | true => rfl
                  | false => rw [hvm] at hmu; simp at hmu
                simp [tyStepBad, badIf, hh.operandOk, hty', hmu', dscope_declOk h1.scope hv] at hb


/-! ### Call statement -/

theorem den_callS {g : Globals} {R : Ty} {rg : RGlobals} (hg : GlobRel g rg) (hn : GNames g) (c : CallS) :
    StD g R (callStmt g c) (specCallS false c) := by
  intro s ss hr he
  unfold callStmt at he ⊢
  unfold specCallS specVal
  rw [argsM_eq] at he ⊢
  rw [specArgs_eq g false ss c.args]
  dsimp only
  -- success, from the verdict simulation
  have h1 := sim_functionCall hg c.name (c.args.map fun e => (exprM g e, checkExpr rg ss.tscope e)) (by
    intro x hx
    rw [List.mem_map] at hx
    obtain ⟨e, _, rfl⟩ := hx
    exact ⟨sim_exprM hg ss.tscope e, em_exprM g e⟩) s hr.scope.sc
  simp only [List.map_map, Function.comp_def] at h1
  cases hc : (checkCall rg c.name (c.args.map (checkExpr rg ss.tscope))).2 with
  | none =>
    rw [hc] at h1
    exact absurd h1 (not_fail_of_eq he)
  | some ty =>
    rw [hc] at h1
    obtain ⟨_, hsome, _, _⟩ := h1
    have hden := den_functionCall hn c.name (c.args.map fun e => (exprM g e, specExpr false ss e)) (by
      intro x hx
      rw [List.mem_map] at hx
      obtain ⟨e, _, rfl⟩ := hx
      exact ⟨den_exprM hn ss e, em_exprM g e⟩) s ty (functionCall g c.name (c.args.map (exprM g)) s).2 hr.scope
      (by
        simp only [List.map_map, Function.comp_def]
        cases hfc : functionCall g c.name (c.args.map (exprM g)) s with
        | mk a s' => rw [hfc] at hsome; simp only at hsome; rw [hsome]) he
    exact drel_trans hr hden.1


/-! ### Conditions -/

theorem condExprM_ext (g : Globals) (lc : LogicCond) (s : St) : ∃ Δ, (condExprM g lc s).2.errors = s.errors ++ Δ :=
  (esteps_condExprM g lc s).errors_ext

theorem den_cond {g : Globals} {rg : RGlobals} (hg : GlobRel g rg) (hn : GNames g) (ss : SpecSt) :
    ∀ (lc : LogicCond) (s : St) (q : Nat) (s' : St), condExprM g lc s = (q, s') → DScope s ss → s'.errors = s.errors →
    Trans g s s' (specLogic false ss lc).1 ∧ s'.abs.reg q = (specLogic false ss lc).2 ∧ q ≤ s'.curReg ∧
      s'.abs.bound q = true
  | .mk c right, s, q, s', hq, hs, he => by
    unfold condExprM at hq
    have x1 := exprM_ext g c.left s
    cases hl : exprM g c.left s with
    | mk l s1 =>
      rw [hl] at hq x1
      dsimp only at hq
      have x2 := exprM_ext g c.right s1
      cases hrr : exprM g c.right s1 with
      | mk r s2 =>
        rw [hrr] at hq x2
        dsimp only at hq
        have l1 : s.errors.length ≤ s1.errors.length := len_of_ext x1
        have l2 : s1.errors.length ≤ s2.errors.length := len_of_ext x2
        have hlen := congrArg List.length he
        cases l with
        | none =>
          cases r <;> (injection hq with _ h2; subst h2; rw [addErr_len] at hlen; omega)
        | some lv =>
          cases r with
          | none => injection hq with _ h2; subst h2; rw [addErr_len] at hlen; omega
          | some rv =>
            dsimp only at hq
            by_cases hne : lv.ty ≠ rv.ty
            · rw [if_pos hne] at hq; injection hq with _ h2; subst h2; rw [addErr_len] at hlen; omega
            · rw [if_neg hne] at hq
              by_cases hpr : (!lv.ty.isPrim) = true
              · rw [if_pos hpr] at hq; injection hq with _ h2; subst h2; rw [addErr_len] at hlen; omega
              · rw [if_neg hpr] at hq
                -- the comparison instruction
                have hc := curReg_incReg s2
                have t3 : Held s2 lv → Held s2 rv → Trans g s2 (s2.incReg.push (.condExpr lv rv c.cond s2.incReg.curReg)) [] := by
                  intro hhl hhr
                  refine trans_incPush _ _ [] ?_ ?_ ?_ ?_ ?_ ?_ ?_
                  · simp [abstractStep, AbsSt.bind_out]
                  · simp [abstractStep, AbsSt.bind_decls]
                  · intro q hq
                    simp only [abstractStep]
                    rw [AbsSt.bind_reg, if_neg (by omega)]
                  · intro q hq
                    simp only [Instr.reads, List.mem_append] at hq
                    rcases hq with hq | hq
                    · exact hhl.regs q hq
                    · exact hhr.regs q hq
                  · intro w hw; simp [Instr.writes] at hw; exact hw.symm
                  · exact ⟨fun _ _ h => (nomatch h), fun _ _ h => (nomatch h)⟩
                  · intro R' hr' hwl' bb hb
                    have hty' : lv.ty = rv.ty := Classical.not_not.mp hne
                    have hpr' : rv.ty.isPrim = true := by
                      rw [← hty']
                      cases hp : lv.ty.isPrim with
                      | true => rfl
                      | false => rw [hp] at hpr; simp at hpr
                    simp [tyStepBad, badIf, hhl.operandOk, hhr.operandOk, hty', hpr', wOk_fresh hwl' hr'] at hb
                have ht3 : (s2.incReg.push (.condExpr lv rv c.cond s2.incReg.curReg)).tenv.reg s2.incReg.curReg = some (.prim .bool) := by
                  rw [tenv_push]; exact reg_cons_eq _ _ _ _ _
                have hb3 : (s2.incReg.push (.condExpr lv rv c.cond s2.incReg.curReg)).abs.bound s2.incReg.curReg = true := by
                  rw [abs_push, abs_incReg]
                  simp [abstractStep, AbsSt.bind_bound]
                have key : s2.errors.length ≤ s.errors.length →
                    ∃ dl dr, dl = specExpr false ss c.left ∧ dr = specExpr false ss c.right ∧
                      Trans g s s2 (dl.1 ++ dr.1) ∧ s2.abs.res lv = dl.2 ∧ s2.abs.res rv = dr.2 ∧ Held s2 lv ∧ Held s2 rv := by
                  intro hle
                  have e1 : s1.errors = s.errors := eq_of_ext_len x1 (by omega)
                  have e2 : s2.errors = s1.errors := eq_of_ext_len x2 (by omega)
                  obtain ⟨r1, s1', hm1, _, _, t1, d1, h1⟩ := expr_run hg hn c.left (rg := rg) hs (by rw [hl]; exact e1)
                  rw [hl] at hm1
                  injection hm1 with hm1 hm1'
                  injection hm1 with hm1
                  subst hm1; subst hm1'
                  obtain ⟨r2, s2', hm2, _, _, t2, d2, h2⟩ := expr_run hg hn c.right (rg := rg) (hs.of_trans t1) (by rw [hrr]; exact e2)
                  rw [hrr] at hm2
                  injection hm2 with hm2 hm2'
                  injection hm2 with hm2
                  subst hm2; subst hm2'
                  exact ⟨_, _, rfl, rfl, t1.trans t2, by rw [t2.stable _ h1, d1], d2, h1.of_trans t2, h2⟩
                cases right with
                | none =>
                  dsimp only at hq
                  injection hq with h1 h2
                  subst h1; subst h2
                  rw [push_errors, incReg_errors] at hlen
                  obtain ⟨dl, dr, rfl, rfl, t12, rl, rr, hhl, hhr⟩ := key (by omega)
                  unfold specLogic
                  refine ⟨by simpa using t12.trans (t3 hhl hhr), ?_, by rw [curReg_push]; exact Nat.le_refl _, by rw [curReg_push]; exact hb3⟩
                  rw [abs_push, abs_incReg, curReg_push]
                  simp only [abstractStep]
                  rw [AbsSt.bind_reg, if_pos rfl, rl, rr]
                | some p =>
                  obtain ⟨lg, rc⟩ := p
                  dsimp only at hq
                  have x3 := condExprM_ext g rc (s2.incReg.push (.condExpr lv rv c.cond s2.incReg.curReg))
                  cases hrc : condExprM g rc (s2.incReg.push (.condExpr lv rv c.cond s2.incReg.curReg)) with
                  | mk rightReg s5 =>
                    rw [hrc] at hq x3
                    dsimp only at hq
                    injection hq with h1 h2
                    subst h1; subst h2
                    rw [push_errors, incReg_errors] at hlen he
                    have l3 : (s2.incReg.push (.condExpr lv rv c.cond s2.incReg.curReg)).errors.length ≤ s5.errors.length :=
                      len_of_ext x3
                    rw [push_errors, incReg_errors] at l3
                    obtain ⟨dl, dr, rfl, rfl, t12, rl, rr, hhl, hhr⟩ := key (by omega)
                    have e3 : s5.errors = (s2.incReg.push (.condExpr lv rv c.cond s2.incReg.curReg)).errors :=
                      eq_of_ext_len x3 (by rw [push_errors, incReg_errors]; omega)
                    have hs4 : DScope (s2.incReg.push (.condExpr lv rv c.cond s2.incReg.curReg)) ss :=
                      (hs.of_trans t12).of_trans (t3 hhl hhr)
                    obtain ⟨t4, r4, h4, b4⟩ := den_cond hg hn ss rc _ rightReg s5 hrc hs4 e3
                    have hheld3 : Held (s2.incReg.push (.condExpr lv rv c.cond s2.incReg.curReg)) ⟨.prim .bool, .reg s2.incReg.curReg⟩ :=
                      ⟨⟨by rw [curReg_push]; exact Nat.le_refl _, hb3⟩, ht3⟩
                    have hleft : s5.abs.reg s2.incReg.curReg =
                        .cmp c.cond (specExpr false ss c.left).2 (specExpr false ss c.right).2 := by
                      have := t4.stable ⟨.prim .bool, .reg s2.incReg.curReg⟩ hheld3
                      simp only [AbsSt.res_reg] at this
                      rw [this, abs_push, abs_incReg]
                      simp only [abstractStep]
                      rw [AbsSt.bind_reg, if_pos rfl, rl, rr]
                    have hc5 := curReg_incReg s5
                    have t5 : Trans g s5 (s5.incReg.push (.logicCond lg (s2.incReg.push (.condExpr lv rv c.cond s2.incReg.curReg)).curReg rightReg s5.incReg.curReg)) [] := by
                      refine trans_incPush _ _ [] ?_ ?_ ?_ ?_ ?_ ?_ ?_
                      · simp [abstractStep, AbsSt.bind_out]
                      · simp [abstractStep, AbsSt.bind_decls]
                      · intro q hq
                        simp only [abstractStep]
                        rw [AbsSt.bind_reg, if_neg (by omega)]
                      · intro q hq
                        simp only [Instr.reads, List.mem_cons, List.not_mem_nil, or_false] at hq
                        rcases hq with rfl | rfl
                        · rw [curReg_push]
                          exact ⟨by have := t4.mono; rw [curReg_push] at this; exact this, t4.bnd _ hb3⟩
                        · exact ⟨h4, b4⟩
                      · intro w hw; simp [Instr.writes] at hw; exact hw.symm
                      · exact ⟨fun _ _ h => (nomatch h), fun _ _ h => (nomatch h)⟩
                      · intro R' hr' hwl' bb hb; simp [tyStepBad, badIf, wOk_fresh hwl' hr'] at hb
                    unfold specLogic
                    refine ⟨by simpa [List.append_assoc] using ((t12.trans (t3 hhl hhr)).trans t4).trans t5, ?_,
                      by rw [curReg_push]; exact Nat.le_refl _, ?_⟩
                    · rw [abs_push, abs_incReg]
                      simp only [abstractStep, curReg_push]
                      rw [AbsSt.bind_reg, if_pos rfl, hleft, r4]
                    · rw [abs_push, abs_incReg]
                      simp only [abstractStep, curReg_push]
                      rw [AbsSt.bind_bound]; simp


theorem den_ifCondCalc {g : Globals} {R : Ty} {rg : RGlobals} (hg : GlobRel g rg) (hn : GNames g) (c : IfCond)
    (lb le ln : Name) (isElse : Bool) : StD g R (ifCondCalc g c lb le ln isElse) (specIfCond false c) := by
  intro s ss hr he
  unfold ifCondCalc at he ⊢
  unfold specIfCond
  cases c with
  | single e =>
    dsimp only at he ⊢
    have x1 := exprM_ext g e s
    cases hm : exprM g e s with
    | mk a s1 =>
      rw [hm] at he x1
      have hrun := fun h => expr_run hg hn e (rg := rg) (s := s) (ss := ss) hr.scope (by rw [hm]; exact h)
      cases a with
      | none =>
        dsimp only at he
        obtain ⟨r, s2, hm2, _⟩ := hrun he
        rw [hm] at hm2; simp at hm2
      | some r =>
        dsimp only at he ⊢
        rw [push_errors] at he
        obtain ⟨r', s2, hm2, _, _, t1, r1, hh⟩ := hrun he
        rw [hm] at hm2
        injection hm2 with hm2 hm3
        injection hm2 with hm2
        subst hm2; subst hm3
        refine drel_push_emit (drel_trans hr t1) _ _ ?_ ?_ rfl (fun q hq => hh.regs q hq) ?_ ?_
        · simp only [abstractStep, AbsSt.emit_out]; rw [r1]
        · simp [abstractStep, AbsSt.emit_decls]
        · exact ⟨fun _ _ h => (nomatch h), fun _ _ h => (nomatch h)⟩
        · intro bb hb; simp [tyStepBad, badIf, hh.operandOk] at hb
  | logic lc =>
    dsimp only at he ⊢
    cases hq : condExprM g lc s with
    | mk q s1 =>
      rw [hq] at he
      dsimp only at he ⊢
      rw [push_errors] at he
      obtain ⟨t1, r1, hq1, hb1⟩ := den_cond hg hn ss lc s q s1 hq hr.scope he
      refine drel_push_emit (drel_trans hr t1) _ _ ?_ ?_ rfl (fun q' hq' => by
        simp only [Instr.reads, List.mem_cons, List.not_mem_nil, or_false] at hq'
        subst hq'; exact ⟨hq1, hb1⟩) ?_ ?_
      · simp only [abstractStep, AbsSt.emit_out]; rw [r1]
      · simp [abstractStep, AbsSt.emit_decls]
      · exact ⟨fun _ _ h => (nomatch h), fun _ _ h => (nomatch h)⟩
      · intro bb hb; simp [tyStepBad] at hb

/-! ### Returns -/

theorem abs_setReturn (s : St) : s.setReturn.abs = s.abs := abs_of_ctx rfl

theorem innerUsed_setReturn (s : St) (n : Name) : s.setReturn.innerUsed n = s.innerUsed n := by
  unfold St.innerUsed St.setReturn; rw [frames_mapFrames]; simp [List.any_map, Function.comp_def]

theorem drel_setReturn {g : Globals} {R : Ty} {s : St} {ss : SpecSt} (hr : DRel g R s ss) : DRel g R s.setReturn ss :=
  ⟨⟨by unfold ScopeRel; rw [vals_setReturn]; exact hr.scope.sc, by rw [abs_setReturn, vals_setReturn]; exact hr.scope.dv,
    by rw [vals_setReturn]; exact hr.scope.dk, hr.scope.dn⟩,
   by rw [abs_setReturn]; exact hr.out, by rw [abs_setReturn]; exact hr.next,
   fun n hn => hr.reg n (by rw [abs_setReturn] at hn; exact hn),
   rd_same hr.rd (by
     intro b hb
     simp [St.setReturn, St.mapFrames] at hb ⊢
     obtain ⟨b', hb', rfl⟩ := hb
     exact hr.rd.sync b' hb') rfl rfl, tok_of_ctx rfl hr.tok,
   by rw [dts_setReturn]; exact hr.vinv, by rw [dts_setReturn]; exact hr.vreg, wle_of_ctx rfl (Nat.le_refl _) hr.wle⟩

theorem den_nestedReturn {g : Globals} {R : Ty} {rg : RGlobals} (hg : GlobRel g rg) (hn : GNames g) (e : Expr)
    (s : St) (ss : SpecSt) (hr : DRel g R s ss) (he : (nestedReturn g e s).1.errors = s.errors) :
    DRel g R (nestedReturn g e s).1 (specJret false rg e ss) := by
  unfold nestedReturn at he ⊢
  unfold specJret
  cases hm : exprM g e s with
  | mk a s1 =>
    rw [hm] at he
    have hrun := fun h => expr_run hg hn e (rg := rg) (s := s) (ss := ss) hr.scope (by rw [hm]; exact h)
    cases a with
    | none =>
      dsimp only at he
      obtain ⟨r, s2, hm2, _⟩ := hrun he
      rw [hm] at hm2; simp at hm2
    | some r =>
      dsimp only at he ⊢
      have he1 : s1.errors = s.errors := he
      obtain ⟨r', s2, hm2, _, hcty, t1, r1, hh⟩ := hrun he1
      rw [hm] at hm2
      injection hm2 with hm2 hm3
      injection hm2 with hm2
      subst hm2; subst hm3
      refine drel_setReturn (drel_push_emit (drel_trans hr t1) _ _ ?_ ?_ rfl (fun q hq => hh.regs q hq) ?_ ?_)
      · simp only [abstractStep, AbsSt.emit_out]; rw [r1, hcty]; rfl
      · simp [abstractStep, AbsSt.emit_decls]
      · exact ⟨fun _ _ h => (nomatch h), fun _ _ h => (nomatch h)⟩
      · intro bb hb
        simp only [tyStepBad, badIf, hh.operandOk, if_true, List.nil_append] at hb
        split at hb
        · cases hb
        · simp at hb; subst hb; rfl

theorem den_fnReturn {g : Globals} {rg : RGlobals} (hg : GlobRel g rg) (hn : GNames g) (resTy : Ty) (e : Expr) (rc : Bool)
    (s : St) (ss : SpecSt) (hr : DRel g resTy s ss) (he : (fnReturn g resTy e rc s).1.errors = s.errors) :
    DRel g resTy (fnReturn g resTy e rc s).1 (specRet false e ss) := by
  unfold fnReturn at he ⊢
  unfold specRet
  have x1 := exprM_ext g e s
  cases hm : exprM g e s with
  | mk a s1 =>
    rw [hm] at he x1
    dsimp only at he ⊢
    have l1 : s.errors.length ≤ s1.errors.length := len_of_ext x1
    have hlen := congrArg List.length he
    have hrun := fun h => expr_run hg hn e (rg := rg) (s := s) (ss := ss) hr.scope (by rw [hm]; exact h)
    cases rc with
    | true =>
      exfalso
      simp only [if_true] at hlen
      cases a with
      | none => dsimp only at hlen; rw [addErr_len] at hlen; omega
      | some r =>
        dsimp only at hlen
        obtain ⟨Δ, hΔ⟩ := (steps_fnReturnTail g resTy e r (s1.addErr .returnAlreadyCalled e.show 1 0)).errors_ext
        rw [hΔ, List.length_append, addErr_len] at hlen
        omega
    | false =>
      simp only [Bool.false_eq_true, if_false] at he hlen ⊢
      cases a with
      | none =>
        dsimp only at he
        obtain ⟨r, s2, hm2, _⟩ := hrun he
        rw [hm] at hm2; simp at hm2
      | some r =>
        dsimp only at he hlen ⊢
        unfold fnReturnTail at he hlen ⊢
        dsimp only at he hlen ⊢
        -- the two checks of the tail report nothing
        have c1 : (checkTypeExists g r.ty e.show s1).2 = s1 ∨
            (checkTypeExists g r.ty e.show s1).2 = s1.addErr .typeNotFound e.show 1 0 := by
          unfold checkTypeExists
          split
          · exact Or.inl rfl
          · split
            · exact Or.inl rfl
            · exact Or.inr rfl
        have hfin : ∀ (s3 : St), ((if s3.cur.manualReturn = true then s3.push (.fnReturnWithLabel r) else s3.push (.fnReturn r)).errors
            = s3.errors) := by
          intro s3; split <;> rfl
        rw [hfin] at hlen he
        rcases c1 with c1 | c1
        · rw [c1] at he hlen ⊢
          by_cases hrt : resTy ≠ r.ty
          · rw [if_pos hrt] at hlen; rw [addErr_len] at hlen; omega
          · rw [if_neg hrt] at he hlen ⊢
            obtain ⟨r', s2, hm2, _, _, t1, r1, hh⟩ := hrun he
            rw [hm] at hm2
            injection hm2 with hm2 hm3
            injection hm2 with hm2
            subst hm2; subst hm3
            have h1 := drel_trans hr t1
            have hrt' : r.ty = resTy := (Classical.not_not.mp hrt).symm
            split
            · refine drel_push_emit h1 _ _ ?_ ?_ rfl (fun q hq => hh.regs q hq) ?_ ?_
              · simp only [abstractStep, AbsSt.emit_out]; rw [r1]
              · simp [abstractStep, AbsSt.emit_decls]
              · exact ⟨fun _ _ h => (nomatch h), fun _ _ h => (nomatch h)⟩
              · intro bb hb; simp [tyStepBad, badIf, hh.operandOk, hrt'] at hb
            · refine drel_push_emit h1 _ _ ?_ ?_ rfl (fun q hq => hh.regs q hq) ?_ ?_
              · simp only [abstractStep, AbsSt.emit_out]; rw [r1]
              · simp [abstractStep, AbsSt.emit_decls]
              · exact ⟨fun _ _ h => (nomatch h), fun _ _ h => (nomatch h)⟩
              · intro bb hb; simp [tyStepBad, badIf, hh.operandOk, hrt'] at hb
        · exfalso
          rw [c1] at hlen
          by_cases hrt : resTy ≠ r.ty
          · rw [if_pos hrt] at hlen; rw [addErr_len, addErr_len] at hlen; omega
          · rw [if_neg hrt] at hlen; rw [addErr_len] at hlen; omega

end SemVerif
