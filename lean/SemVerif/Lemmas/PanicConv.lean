import SemVerif.Props.C13
/-!
# Lemmas/PanicConv — the converse of C13 on the model

Every statement of a body is analysed whatever errors were reported before it, and the panic field
is never cleared.  Hence a run that ends without the panic field set has met no loop-flavoured
if-body outside a loop in the parts the analyzer visits: `(run p).panic = none → AnaOKB p`.
-/
namespace SemVerif

/-! ### The parts of a body the analyzer actually visits

Like `loopOK`, except that the else-if of an `if` that also has an else body is not looked at (the
analyzer reports `IfElseDuplicated` and ignores it). -/

mutual
def IfStmt.anaOK (inLoop : Bool) : IfStmt → Bool
  | .mk _ body els elif =>
    IfBodies.anaOK inLoop body &&
    (match els, elif with
     | some eb, _ => IfBodies.anaOK inLoop eb
     | none, some ei => IfStmt.anaOK inLoop ei
     | none, none => true)
def IfBodies.anaOK (inLoop : Bool) : IfBodies → Bool
  | .ifb l => IfBodyStmt.anaOKL inLoop l
  | .loopb l => inLoop && IfLoopStmt.anaOKL l
def IfBodyStmt.anaOKL (inLoop : Bool) : List IfBodyStmt → Bool
  | [] => true
  | .ifS i :: tl => IfStmt.anaOK inLoop i && IfBodyStmt.anaOKL inLoop tl
  | .loop b :: tl => LoopStmt.anaOKL b && IfBodyStmt.anaOKL inLoop tl
  | _ :: tl => IfBodyStmt.anaOKL inLoop tl
def IfLoopStmt.anaOKL : List IfLoopStmt → Bool
  | [] => true
  | .ifS i :: tl => IfStmt.anaOK true i && IfLoopStmt.anaOKL tl
  | .loop b :: tl => LoopStmt.anaOKL b && IfLoopStmt.anaOKL tl
  | _ :: tl => IfLoopStmt.anaOKL tl
def LoopStmt.anaOKL : List LoopStmt → Bool
  | [] => true
  | .ifS i :: tl => IfStmt.anaOK true i && LoopStmt.anaOKL tl
  | .loop b :: tl => LoopStmt.anaOKL b && LoopStmt.anaOKL tl
  | _ :: tl => LoopStmt.anaOKL tl
end

def BodyStmt.anaOKL : List BodyStmt → Bool
  | [] => true
  | .ifS i :: tl => IfStmt.anaOK false i && BodyStmt.anaOKL tl
  | .loop b :: tl => LoopStmt.anaOKL b && BodyStmt.anaOKL tl
  | _ :: tl => BodyStmt.anaOKL tl

def AnaOKB (p : Program) : Bool := p.fnDecls.all fun f => BodyStmt.anaOKL f.body

theorem setPanic_ne (site : Nat) (s : St) : (s.setPanic site).panic ≠ none := by
  unfold St.setPanic
  cases h : s.panic with
  | none => simp
  | some _ => simp [h]

theorem Step.panic_none {s s' : St} (h : Step s s') (hn : s'.panic = none) : s.panic = none := by
  cases h with
  | e h => rw [← h.panic_eq]; exact hn
  | enter => exact hn
  | leave => rw [← panic_leave]; exact hn
  | regLabel => exact hn
  | ctl => rw [← push_panic]; exact hn
  | emitRet => rw [← push_panic]; exact hn
  | ctlVia => rw [← panic_pushVia]; exact hn
  | setReturn => exact hn
  | setPanic site => exact absurd hn (setPanic_ne site s)

theorem Steps.panic_none {s s' : St} (h : Steps s s') (hn : s'.panic = none) : s.panic = none := by
  induction h with
  | refl => exact hn
  | tail _ st ih => exact ih (st.panic_none hn)

variable (g : Globals)

theorem pc_loopWrap (k : Name → Name → Bool → Bool → Bool → St → St × Bool) (P : Prop)
    (hk : ∀ lb le rc bc cc s, (k lb le rc bc cc s).1.panic = none → P) (s : St)
    (h : (loopWrap k s).panic = none) : P := by
  unfold loopWrap at h
  dsimp only at h
  rw [panic_loopEpilogue] at h
  exact hk _ _ _ _ _ _ h

mutual
theorem pc_ifCondition : ∀ (i : IfStmt) (le : Option Name) (ll : Option (Name × Name)) (s : St),
    (ifCondition g i le ll s).panic = none → IfStmt.anaOK ll.isSome i = true
  | .mk cond body els elif, le, ll, s => by
    intro h
    unfold ifCondition at h
    dsimp only at h
    rw [panic_ifEpilogue] at h
    unfold IfStmt.anaOK
    simp only [Bool.and_eq_true]
    generalize ifPrologue g cond (els.isSome && elif.isSome) (els.isSome || elif.isSome) le s = p at h
    obtain ⟨lElse, lEnd, s1⟩ := p
    dsimp only at h
    have hb := pc_ifBodies body lEnd ll s1
    generalize ifBodies g body lEnd ll s1 = q at h hb
    obtain ⟨s2, r⟩ := q
    dsimp only at h hb
    have h3 := panic_ifAfterBody (els.isSome || elif.isSome) r lElse lEnd s2
    generalize ifAfterBody (els.isSome || elif.isSome) r lElse lEnd s2 = q3 at h h3
    obtain ⟨k, s3⟩ := q3
    dsimp only at h h3
    cases els with
    | some eb =>
      dsimp only at h
      rw [panic_ifAfterElse] at h
      have he := pc_ifBodies eb lEnd ll s3.enter h
      have h3n : s3.panic = none := (steps_ifBodies g eb lEnd ll s3.enter).panic_none h
      exact ⟨hb (by rw [← h3]; exact h3n), he⟩
    | none =>
      cases elif with
      | some ei =>
        dsimp only at h
        have hei := pc_ifCondition ei (some lEnd) ll s3 h
        have h3n : s3.panic = none := (steps_ifCondition g ei (some lEnd) ll s3).panic_none h
        exact ⟨hb (by rw [← h3]; exact h3n), hei⟩
      | none =>
        dsimp only at h
        exact ⟨hb (by rw [← h3]; exact h), rfl⟩
theorem pc_ifBodies : ∀ (b : IfBodies) (lEnd : Name) (ll : Option (Name × Name)) (s : St),
    (ifBodies g b lEnd ll s).1.panic = none → IfBodies.anaOK ll.isSome b = true
  | .ifb l, lEnd, ll, s => by
    intro h; unfold ifBodies at h; unfold IfBodies.anaOK
    exact pc_ifBody l lEnd ll false s h
  | .loopb l, lEnd, some (lb, le), s => by
    intro h; unfold ifBodies at h; unfold IfBodies.anaOK
    simp only [Option.isSome_some, Bool.true_and]
    exact pc_ifLoopBody l lEnd lb le false false false s h
  | .loopb _, _, none, s => by
    intro h; unfold ifBodies at h
    exact absurd h (setPanic_ne _ _)
theorem pc_ifBody : ∀ (l : List IfBodyStmt) (lEnd : Name) (ll : Option (Name × Name)) (rc : Bool) (s : St),
    (ifBody g l lEnd ll rc s).1.panic = none → IfBodyStmt.anaOKL ll.isSome l = true
  | [], _, _, _, _ => by intro _; unfold IfBodyStmt.anaOKL; rfl
  | st :: tl, lEnd, ll, rc, s => by
    intro h
    unfold ifBody at h
    dsimp only at h
    generalize forbidden rc false false s = s0 at h
    cases st with
    | letB b => unfold IfBodyStmt.anaOKL; exact pc_ifBody tl lEnd ll rc _ h
    | bind b => unfold IfBodyStmt.anaOKL; exact pc_ifBody tl lEnd ll rc _ h
    | call c => unfold IfBodyStmt.anaOKL; exact pc_ifBody tl lEnd ll rc _ h
    | ifS i =>
      unfold IfBodyStmt.anaOKL
      simp only [Bool.and_eq_true]
      exact ⟨pc_ifCondition i (some lEnd) ll s0 ((steps_ifBody g tl lEnd ll rc _).panic_none h), pc_ifBody tl lEnd ll rc _ h⟩
    | loop b =>
      unfold IfBodyStmt.anaOKL
      simp only [Bool.and_eq_true]
      exact ⟨pc_loopWrap _ _ (fun lb le rc bc cc s => pc_loopBody b lb le rc bc cc s) s0
        ((steps_ifBody g tl lEnd ll rc _).panic_none h), pc_ifBody tl lEnd ll rc _ h⟩
    | ret e =>
      unfold IfBodyStmt.anaOKL
      dsimp only at h
      generalize nestedReturn g e s0 = q at h
      obtain ⟨s1, r⟩ := q
      exact pc_ifBody tl lEnd ll (rc || r) s1 h
theorem pc_ifLoopBody : ∀ (l : List IfLoopStmt) (lEnd lb le : Name) (rc bc cc : Bool) (s : St),
    (ifLoopBody g l lEnd lb le rc bc cc s).1.panic = none → IfLoopStmt.anaOKL l = true
  | [], _, _, _, _, _, _, _ => by intro _; unfold IfLoopStmt.anaOKL; rfl
  | st :: tl, lEnd, lb, le, rc, bc, cc, s => by
    intro h
    unfold ifLoopBody at h
    dsimp only at h
    generalize forbidden rc bc cc s = s0 at h
    cases st with
    | letB b => unfold IfLoopStmt.anaOKL; exact pc_ifLoopBody tl lEnd lb le rc bc cc _ h
    | bind b => unfold IfLoopStmt.anaOKL; exact pc_ifLoopBody tl lEnd lb le rc bc cc _ h
    | call c => unfold IfLoopStmt.anaOKL; exact pc_ifLoopBody tl lEnd lb le rc bc cc _ h
    | ifS i =>
      unfold IfLoopStmt.anaOKL
      simp only [Bool.and_eq_true]
      exact ⟨pc_ifCondition i (some lEnd) (some (lb, le)) s0 ((steps_ifLoopBody g tl lEnd lb le rc bc cc _).panic_none h),
        pc_ifLoopBody tl lEnd lb le rc bc cc _ h⟩
    | loop b =>
      unfold IfLoopStmt.anaOKL
      simp only [Bool.and_eq_true]
      exact ⟨pc_loopWrap _ _ (fun lb le rc bc cc s => pc_loopBody b lb le rc bc cc s) s0
        ((steps_ifLoopBody g tl lEnd lb le rc bc cc _).panic_none h), pc_ifLoopBody tl lEnd lb le rc bc cc _ h⟩
    | ret e =>
      unfold IfLoopStmt.anaOKL
      dsimp only at h
      generalize nestedReturn g e s0 = q at h
      obtain ⟨s1, r⟩ := q
      exact pc_ifLoopBody tl lEnd lb le (rc || r) bc cc s1 h
    | cont => unfold IfLoopStmt.anaOKL; exact pc_ifLoopBody tl lEnd lb le rc bc true _ h
    | brk => unfold IfLoopStmt.anaOKL; exact pc_ifLoopBody tl lEnd lb le rc true cc _ h
theorem pc_loopBody : ∀ (l : List LoopStmt) (lb le : Name) (rc bc cc : Bool) (s : St),
    (loopBody g l lb le rc bc cc s).1.panic = none → LoopStmt.anaOKL l = true
  | [], _, _, _, _, _, _ => by intro _; unfold LoopStmt.anaOKL; rfl
  | st :: tl, lb, le, rc, bc, cc, s => by
    intro h
    unfold loopBody at h
    dsimp only at h
    generalize forbidden rc bc cc s = s0 at h
    cases st with
    | letB b => unfold LoopStmt.anaOKL; exact pc_loopBody tl lb le rc bc cc _ h
    | bind b => unfold LoopStmt.anaOKL; exact pc_loopBody tl lb le rc bc cc _ h
    | call c => unfold LoopStmt.anaOKL; exact pc_loopBody tl lb le rc bc cc _ h
    | ifS i =>
      unfold LoopStmt.anaOKL
      simp only [Bool.and_eq_true]
      exact ⟨pc_ifCondition i none (some (lb, le)) s0 ((steps_loopBody g tl lb le rc bc cc _).panic_none h),
        pc_loopBody tl lb le rc bc cc _ h⟩
    | loop b =>
      unfold LoopStmt.anaOKL
      simp only [Bool.and_eq_true]
      exact ⟨pc_loopWrap _ _ (fun lb le rc bc cc s => pc_loopBody b lb le rc bc cc s) s0
        ((steps_loopBody g tl lb le rc bc cc _).panic_none h), pc_loopBody tl lb le rc bc cc _ h⟩
    | ret e =>
      unfold LoopStmt.anaOKL
      dsimp only at h
      generalize nestedReturn g e s0 = q at h
      obtain ⟨s1, r⟩ := q
      exact pc_loopBody tl lb le (rc || r) bc cc s1 h
    | brk => unfold LoopStmt.anaOKL; exact pc_loopBody tl lb le rc true cc _ h
    | cont => unfold LoopStmt.anaOKL; exact pc_loopBody tl lb le rc bc true _ h
end

theorem pc_bodyStmts (resTy : Ty) : ∀ (l : List BodyStmt) (rc : Bool) (s : St),
    (bodyStmts g resTy l rc s).1.panic = none → BodyStmt.anaOKL l = true
  | [], _, _ => by intro _; unfold BodyStmt.anaOKL; rfl
  | st :: tl, rc, s => by
    intro h
    unfold bodyStmts at h
    dsimp only at h
    generalize forbidden rc false false s = s0 at h
    cases st with
    | letB b => unfold BodyStmt.anaOKL; exact pc_bodyStmts resTy tl rc _ h
    | bind b => unfold BodyStmt.anaOKL; exact pc_bodyStmts resTy tl rc _ h
    | call c => unfold BodyStmt.anaOKL; exact pc_bodyStmts resTy tl rc _ h
    | ifS i =>
      unfold BodyStmt.anaOKL
      simp only [Bool.and_eq_true]
      exact ⟨pc_ifCondition g i none none s0 ((steps_bodyStmts g resTy tl rc _).panic_none h), pc_bodyStmts resTy tl rc _ h⟩
    | loop b =>
      unfold BodyStmt.anaOKL
      simp only [Bool.and_eq_true]
      exact ⟨pc_loopWrap _ _ (fun lb le rc bc cc s => pc_loopBody g b lb le rc bc cc s) s0
        ((steps_bodyStmts g resTy tl rc _).panic_none h), pc_bodyStmts resTy tl rc _ h⟩
    | expr e =>
      unfold BodyStmt.anaOKL
      dsimp only at h
      generalize fnReturn g resTy e rc s0 = q at h
      obtain ⟨s1, r⟩ := q
      exact pc_bodyStmts resTy tl r s1 h
    | ret e =>
      unfold BodyStmt.anaOKL
      dsimp only at h
      generalize fnReturn g resTy e rc s0 = q at h
      obtain ⟨s1, r⟩ := q
      exact pc_bodyStmts resTy tl r s1 h

theorem pc_functionBody (f : FnDecl) (h : (functionBody g f).panic = none) : BodyStmt.anaOKL f.body = true := by
  unfold functionBody at h
  dsimp only at h
  have h2 := pc_bodyStmts g f.result.toTy f.body false (initParams f.params St.init)
  generalize bodyStmts g f.result.toTy f.body false (initParams f.params St.init) = q at h h2
  obtain ⟨s2, rc⟩ := q
  cases rc <;> exact h2 h

theorem firstPanic_none_mem : ∀ (l : List St), firstPanic l = none → ∀ s ∈ l, s.panic = none
  | [], _, _, hs => by cases hs
  | x :: rest, h, s, hs => by
    unfold firstPanic at h
    cases hx : x.panic with
    | some v => rw [hx] at h; cases h
    | none =>
      rw [hx] at h
      rcases List.mem_cons.mp hs with rfl | hs
      · exact hx
      · exact firstPanic_none_mem rest h s hs

/-- the model panics on every program outside the domain -/
theorem anaOK_of_no_panic (p : Program) (h : (run p).panic = none) : AnaOKB p = true := by
  unfold run at h
  dsimp only at h
  unfold AnaOKB
  rw [List.all_eq_true]
  intro f hf
  apply pc_functionBody (pass2 p (pass1 p GState.init)).globals f
  apply firstPanic_none_mem _ h
  rw [List.mem_map]
  exact ⟨f, by rw [fns_eq_fnDecls]; exact hf, rfl⟩

end SemVerif
