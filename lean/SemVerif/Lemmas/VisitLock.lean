import SemVerif.Lemmas.RuleLock
import SemVerif.Lemmas.ExtEvents
import SemVerif.Spec.ExtVisit
/-!
# Lemmas/VisitLock — in a rule-abiding function every extension leaf is evaluated

Specification-side: when the rule checker reports nothing on a function, the leaves that
`Spec/ExtVisit.lean` says are evaluated are all the leaves of the function, each once, in source
evaluation order (`FnDecl.extLeaves`).  So on accepted programs of the domain the predicate
`P_C19_visited` says what theorem `C19` proves.
-/
namespace SemVerif

def tagsOf (l : List (Nat × PrimTy)) : List Nat := l.map (·.1)

theorem tagsOf_append (a b : List (Nat × PrimTy)) : tagsOf (a ++ b) = tagsOf a ++ tagsOf b := by simp [tagsOf]

theorem visTree_quiet {γ : Type} (cv : γ → ERes) (vv : γ → VRes) (lv : γ → List Nat) : ∀ (t : W γ),
    (∀ a ∈ t.atoms, NV (cv a)) → (∀ a ∈ t.atoms, (cv a).1 = [] → vv a = (lv a, (cv a).2)) →
    (checkTree (t.map cv)).1 = [] → visTree (t.map vv) = (t.atoms.flatMap lv, (checkTree (t.map cv)).2)
  | .atom a, _, hp, hq => by
    simp only [W.map, visTree, checkTree, W.atoms, List.flatMap_cons, List.flatMap_nil, List.append_nil] at hq ⊢
    exact hp a (by simp [W.atoms]) hq
  | .pair l o r, hnv, hp, hq => by
    have hl : ∀ a ∈ l.atoms, NV (cv a) := fun a ha => hnv a (by simp [W.atoms, ha])
    have hr : ∀ a ∈ r.atoms, NV (cv a) := fun a ha => hnv a (by simp [W.atoms, ha])
    have nl : NV (checkTree (l.map cv)) := nv_checkTree _ (by
      intro c hc; rw [atoms_map, List.mem_map] at hc; obtain ⟨a, ha, rfl⟩ := hc; exact hl a ha)
    have nr : NV (checkTree (r.map cv)) := nv_checkTree _ (by
      intro c hc; rw [atoms_map, List.mem_map] at hc; obtain ⟨a, ha, rfl⟩ := hc; exact hr a ha)
    simp only [W.map, checkTree] at hq
    obtain ⟨q1, q2⟩ := checkPair_quiet nl nr hq
    have i1 := visTree_quiet cv vv lv l hl (fun a ha => hp a (by simp [W.atoms, ha])) q1
    have i2 := visTree_quiet cv vv lv r hr (fun a ha => hp a (by simp [W.atoms, ha])) q2
    simp only [W.map, visTree, checkTree, W.atoms, List.flatMap_append]
    rw [i1, i2]
    generalize checkTree (l.map cv) = cl at hq q1 nl ⊢
    generalize checkTree (r.map cv) = cr at hq q2 nr ⊢
    obtain ⟨vl, tl⟩ := cl
    obtain ⟨vr, tr⟩ := cr
    dsimp only at q1 q2
    subst q1; subst q2
    cases tl with
    | none => exact absurd rfl (nl rfl)
    | some tl =>
      cases tr with
      | none => exact absurd rfl (nr rfl)
      | some tr =>
        unfold checkPair at hq ⊢
        unfold visPair
        dsimp only at hq ⊢
        split at hq
        · simp at hq
        · rename_i hne
          rw [if_neg hne, if_neg hne]

theorem visArgsL_all : ∀ (l : List VRes), (∀ a ∈ l, a.2.isSome = true) → visArgsL l = l.flatMap (·.1)
  | [], _ => rfl
  | (a, none) :: _, h => by have := h (a, none) (by simp); simp at this
  | (a, some t) :: rest, h => by
    unfold visArgsL
    rw [visArgsL_all rest (fun x hx => h x (by simp [hx]))]
    simp

theorem extLeaves_chain : ∀ (v : ExprValue) (rest : Option (Op × Expr)),
    (Expr.mk v rest).extLeaves = (v :: (chainTail rest).map (·.2)).flatMap ExprValue.extLeaves
  | v, none => by rw [extLeaves_last]; simp [chainTail]
  | v, some (o, .mk w rest) => by
    rw [extLeaves_more, extLeaves_chain w rest]
    simp [chainTail]

theorem visRest_eq (rg : RGlobals) (sc : Scope) : ∀ r, visRest rg sc r = (chainTail r).map fun x => (x.1, visV rg sc x.2)
  | none => by simp [visRest, chainTail]
  | some (o, .mk v rest) => by simp [visRest, chainTail, visRest_eq rg sc rest]

theorem visEs_eq (rg : RGlobals) (sc : Scope) : ∀ as, visEs rg sc as = as.map (visE rg sc)
  | [] => by simp [visEs]
  | e :: es => by simp [visEs, visEs_eq rg sc es]

theorem flatMap_vis (rg : RGlobals) (sc : Scope) : ∀ (args : List Expr),
    (∀ e ∈ args, visE rg sc e = (tagsOf e.extLeaves, (checkExpr rg sc e).2)) →
    (args.map (visE rg sc)).flatMap (·.1) = tagsOf (args.flatMap Expr.extLeaves)
  | [], _ => rfl
  | e :: es, h => by
    simp only [List.map_cons, List.flatMap_cons, tagsOf_append]
    rw [h e (by simp), flatMap_vis rg sc es (fun x hx => h x (by simp [hx]))]

mutual
theorem visLockE (rg : RGlobals) (sc : Scope) : ∀ e, (checkExpr rg sc e).1 = [] →
    visE rg sc e = (tagsOf e.extLeaves, (checkExpr rg sc e).2)
  | .mk v rest => by
    intro hq
    unfold checkExpr at hq ⊢
    unfold visE
    simp only [precTree] at hq ⊢
    rw [checkRest_eq, foldChain_map Generated.prio (checkVal rg sc)] at hq ⊢
    rw [visRest_eq, foldChain_map Generated.prio (visV rg sc)]
    have hat : ∀ a ∈ (foldChain Generated.prio v (chainTail rest)).atoms,
        NV (checkVal rg sc a) ∧ ((checkVal rg sc a).1 = [] → visV rg sc a = (tagsOf a.extLeaves, (checkVal rg sc a).2)) := by
      intro a ha
      rcases foldChain_atoms_subset Generated.prio v (chainTail rest) a ha with h | h
      · rw [h]; exact ⟨(lockV rg (.prim .none) sc default v).1, visLockV rg sc v⟩
      · simp at h
        obtain ⟨o, h⟩ := h
        exact ⟨(lockC rg (.prim .none) sc default rest o a h).1, visLockC rg sc rest o a h⟩
    rw [visTree_quiet (checkVal rg sc) (visV rg sc) (fun a => tagsOf a.extLeaves) _
      (fun a ha => (hat a ha).1) (fun a ha => (hat a ha).2) hq]
    rw [foldChain_atoms, extLeaves_chain]
    simp [tagsOf, List.map_flatMap]
theorem visLockC (rg : RGlobals) (sc : Scope) : ∀ r, ∀ o a, (o, a) ∈ chainTail r → (checkVal rg sc a).1 = [] →
    visV rg sc a = (tagsOf a.extLeaves, (checkVal rg sc a).2)
  | none => by intro o a h; simp [chainTail] at h
  | some (op, .mk v rest) => by
    intro o a h
    unfold chainTail at h
    simp at h
    rcases h with ⟨_, ha⟩ | h
    · rw [ha]; exact visLockV rg sc v
    · exact visLockC rg sc rest o a h
theorem visLockV (rg : RGlobals) (sc : Scope) : ∀ v, (checkVal rg sc v).1 = [] →
    visV rg sc v = (tagsOf v.extLeaves, (checkVal rg sc v).2)
  | .var n => by intro _; unfold visV checkVal ExprValue.extLeaves; rfl
  | .lit v => by intro _; unfold visV checkVal ExprValue.extLeaves; rfl
  | .field x a => by intro _; unfold visV checkVal ExprValue.extLeaves; rfl
  | .ext tag ty => by intro _; unfold visV checkVal ExprValue.extLeaves; rfl
  | .sub e => by intro hq; unfold checkVal at hq ⊢; unfold visV ExprValue.extLeaves; exact visLockE rg sc e hq
  | .call f args => by
    intro hq
    unfold checkVal at hq ⊢
    unfold visV ExprValue.extLeaves
    rw [checkExprs_eq] at hq ⊢
    have hargs := lockA rg (.prim .none) sc default args
    unfold checkCall at hq ⊢
    cases hf : rlookup f rg.funcs with
    | none => rw [hf] at hq; simp [eFail] at hq
    | some pr =>
      obtain ⟨ps, res⟩ := pr
      rw [hf] at hq
      dsimp only at hq ⊢
      split at hq
      · simp [eFail] at hq
      · rename_i hlen
        have hlen' : ¬ ps.length < args.length := by simpa using hlen
        rw [if_neg hlen']
        have hvs : checkArgs (args.map (checkExpr rg sc)) ps = [] := by
          split at hq <;> exact hq
        obtain ⟨_, q2⟩ := checkArgs_quiet _ ps (by
          intro a ha
          rw [List.mem_map] at ha
          obtain ⟨e, he, rfl⟩ := ha
          exact (hargs e he).1) (by simpa using Nat.le_of_not_lt hlen) hvs
        have hvis : ∀ e ∈ args, visE rg sc e = (tagsOf e.extLeaves, (checkExpr rg sc e).2) ∧ (checkExpr rg sc e).2.isSome = true := by
          intro e he
          have hqe := q2 _ (List.mem_map.mpr ⟨e, he, rfl⟩)
          refine ⟨visLockA rg sc args e he hqe, ?_⟩
          cases ht : (checkExpr rg sc e).2 with
          | some t => rfl
          | none => exact absurd hqe ((hargs e he).1 ht)
        have hall : ∀ a ∈ visEs rg sc args, a.2.isSome = true := by
          intro a ha
          rw [visEs_eq, List.mem_map] at ha
          obtain ⟨e, he, rfl⟩ := ha
          rw [(hvis e he).1]; exact (hvis e he).2
        rw [visArgsL_all _ hall, (List.all_eq_true.mpr (fun a ha => hall a ha) : ((visEs rg sc args).all fun x => x.2.isSome) = true)]
        rw [hvs, if_neg hlen]
        simp only [List.any_nil, Bool.false_eq_true, if_false, if_true]
        rw [visEs_eq, extLeavesL_eq, flatMap_vis rg sc args (fun e he => (hvis e he).1)]
theorem visLockA (rg : RGlobals) (sc : Scope) : ∀ (as : List Expr), ∀ e ∈ as, (checkExpr rg sc e).1 = [] →
    visE rg sc e = (tagsOf e.extLeaves, (checkExpr rg sc e).2)
  | [] => by intro e h; cases h
  | a :: as => by
    intro e h
    simp at h
    rcases h with rfl | h
    · exact visLockE rg sc e
    · exact visLockA rg sc as e h
end

/-! ### Statements: a quiet result means the statement's expression was quiet -/

def leavesOf (es : List Expr) : List Nat := tagsOf (es.flatMap Expr.extLeaves)

@[simp] theorem leavesOf_nil : leavesOf [] = [] := rfl
@[simp] theorem leavesOf_cons (e : Expr) (es : List Expr) : leavesOf (e :: es) = tagsOf e.extLeaves ++ leavesOf es := by
  simp [leavesOf, tagsOf_append]
@[simp] theorem leavesOf_append (a b : List Expr) : leavesOf (a ++ b) = leavesOf a ++ leavesOf b := by
  simp [leavesOf, tagsOf_append]

variable {rg : RGlobals} {R : Ty}

theorem visE_quiet {sc : Scope} {e : Expr} (h : (checkExpr rg sc e).1 = []) : (visE rg sc e).1 = tagsOf e.extLeaves := by
  rw [visLockE rg sc e h]

theorem let_quiet {b : LetB} {rs : RS} (hq : (checkLet rg b rs).viols = []) : (checkExpr rg rs.scope b.value).1 = [] := by
  unfold checkLet at hq
  cases hc : checkExpr rg rs.scope b.value with
  | mk vs t =>
    rw [hc] at hq
    cases t with
    | none => exact (add_nil hq).2
    | some t =>
      dsimp only at hq
      split at hq
      · simp [RS.viol, RS.add] at hq
      · simp [RS.add] at hq; exact hq.2

theorem bind_quiet {b : Bind} {rs : RS} (hq : (checkBind rg b rs).viols = []) : (checkExpr rg rs.scope b.value).1 = [] := by
  unfold checkBind at hq
  cases hc : checkExpr rg rs.scope b.value with
  | mk vs t =>
    rw [hc] at hq
    cases t with
    | none => exact (add_nil hq).2
    | some t =>
      dsimp only at hq
      split at hq
      · simp [RS.viol, RS.add] at hq
      · split at hq
        · simp [RS.viol, RS.add] at hq
        · split at hq
          · simp [RS.viol, RS.add] at hq
          · exact (add_nil hq).2

theorem nret_quiet {e : Expr} {rs : RS} (hq : (checkNestedRet rg R e rs).1.viols = []) : (checkExpr rg rs.scope e).1 = [] := by
  unfold checkNestedRet at hq
  cases hc : checkExpr rg rs.scope e with
  | mk vs t =>
    rw [hc] at hq
    cases t with
    | none => exact (add_nil hq).2
    | some t =>
      dsimp only at hq
      split at hq <;> split at hq <;> simp [RS.add] at hq <;> simp [hq]

theorem fnret_quiet {e : Expr} {rc : Bool} {rs : RS} (hq : (checkFnRet rg R e rc rs).1.viols = []) :
    (checkExpr rg rs.scope e).1 = [] := by
  unfold checkFnRet at hq
  dsimp only at hq
  have x1 : RExt (rs.add (checkExpr rg rs.scope e).1)
      (if rc = true then (rs.add (checkExpr rg rs.scope e).1).viol "B12-twice" .returnAlreadyCalled e.show
        else rs.add (checkExpr rg rs.scope e).1) := by
    split
    · exact rext_viol _ _ _ _
    · exact RExt.refl _
  generalize (if rc = true then (rs.add (checkExpr rg rs.scope e).1).viol "B12-twice" .returnAlreadyCalled e.show
        else rs.add (checkExpr rg rs.scope e).1) = s1 at hq x1
  cases ht : (checkExpr rg rs.scope e).2 with
  | none =>
    rw [ht] at hq
    exact (add_nil (nil_of_rext x1 hq)).2
  | some t =>
    rw [ht] at hq
    dsimp only at hq
    exact (add_nil (nil_of_rext x1 (nil_of_rext (rext_checkFnRetTail R e t s1) hq))).2

theorem vis_callS {c : CallS} {rs : RS} (hq : (checkCallS rg c rs).viols = []) : visCallS rg rs.scope c = leavesOf c.args := by
  unfold checkCallS at hq
  have h := visLockV rg rs.scope (.call c.name c.args) (by unfold checkVal; exact (add_nil hq).2)
  unfold visCallS
  rw [h]
  unfold ExprValue.extLeaves
  rw [extLeavesL_eq]
  rfl

theorem vis_logic (sc : Scope) : ∀ (lc : LogicCond), checkLogic rg sc lc = [] → visLogic rg sc lc = leavesOf lc.exprs
  | .mk c right, hq => by
    unfold checkLogic at hq
    unfold visLogic
    have hl := visLockE rg sc c.left
    have hr := visLockE rg sc c.right
    cases hcl : checkExpr rg sc c.left with
    | mk vl tl =>
      cases hcr : checkExpr rg sc c.right with
      | mk vr tr =>
        rw [hcl] at hl
        rw [hcr] at hr
        simp only [hcl, hcr] at hq
        cases tl with
        | none => simp at hq
        | some tl =>
          cases tr with
          | none => simp at hq
          | some tr =>
            dsimp only at hq
            split at hq
            · simp at hq
            · rename_i heq
              split at hq
              · simp at hq
              · rename_i hprim
                cases right with
                | none =>
                  dsimp only at hq
                  rw [List.append_eq_nil_iff] at hq
                  dsimp only
                  rw [hl hq.1, hr hq.2]
                  simp [LogicCond.exprs]
                | some p =>
                  obtain ⟨lg, rc⟩ := p
                  dsimp only at hq
                  rw [List.append_eq_nil_iff, List.append_eq_nil_iff] at hq
                  dsimp only
                  rw [hl hq.1.1, hr hq.1.2]
                  dsimp only
                  have hc : (tl = tr && tl.isPrim) = true := by
                    simp at heq hprim
                    subst heq
                    simp [hprim]
                  rw [if_pos hc, vis_logic sc rc hq.2]
                  simp [LogicCond.exprs]

theorem vis_ifCond {c : IfCond} {rs : RS} (hq : (checkIfCond rg c rs).viols = []) : visIfCond rg rs.scope c = leavesOf c.exprs := by
  unfold checkIfCond at hq
  unfold visIfCond
  cases c with
  | single e =>
    dsimp only at hq ⊢
    rw [visE_quiet (add_nil hq).2]
    simp [IfCond.exprs]
  | logic lc =>
    dsimp only at hq ⊢
    rw [vis_logic _ lc (add_nil hq).2]
    rfl

/-! ### The checker's scope: blocks are balanced, a quiet `let` declares what the visit declares -/

theorem codeAfter_scope (rc bc cc : Bool) (rs : RS) : (codeAfter rc bc cc rs).scope = rs.scope := by
  unfold codeAfter
  cases rc <;> cases bc <;> cases cc <;> rfl

theorem declare_tail (sc : Scope) (n : Name) (t : Ty) (m : Bool) : (sc.declare n t m).tail = sc.tail := by
  cases sc <;> rfl

theorem let_tail (b : LetB) (rs : RS) : (checkLet rg b rs).scope.tail = rs.scope.tail := by
  unfold checkLet
  cases checkExpr rg rs.scope b.value with
  | mk vs t =>
    cases t with
    | none => rfl
    | some t =>
      dsimp only
      split
      · rfl
      · exact declare_tail _ _ _ _

theorem bind_scope (b : Bind) (rs : RS) : (checkBind rg b rs).scope = rs.scope := by
  unfold checkBind
  split
  · rfl
  · dsimp only
    split
    · rfl
    · split
      · rfl
      · split <;> rfl

theorem callS_scope (c : CallS) (rs : RS) : (checkCallS rg c rs).scope = rs.scope := rfl

theorem ifCond_scope (c : IfCond) (rs : RS) : (checkIfCond rg c rs).scope = rs.scope := by
  unfold checkIfCond
  cases c <;> rfl

theorem nret_scope (e : Expr) (rs : RS) : (checkNestedRet rg R e rs).1.scope = rs.scope := by
  unfold checkNestedRet
  cases checkExpr rg rs.scope e with
  | mk vs t =>
    cases t with
    | none => rfl
    | some t =>
      dsimp only
      split <;> split <;> rfl

theorem fnret_scope (e : Expr) (rc : Bool) (rs : RS) : (checkFnRet rg R e rc rs).1.scope = rs.scope := by
  unfold checkFnRet
  dsimp only
  cases rc <;> (
    cases (checkExpr rg rs.scope e).2 with
    | none => rfl
    | some t =>
      dsimp only
      unfold checkFnRetTail
      dsimp only
      split <;> split <;> rfl)

theorem let_scope_quiet {b : LetB} {rs : RS} (hq : (checkLet rg b rs).viols = []) :
    (checkLet rg b rs).scope = visLetSc rg rs.scope b := by
  have hv := visLockE rg rs.scope b.value (let_quiet hq)
  unfold checkLet at hq ⊢
  unfold visLetSc
  rw [hv]
  cases hc : checkExpr rg rs.scope b.value with
  | mk vs t =>
    rw [hc] at hq
    cases t with
    | none => rfl
    | some t =>
      dsimp only at hq ⊢
      split
      · rfl
      · rfl

mutual
theorem sc_if : ∀ (i : IfStmt) (rs : RS), (checkIf rg R i rs).scope = rs.scope
  | .mk cond body els elif, rs => by
    unfold checkIf
    dsimp only
    have h0 : (if (els.isSome && elif.isSome) = true then rs.viol "B10" .ifElseDuplicated "if-condition".toList else rs).scope = rs.scope := by
      split <;> rfl
    generalize (if (els.isSome && elif.isSome) = true then rs.viol "B10" .ifElseDuplicated "if-condition".toList else rs) = s0 at h0 ⊢
    have h1 : (checkBodies rg R body (checkIfCond rg cond s0.push)).pop.scope = rs.scope := by
      show (checkBodies rg R body (checkIfCond rg cond s0.push)).scope.tail = rs.scope
      rw [tl_bodies body _, ifCond_scope]
      exact h0
    generalize (checkBodies rg R body (checkIfCond rg cond s0.push)).pop = s1 at h1 ⊢
    cases els with
    | some eb =>
      dsimp only
      show (checkBodies rg R eb s1.push).scope.tail = rs.scope
      rw [tl_bodies eb _]
      exact h1
    | none =>
      cases elif with
      | some ei =>
        dsimp only
        rw [sc_if ei s1, h1]
      | none => exact h1
theorem tl_bodies : ∀ (b : IfBodies) (rs : RS), (checkBodies rg R b rs).scope.tail = rs.scope.tail
  | .ifb l, rs => by unfold checkBodies; exact tl_ifBody l false rs
  | .loopb l, rs => by unfold checkBodies; exact tl_ifLoopBody l false false false rs
theorem tl_ifBody : ∀ (l : List IfBodyStmt) (rc : Bool) (rs : RS), (checkIfBody rg R l rc rs).scope.tail = rs.scope.tail
  | [], _, rs => by unfold checkIfBody; rfl
  | st :: tl, rc, rs => by
    unfold checkIfBody
    dsimp only
    cases st with
    | letB b =>
      dsimp only
      rw [tl_ifBody tl rc _, let_tail, codeAfter_scope]
    | bind b =>
      dsimp only
      rw [tl_ifBody tl rc _, bind_scope, codeAfter_scope]
    | call c =>
      dsimp only
      rw [tl_ifBody tl rc _, callS_scope, codeAfter_scope]
    | ifS i =>
      dsimp only
      rw [tl_ifBody tl rc _, sc_if i _, codeAfter_scope]
    | loop b =>
      dsimp only
      rw [tl_ifBody tl rc _]
      show (checkLoopBody rg R b false false false (codeAfter rc false false rs).push).scope.tail.tail = rs.scope.tail
      rw [tl_loopBody b false false false _]
      show (codeAfter rc false false rs).scope.tail = rs.scope.tail
      rw [codeAfter_scope]
    | ret e =>
      dsimp only
      have h1 := nret_scope (rg := rg) (R := R) e (codeAfter rc false false rs)
      generalize checkNestedRet rg R e (codeAfter rc false false rs) = q at h1 ⊢
      obtain ⟨s1, r⟩ := q
      dsimp only at h1 ⊢
      rw [tl_ifBody tl (rc || r) s1, h1, codeAfter_scope]
theorem tl_ifLoopBody : ∀ (l : List IfLoopStmt) (rc bc cc : Bool) (rs : RS), (checkIfLoopBody rg R l rc bc cc rs).scope.tail = rs.scope.tail
  | [], _, _, _, rs => by unfold checkIfLoopBody; rfl
  | st :: tl, rc, bc, cc, rs => by
    unfold checkIfLoopBody
    dsimp only
    cases st with
    | letB b =>
      dsimp only
      rw [tl_ifLoopBody tl rc bc cc _, let_tail, codeAfter_scope]
    | bind b =>
      dsimp only
      rw [tl_ifLoopBody tl rc bc cc _, bind_scope, codeAfter_scope]
    | call c =>
      dsimp only
      rw [tl_ifLoopBody tl rc bc cc _, callS_scope, codeAfter_scope]
    | ifS i =>
      dsimp only
      rw [tl_ifLoopBody tl rc bc cc _, sc_if i _, codeAfter_scope]
    | loop b =>
      dsimp only
      rw [tl_ifLoopBody tl rc bc cc _]
      show (checkLoopBody rg R b false false false (codeAfter rc bc cc rs).push).scope.tail.tail = rs.scope.tail
      rw [tl_loopBody b false false false _]
      show (codeAfter rc bc cc rs).scope.tail = rs.scope.tail
      rw [codeAfter_scope]
    | ret e =>
      dsimp only
      have h1 := nret_scope (rg := rg) (R := R) e (codeAfter rc bc cc rs)
      generalize checkNestedRet rg R e (codeAfter rc bc cc rs) = q at h1 ⊢
      obtain ⟨s1, r⟩ := q
      dsimp only at h1 ⊢
      rw [tl_ifLoopBody tl (rc || r) bc cc s1, h1, codeAfter_scope]
    | brk =>
      dsimp only
      rw [tl_ifLoopBody tl rc true cc _, codeAfter_scope]
    | cont =>
      dsimp only
      rw [tl_ifLoopBody tl rc bc true _, codeAfter_scope]
theorem tl_loopBody : ∀ (l : List LoopStmt) (rc bc cc : Bool) (rs : RS), (checkLoopBody rg R l rc bc cc rs).scope.tail = rs.scope.tail
  | [], _, _, _, rs => by unfold checkLoopBody; rfl
  | st :: tl, rc, bc, cc, rs => by
    unfold checkLoopBody
    dsimp only
    cases st with
    | letB b =>
      dsimp only
      rw [tl_loopBody tl rc bc cc _, let_tail, codeAfter_scope]
    | bind b =>
      dsimp only
      rw [tl_loopBody tl rc bc cc _, bind_scope, codeAfter_scope]
    | call c =>
      dsimp only
      rw [tl_loopBody tl rc bc cc _, callS_scope, codeAfter_scope]
    | ifS i =>
      dsimp only
      rw [tl_loopBody tl rc bc cc _, sc_if i _, codeAfter_scope]
    | loop b =>
      dsimp only
      rw [tl_loopBody tl rc bc cc _]
      show (checkLoopBody rg R b false false false (codeAfter rc bc cc rs).push).scope.tail.tail = rs.scope.tail
      rw [tl_loopBody b false false false _]
      show (codeAfter rc bc cc rs).scope.tail = rs.scope.tail
      rw [codeAfter_scope]
    | ret e =>
      dsimp only
      have h1 := nret_scope (rg := rg) (R := R) e (codeAfter rc bc cc rs)
      generalize checkNestedRet rg R e (codeAfter rc bc cc rs) = q at h1 ⊢
      obtain ⟨s1, r⟩ := q
      dsimp only at h1 ⊢
      rw [tl_loopBody tl (rc || r) bc cc s1, h1, codeAfter_scope]
    | brk =>
      dsimp only
      rw [tl_loopBody tl rc true cc _, codeAfter_scope]
    | cont =>
      dsimp only
      rw [tl_loopBody tl rc bc true _, codeAfter_scope]
end

theorem loop_scope (b : List LoopStmt) (rs : RS) : (checkLoopBody rg R b false false false rs.push).pop.scope = rs.scope := by
  show (checkLoopBody rg R b false false false rs.push).scope.tail = rs.scope
  rw [tl_loopBody]
  rfl

/-! ### Control constructs -/

mutual
theorem vl_if : ∀ (i : IfStmt) (rs : RS) (sc : Scope), rs.scope = sc →
    (checkIf rg R i rs).viols = [] → visIf rg i sc = leavesOf i.exprs
  | .mk cond body els elif, rs, sc, hsc, hq => by
    unfold checkIf at hq
    unfold visIf IfStmt.exprs
    dsimp only at hq ⊢
    have h0 : (if (els.isSome && elif.isSome) = true then rs.viol "B10" .ifElseDuplicated "if-condition".toList else rs).scope = sc := by
      split
      · exact hsc
      · exact hsc
    generalize (if (els.isSome && elif.isSome) = true then rs.viol "B10" .ifElseDuplicated "if-condition".toList else rs) = s0 at hq h0 ⊢
    have x1 := rext_checkIfCond rg cond s0.push
    have x2 := rext_checkBodies rg R body (checkIfCond rg cond s0.push)
    have q3 : (checkBodies rg R body (checkIfCond rg cond s0.push)).pop.viols = [] := by
      cases els with
      | some eb => dsimp only at hq; exact nil_of_rext (rext_pushpop (rext_checkBodies rg R eb)) hq
      | none =>
        cases elif with
        | some ei => dsimp only at hq; exact nil_of_rext (rext_checkIf rg R ei _) hq
        | none => exact hq
    have q2 : (checkBodies rg R body (checkIfCond rg cond s0.push)).viols = [] := q3
    have q1 : (checkIfCond rg cond s0.push).viols = [] := nil_of_rext x2 q2
    have hp : s0.push.scope = [] :: sc := by show [] :: _ = [] :: sc; rw [h0]
    have hc := vis_ifCond (rg := rg) q1
    rw [hp] at hc
    have hs1 : (checkBodies rg R body (checkIfCond rg cond s0.push)).pop.scope = sc := by
      show (checkBodies rg R body (checkIfCond rg cond s0.push)).scope.tail = sc
      rw [tl_bodies body _, ifCond_scope, hp]
      rfl
    rw [hc, vl_bodies body _ ([] :: sc) ((ifCond_scope cond _).trans hp) q2]
    cases els with
    | some eb =>
      dsimp only at hq ⊢
      rw [vl_bodies eb _ ([] :: sc) (by show [] :: _ = [] :: sc; rw [hs1]) hq]
      simp
    | none =>
      cases elif with
      | some ei =>
        dsimp only at hq ⊢
        rw [vl_if ei _ sc hs1 hq]
        simp
      | none => simp
theorem vl_bodies : ∀ (b : IfBodies) (rs : RS) (sc : Scope), rs.scope = sc →
    (checkBodies rg R b rs).viols = [] → visBodies rg b sc = leavesOf b.exprs
  | .ifb l, rs, sc, hsc, hq => by
    unfold checkBodies at hq
    unfold visBodies IfBodies.exprs
    exact vl_ifBody l false rs sc hsc hq
  | .loopb l, rs, sc, hsc, hq => by
    unfold checkBodies at hq
    unfold visBodies IfBodies.exprs
    exact vl_ifLoopBody l false false false rs sc hsc hq
theorem vl_ifBody : ∀ (l : List IfBodyStmt) (rc : Bool) (rs : RS) (sc : Scope), rs.scope = sc →
    (checkIfBody rg R l rc rs).viols = [] → visIfBody rg l sc = leavesOf (IfBodyStmt.exprsL l)
  | [], _, rs, sc, _, _ => by unfold visIfBody IfBodyStmt.exprsL; rfl
  | st :: tl, rc, rs, sc, hsc, hq => by
    unfold checkIfBody at hq
    dsimp only at hq
    have hca : (codeAfter rc false false rs).scope = sc := by rw [codeAfter_scope]; exact hsc
    cases st with
    | letB b =>
      unfold visIfBody IfBodyStmt.exprsL
      dsimp only at hq ⊢
      have q1 := nil_of_rext (rext_checkIfBody rg R tl rc _) hq
      rw [← hca, visE_quiet (let_quiet q1), vl_ifBody tl rc _ _ (let_scope_quiet q1) hq, leavesOf_cons]
    | bind b =>
      unfold visIfBody IfBodyStmt.exprsL
      dsimp only at hq ⊢
      have q1 := nil_of_rext (rext_checkIfBody rg R tl rc _) hq
      rw [← hca, visE_quiet (bind_quiet q1), vl_ifBody tl rc _ _ (bind_scope b _) hq, leavesOf_cons]
    | call c =>
      unfold visIfBody IfBodyStmt.exprsL
      dsimp only at hq ⊢
      have q1 := nil_of_rext (rext_checkIfBody rg R tl rc _) hq
      rw [← hca, vis_callS q1, vl_ifBody tl rc _ _ (callS_scope c _) hq, leavesOf_append]
    | ifS i =>
      unfold visIfBody IfBodyStmt.exprsL
      dsimp only at hq ⊢
      have q1 := nil_of_rext (rext_checkIfBody rg R tl rc _) hq
      rw [vl_if i _ sc hca q1, vl_ifBody tl rc _ sc ((sc_if i _).trans hca) hq, leavesOf_append]
    | loop b =>
      unfold visIfBody IfBodyStmt.exprsL
      dsimp only at hq ⊢
      have q1 := nil_of_rext (rext_checkIfBody rg R tl rc _) hq
      rw [vl_loopBody b false false false _ ([] :: sc) (by show [] :: _ = [] :: sc; rw [hca]) q1,
        vl_ifBody tl rc _ sc ((loop_scope b _).trans hca) hq, leavesOf_append]
    | ret e =>
      unfold visIfBody IfBodyStmt.exprsL
      dsimp only at hq ⊢
      have h1 := fun hv => nret_quiet (rg := rg) (R := R) (e := e) (rs := codeAfter rc false false rs) hv
      have h2 := nret_scope (rg := rg) (R := R) e (codeAfter rc false false rs)
      generalize checkNestedRet rg R e (codeAfter rc false false rs) = q at hq h1 h2 ⊢
      obtain ⟨s1, r⟩ := q
      dsimp only at hq h1 h2 ⊢
      rw [← hca, visE_quiet (h1 (nil_of_rext (rext_checkIfBody rg R tl (rc || r) s1) hq)),
        vl_ifBody tl (rc || r) s1 _ h2 hq, leavesOf_cons]
theorem vl_ifLoopBody : ∀ (l : List IfLoopStmt) (rc bc cc : Bool) (rs : RS) (sc : Scope), rs.scope = sc →
    (checkIfLoopBody rg R l rc bc cc rs).viols = [] → visIfLoopBody rg l sc = leavesOf (IfLoopStmt.exprsL l)
  | [], _, _, _, rs, sc, _, _ => by unfold visIfLoopBody IfLoopStmt.exprsL; rfl
  | st :: tl, rc, bc, cc, rs, sc, hsc, hq => by
    unfold checkIfLoopBody at hq
    dsimp only at hq
    have hca : (codeAfter rc bc cc rs).scope = sc := by rw [codeAfter_scope]; exact hsc
    cases st with
    | letB b =>
      unfold visIfLoopBody IfLoopStmt.exprsL
      dsimp only at hq ⊢
      have q1 := nil_of_rext (rext_checkIfLoopBody rg R tl rc bc cc _) hq
      rw [← hca, visE_quiet (let_quiet q1), vl_ifLoopBody tl rc bc cc _ _ (let_scope_quiet q1) hq, leavesOf_cons]
    | bind b =>
      unfold visIfLoopBody IfLoopStmt.exprsL
      dsimp only at hq ⊢
      have q1 := nil_of_rext (rext_checkIfLoopBody rg R tl rc bc cc _) hq
      rw [← hca, visE_quiet (bind_quiet q1), vl_ifLoopBody tl rc bc cc _ _ (bind_scope b _) hq, leavesOf_cons]
    | call c =>
      unfold visIfLoopBody IfLoopStmt.exprsL
      dsimp only at hq ⊢
      have q1 := nil_of_rext (rext_checkIfLoopBody rg R tl rc bc cc _) hq
      rw [← hca, vis_callS q1, vl_ifLoopBody tl rc bc cc _ _ (callS_scope c _) hq, leavesOf_append]
    | ifS i =>
      unfold visIfLoopBody IfLoopStmt.exprsL
      dsimp only at hq ⊢
      have q1 := nil_of_rext (rext_checkIfLoopBody rg R tl rc bc cc _) hq
      rw [vl_if i _ sc hca q1, vl_ifLoopBody tl rc bc cc _ sc ((sc_if i _).trans hca) hq, leavesOf_append]
    | loop b =>
      unfold visIfLoopBody IfLoopStmt.exprsL
      dsimp only at hq ⊢
      have q1 := nil_of_rext (rext_checkIfLoopBody rg R tl rc bc cc _) hq
      rw [vl_loopBody b false false false _ ([] :: sc) (by show [] :: _ = [] :: sc; rw [hca]) q1,
        vl_ifLoopBody tl rc bc cc _ sc ((loop_scope b _).trans hca) hq, leavesOf_append]
    | ret e =>
      unfold visIfLoopBody IfLoopStmt.exprsL
      dsimp only at hq ⊢
      have h1 := fun hv => nret_quiet (rg := rg) (R := R) (e := e) (rs := codeAfter rc bc cc rs) hv
      have h2 := nret_scope (rg := rg) (R := R) e (codeAfter rc bc cc rs)
      generalize checkNestedRet rg R e (codeAfter rc bc cc rs) = q at hq h1 h2 ⊢
      obtain ⟨s1, r⟩ := q
      dsimp only at hq h1 h2 ⊢
      rw [← hca, visE_quiet (h1 (nil_of_rext (rext_checkIfLoopBody rg R tl (rc || r) bc cc s1) hq)),
        vl_ifLoopBody tl (rc || r) bc cc s1 _ h2 hq, leavesOf_cons]
    | brk =>
      unfold visIfLoopBody IfLoopStmt.exprsL
      exact vl_ifLoopBody tl rc true cc _ sc hca hq
    | cont =>
      unfold visIfLoopBody IfLoopStmt.exprsL
      exact vl_ifLoopBody tl rc bc true _ sc hca hq
theorem vl_loopBody : ∀ (l : List LoopStmt) (rc bc cc : Bool) (rs : RS) (sc : Scope), rs.scope = sc →
    (checkLoopBody rg R l rc bc cc rs).viols = [] → visLoopBody rg l sc = leavesOf (LoopStmt.exprsL l)
  | [], _, _, _, rs, sc, _, _ => by unfold visLoopBody LoopStmt.exprsL; rfl
  | st :: tl, rc, bc, cc, rs, sc, hsc, hq => by
    unfold checkLoopBody at hq
    dsimp only at hq
    have hca : (codeAfter rc bc cc rs).scope = sc := by rw [codeAfter_scope]; exact hsc
    cases st with
    | letB b =>
      unfold visLoopBody LoopStmt.exprsL
      dsimp only at hq ⊢
      have q1 := nil_of_rext (rext_checkLoopBody rg R tl rc bc cc _) hq
      rw [← hca, visE_quiet (let_quiet q1), vl_loopBody tl rc bc cc _ _ (let_scope_quiet q1) hq, leavesOf_cons]
    | bind b =>
      unfold visLoopBody LoopStmt.exprsL
      dsimp only at hq ⊢
      have q1 := nil_of_rext (rext_checkLoopBody rg R tl rc bc cc _) hq
      rw [← hca, visE_quiet (bind_quiet q1), vl_loopBody tl rc bc cc _ _ (bind_scope b _) hq, leavesOf_cons]
    | call c =>
      unfold visLoopBody LoopStmt.exprsL
      dsimp only at hq ⊢
      have q1 := nil_of_rext (rext_checkLoopBody rg R tl rc bc cc _) hq
      rw [← hca, vis_callS q1, vl_loopBody tl rc bc cc _ _ (callS_scope c _) hq, leavesOf_append]
    | ifS i =>
      unfold visLoopBody LoopStmt.exprsL
      dsimp only at hq ⊢
      have q1 := nil_of_rext (rext_checkLoopBody rg R tl rc bc cc _) hq
      rw [vl_if i _ sc hca q1, vl_loopBody tl rc bc cc _ sc ((sc_if i _).trans hca) hq, leavesOf_append]
    | loop b =>
      unfold visLoopBody LoopStmt.exprsL
      dsimp only at hq ⊢
      have q1 := nil_of_rext (rext_checkLoopBody rg R tl rc bc cc _) hq
      rw [vl_loopBody b false false false _ ([] :: sc) (by show [] :: _ = [] :: sc; rw [hca]) q1,
        vl_loopBody tl rc bc cc _ sc ((loop_scope b _).trans hca) hq, leavesOf_append]
    | ret e =>
      unfold visLoopBody LoopStmt.exprsL
      dsimp only at hq ⊢
      have h1 := fun hv => nret_quiet (rg := rg) (R := R) (e := e) (rs := codeAfter rc bc cc rs) hv
      have h2 := nret_scope (rg := rg) (R := R) e (codeAfter rc bc cc rs)
      generalize checkNestedRet rg R e (codeAfter rc bc cc rs) = q at hq h1 h2 ⊢
      obtain ⟨s1, r⟩ := q
      dsimp only at hq h1 h2 ⊢
      rw [← hca, visE_quiet (h1 (nil_of_rext (rext_checkLoopBody rg R tl (rc || r) bc cc s1) hq)),
        vl_loopBody tl (rc || r) bc cc s1 _ h2 hq, leavesOf_cons]
    | brk =>
      unfold visLoopBody LoopStmt.exprsL
      exact vl_loopBody tl rc true cc _ sc hca hq
    | cont =>
      unfold visLoopBody LoopStmt.exprsL
      exact vl_loopBody tl rc bc true _ sc hca hq
end

/-! ### Function level -/

theorem vl_body : ∀ (l : List BodyStmt) (rc : Bool) (rs : RS) (sc : Scope), rs.scope = sc →
    (checkBody rg R l rc rs).1.viols = [] → visBody rg l sc = leavesOf (BodyStmt.exprsL l)
  | [], _, rs, sc, _, _ => by unfold visBody BodyStmt.exprsL; rfl
  | st :: tl, rc, rs, sc, hsc, hq => by
    unfold checkBody at hq
    dsimp only at hq
    have hca : (if rc = true then rs.viol "B12-after" .forbiddenCodeAfterReturnDeprecated wildcard else rs).scope = sc := by
      split
      · exact hsc
      · exact hsc
    generalize (if rc = true then rs.viol "B12-after" .forbiddenCodeAfterReturnDeprecated wildcard else rs) = s0 at hq hca
    cases st with
    | letB b =>
      unfold visBody BodyStmt.exprsL
      dsimp only at hq ⊢
      have q1 := nil_of_rext (rext_checkBody R tl rc _) hq
      rw [← hca, visE_quiet (let_quiet q1), vl_body tl rc _ _ (let_scope_quiet q1) hq, leavesOf_cons]
    | bind b =>
      unfold visBody BodyStmt.exprsL
      dsimp only at hq ⊢
      have q1 := nil_of_rext (rext_checkBody R tl rc _) hq
      rw [← hca, visE_quiet (bind_quiet q1), vl_body tl rc _ _ (bind_scope b _) hq, leavesOf_cons]
    | call c =>
      unfold visBody BodyStmt.exprsL
      dsimp only at hq ⊢
      have q1 := nil_of_rext (rext_checkBody R tl rc _) hq
      rw [← hca, vis_callS q1, vl_body tl rc _ _ (callS_scope c _) hq, leavesOf_append]
    | ifS i =>
      unfold visBody BodyStmt.exprsL
      dsimp only at hq ⊢
      have q1 := nil_of_rext (rext_checkBody R tl rc _) hq
      rw [vl_if i _ sc hca q1, vl_body tl rc _ sc ((sc_if i _).trans hca) hq, leavesOf_append]
    | loop b =>
      unfold visBody BodyStmt.exprsL
      dsimp only at hq ⊢
      have q1 := nil_of_rext (rext_checkBody R tl rc _) hq
      rw [vl_loopBody b false false false _ ([] :: sc) (by show [] :: _ = [] :: sc; rw [hca]) q1,
        vl_body tl rc _ sc ((loop_scope b _).trans hca) hq, leavesOf_append]
    | expr e =>
      unfold visBody BodyStmt.exprsL
      dsimp only at hq ⊢
      have h1 := fun hv => fnret_quiet (rg := rg) (R := R) (e := e) (rc := rc) (rs := s0) hv
      have h2 := fnret_scope (rg := rg) (R := R) e rc s0
      generalize checkFnRet rg R e rc s0 = q at hq h1 h2 ⊢
      obtain ⟨s1, r⟩ := q
      dsimp only at hq h1 h2 ⊢
      rw [← hca, visE_quiet (h1 (nil_of_rext (rext_checkBody R tl r s1) hq)), vl_body tl r s1 _ h2 hq, leavesOf_cons]
    | ret e =>
      unfold visBody BodyStmt.exprsL
      dsimp only at hq ⊢
      have h1 := fun hv => fnret_quiet (rg := rg) (R := R) (e := e) (rc := rc) (rs := s0) hv
      have h2 := fnret_scope (rg := rg) (R := R) e rc s0
      generalize checkFnRet rg R e rc s0 = q at hq h1 h2 ⊢
      obtain ⟨s1, r⟩ := q
      dsimp only at hq h1 h2 ⊢
      rw [← hca, visE_quiet (h1 (nil_of_rext (rext_checkBody R tl r s1) hq)), vl_body tl r s1 _ h2 hq, leavesOf_cons]

/-- in a function on which the rule checker reports nothing, the leaves the analysis evaluates are
all the extension leaves of the function, each once, in evaluation order -/
theorem vl_fn (rg : RGlobals) (f : FnDecl) (hq : checkFn rg f = []) : visFn rg f = f.extLeaves.map (·.1) := by
  unfold checkFn at hq
  dsimp only at hq
  unfold visFn
  have h2 := fun hv => vl_body (rg := rg) (R := f.result.toTy) f.body false
    (checkParams f.params { scope := [[]], viols := [] }) _ rfl hv
  generalize checkBody rg f.result.toTy f.body false (checkParams f.params { scope := [[]], viols := [] }) = q at hq h2
  obtain ⟨s2, rc⟩ := q
  dsimp only at hq h2
  have q2 : s2.viols = [] := by
    cases rc
    · simp [RS.viol, RS.add] at hq
    · exact hq
  rw [h2 q2]
  rfl

end SemVerif
