import SemVerif.Fold
/-! # Lemmas/FoldMap — the precedence fold commutes with mapping the operands (it never looks at them) -/
namespace SemVerif

variable {α β : Type} (prio : Op → Nat) (f : α → β)

theorem popWhile_map (p : Nat) : ∀ (os : List Op) (vs : List (W α)),
    popWhile prio p (vs.map (W.map f)) os = ((popWhile prio p vs os).1.map (W.map f), (popWhile prio p vs os).2) := by
  intro os
  induction os with
  | nil => intro vs; cases vs with
    | nil => simp [popWhile]
    | cons r vs => cases vs <;> simp [popWhile]
  | cons o os ih =>
    intro vs
    match vs with
    | [] => simp [popWhile]
    | [r] => simp [popWhile]
    | r :: l :: vs =>
      simp only [List.map_cons, popWhile]
      split
      · have := ih (W.pair l o r :: vs)
        simp only [List.map_cons, W.map] at this
        rw [this]
      · simp

theorem foldStep_map (st : List (W α) × List Op) (x : Op × α) :
    foldStep prio (st.1.map (W.map f), st.2) (x.1, f x.2) =
      ((foldStep prio st x).1.map (W.map f), (foldStep prio st x).2) := by
  simp [foldStep, popWhile_map, W.map]

theorem foldl_map (rest : List (Op × α)) : ∀ (st : List (W α) × List Op),
    (rest.map fun x => (x.1, f x.2)).foldl (foldStep prio) (st.1.map (W.map f), st.2) =
      ((rest.foldl (foldStep prio) st).1.map (W.map f), (rest.foldl (foldStep prio) st).2) := by
  induction rest with
  | nil => intro st; rfl
  | cons x tl ih =>
    intro st
    simp only [List.map_cons, List.foldl_cons]
    rw [foldStep_map, ih]

/-- naturality of the fold -/
theorem foldChain_map (v0 : α) (rest : List (Op × α)) :
    foldChain prio (f v0) (rest.map fun x => (x.1, f x.2)) = (foldChain prio v0 rest).map f := by
  unfold foldChain
  simp only
  have h := foldl_map prio f rest ([W.atom v0], [])
  simp only [List.map_cons, List.map_nil, W.map] at h
  rw [h, popWhile_map]
  simp only
  generalize (popWhile prio 0 (List.foldl (foldStep prio) ([W.atom v0], []) rest).1
    (List.foldl (foldStep prio) ([W.atom v0], []) rest).2).1 = r
  cases r <;> simp [List.headD, W.map]

end SemVerif
