import SemVerif.Spec.RuleSet
import SemVerif.Props.C07
/-!
# Lemmas/SpecTree — the independent reference tree is the fold's tree

`specTree` (DESIGN §3.5: the root is the rightmost operator of minimal priority, recursively on both
sides) has the chain's in-order token sequence and satisfies the priority constraints; by the
uniqueness theorem of C07 it is therefore equal to the tree of the operator-stack fold, for every
priority table, operand type and chain length.
-/
namespace SemVerif

theorem foldl_min_le (l : List Nat) : ∀ (a : Nat), l.foldl Nat.min a ≤ a ∧ ∀ x ∈ l, l.foldl Nat.min a ≤ x := by
  induction l with
  | nil => intro a; exact ⟨Nat.le_refl _, fun _ h => by cases h⟩
  | cons y ys ih =>
    intro a
    simp only [List.foldl_cons]
    obtain ⟨h1, h2⟩ := ih (Nat.min a y)
    refine ⟨Nat.le_trans h1 (Nat.min_le_left _ _), ?_⟩
    intro x hx
    rcases List.mem_cons.mp hx with rfl | hx
    · exact Nat.le_trans h1 (Nat.min_le_right _ _)
    · exact h2 x hx

theorem foldl_min_mem (l : List Nat) : ∀ (a : Nat), l.foldl Nat.min a = a ∨ l.foldl Nat.min a ∈ l := by
  induction l with
  | nil => intro a; exact Or.inl rfl
  | cons y ys ih =>
    intro a
    simp only [List.foldl_cons]
    rcases ih (Nat.min a y) with h | h
    · rw [h]
      rcases Nat.le_total a y with hle | hle
      · left
        have : Nat.min a y = a := Nat.min_eq_left hle
        exact this
      · right
        have : Nat.min a y = y := Nat.min_eq_right hle
        rw [this]; simp
    · right; exact List.mem_cons_of_mem _ h

/-- position of the rightmost minimal entry of a non-empty list -/
def rmin (ps : List Nat) : Nat :=
  (ps.length - 1) - ((ps.reverse.findIdx? (· == ps.foldl Nat.min (ps.headD 0))).getD 0)

theorem rmin_spec (ps : List Nat) (hne : ps ≠ []) :
    ∃ h : rmin ps < ps.length, (∀ x ∈ ps, ps[rmin ps] ≤ x) ∧ ∀ i (hi : i < ps.length), rmin ps < i → ps[rmin ps] < ps[i] := by
  generalize hm : ps.foldl Nat.min (ps.headD 0) = m
  have hle : ∀ x ∈ ps, m ≤ x := by rw [← hm]; exact (foldl_min_le ps _).2
  have hmem : m ∈ ps := by
    rw [← hm]
    rcases foldl_min_mem ps (ps.headD 0) with h | h
    · rw [h]
      cases ps with
      | nil => exact absurd rfl hne
      | cons a _ => simp
    · exact h
  have hlen : 0 < ps.length := List.length_pos_iff.mpr hne
  cases hf : ps.reverse.findIdx? (· == m) with
  | none =>
    rw [List.findIdx?_eq_none_iff] at hf
    have := hf m (by simpa using hmem)
    simp at this
  | some j =>
    rw [List.findIdx?_eq_some_iff_getElem] at hf
    obtain ⟨hj, hjm, hjlt⟩ := hf
    have hj' : j < ps.length := by simpa using hj
    have hk : rmin ps = ps.length - 1 - j := by
      unfold rmin; rw [hm]
      cases hf2 : ps.reverse.findIdx? (· == m) with
      | none =>
        rw [List.findIdx?_eq_none_iff] at hf2
        have := hf2 m (by simpa using hmem)
        simp at this
      | some j2 =>
        rw [List.findIdx?_eq_some_iff_getElem] at hf2
        obtain ⟨hj2, hjm2, hjlt2⟩ := hf2
        simp only [Option.getD_some]
        have : j2 = j := by
          rcases Nat.lt_trichotomy j2 j with h | h | h
          · exact absurd hjm2 (hjlt j2 h)
          · exact h
          · exact absurd hjm (hjlt2 j h)
        rw [this]
    have hklt : ps.length - 1 - j < ps.length := by omega
    have hval : ps[ps.length - 1 - j] = m := by
      rw [List.getElem_reverse hj] at hjm
      simpa using hjm
    rw [hk]
    refine ⟨hklt, ?_, ?_⟩
    · intro x hx; rw [hval]; exact hle x hx
    · intro i hi hgt
      rw [hval]
      have hmi : m ≤ ps[i] := hle _ (List.getElem_mem hi)
      have hne' : ps[i] ≠ m := by
        intro heq
        have hi2 : ps.length - 1 - i < j := by omega
        have := hjlt (ps.length - 1 - i) hi2
        rw [List.getElem_reverse (by simp; omega)] at this
        have hidx : ps.length - 1 - (ps.length - 1 - i) = i := by omega
        simp only [hidx] at this
        simp [heq] at this
      omega

variable {α : Type} (prio : Op → Nat)

theorem chainFlat_append (v : α) (l : List (Op × α)) (o : Op) (w : α) (r : List (Op × α)) :
    chainFlat v (l ++ (o, w) :: r) = chainFlat v l ++ Tok.op o :: chainFlat w r := by
  unfold chainFlat
  simp [List.flatMap_append]

theorem ops_of_flat (t : W α) (v : α) (rest : List (Op × α)) (h : t.flat = chainFlat v rest) :
    ∀ o, o ∈ t.ops ↔ o ∈ rest.map (·.1) := by
  intro o
  rw [← mem_flat_op, h]
  unfold chainFlat
  simp only [List.mem_cons, reduceCtorEq, List.mem_flatMap, List.mem_map, false_or]
  constructor
  · rintro ⟨x, hx, hm⟩
    simp at hm
    exact ⟨x, hx, hm.symm⟩
  · rintro ⟨x, hx, rfl⟩
    exact ⟨x, hx, by simp⟩

theorem specTreeF_correct : ∀ (fuel : Nat) (v : α) (rest : List (Op × α)), rest.length < fuel →
    (specTreeF prio fuel v rest).flat = chainFlat v rest ∧ Correct prio (specTreeF prio fuel v rest)
  | 0, _, _, h => by omega
  | fuel + 1, v, [], _ => by
    unfold specTreeF
    exact ⟨by simp [W.flat, chainFlat], trivial⟩
  | fuel + 1, v, x :: xs, hfuel => by
    unfold specTreeF
    generalize hrest : x :: xs = rest at hfuel ⊢
    have hne : rest.map (fun y => prio y.1) ≠ [] := by rw [← hrest]; simp
    obtain ⟨hk, hmin, hright⟩ := rmin_spec (rest.map fun y => prio y.1) hne
    have hkdef : (rest.map fun y => prio y.1).length - 1 -
        ((rest.map fun y => prio y.1).reverse.findIdx? (· == (rest.map fun y => prio y.1).foldl Nat.min
          ((rest.map fun y => prio y.1).headD 0))).getD 0 = rmin (rest.map fun y => prio y.1) := rfl
    dsimp only
    rw [hkdef]
    generalize rmin (rest.map fun y => prio y.1) = k at hk hmin hright
    have hk' : k < rest.length := by simpa using hk
    rw [List.drop_eq_getElem_cons hk']
    dsimp only
    have hsplit : rest = rest.take k ++ rest[k] :: rest.drop (k + 1) := by
      conv => lhs; rw [← List.take_append_drop k rest, List.drop_eq_getElem_cons hk']
    have hl : (rest.take k).length < fuel := by rw [List.length_take]; omega
    have hr : (rest.drop (k + 1)).length < fuel := by rw [List.length_drop]; omega
    obtain ⟨fl, cl⟩ := specTreeF_correct fuel v (rest.take k) hl
    obtain ⟨fr, cr⟩ := specTreeF_correct fuel rest[k].2 (rest.drop (k + 1)) hr
    have hpk : (rest.map fun y => prio y.1)[k] = prio rest[k].1 := by simp
    refine ⟨?_, cl, cr, ?_, ?_⟩
    · show (specTreeF prio fuel v (rest.take k)).flat ++ Tok.op rest[k].1 :: (specTreeF prio fuel rest[k].2 (rest.drop (k + 1))).flat = _
      rw [fl, fr]
      conv => rhs; rw [hsplit]
      exact (chainFlat_append v _ _ _ _).symm
    · intro o' ho'
      rw [ops_of_flat _ _ _ fl] at ho'
      obtain ⟨y, hy, rfl⟩ := List.mem_map.mp ho'
      rw [← hpk]
      exact hmin _ (List.mem_map.mpr ⟨y, List.mem_of_mem_take hy, rfl⟩)
    · intro o' ho'
      rw [ops_of_flat _ _ _ fr] at ho'
      obtain ⟨y, hy, rfl⟩ := List.mem_map.mp ho'
      rw [List.mem_drop_iff_getElem] at hy
      obtain ⟨j, hj, rfl⟩ := hy
      rw [← hpk]
      have := hright (k + 1 + j) (by simp at hj ⊢; omega) (by omega)
      simpa using this

/-- the reference tree has the chain's tokens and satisfies the priority constraints -/
theorem specTree_correct (v : α) (rest : List (Op × α)) :
    (specTree prio v rest).flat = chainFlat v rest ∧ Correct prio (specTree prio v rest) :=
  specTreeF_correct prio _ v rest (Nat.lt_succ_self _)

/-- …hence it is the tree the operator-stack fold builds -/
theorem specTree_eq_fold (v : α) (rest : List (Op × α)) : specTree prio v rest = precTree prio v rest :=
  C07_fold_unique prio v rest _ (specTree_correct prio v rest).1 (specTree_correct prio v rest).2

end SemVerif
