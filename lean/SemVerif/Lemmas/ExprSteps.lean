import SemVerif.Lemmas.Steps
import SemVerif.Lemmas.FoldAtoms
/-! # Lemmas/ExprSteps — expressions, let, assignment and call are expression-level step chains -/
namespace SemVerif

theorem em_evalVar (g : Globals) (n : Name) : EM (evalVar g n) := by
  intro s
  unfold evalVar
  cases h : s.lookupValue n with
  | some val =>
    simp only
    exact ESteps.single (EStep.incEmit s _ rfl rfl rfl (by intro v hv; simp [Instr.usesValue] at hv; exact ⟨n, hv ▸ h⟩) rfl)
  | none =>
    simp only
    cases hc : g.consts n with
    | some c =>
      simp only
      exact ESteps.single (EStep.incEmit s _ rfl rfl rfl (by intro v hv; simp [Instr.usesValue] at hv) rfl)
    | none =>
      simp only
      exact ESteps.tail (ESteps.single (EStep.incReg s)) (EStep.addErr _ _ _ _ _)

theorem em_evalLit (v : PrimVal) : EM (evalLit v) := by
  intro s; exact ESteps.refl _

theorem em_evalExt (tag : Nat) (ty : PrimTy) : EM (evalExt tag ty) := by
  intro s
  unfold evalExt
  exact ESteps.single (EStep.incEmit s _ rfl rfl rfl (by intro v hv; simp [Instr.usesValue] at hv) rfl)

theorem em_evalField (g : Globals) (vn attr : Name) : EM (evalField g vn attr) := by
  intro s
  unfold evalField
  cases h : s.lookupValue vn with
  | none => exact ESteps.single (EStep.addErr _ _ _ _ _)
  | some val =>
    simp only
    split
    · rename_i sn attrs hty
      split
      · exact ESteps.single (EStep.addErr _ _ _ _ _)
      · split
        · exact ESteps.single (EStep.addErr _ _ _ _ _)
        · split
          · exact ESteps.single (EStep.addErr _ _ _ _ _)
          · simp only
            refine ESteps.tail (ESteps.single (EStep.incEmit s _ rfl rfl rfl ?_ rfl)) (EStep.incReg _)
            intro v hv; simp [Instr.usesValue] at hv; exact ⟨vn, hv ▸ h⟩
    · exact ESteps.single (EStep.addErr _ _ _ _ _)

theorem em_evalPair (l r : EvalM) (o : Op) (hl : EM l) (hr : EM r) : EM (evalPair l o r) := by
  intro s
  unfold evalPair
  have h1 := hl s
  cases hls : l s with
  | mk a s1 =>
    rw [hls] at h1
    cases a with
    | none => exact h1
    | some lv =>
      simp only
      have h2 := hr s1
      cases hrs : r s1 with
      | mk b s2 =>
        rw [hrs] at h2
        cases b with
        | none => exact h1.trans h2
        | some rv =>
          simp only
          split
          · exact (h1.trans h2).tail (EStep.addErr _ _ _ _ _)
          · exact (h1.trans h2).tail (EStep.incEmit s2 _ rfl rfl rfl (by intro v hv; simp [Instr.usesValue] at hv) rfl)

theorem em_runW (t : W EvalM) (h : ∀ m ∈ t.atoms, EM m) : EM (runW t) := by
  induction t with
  | atom m => exact h m (by simp [W.atoms])
  | pair l o r ihl ihr =>
    unfold runW
    exact em_evalPair _ _ _ (ihl fun m hm => h m (by simp [W.atoms, hm]))
      (ihr fun m hm => h m (by simp [W.atoms, hm]))

theorem esteps_evalArgs (ms : List EvalM) (h : ∀ m ∈ ms, EM m) :
    ∀ (tys : List Ty) (s : St), ms.length ≤ tys.length → ESteps s (evalArgs ms tys s).2 := by
  induction ms with
  | nil => intro tys s _; exact ESteps.refl _
  | cons m ms ih =>
    intro tys s hlen
    unfold evalArgs
    have h1 := h m (by simp) s
    cases hm : m s with
    | mk a s1 =>
      rw [hm] at h1
      cases a with
      | none => exact h1
      | some r =>
        simp only
        cases tys with
        | nil => simp at hlen
        | cons t ts =>
          simp only
          have hlen' : ms.length ≤ ts.length := by simpa using hlen
          have ih' := ih (fun m hm => h m (by simp [hm])) ts
          split
          · exact (h1.tail (EStep.addErr _ _ _ _ _)).trans (ih' _ hlen')
          · have h3 := ih' s1 hlen'
            cases hr : evalArgs ms ts s1 with
            | mk b s2 =>
              rw [hr] at h3
              cases b <;> exact h1.trans h3

theorem esteps_functionCall (g : Globals) (name : Name) (args : List EvalM) (h : ∀ m ∈ args, EM m) (s : St) :
    ESteps s (functionCall g name args s).2 := by
  unfold functionCall
  cases g.funcs name with
  | none => exact ESteps.single (EStep.addErr _ _ _ _ _)
  | some fd =>
    simp only
    split
    · exact ESteps.single (EStep.addErr _ _ _ _ _)
    · rename_i hlt
      have h1 := esteps_evalArgs args h fd.params s (by omega)
      cases ha : evalArgs args fd.params s with
      | mk a s1 =>
        rw [ha] at h1
        cases a with
        | none => exact h1
        | some ps => exact h1.tail (EStep.incEmit s1 _ rfl rfl rfl (by intro v hv; simp [Instr.usesValue] at hv) rfl)

theorem em_evalCall (g : Globals) (name : Name) (args : List EvalM) (h : ∀ m ∈ args, EM m) :
    EM (evalCall g name args) := by
  intro s
  unfold evalCall
  have h1 := esteps_functionCall g name args h s
  cases hf : functionCall g name args s with
  | mk a s1 =>
    rw [hf] at h1
    cases a with
    | none => exact h1
    | some ty => exact h1.tail (EStep.incReg _)

mutual
theorem em_exprM (g : Globals) : ∀ e, EM (exprM g e)
  | .mk v rest => by
    unfold exprM
    apply em_runW
    intro m hm
    rcases foldChain_atoms_subset Generated.prio _ _ m hm with h | h
    · rw [h]; exact em_valM g v
    · simp at h
      obtain ⟨o, h⟩ := h
      exact em_restM g rest o m h
theorem em_restM (g : Globals) : ∀ r, ∀ o m, (o, m) ∈ restM g r → EM m
  | none => by intro o m h; simp [restM] at h
  | some (op, .mk v rest) => by
    intro o m h
    unfold restM at h
    simp at h
    rcases h with ⟨_, rfl⟩ | h
    · exact em_valM g v
    · exact em_restM g rest o m h
theorem em_valM (g : Globals) : ∀ v, EM (valM g v)
  | .var n => by unfold valM; exact em_evalVar g n
  | .lit v => by unfold valM; exact em_evalLit v
  | .call f args => by unfold valM; exact em_evalCall g f _ (em_argsM g args)
  | .field v a => by unfold valM; exact em_evalField g v a
  | .sub e => by unfold valM; exact em_exprM g e
  | .ext tag ty => by unfold valM; exact em_evalExt tag ty
theorem em_argsM (g : Globals) : ∀ as, ∀ m ∈ argsM g as, EM m
  | [] => by intro m h; simp [argsM] at h
  | e :: es => by
    intro m h
    unfold argsM at h
    simp at h
    rcases h with rfl | h
    · exact em_exprM g e
    · exact em_argsM g es m h
end

/-! ### Statement-level helpers below the control constructs -/

theorem esteps_binding (g : Globals) (b : Bind) (s : St) : ESteps s (binding g b s) := by
  unfold binding
  have h1 := em_exprM g b.value s
  cases he : exprM g b.value s with
  | mk a s1 =>
    rw [he] at h1
    cases a with
    | none => exact h1
    | some r =>
      simp only
      cases hl : s1.lookupValue b.name with
      | none => exact h1.tail (EStep.addErr _ _ _ _ _)
      | some value =>
        simp only
        split
        · exact h1.tail (EStep.addErr _ _ _ _ _)
        · split
          · exact h1.tail (EStep.addErr _ _ _ _ _)
          · exact h1.tail (EStep.emit s1 _ rfl rfl rfl (by intro v hv; simp [Instr.usesValue] at hv; exact ⟨b.name, hv ▸ hl⟩) rfl rfl)

theorem esteps_callStmt (g : Globals) (c : CallS) (s : St) : ESteps s (callStmt g c s) := by
  unfold callStmt
  exact esteps_functionCall g c.name _ (em_argsM g c.args) s

theorem esteps_nestedReturn_pre (g : Globals) (e : Expr) (s : St) :
    ∃ s1, ESteps s s1 ∧ ((nestedReturn g e s = (s1, false)) ∨
      (∃ r, nestedReturn g e s = ((s1.push (.jumpFnReturn r)).setReturn, true))) := by
  unfold nestedReturn
  have h1 := em_exprM g e s
  cases he : exprM g e s with
  | mk a s1 =>
    rw [he] at h1
    cases a with
    | none => exact ⟨s1, h1, Or.inl rfl⟩
    | some r => exact ⟨s1, h1, Or.inr ⟨r, rfl⟩⟩

theorem esteps_forbidden (rc bc cc : Bool) (s : St) : ESteps s (forbidden rc bc cc s) := by
  unfold forbidden
  cases rc <;> cases bc <;> cases cc <;> simp <;>
    first
    | exact ESteps.refl _
    | exact ESteps.single (EStep.addErr _ _ _ _ _)
    | exact (ESteps.single (EStep.addErr _ _ _ _ _)).tail (EStep.addErr _ _ _ _ _)
    | exact ((ESteps.single (EStep.addErr _ _ _ _ _)).tail (EStep.addErr _ _ _ _ _)).tail (EStep.addErr _ _ _ _ _)

theorem esteps_condExprM (g : Globals) : ∀ (lc : LogicCond) (s : St), ESteps s (condExprM g lc s).2
  | .mk c right, s => by
    unfold condExprM
    have h1 := em_exprM g c.left s
    cases hl : exprM g c.left s with
    | mk l s1 =>
      rw [hl] at h1
      dsimp only
      have h2 := em_exprM g c.right s1
      cases hr : exprM g c.right s1 with
      | mk r s2 =>
        rw [hr] at h2
        dsimp only
        have h12 : ESteps s s2 := h1.trans h2
        cases l with
        | none => exact h12.tail (EStep.addErr _ _ _ _ _)
        | some l =>
          cases r with
          | none => exact h12.tail (EStep.addErr _ _ _ _ _)
          | some r =>
            dsimp only
            split
            · exact h12.tail (EStep.addErr _ _ _ _ _)
            · split
              · exact h12.tail (EStep.addErr _ _ _ _ _)
              · have h3 : ESteps s ((s2.incReg).push (.condExpr l r c.cond s2.incReg.curReg)) :=
                  h12.tail (EStep.incEmit s2 _ rfl rfl rfl (by intro v hv; simp [Instr.usesValue] at hv) rfl)
                cases right with
                | none => exact h3
                | some p =>
                  obtain ⟨lg, rc⟩ := p
                  dsimp only
                  have h4 := esteps_condExprM g rc ((s2.incReg).push (.condExpr l r c.cond s2.incReg.curReg))
                  generalize condExprM g rc ((s2.incReg).push (.condExpr l r c.cond s2.incReg.curReg)) = res at h4
                  obtain ⟨rr, s3⟩ := res
                  exact (h3.trans h4).tail (EStep.incEmit s3 _ rfl rfl rfl (by intro v hv; simp [Instr.usesValue] at hv) rfl)

/-- `if_condition_calculation`: an expression-level chain, then at most one branch instruction
whose targets are the begin label and the else / end label -/
theorem ifCondCalc_split (g : Globals) (c : IfCond) (lb le ln : Name) (isElse : Bool) (s : St) :
    ∃ s1, ESteps s s1 ∧ (ifCondCalc g c lb le ln isElse s = s1 ∨
      ∃ i : Instr, ifCondCalc g c lb le ln isElse s = s1.push i ∧ i.targets = [lb, if isElse then le else ln] ∧
        i.writes = none ∧ i.declares = none ∧ i.setsLabel = none ∧ i.usesValue = none ∧ i.isRet = false) := by
  unfold ifCondCalc
  cases c with
  | single e =>
    simp only
    have h1 := em_exprM g e s
    cases he : exprM g e s with
    | mk a s1 =>
      rw [he] at h1
      cases a with
      | none => exact ⟨s1, h1, Or.inl rfl⟩
      | some r => exact ⟨s1, h1, Or.inr ⟨_, rfl, rfl, rfl, rfl, rfl, rfl, rfl⟩⟩
  | logic lc =>
    dsimp only
    have h1 := esteps_condExprM g lc s
    generalize condExprM g lc s = res at h1
    obtain ⟨reg, s1⟩ := res
    exact ⟨s1, h1, Or.inr ⟨_, rfl, rfl, rfl, rfl, rfl, rfl, rfl⟩⟩

theorem esteps_ifCondCalc (g : Globals) (c : IfCond) (lb le ln : Name) (isElse : Bool) (s : St) :
    BSteps s (ifCondCalc g c lb le ln isElse s) := by
  obtain ⟨s1, h1, h | ⟨i, h, _, hw, hd, hl, hu, hr⟩⟩ := ifCondCalc_split g c lb le ln isElse s
  · exact ⟨s1, h1, Or.inl h⟩
  · exact ⟨s1, h1, Or.inr ⟨i, h, hw, hd, hl, hu, hr⟩⟩

end SemVerif
