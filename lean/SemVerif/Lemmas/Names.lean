import SemVerif.BlockState
/-!
# Lemmas/Names — the probe loops return a name that is not in use, and never run out of fuel

`setAttrCounter n` always has the form `a ++ "." ++ showNat m` with `a` free of dots, and on such a
name it is the successor `a ++ "." ++ showNat (m+1)`; decimal printing is injective; so the
candidates of a probe are pairwise distinct and at most `|registry|` of them can be taken.
-/
namespace SemVerif

theorem digitChar_toNat (d : Nat) (h : d < 10) : (digitChar d).toNat = 48 + d := by
  match d, h with
  | 0, _ | 1, _ | 2, _ | 3, _ | 4, _ | 5, _ | 6, _ | 7, _ | 8, _ | 9, _ => rfl

theorem digitChar_isDigit (d : Nat) (h : d < 10) : isDigit (digitChar d) = true := by
  match d, h with
  | 0, _ | 1, _ | 2, _ | 3, _ | 4, _ | 5, _ | 6, _ | 7, _ | 8, _ | 9, _ => rfl

theorem digitChar_ne_dot (d : Nat) : digitChar d ≠ '.' := by
  unfold digitChar; split <;> decide

theorem digitChar_ne_plus (d : Nat) : digitChar d ≠ '+' := by
  unfold digitChar; split <;> decide

theorem digitsVal_append (xs : List Char) (c : Char) (acc : Nat) :
    digitsVal (xs ++ [c]) acc = digitsVal xs acc * 10 + (c.toNat - 48) := by
  induction xs generalizing acc with
  | nil => simp [digitsVal]
  | cons x xs ih => simp [digitsVal, ih]

theorem showNatF_spec : ∀ (fuel n : Nat), n ≤ fuel →
    digitsVal (showNatF fuel n) 0 = n ∧ (showNatF fuel n).all isDigit = true ∧ showNatF fuel n ≠ [] ∧
    (∀ c ∈ showNatF fuel n, c ≠ '.') ∧ (showNatF fuel n).head? ≠ some '+' := by
  intro fuel
  induction fuel with
  | zero =>
    intro n hn
    have : n = 0 := by omega
    subst this
    simp [showNatF, digitsVal, digitChar, isDigit]
  | succ fuel ih =>
    intro n hn
    unfold showNatF
    split
    · rename_i h10
      refine ⟨?_, ?_, by simp, ?_, ?_⟩
      · simp [digitsVal, digitChar_toNat n h10]
      · simp [digitChar_isDigit n h10]
      · intro c hc; simp at hc; subst hc; exact digitChar_ne_dot n
      · simp; exact digitChar_ne_plus n
    · rename_i h10
      have hlt : n / 10 ≤ fuel := by omega
      obtain ⟨a, b, c, d, e⟩ := ih (n / 10) hlt
      have hm : n % 10 < 10 := Nat.mod_lt _ (by omega)
      refine ⟨?_, ?_, by simp, ?_, ?_⟩
      · rw [digitsVal_append, a, digitChar_toNat _ hm]; omega
      · simp [List.all_append, b, digitChar_isDigit _ hm]
      · intro ch hch
        simp at hch
        rcases hch with h | h
        · exact d ch h
        · subst h; exact digitChar_ne_dot _
      · cases hs : showNatF fuel (n / 10) with
        | nil => exact absurd hs c
        | cons x xs => rw [hs] at e; simpa using e

theorem showNat_spec (n : Nat) :
    digitsVal (showNat n) 0 = n ∧ (showNat n).all isDigit = true ∧ showNat n ≠ [] ∧
    (∀ c ∈ showNat n, c ≠ '.') ∧ (showNat n).head? ≠ some '+' :=
  showNatF_spec n n (Nat.le_refl n)

theorem stripPlus_of_ne (x : Char) (xs : Name) (hx : x ≠ '+') : stripPlus (x :: xs) = x :: xs := by
  unfold stripPlus
  split
  · rename_i rest heq; injection heq with h1 _; exact absurd h1 hx
  · rfl

theorem parseU64_showNat (n : Nat) : parseU64 (showNat n) = n := by
  obtain ⟨a, b, c, _, e⟩ := showNat_spec n
  unfold parseU64
  cases hs : showNat n with
  | nil => exact absurd hs c
  | cons x xs =>
    rw [hs] at e a b
    have hx : x ≠ '+' := by simpa using e
    simp only [stripPlus_of_ne x xs hx]
    simp [b, a]

theorem showNat_injective {a b : Nat} (h : showNat a = showNat b) : a = b := by
  have := congrArg parseU64 h
  rwa [parseU64_showNat, parseU64_showNat] at this

/-! ### `splitDot` -/

theorem splitDot_ne_nil (n : Name) : splitDot n ≠ [] := by
  induction n with
  | nil => simp [splitDot]
  | cons c cs ih =>
    unfold splitDot
    split
    · simp
    · unfold consHead; split <;> simp

theorem splitDot_nodot (a : Name) (h : ∀ c ∈ a, c ≠ '.') : splitDot a = [a] := by
  induction a with
  | nil => rfl
  | cons c cs ih =>
    have hc : c ≠ '.' := h c (by simp)
    have := ih (fun x hx => h x (by simp [hx]))
    conv => lhs; unfold splitDot
    simp [hc, this, consHead]

theorem splitDot_append (a b : Name) (h : ∀ c ∈ a, c ≠ '.') :
    splitDot (a ++ '.' :: b) = a :: splitDot b := by
  induction a with
  | nil => show splitDot ('.' :: b) = _; conv => lhs; unfold splitDot
           simp
  | cons c cs ih =>
    have hc : c ≠ '.' := h c (by simp)
    have := ih (fun x hx => h x (by simp [hx]))
    show splitDot (c :: (cs ++ '.' :: b)) = _
    conv => lhs; unfold splitDot
    simp [hc, this, consHead]

/-- the first part of a split has no dot -/
theorem splitDot_head (n : Name) : ∃ a rest, splitDot n = a :: rest ∧ ∀ c ∈ a, c ≠ '.' := by
  induction n with
  | nil => exact ⟨[], [], rfl, by simp⟩
  | cons c cs ih =>
    obtain ⟨a, rest, hs, ha⟩ := ih
    unfold splitDot
    split
    · exact ⟨[], _, rfl, by simp⟩
    · rename_i hc
      rw [hs]
      exact ⟨c :: a, rest, rfl, by intro x hx; simp at hx; rcases hx with h | h; exact h ▸ hc; exact ha x h⟩

/-- normal form of every probe candidate -/
theorem setAttrCounter_form (n : Name) :
    ∃ a m, (∀ c ∈ a, c ≠ '.') ∧ setAttrCounter n = a ++ '.' :: showNat m := by
  obtain ⟨a, rest, hs, ha⟩ := splitDot_head n
  unfold setAttrCounter
  rw [hs]
  match rest with
  | [] => exact ⟨a, 0, ha, by simp [showNat, showNatF, digitChar]⟩
  | [b] => exact ⟨a, parseU64 b + 1, ha, rfl⟩
  | b :: c :: r => exact ⟨a, 0, ha, by simp [showNat, showNatF, digitChar]⟩

theorem setAttrCounter_succ (a : Name) (m : Nat) (ha : ∀ c ∈ a, c ≠ '.') :
    setAttrCounter (a ++ '.' :: showNat m) = a ++ '.' :: showNat (m + 1) := by
  unfold setAttrCounter
  rw [splitDot_append a _ ha, splitDot_nodot _ (showNat_spec m).2.2.2.1]
  simp [parseU64_showNat]

/-! ### The probe loops -/

theorem probeInnerF_fresh (used : Name → Bool) (a : Name) (ha : ∀ c ∈ a, c ≠ '.') (m : Nat) :
    ∀ (fuel : Nat) (n : Name) (k : Nat) (L : List Name),
      setAttrCounter n = a ++ '.' :: showNat (m + k) →
      (∀ j, k ≤ j → used (a ++ '.' :: showNat (m + j)) = true → (a ++ '.' :: showNat (m + j)) ∈ L) →
      L.length < fuel → used (probeInnerF used fuel n) = false := by
  intro fuel
  induction fuel with
  | zero => intro n k L _ _ h; omega
  | succ fuel ih =>
    intro n k L hn hL hlen
    unfold probeInnerF
    simp only
    cases hu : used (setAttrCounter n) with
    | false => simp [hu]
    | true =>
      simp only [if_true]
      rw [hn] at hu ⊢
      have hmem := hL k (Nat.le_refl k) hu
      apply ih (a ++ '.' :: showNat (m + k)) (k + 1) (L.erase (a ++ '.' :: showNat (m + k)))
      · rw [setAttrCounter_succ a (m + k) ha]; rfl
      · intro j hj hused
        have h1 := hL j (by omega) hused
        apply (List.mem_erase_of_ne ?_).mpr h1
        intro heq
        have := List.append_cancel_left heq
        injection this with _ h2
        have := showNat_injective h2
        omega
      · rw [List.length_erase_of_mem hmem]
        have : 0 < L.length := List.length_pos_of_mem hmem
        omega

/-- `get_next_inner_name` with enough fuel returns a name that is not in use -/
theorem probeInner_fresh (used : Name → Bool) (L : List Name) (hL : ∀ n, used n = true → n ∈ L)
    (fuel : Nat) (hf : L.length < fuel) (n : Name) : used (probeInnerF used fuel n) = false := by
  obtain ⟨a, m, ha, hform⟩ := setAttrCounter_form n
  exact probeInnerF_fresh used a ha m fuel n 0 L (by simpa using hform) (fun j _ h => hL _ h) hf

theorem probeLabel_fresh (used : Name → Bool) (L : List Name) (hL : ∀ n, used n = true → n ∈ L)
    (fuel : Nat) (hf : L.length < fuel) (stem : Name) : used (probeLabelF used fuel stem) = false := by
  unfold probeLabelF
  cases h : used stem with
  | false => simp [h]
  | true => simp only [if_true]; exact probeInner_fresh used L hL fuel hf stem

/-! ### On states -/

theorem length_flatten_map {β : Type} (f : β → List Name) (l : List β) :
    (l.map f).flatten.length = (l.map fun b => (f b).length).sum := by
  induction l with
  | nil => rfl
  | cons x xs ih => simp [ih]

theorem St.probeInner_fresh (s : St) (n : Name) : s.innerUsed (s.probeInner n) = false := by
  unfold St.probeInner
  apply SemVerif.probeInner_fresh s.innerUsed ((s.frames.map fun b => b.innerNames).flatten)
  · intro x hx
    unfold St.innerUsed at hx
    simp at hx ⊢
    obtain ⟨b, hb, hc⟩ := hx
    exact ⟨_, ⟨b, hb, rfl⟩, hc⟩
  · rw [length_flatten_map]; unfold St.innerCount; omega

theorem St.probeLabel_fresh (s : St) (stem : Name) : s.labelUsed (s.probeLabel stem).1 = false := by
  unfold St.probeLabel
  simp only
  apply SemVerif.probeLabel_fresh s.labelUsed ((s.frames.map fun b => b.labels).flatten)
  · intro x hx
    unfold St.labelUsed at hx
    simp at hx ⊢
    obtain ⟨b, hb, hc⟩ := hx
    exact ⟨_, ⟨b, hb, rfl⟩, hc⟩
  · rw [length_flatten_map]; unfold St.labelCount; omega

end SemVerif
