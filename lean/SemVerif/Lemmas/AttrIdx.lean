import SemVerif.Lemmas.T2Expr
/-!
# Lemmas/AttrIdx — attribute indices of a registered struct type are distinct

`From<ast::StructTypes>` numbers the attributes by position; an attribute declared twice keeps
the later position.  Hence looking an attribute up by name and then by its index gives the same
type (`Attrs.idxOK`), which the typed reading of a field read (C04) relies on.
-/
namespace SemVerif

def Attrs.idxs : Attrs → List Nat
  | .nil => []
  | .cons _ j _ rest => j :: rest.idxs

theorem Attrs.insert_idxs_mem (n : Name) (i : Nat) (t : Ty) : ∀ (a : Attrs) (x : Nat),
    x ∈ (a.insert n i t).idxs → x = i ∨ x ∈ a.idxs
  | .nil, x, h => by simp [Attrs.insert, Attrs.idxs] at h; exact Or.inl h
  | .cons m j u rest, x, h => by
    unfold Attrs.insert at h
    split at h
    · simp only [Attrs.idxs, List.mem_cons] at h ⊢
      rcases h with h | h
      · exact Or.inl h
      · exact Or.inr (Or.inr h)
    · split at h
      · simp only [Attrs.idxs, List.mem_cons] at h ⊢
        exact h
      · simp only [Attrs.idxs, List.mem_cons] at h ⊢
        rcases h with h | h
        · exact Or.inr (Or.inl h)
        · rcases Attrs.insert_idxs_mem n i t rest x h with h | h
          · exact Or.inl h
          · exact Or.inr (Or.inr h)

theorem Attrs.insert_nodup (n : Name) (i : Nat) (t : Ty) : ∀ (a : Attrs),
    a.idxs.Nodup → (∀ j ∈ a.idxs, j < i) → (a.insert n i t).idxs.Nodup
  | .nil, _, _ => by simp [Attrs.insert, Attrs.idxs]
  | .cons m j u rest, hnd, hlt => by
    simp only [Attrs.idxs, List.nodup_cons] at hnd
    have hj : j < i := hlt j (by simp [Attrs.idxs])
    have hrest : ∀ k ∈ rest.idxs, k < i := fun k hk => hlt k (by simp [Attrs.idxs, hk])
    unfold Attrs.insert
    split
    · simp only [Attrs.idxs, List.nodup_cons]
      exact ⟨fun h => Nat.lt_irrefl _ (hrest i h), hnd.2⟩
    · split
      · simp only [Attrs.idxs, List.nodup_cons, List.mem_cons, not_or]
        exact ⟨⟨by omega, fun h => Nat.lt_irrefl _ (hrest i h)⟩, hnd⟩
      · simp only [Attrs.idxs, List.nodup_cons]
        refine ⟨?_, Attrs.insert_nodup n i t rest hnd.2 hrest⟩
        intro h
        rcases Attrs.insert_idxs_mem n i t rest j h with h | h
        · omega
        · exact hnd.1 h

theorem attrsToMap_nodup : ∀ (l : List (Name × ATy)) (i : Nat) (acc : Attrs),
    acc.idxs.Nodup → (∀ j ∈ acc.idxs, j < i) → (attrsToMap l i acc).idxs.Nodup
  | [], _, acc, h, _ => by unfold attrsToMap; exact h
  | (n, t) :: rest, i, acc, h, hlt => by
    unfold attrsToMap
    apply attrsToMap_nodup rest (i + 1)
    · exact Attrs.insert_nodup n i t.toTy acc h hlt
    · intro j hj
      rcases Attrs.insert_idxs_mem n i t.toTy acc j hj with h | h
      · omega
      · have := hlt j h; omega

theorem Attrs.lookup_idx_mem : ∀ (a : Attrs) (n : Name) (idx : Nat) (t : Ty), a.lookup n = some (idx, t) → idx ∈ a.idxs
  | .nil, _, _, _, h => by simp [Attrs.lookup] at h
  | .cons m j u rest, n, idx, t, h => by
    unfold Attrs.lookup at h
    split at h
    · injection h with h; injection h with h1 h2; subst h1; simp [Attrs.idxs]
    · simp only [Attrs.idxs, List.mem_cons]
      exact Or.inr (Attrs.lookup_idx_mem rest n idx t h)

theorem Attrs.idxOK_of_nodup : ∀ (a : Attrs), a.idxs.Nodup → a.idxOK
  | .nil, _ => by intro n idx t h; simp [Attrs.lookup] at h
  | .cons m j u rest, hnd => by
    simp only [Attrs.idxs, List.nodup_cons] at hnd
    intro n idx t h
    unfold Attrs.lookup at h
    unfold Attrs.byIndex
    split at h
    · injection h with h; injection h with h1 h2; subst h1; subst h2; simp
    · have hm := Attrs.lookup_idx_mem rest n idx t h
      have hne : idx ≠ j := fun e => hnd.1 (e ▸ hm)
      rw [if_neg hne]
      exact Attrs.idxOK_of_nodup rest hnd.2 n idx t h

theorem attrsToMap_idxOK (l : List (Name × ATy)) : (attrsToMap l 0 .nil).idxOK :=
  Attrs.idxOK_of_nodup _ (attrsToMap_nodup l 0 .nil (by simp [Attrs.idxs]) (by simp [Attrs.idxs]))

end SemVerif
