import SemVerif.Lemmas.T2Stmt
import SemVerif.Lemmas.T1Ctl
import SemVerif.Lemmas.PanicConv
/-!
# Lemmas/T2Ctl — family T2, control constructs and whole function bodies

Labels, jumps, child blocks and the suspended if-block do not show in the abstract reading of the
root stack; entering a block pushes an empty frame on both scope stacks, leaving pops it.  By mutual
structural induction every control construct that reports no error maps `DRel`-related states to
`DRel`-related states, for every nesting depth.
-/
namespace SemVerif

/-- bookkeeping: no error, the abstract reading and the root registry are untouched -/
structure Quiet (s s' : St) : Prop where
  errors : s'.errors = s.errors
  abs : s'.abs = s.abs
  names : s'.root.innerNames = s.root.innerNames
  rd : RdInv s → RdInv s'
  tenv : s'.tenv = s.tenv
  tok : ∀ g R, TOK g R s → TOK g R s'
  rreg : s'.root.reg = s.root.reg

theorem Quiet.refl (s : St) : Quiet s s := ⟨rfl, rfl, rfl, fun h => h, rfl, fun _ _ h => h, rfl⟩
theorem Quiet.trans {a b c : St} (h1 : Quiet a b) (h2 : Quiet b c) : Quiet a c :=
  ⟨by rw [h2.errors, h1.errors], by rw [h2.abs, h1.abs], by rw [h2.names, h1.names], fun h => h2.rd (h1.rd h),
   by rw [h2.tenv, h1.tenv], fun g R h => h2.tok g R (h1.tok g R h), by rw [h2.rreg, h1.rreg]⟩

theorem Quiet.wle {s s' : St} (q : Quiet s s') (h : WLe s) : WLe s' := by
  intro p hp
  rw [q.tenv] at hp
  rw [q.rreg]
  exact h p hp

/-- the reads invariant looks only at the counters of the live blocks and at the root's stack -/
theorem rd_of_fields {s s' : St} (h : RdInv s) (hinner : ∀ b ∈ s'.inner, ∃ b' ∈ s.frames, b.reg = b'.reg)
    (hreg : s'.root.reg = s.root.reg) (hctx : s'.root.context = s.root.context) : RdInv s' := by
  refine rd_same h ?_ hctx hreg
  intro b hb
  obtain ⟨b', hb', he⟩ := hinner b hb
  rw [he, hreg]
  rcases mem_frames.mp hb' with hi | rfl
  · exact h.sync b' hi
  · rfl

theorem drel_same {g : Globals} {R : Ty} {s s' : St} {ss : SpecSt} (hr : DRel g R s ss) (q : Quiet s s') (hv : s'.vals = s.vals)
    (hd : s'.dts = s.dts) : DRel g R s' ss :=
  ⟨⟨by unfold ScopeRel; rw [hv]; exact hr.scope.sc, by rw [q.abs, hv]; exact hr.scope.dv,
    by rw [q.tenv, hv]; exact hr.scope.dk, by rw [q.tenv, q.names]; exact hr.scope.dn⟩,
   by rw [q.abs]; exact hr.out, by rw [q.abs]; exact hr.next,
   fun n hn => by rw [q.names]; exact hr.reg n (by rw [q.abs] at hn; exact hn), q.rd hr.rd, q.tok g R hr.tok,
   by rw [hd]; exact hr.vinv, by rw [hd, q.names]; exact hr.vreg, q.wle hr.wle⟩

theorem drel_enter {g : Globals} {R : Ty} {s s' : St} {ss : SpecSt} (hr : DRel g R s ss) (q : Quiet s s') (hv : s'.vals = [] :: s.vals)
    (hd : s'.dts = .node [] [] [] :: s.dts) :
    DRel g R s' ss.push :=
  ⟨⟨by unfold ScopeRel; rw [hv]; exact ValsRel.cons (fun _ => rfl) hr.scope.sc,
    by rw [q.abs, hv]; exact DVals.cons (fun _ => rfl) hr.scope.dv,
    by
      rw [q.tenv, hv]
      intro fr hfr n v hv'
      simp only [List.mem_cons] at hfr
      rcases hfr with rfl | hfr
      · simp [assocGet] at hv'
      · exact hr.scope.dk fr hfr n v hv',
    by rw [q.tenv, q.names]; exact hr.scope.dn⟩,
   by rw [q.abs]; exact hr.out, by rw [q.abs]; exact hr.next,
   fun n hn => by rw [q.names]; exact hr.reg n (by rw [q.abs] at hn; exact hn), q.rd hr.rd, q.tok g R hr.tok,
   by rw [hd]; exact framesOk_enter hr.vinv,
   by
     rw [hd, q.names]
     intro t ht x hx
     simp only [List.mem_cons] at ht
     rcases ht with rfl | ht
     · cases hx
     · exact hr.vreg t ht x hx,
   q.wle hr.wle⟩

theorem dvals_tail {decls : List Name} {vs : List (List (Name × Value))} {ds : List (List (Name × Nat))}
    (h : DVals decls vs ds) : DVals decls vs.tail ds.tail := by
  cases h with
  | nil => exact DVals.nil
  | cons _ h => exact h

theorem drel_leave {g : Globals} {R : Ty} {s s' : St} {ss : SpecSt} (hr : DRel g R s ss) (q : Quiet s s') (hv : s'.vals = s.vals.tail)
    (hd : s'.dts = closeDts s.dts) (hin : s.inner ≠ []) :
    DRel g R s' ss.pop :=
  have h2 : ∃ t0 v1 d1 c1 ts, s.dts = t0 :: .node v1 d1 c1 :: ts := by
    unfold St.dts St.frames
    cases hi : s.inner with
    | nil => exact absurd hi hin
    | cons b rest =>
      cases rest with
      | nil =>
        cases hdt : s.root.dt with
        | node v d c => exact ⟨b.dt, v, d, c, [], by simp [hdt]⟩
      | cons p rest' =>
        cases hdt : p.dt with
        | node v d c => exact ⟨b.dt, v, d, c, (rest' ++ [s.root]).map Block.dt, by simp [hdt]⟩
  ⟨⟨by unfold ScopeRel; rw [hv]; exact scopeRel_tail hr.scope.sc,
    by rw [q.abs, hv]; exact dvals_tail hr.scope.dv,
    by
      rw [q.tenv, hv]
      intro fr hfr n v hv'
      exact hr.scope.dk fr (List.mem_of_mem_tail hfr) n v hv',
    by rw [q.tenv, q.names]; exact hr.scope.dn⟩,
   by rw [q.abs]; exact hr.out, by rw [q.abs]; exact hr.next,
   fun n hn => by rw [q.names]; exact hr.reg n (by rw [q.abs] at hn; exact hn), q.rd hr.rd, q.tok g R hr.tok,
   by
     obtain ⟨t0, v1, d1, c1, ts, hs⟩ := h2
     have hv := hr.vinv
     rw [hs] at hv
     obtain ⟨fr0, frs0, k0, ks0, hds, hks, hf0, hin0, hrest0⟩ := hv.inv_cons
     obtain ⟨fr1, frs, k1, ks, hds1, hks1, hf1, hin1, hrest1⟩ := hrest0.inv_cons
     subst hds1; subst hks1
     have := framesOk_leave (FramesOk.cons hf0 hin0 (FramesOk.cons hf1 hin1 hrest1))
     rw [hd, hs]
     unfold SpecSt.pop SpecSt.topNames
     dsimp only [closeDts]
     rw [hds, hks]
     exact this,
   by
     obtain ⟨t0, v1, d1, c1, ts, hs⟩ := h2
     rw [hd, hs, q.names]
     intro t ht x hx
     simp only [closeDts, List.mem_cons] at ht
     rcases ht with rfl | ht
     · exact hr.vreg (.node v1 d1 c1) (by rw [hs]; simp) x hx
     · exact hr.vreg t (by rw [hs]; simp [ht]) x hx,
   q.wle hr.wle⟩

/-! ### The bookkeeping operations are quiet -/

/-- an instruction the abstract reading ignores and that reads and writes no register -/
def Instr.skipped (i : Instr) : Prop := (∀ A : AbsSt, abstractStep A i = A) ∧ i.reads = [] ∧ i.writes = none ∧
  (∀ e, tyStepEnv e i = e) ∧ (∀ c f R e, tyStepBad c f R e i = [])

theorem skipped_jumpTo (l : Name) : (Instr.jumpTo l).skipped := ⟨fun _ => rfl, rfl, rfl, fun _ => rfl, fun _ _ _ _ => rfl⟩
theorem skipped_setLabel (l : Name) : (Instr.setLabel l).skipped := ⟨fun _ => rfl, rfl, rfl, fun _ => rfl, fun _ _ _ _ => rfl⟩

theorem quiet_push (i : Instr) (hi : i.skipped) (s : St) : Quiet s (s.push i) :=
  ⟨rfl, by rw [abs_push, hi.1], rfl,
   fun h => rd_push_nowrite h i hi.2.2.1 (fun q hq => by rw [hi.2.1] at hq; cases hq),
   by rw [tenv_push, hi.2.2.2.1],
   fun g R h => tok_push i h (by rw [hi.2.2.2.2]; intro b hb; cases hb), rfl⟩

theorem rootn_pushVia (k : Nat) (i : Instr) (s : St) :
    (s.pushVia k i).root.context = s.root.context ++ [i] ∧ (s.pushVia k i).root.innerNames = s.root.innerNames := by
  unfold St.pushVia St.push St.mapFrames St.mapCur
  cases s.inner <;> exact ⟨rfl, rfl⟩

theorem quiet_pushVia (k : Nat) (i : Instr) (hi : i.skipped) (s : St) : Quiet s (s.pushVia k i) := by
  have htenv : (s.pushVia k i).tenv = s.tenv := by
    unfold St.tenv
    rw [(rootn_pushVia k i s).1, List.foldl_append]
    exact hi.2.2.2.1 _
  refine ⟨(pushVia_fields k i s).1, ?_, (rootn_pushVia k i s).2, ?_, htenv, ?_, ?_⟩
  rotate_left 2
  rotate_left 1
  · unfold St.pushVia St.push St.mapFrames St.mapCur
    cases s.inner <;> rfl
  rotate_right 1
  · intro g R h
    have hctx : (s.pushVia k i).root.context = (s.push i).root.context := (rootn_pushVia k i s).1
    exact tok_of_ctx hctx (tok_push i h (by rw [hi.2.2.2.2]; intro b hb; cases hb))
  · unfold St.abs abstractFold
    rw [(rootn_pushVia k i s).1, List.foldl_append]
    exact hi.1 _
  · intro h
    unfold St.pushVia
    refine rd_push_nowrite (rd_of_fields h ?_ ?_ ?_) i hi.2.2.1 (fun q hq => by rw [hi.2.1] at hq; cases hq)
    · intro b hb
      unfold St.mapCur at hb
      cases hin : s.inner with
      | nil => rw [hin] at hb; simp at hb
      | cons b0 rest =>
        rw [hin] at hb
        simp at hb
        rcases hb with rfl | hb
        · exact ⟨b0, mem_frames.mpr (Or.inl (by simp [hin])), rfl⟩
        · exact ⟨b, mem_frames.mpr (Or.inl (by simp [hin, hb])), rfl⟩
    · unfold St.mapCur; cases s.inner <;> rfl
    · unfold St.mapCur; cases s.inner <;> rfl

theorem quiet_probeLabel (stem : Name) (s : St) : Quiet s (s.probeLabel stem).2 :=
  ⟨rfl, rfl, rfl, fun h => rd_of_fields h (by
    intro b hb
    simp [St.probeLabel, St.mapFrames] at hb
    obtain ⟨b', hb', rfl⟩ := hb
    exact ⟨b', mem_frames.mpr (Or.inl hb'), rfl⟩) rfl rfl, rfl, fun _ _ h => tok_of_ctx rfl h, rfl⟩

theorem quiet_enter (s : St) : Quiet s s.enter :=
  ⟨rfl, rfl, rfl, fun h => rd_of_fields h (by
    intro b hb
    simp [St.enter] at hb
    rcases hb with rfl | hb
    · exact ⟨s.cur, cur_mem_frames s, rfl⟩
    · exact ⟨b, mem_frames.mpr (Or.inl hb), rfl⟩) rfl rfl, rfl, fun _ _ h => tok_of_ctx rfl h, rfl⟩

theorem quiet_leave (s : St) : Quiet s s.leave.2 :=
  ⟨leave_errors s, abs_of_ctx (root_leave_fields s).1, (root_leave_fields s).2.2.1,
   fun h => rd_of_fields h (by
    intro b hb
    obtain ⟨b', hb', _, _, _, _, hr, _⟩ := inner_leave s b hb
    exact ⟨b', mem_frames.mpr (Or.inl hb'), hr⟩) (root_leave_fields s).2.2.2.2.1 (root_leave_fields s).1,
   tenv_of_ctx (root_leave_fields s).1, fun _ _ h => tok_of_ctx (root_leave_fields s).1 h,
   (root_leave_fields s).2.2.2.2.1⟩

theorem quiet_ifLabels (le : Option Name) (s : St) : Quiet s (ifLabels le s).2.2.2 := by
  unfold ifLabels
  dsimp only
  cases le with
  | some l =>
    exact (quiet_enter s).trans ((quiet_probeLabel _ _).trans (quiet_probeLabel _ _))
  | none =>
    exact (quiet_enter s).trans ((quiet_probeLabel _ _).trans ((quiet_probeLabel _ _).trans (quiet_probeLabel _ _)))

theorem quiet_ifAfterBody (isElse r : Bool) (lElse lEnd : Name) (s : St) :
    Quiet s (ifAfterBody isElse r lElse lEnd s).2 := by
  unfold ifAfterBody
  dsimp only
  have h1 : Quiet s (if r then s else s.push (.jumpTo lEnd)) := by
    cases r
    · exact quiet_push _ (skipped_jumpTo _) s
    · exact Quiet.refl s
  generalize (if r then s else s.push (.jumpTo lEnd)) = s1 at h1
  have h2 : Quiet s (if isElse then s1.push (.setLabel lElse) else s1) := by
    cases isElse
    · exact h1
    · exact h1.trans (quiet_push _ (skipped_setLabel _) s1)
  generalize (if isElse then s1.push (.setLabel lElse) else s1) = s2 at h2
  exact h2.trans (quiet_leave s2)

theorem quiet_ifAfterElse (k : Nat) (r : Bool) (lEnd : Name) (s : St) : Quiet s (ifAfterElse k r lEnd s) := by
  unfold ifAfterElse
  dsimp only
  cases r
  · exact (quiet_leave s).trans (quiet_pushVia _ _ (skipped_jumpTo _) _)
  · exact quiet_leave s

theorem quiet_ifEpilogue (k : Nat) (le : Option Name) (lEnd : Name) (s : St) : Quiet s (ifEpilogue k le lEnd s) := by
  unfold ifEpilogue
  cases le
  · exact quiet_pushVia _ _ (skipped_setLabel _) _
  · exact Quiet.refl s

theorem quiet_loopPrologue (s : St) : Quiet s (loopPrologue s).2.2 := by
  unfold loopPrologue
  dsimp only
  exact (quiet_enter s).trans ((quiet_probeLabel _ _).trans ((quiet_probeLabel _ _).trans
    ((quiet_push _ (skipped_jumpTo _) _).trans (quiet_push _ (skipped_setLabel _) _))))

theorem quiet_loopEpilogue (r : Bool) (lb le : Name) (s : St) : Quiet s (loopEpilogue r lb le s) := by
  unfold loopEpilogue
  dsimp only
  have h1 : Quiet s (if r then s else (s.push (.jumpTo lb)).push (.setLabel le)) := by
    cases r
    · exact (quiet_push _ (skipped_jumpTo _) s).trans (quiet_push _ (skipped_setLabel _) _)
    · exact Quiet.refl s
  generalize (if r then s else (s.push (.jumpTo lb)).push (.setLabel le)) = s1 at h1
  exact h1.trans (quiet_leave s1)

/-! ### The declaration trees under the bookkeeping operations -/

theorem dts_ifLabels (le : Option Name) (s : St) : (ifLabels le s).2.2.2.dts = .node [] [] [] :: s.dts := by
  unfold ifLabels
  dsimp only
  cases le with
  | some l => dsimp only; rw [dts_probeLabel, dts_probeLabel, dts_enter]
  | none => dsimp only; rw [dts_probeLabel, dts_probeLabel, dts_probeLabel, dts_enter]

theorem dts_loopPrologue (s : St) : (loopPrologue s).2.2.dts = .node [] [] [] :: s.dts := by
  unfold loopPrologue
  dsimp only
  rw [dts_push_plain _ _ rfl, dts_push_plain _ _ rfl, dts_probeLabel, dts_probeLabel, dts_enter]

theorem dts_ifAfterBody (isElse r : Bool) (lElse lEnd : Name) (s : St) (hin : s.inner ≠ []) :
    (ifAfterBody isElse r lElse lEnd s).2.dts = closeDts s.dts := by
  unfold ifAfterBody
  dsimp only
  have h1 : (if r then s else s.push (.jumpTo lEnd)).dts = s.dts ∧ (if r then s else s.push (.jumpTo lEnd)).inner ≠ [] := by
    cases r
    · exact ⟨dts_push_plain _ _ rfl, by
        intro h
        have := (push_fields (.jumpTo lEnd) s).2
        simp only [Bool.false_eq_true, if_false] at h
        rw [h] at this
        exact hin (List.eq_nil_of_length_eq_zero this.symm)⟩
    · exact ⟨rfl, hin⟩
  generalize (if r then s else s.push (.jumpTo lEnd)) = s1 at h1
  have h2 : (if isElse then s1.push (.setLabel lElse) else s1).dts = s.dts ∧ (if isElse then s1.push (.setLabel lElse) else s1).inner ≠ [] := by
    cases isElse
    · exact h1
    · refine ⟨by rw [if_pos rfl, dts_push_plain _ _ rfl]; exact h1.1, ?_⟩
      intro h
      have := (push_fields (.setLabel lElse) s1).2
      rw [if_pos rfl] at h
      rw [h] at this
      exact h1.2 (List.eq_nil_of_length_eq_zero this.symm)
  generalize (if isElse then s1.push (.setLabel lElse) else s1) = s2 at h2
  rw [dts_leave s2 h2.2, h2.1]

theorem dts_ifAfterElse (k : Nat) (r : Bool) (lEnd : Name) (s : St) (hin : s.inner ≠ []) :
    (ifAfterElse k r lEnd s).dts = closeDts s.dts := by
  unfold ifAfterElse
  dsimp only
  cases r
  · simp only [Bool.false_eq_true, if_false]
    rw [dts_pushVia _ _ _ rfl, dts_leave s hin]
  · simp only [if_true]
    exact dts_leave s hin

theorem dts_ifEpilogue (k : Nat) (le : Option Name) (lEnd : Name) (s : St) : (ifEpilogue k le lEnd s).dts = s.dts := by
  unfold ifEpilogue
  cases le
  · simp only [Option.isSome_none, Bool.false_eq_true, if_false]
    exact dts_pushVia _ _ _ rfl
  · rfl

theorem dts_loopEpilogue (r : Bool) (lb le : Name) (s : St) (hin : s.inner ≠ []) :
    (loopEpilogue r lb le s).dts = closeDts s.dts := by
  unfold loopEpilogue
  dsimp only
  have h1 : (if r then s else (s.push (.jumpTo lb)).push (.setLabel le)).dts = s.dts ∧
      (if r then s else (s.push (.jumpTo lb)).push (.setLabel le)).inner ≠ [] := by
    cases r
    · refine ⟨by simp only [Bool.false_eq_true, if_false]; rw [dts_push_plain _ _ rfl, dts_push_plain _ _ rfl], ?_⟩
      intro h
      simp only [Bool.false_eq_true, if_false] at h
      have := (push_fields (.setLabel le) (s.push (.jumpTo lb))).2
      rw [h, (push_fields (.jumpTo lb) s).2] at this
      exact hin (List.eq_nil_of_length_eq_zero this.symm)
    · exact ⟨rfl, hin⟩
  generalize (if r then s else (s.push (.jumpTo lb)).push (.setLabel le)) = s1 at h1
  rw [dts_leave s1 h1.2, h1.1]

/-! ### Chains of error lists -/

theorem chain2 {a b c : List Err} (h1 : ∃ Δ, b = a ++ Δ) (h2 : ∃ Δ, c = b ++ Δ) (h : c = a) : b = a ∧ c = b := by
  obtain ⟨d1, rfl⟩ := h1
  obtain ⟨d2, rfl⟩ := h2
  rw [List.append_assoc] at h
  have := List.append_right_eq_self.mp h
  rw [List.append_eq_nil_iff] at this
  obtain ⟨rfl, rfl⟩ := this
  simp

theorem chain3 {a b c d : List Err} (h1 : ∃ Δ, b = a ++ Δ) (h2 : ∃ Δ, c = b ++ Δ) (h3 : ∃ Δ, d = c ++ Δ) (h : d = a) :
    b = a ∧ c = b ∧ d = c := by
  obtain ⟨hc, hd⟩ := chain2 (a := a) (b := c) (c := d) (by
    obtain ⟨d1, rfl⟩ := h1; obtain ⟨d2, rfl⟩ := h2; exact ⟨d1 ++ d2, by rw [List.append_assoc]⟩) h3 h
  obtain ⟨hb, hc'⟩ := chain2 h1 h2 hc
  exact ⟨hb, hc', hd⟩

theorem forbidden_id (rc bc cc : Bool) (s : St) (h : (forbidden rc bc cc s).errors = s.errors) :
    forbidden rc bc cc s = s := by
  cases rc <;> cases bc <;> cases cc <;> simp [forbidden, St.addErr] at h ⊢

/-- construct-level preservation, including the number of live blocks -/
def CtD (g : Globals) (R : Ty) (f : St → St) (F : SpecSt → SpecSt) : Prop :=
  ∀ s ss, DRel g R s ss → (f s).errors = s.errors → DRel g R (f s) (F ss) ∧ (f s).inner.length = s.inner.length

theorem ctd_of_std {g : Globals} {R : Ty} {f : St → St} {F : SpecSt → SpecSt} (h : StD g R f F) (hs : ∀ s, ESteps s (f s)) : CtD g R f F :=
  fun s ss hr he => ⟨h s ss hr he, (hs s).inner_len⟩

/-- one statement of a body followed by the rest of the body -/
theorem body_step {g : Globals} {R : Ty} {s s1 sf : St} {ss ss1 ssF : SpecSt} (rc bc cc : Bool) (hr : DRel g R s ss)
    (x1 : ∃ Δ, s1.errors = (forbidden rc bc cc s).errors ++ Δ) (x2 : ∃ Δ, sf.errors = s1.errors ++ Δ)
    (he : sf.errors = s.errors)
    (hstmt : DRel g R (forbidden rc bc cc s) ss → s1.errors = (forbidden rc bc cc s).errors →
      DRel g R s1 ss1 ∧ s1.inner.length = (forbidden rc bc cc s).inner.length)
    (ih : DRel g R s1 ss1 → sf.errors = s1.errors → DRel g R sf ssF ∧ sf.inner.length = s1.inner.length) :
    DRel g R sf ssF ∧ sf.inner.length = s.inner.length := by
  obtain ⟨e0, e1, e2⟩ := chain3 (esteps_forbidden rc bc cc s).errors_ext x1 x2 he
  have hid := forbidden_id rc bc cc s e0
  rw [hid] at hstmt e1
  obtain ⟨r1, l1⟩ := hstmt hr e1
  obtain ⟨r2, l2⟩ := ih r1 e2
  exact ⟨r2, by rw [l2, l1]⟩

/-! ### Prologue of `if_condition` -/

theorem den_ifPrologue {g : Globals} {R : Ty} {rg : RGlobals} (hg : GlobRel g rg) (hn : GNames g) (cond : IfCond) (dup isElse : Bool)
    (le : Option Name) (s : St) (ss : SpecSt) (hr : DRel g R s ss)
    (he : (ifPrologue g cond dup isElse le s).2.2.errors = s.errors) :
    DRel g R (ifPrologue g cond dup isElse le s).2.2 (specIfCond false cond ss.push) ∧
    (ifPrologue g cond dup isElse le s).2.2.inner.length = s.inner.length + 1 := by
  unfold ifPrologue at he ⊢
  dsimp only at he ⊢
  have x0 : ∃ Δ, (if dup then s.addErr .ifElseDuplicated "if-condition".toList 1 0 else s).errors = s.errors ++ Δ := by
    cases dup
    · exact ⟨[], by simp⟩
    · exact ⟨_, rfl⟩
  have hdup : (if dup then s.addErr .ifElseDuplicated "if-condition".toList 1 0 else s).errors = s.errors →
      (if dup then s.addErr .ifElseDuplicated "if-condition".toList 1 0 else s) = s := by
    cases dup
    · intro _; rfl
    · intro h
      have := congrArg List.length h
      simp [St.addErr] at this
  generalize (if dup then s.addErr .ifElseDuplicated "if-condition".toList 1 0 else s) = s0 at he x0 hdup ⊢
  have q1 := quiet_ifLabels le s0
  have f1 := ifLabels_fields le s0
  have d1 := dts_ifLabels le s0
  generalize ifLabels le s0 = p at he q1 f1 d1 ⊢
  obtain ⟨lBegin, lElse, lEnd, s1⟩ := p
  dsimp only at he q1 f1 d1 ⊢
  rw [(push_fields _ _).1] at he
  have x2 := (esteps_ifCondCalc g cond lBegin lElse lEnd isElse s1).errors_ext
  have x1 : ∃ Δ, s1.errors = s.errors ++ Δ := by rw [f1.1]; exact x0
  obtain ⟨e1, e2⟩ := chain2 x1 x2 he
  have hs0 : s0 = s := hdup (by rw [← f1.1]; exact e1)
  subst hs0
  have r1 : DRel g R s1 ss.push := drel_enter hr q1 f1.2.1 d1
  have r2 := den_ifCondCalc hg hn cond lBegin lElse lEnd isElse s1 ss.push r1 e2
  refine ⟨drel_same r2 (quiet_push _ (skipped_setLabel _) _) (vals_push _ _) (dts_push_plain _ _ rfl), ?_⟩
  rw [(push_fields _ _).2, (esteps_ifCondCalc g cond lBegin lElse lEnd isElse s1).inner_len, f1.2.2]

/-! ### `loop_statement` around its statement loop -/

theorem den_loopWrap {g : Globals} {R : Ty} (k : Name → Name → Bool → Bool → Bool → St → St × Bool) (K : SpecSt → SpecSt)
    (hx : ∀ lb le rc bc cc s, Steps s (k lb le rc bc cc s).1)
    (hk : ∀ lb le s ss, DRel g R s ss → (k lb le false false false s).1.errors = s.errors →
      DRel g R (k lb le false false false s).1 (K ss) ∧ (k lb le false false false s).1.inner.length = s.inner.length) :
    CtD g R (loopWrap k) (fun ss => (K ss.push).pop) := by
  intro s ss hr he
  unfold loopWrap at he ⊢
  dsimp only at he ⊢
  have q1 := quiet_loopPrologue s
  have f1 := loopPrologue_fields s
  have d1 := dts_loopPrologue s
  generalize loopPrologue s = p at he q1 f1 d1 ⊢
  obtain ⟨lb, le, s1⟩ := p
  dsimp only at he q1 f1 d1 ⊢
  have x2 := (hx lb le false false false s1).errors_ext
  have h2 := hk lb le s1 ss.push (drel_enter hr q1 f1.2.1 d1)
  generalize k lb le false false false s1 = q at he x2 h2 ⊢
  obtain ⟨s2, r⟩ := q
  dsimp only at he x2 h2 ⊢
  have e2 : s2.errors = s1.errors := by
    have hin : s2.errors.length ≤ s1.errors.length := by
      have := congrArg List.length he
      rw [f1.1]
      obtain ⟨Δ, hΔ⟩ := x2
      by_cases hne : s2.inner ≠ []
      · rw [(loopEpilogue_fields r lb le s2 hne).1] at this; omega
      · have : (loopEpilogue r lb le s2).errors = s2.errors := (quiet_loopEpilogue r lb le s2).errors
        rw [this] at he; rw [he]; omega
    exact eq_of_ext_len x2 hin
  obtain ⟨r2, l2⟩ := h2 e2
  have hne : s2.inner ≠ [] := inner_ne_of_len (by rw [l2, f1.2.2])
  have f3 := loopEpilogue_fields r lb le s2 hne
  refine ⟨drel_leave r2 (quiet_loopEpilogue r lb le s2) f3.2.1 (dts_loopEpilogue r lb le s2 hne) hne, ?_⟩
  have := f3.2.2
  rw [l2, f1.2.2] at this
  omega

variable {g : Globals} {R : Ty} {rg : RGlobals}

mutual
theorem den_ifCondition (hg : GlobRel g rg) (hn : GNames g) : ∀ (i : IfStmt) (le : Option Name) (ll : Option (Name × Name)),
    IfStmt.anaOK ll.isSome i = true → CtD g R (ifCondition g i le ll) (specIf false rg i)
  | .mk cond body els elif, labelEnd, labelLoop => by
    intro hok s ss hr he
    unfold IfStmt.anaOK at hok
    simp only [Bool.and_eq_true] at hok
    obtain ⟨hb, hrest⟩ := hok
    unfold ifCondition at he ⊢
    unfold specIf
    dsimp only at he ⊢
    rw [(quiet_ifEpilogue _ _ _ _).errors] at he
    have x1 := (steps_ifPrologue g cond (els.isSome && elif.isSome) (els.isSome || elif.isSome) labelEnd s).errors_ext
    have h1 := den_ifPrologue hg hn cond (els.isSome && elif.isSome) (els.isSome || elif.isSome) labelEnd s ss hr
    generalize ifPrologue g cond (els.isSome && elif.isSome) (els.isSome || elif.isSome) labelEnd s = p at he x1 h1 ⊢
    obtain ⟨lElse, lEnd, s1⟩ := p
    dsimp only at he x1 h1 ⊢
    have x2 := (steps_ifBodies g body lEnd labelLoop s1).errors_ext
    have h2 := den_ifBodies hg hn body lEnd labelLoop hb s1 (specIfCond false cond ss.push)
    generalize ifBodies g body lEnd labelLoop s1 = q at he x2 h2 ⊢
    obtain ⟨s2, r⟩ := q
    dsimp only at he x2 h2 ⊢
    have q3 := quiet_ifAfterBody (els.isSome || elif.isSome) r lElse lEnd s2
    have f3 := ifAfterBody_fields (els.isSome || elif.isSome) r lElse lEnd s2
    have d3 := dts_ifAfterBody (els.isSome || elif.isSome) r lElse lEnd s2
    generalize ifAfterBody (els.isSome || elif.isSome) r lElse lEnd s2 = q3' at he q3 f3 d3 ⊢
    obtain ⟨k, s3⟩ := q3'
    dsimp only at he q3 f3 d3 ⊢
    -- the error list of the else part extends that of `s3`
    have x4 : ∃ Δ, (match els, elif with
        | some eb, _ => ifAfterElse k (ifBodies g eb lEnd labelLoop s3.enter).2 lEnd (ifBodies g eb lEnd labelLoop s3.enter).1
        | none, some ei => ifCondition g ei (some lEnd) labelLoop s3
        | none, none => s3).errors = s2.errors ++ Δ := by
      rw [← q3.errors]
      cases els with
      | some eb =>
        dsimp only
        rw [(quiet_ifAfterElse _ _ _ _).errors]
        exact (steps_ifBodies g eb lEnd labelLoop s3.enter).errors_ext
      | none =>
        cases elif with
        | some ei => exact (steps_ifCondition g ei (some lEnd) labelLoop s3).errors_ext
        | none => exact ⟨[], by simp⟩
    have he' : (match els, elif with
        | some eb, _ => ifAfterElse k (ifBodies g eb lEnd labelLoop s3.enter).2 lEnd (ifBodies g eb lEnd labelLoop s3.enter).1
        | none, some ei => ifCondition g ei (some lEnd) labelLoop s3
        | none, none => s3).errors = s.errors := by
      cases els with
      | some eb => exact he
      | none => cases elif <;> exact he
    obtain ⟨e1, e2, e4⟩ := chain3 x1 x2 x4 he'
    obtain ⟨r1, l1⟩ := h1 e1
    obtain ⟨r2, l2⟩ := h2 r1 e2
    have hne2 : s2.inner ≠ [] := inner_ne_of_len (by rw [l2, l1])
    have f3' := f3 hne2
    have r3 : DRel g R s3 (specBodies false rg body (specIfCond false cond ss.push)).pop := drel_leave r2 q3 f3'.2.1 (d3 hne2) hne2
    have l3 : s3.inner.length = s.inner.length := by have := f3'.2.2; rw [l2, l1] at this; omega
    suffices hmain : DRel g R (match els, elif with
        | some eb, _ => ifAfterElse k (ifBodies g eb lEnd labelLoop s3.enter).2 lEnd (ifBodies g eb lEnd labelLoop s3.enter).1
        | none, some ei => ifCondition g ei (some lEnd) labelLoop s3
        | none, none => s3)
        (match els, elif with
        | some eb, _ => (specBodies false rg eb (specBodies false rg body (specIfCond false cond ss.push)).pop.push).pop
        | none, some ei => specIf false rg ei (specBodies false rg body (specIfCond false cond ss.push)).pop
        | none, none => (specBodies false rg body (specIfCond false cond ss.push)).pop) ∧
        (match els, elif with
        | some eb, _ => ifAfterElse k (ifBodies g eb lEnd labelLoop s3.enter).2 lEnd (ifBodies g eb lEnd labelLoop s3.enter).1
        | none, some ei => ifCondition g ei (some lEnd) labelLoop s3
        | none, none => s3).inner.length = s.inner.length by
      refine ⟨?_, ?_⟩
      · refine drel_same ?_ (quiet_ifEpilogue _ _ _ _) (ifEpilogue_fields _ _ _ _).2.1 (dts_ifEpilogue _ _ _ _)
        cases els with
        | some eb => exact hmain.1
        | none => cases elif <;> exact hmain.1
      · rw [(ifEpilogue_fields _ _ _ _).2.2]
        cases els with
        | some eb => exact hmain.2
        | none => cases elif <;> exact hmain.2
    rw [← q3.errors] at e4
    cases els with
    | some eb =>
      dsimp only at e4 ⊢
      rw [(quiet_ifAfterElse _ _ _ _).errors] at e4
      have h4 := den_ifBodies hg hn eb lEnd labelLoop hrest s3.enter _ (drel_enter r3 (quiet_enter s3) (vals_enter s3) (dts_enter s3)) e4
      generalize ifBodies g eb lEnd labelLoop s3.enter = q4 at h4 ⊢
      obtain ⟨s4, r4⟩ := q4
      dsimp only at h4 ⊢
      obtain ⟨r4', l4⟩ := h4
      have hne4 : s4.inner ≠ [] := inner_ne_of_len (n := s3.inner.length) (by rw [l4]; simp [St.enter])
      have f5 := ifAfterElse_fields k r4 lEnd s4 hne4
      refine ⟨drel_leave r4' (quiet_ifAfterElse _ _ _ _) f5.2.1 (dts_ifAfterElse k r4 lEnd s4 hne4) hne4, ?_⟩
      have := f5.2.2
      rw [l4] at this
      simp [St.enter] at this
      omega
    | none =>
      cases elif with
      | some ei =>
        dsimp only at e4 ⊢
        obtain ⟨r5, l5⟩ := den_ifCondition hg hn ei (some lEnd) labelLoop hrest s3 _ r3 e4
        exact ⟨r5, by rw [l5, l3]⟩
      | none => exact ⟨r3, l3⟩
theorem den_ifBodies (hg : GlobRel g rg) (hn : GNames g) : ∀ (b : IfBodies) (lEnd : Name) (ll : Option (Name × Name)),
    IfBodies.anaOK ll.isSome b = true → ∀ s ss, DRel g R s ss → (ifBodies g b lEnd ll s).1.errors = s.errors →
      DRel g R (ifBodies g b lEnd ll s).1 (specBodies false rg b ss) ∧ (ifBodies g b lEnd ll s).1.inner.length = s.inner.length
  | .ifb l, lEnd, ll => by
    intro hok s ss hr he
    unfold IfBodies.anaOK at hok
    unfold ifBodies at he ⊢
    unfold specBodies
    exact den_ifBody hg hn l lEnd ll false hok s ss hr he
  | .loopb l, lEnd, some (lb, le) => by
    intro hok s ss hr he
    unfold IfBodies.anaOK at hok
    simp at hok
    unfold ifBodies at he ⊢
    unfold specBodies
    exact den_ifLoopBody hg hn l lEnd lb le false false false hok s ss hr he
  | .loopb _, _, none => by
    intro hok; unfold IfBodies.anaOK at hok; simp at hok
theorem den_ifBody (hg : GlobRel g rg) (hn : GNames g) : ∀ (l : List IfBodyStmt) (lEnd : Name) (ll : Option (Name × Name)) (rc : Bool),
    IfBodyStmt.anaOKL ll.isSome l = true → ∀ s ss, DRel g R s ss → (ifBody g l lEnd ll rc s).1.errors = s.errors →
      DRel g R (ifBody g l lEnd ll rc s).1 (specIfBody false rg l ss) ∧ (ifBody g l lEnd ll rc s).1.inner.length = s.inner.length
  | [], _, _, _ => by
    intro _ s ss hr _
    unfold ifBody specIfBody
    exact ⟨hr, rfl⟩
  | st :: tl, lEnd, ll, rc => by
    intro hok s ss hr he
    unfold ifBody at he ⊢
    dsimp only at he ⊢
    cases st with
    | letB b =>
      unfold IfBodyStmt.anaOKL at hok
      unfold specIfBody
      exact body_step rc false false hr (esteps_letBinding g b _).errors_ext (steps_ifBody g tl lEnd ll rc _).errors_ext he
        (ctd_of_std (den_let hg hn b) (esteps_letBinding g b) _ _) (den_ifBody hg hn tl lEnd ll rc hok _ _)
    | bind b =>
      unfold IfBodyStmt.anaOKL at hok
      unfold specIfBody
      exact body_step rc false false hr (esteps_binding g b _).errors_ext (steps_ifBody g tl lEnd ll rc _).errors_ext he
        (ctd_of_std (den_bind hg hn b) (esteps_binding g b) _ _) (den_ifBody hg hn tl lEnd ll rc hok _ _)
    | call c =>
      unfold IfBodyStmt.anaOKL at hok
      unfold specIfBody
      exact body_step rc false false hr (esteps_callStmt g c _).errors_ext (steps_ifBody g tl lEnd ll rc _).errors_ext he
        (ctd_of_std (den_callS hg hn c) (esteps_callStmt g c) _ _) (den_ifBody hg hn tl lEnd ll rc hok _ _)
    | ifS i =>
      unfold IfBodyStmt.anaOKL at hok
      simp only [Bool.and_eq_true] at hok
      unfold specIfBody
      exact body_step rc false false hr (steps_ifCondition g i (some lEnd) ll _).errors_ext (steps_ifBody g tl lEnd ll rc _).errors_ext he
        (den_ifCondition hg hn i (some lEnd) ll hok.1 _ _) (den_ifBody hg hn tl lEnd ll rc hok.2 _ _)
    | loop b =>
      unfold IfBodyStmt.anaOKL at hok
      simp only [Bool.and_eq_true] at hok
      unfold specIfBody
      exact body_step rc false false hr (steps_loopWrap _ (steps_loopBody g b) _).errors_ext (steps_ifBody g tl lEnd ll rc _).errors_ext he
        (den_loopWrap _ (specLoopBody false rg b) (steps_loopBody g b)
          (fun lb le s ss => den_loopBody hg hn b lb le false false false hok.1 s ss) _ _)
        (den_ifBody hg hn tl lEnd ll rc hok.2 _ _)
    | ret e =>
      unfold IfBodyStmt.anaOKL at hok
      unfold specIfBody
      dsimp only at he ⊢
      have x1 := (steps_nestedReturn g e (forbidden rc false false s)).errors_ext
      have h1 := fun hr he => den_nestedReturn (R := R) hg hn e (forbidden rc false false s) ss hr he
      have l1 := nestedReturn_len (g := g) e (forbidden rc false false s)
      generalize nestedReturn g e (forbidden rc false false s) = q at he x1 h1 l1 ⊢
      obtain ⟨s1, r⟩ := q
      dsimp only at he x1 h1 l1 ⊢
      exact body_step rc false false hr x1 (steps_ifBody g tl lEnd ll (rc || r) s1).errors_ext he
        (fun hr he => ⟨h1 hr he, l1⟩) (den_ifBody hg hn tl lEnd ll (rc || r) hok _ _)
theorem den_ifLoopBody (hg : GlobRel g rg) (hn : GNames g) : ∀ (l : List IfLoopStmt) (lEnd lb le : Name) (rc bc cc : Bool),
    IfLoopStmt.anaOKL l = true → ∀ s ss, DRel g R s ss → (ifLoopBody g l lEnd lb le rc bc cc s).1.errors = s.errors →
      DRel g R (ifLoopBody g l lEnd lb le rc bc cc s).1 (specIfLoopBody false rg l ss) ∧
      (ifLoopBody g l lEnd lb le rc bc cc s).1.inner.length = s.inner.length
  | [], _, _, _, _, _, _ => by
    intro _ s ss hr _
    unfold ifLoopBody specIfLoopBody
    exact ⟨hr, rfl⟩
  | st :: tl, lEnd, lb, le, rc, bc, cc => by
    intro hok s ss hr he
    unfold ifLoopBody at he ⊢
    dsimp only at he ⊢
    cases st with
    | letB b =>
      unfold IfLoopStmt.anaOKL at hok
      unfold specIfLoopBody
      exact body_step rc bc cc hr (esteps_letBinding g b _).errors_ext (steps_ifLoopBody g tl lEnd lb le rc bc cc _).errors_ext he
        (ctd_of_std (den_let hg hn b) (esteps_letBinding g b) _ _) (den_ifLoopBody hg hn tl lEnd lb le rc bc cc hok _ _)
    | bind b =>
      unfold IfLoopStmt.anaOKL at hok
      unfold specIfLoopBody
      exact body_step rc bc cc hr (esteps_binding g b _).errors_ext (steps_ifLoopBody g tl lEnd lb le rc bc cc _).errors_ext he
        (ctd_of_std (den_bind hg hn b) (esteps_binding g b) _ _) (den_ifLoopBody hg hn tl lEnd lb le rc bc cc hok _ _)
    | call c =>
      unfold IfLoopStmt.anaOKL at hok
      unfold specIfLoopBody
      exact body_step rc bc cc hr (esteps_callStmt g c _).errors_ext (steps_ifLoopBody g tl lEnd lb le rc bc cc _).errors_ext he
        (ctd_of_std (den_callS hg hn c) (esteps_callStmt g c) _ _) (den_ifLoopBody hg hn tl lEnd lb le rc bc cc hok _ _)
    | ifS i =>
      unfold IfLoopStmt.anaOKL at hok
      simp only [Bool.and_eq_true] at hok
      unfold specIfLoopBody
      exact body_step rc bc cc hr (steps_ifCondition g i (some lEnd) (some (lb, le)) _).errors_ext
        (steps_ifLoopBody g tl lEnd lb le rc bc cc _).errors_ext he
        (den_ifCondition hg hn i (some lEnd) (some (lb, le)) hok.1 _ _) (den_ifLoopBody hg hn tl lEnd lb le rc bc cc hok.2 _ _)
    | loop b =>
      unfold IfLoopStmt.anaOKL at hok
      simp only [Bool.and_eq_true] at hok
      unfold specIfLoopBody
      exact body_step rc bc cc hr (steps_loopWrap _ (steps_loopBody g b) _).errors_ext
        (steps_ifLoopBody g tl lEnd lb le rc bc cc _).errors_ext he
        (den_loopWrap _ (specLoopBody false rg b) (steps_loopBody g b)
          (fun lb le s ss => den_loopBody hg hn b lb le false false false hok.1 s ss) _ _)
        (den_ifLoopBody hg hn tl lEnd lb le rc bc cc hok.2 _ _)
    | ret e =>
      unfold IfLoopStmt.anaOKL at hok
      unfold specIfLoopBody
      dsimp only at he ⊢
      have x1 := (steps_nestedReturn g e (forbidden rc bc cc s)).errors_ext
      have h1 := fun hr he => den_nestedReturn (R := R) hg hn e (forbidden rc bc cc s) ss hr he
      have l1 := nestedReturn_len (g := g) e (forbidden rc bc cc s)
      generalize nestedReturn g e (forbidden rc bc cc s) = q at he x1 h1 l1 ⊢
      obtain ⟨s1, r⟩ := q
      dsimp only at he x1 h1 l1 ⊢
      exact body_step rc bc cc hr x1 (steps_ifLoopBody g tl lEnd lb le (rc || r) bc cc s1).errors_ext he
        (fun hr he => ⟨h1 hr he, l1⟩) (den_ifLoopBody hg hn tl lEnd lb le (rc || r) bc cc hok _ _)
    | cont =>
      unfold IfLoopStmt.anaOKL at hok
      unfold specIfLoopBody
      exact body_step rc bc cc hr ⟨[], by simp [St.push, St.mapFrames]⟩ (steps_ifLoopBody g tl lEnd lb le rc bc true _).errors_ext he
        (fun hr _ => ⟨drel_same hr (quiet_push _ (skipped_jumpTo _) _) (vals_push _ _) (dts_push_plain _ _ rfl), (push_fields _ _).2⟩)
        (den_ifLoopBody hg hn tl lEnd lb le rc bc true hok _ _)
    | brk =>
      unfold IfLoopStmt.anaOKL at hok
      unfold specIfLoopBody
      exact body_step rc bc cc hr ⟨[], by simp [St.push, St.mapFrames]⟩ (steps_ifLoopBody g tl lEnd lb le rc true cc _).errors_ext he
        (fun hr _ => ⟨drel_same hr (quiet_push _ (skipped_jumpTo _) _) (vals_push _ _) (dts_push_plain _ _ rfl), (push_fields _ _).2⟩)
        (den_ifLoopBody hg hn tl lEnd lb le rc true cc hok _ _)
theorem den_loopBody (hg : GlobRel g rg) (hn : GNames g) : ∀ (l : List LoopStmt) (lb le : Name) (rc bc cc : Bool),
    LoopStmt.anaOKL l = true → ∀ s ss, DRel g R s ss → (loopBody g l lb le rc bc cc s).1.errors = s.errors →
      DRel g R (loopBody g l lb le rc bc cc s).1 (specLoopBody false rg l ss) ∧
      (loopBody g l lb le rc bc cc s).1.inner.length = s.inner.length
  | [], _, _, _, _, _ => by
    intro _ s ss hr _
    unfold loopBody specLoopBody
    exact ⟨hr, rfl⟩
  | st :: tl, lb, le, rc, bc, cc => by
    intro hok s ss hr he
    unfold loopBody at he ⊢
    dsimp only at he ⊢
    cases st with
    | letB b =>
      unfold LoopStmt.anaOKL at hok
      unfold specLoopBody
      exact body_step rc bc cc hr (esteps_letBinding g b _).errors_ext (steps_loopBody g tl lb le rc bc cc _).errors_ext he
        (ctd_of_std (den_let hg hn b) (esteps_letBinding g b) _ _) (den_loopBody hg hn tl lb le rc bc cc hok _ _)
    | bind b =>
      unfold LoopStmt.anaOKL at hok
      unfold specLoopBody
      exact body_step rc bc cc hr (esteps_binding g b _).errors_ext (steps_loopBody g tl lb le rc bc cc _).errors_ext he
        (ctd_of_std (den_bind hg hn b) (esteps_binding g b) _ _) (den_loopBody hg hn tl lb le rc bc cc hok _ _)
    | call c =>
      unfold LoopStmt.anaOKL at hok
      unfold specLoopBody
      exact body_step rc bc cc hr (esteps_callStmt g c _).errors_ext (steps_loopBody g tl lb le rc bc cc _).errors_ext he
        (ctd_of_std (den_callS hg hn c) (esteps_callStmt g c) _ _) (den_loopBody hg hn tl lb le rc bc cc hok _ _)
    | ifS i =>
      unfold LoopStmt.anaOKL at hok
      simp only [Bool.and_eq_true] at hok
      unfold specLoopBody
      exact body_step rc bc cc hr (steps_ifCondition g i none (some (lb, le)) _).errors_ext
        (steps_loopBody g tl lb le rc bc cc _).errors_ext he
        (den_ifCondition hg hn i none (some (lb, le)) hok.1 _ _) (den_loopBody hg hn tl lb le rc bc cc hok.2 _ _)
    | loop b =>
      unfold LoopStmt.anaOKL at hok
      simp only [Bool.and_eq_true] at hok
      unfold specLoopBody
      exact body_step rc bc cc hr (steps_loopWrap _ (steps_loopBody g b) _).errors_ext
        (steps_loopBody g tl lb le rc bc cc _).errors_ext he
        (den_loopWrap _ (specLoopBody false rg b) (steps_loopBody g b)
          (fun lb le s ss => den_loopBody hg hn b lb le false false false hok.1 s ss) _ _)
        (den_loopBody hg hn tl lb le rc bc cc hok.2 _ _)
    | ret e =>
      unfold LoopStmt.anaOKL at hok
      unfold specLoopBody
      dsimp only at he ⊢
      have x1 := (steps_nestedReturn g e (forbidden rc bc cc s)).errors_ext
      have h1 := fun hr he => den_nestedReturn (R := R) hg hn e (forbidden rc bc cc s) ss hr he
      have l1 := nestedReturn_len (g := g) e (forbidden rc bc cc s)
      generalize nestedReturn g e (forbidden rc bc cc s) = q at he x1 h1 l1 ⊢
      obtain ⟨s1, r⟩ := q
      dsimp only at he x1 h1 l1 ⊢
      exact body_step rc bc cc hr x1 (steps_loopBody g tl lb le (rc || r) bc cc s1).errors_ext he
        (fun hr he => ⟨h1 hr he, l1⟩) (den_loopBody hg hn tl lb le (rc || r) bc cc hok _ _)
    | brk =>
      unfold LoopStmt.anaOKL at hok
      unfold specLoopBody
      exact body_step rc bc cc hr ⟨[], by simp [St.push, St.mapFrames]⟩ (steps_loopBody g tl lb le rc true cc _).errors_ext he
        (fun hr _ => ⟨drel_same hr (quiet_push _ (skipped_jumpTo _) _) (vals_push _ _) (dts_push_plain _ _ rfl), (push_fields _ _).2⟩)
        (den_loopBody hg hn tl lb le rc true cc hok _ _)
    | cont =>
      unfold LoopStmt.anaOKL at hok
      unfold specLoopBody
      exact body_step rc bc cc hr ⟨[], by simp [St.push, St.mapFrames]⟩ (steps_loopBody g tl lb le rc bc true _).errors_ext he
        (fun hr _ => ⟨drel_same hr (quiet_push _ (skipped_jumpTo _) _) (vals_push _ _) (dts_push_plain _ _ rfl), (push_fields _ _).2⟩)
        (den_loopBody hg hn tl lb le rc bc true hok _ _)
end

end SemVerif
