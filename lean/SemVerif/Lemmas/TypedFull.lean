import SemVerif.Lemmas.RuleLock
/-!
# Lemmas/TypedFull — the typed scan of a rule-abiding accepted function reports nothing

`typed_function`: the scan invariant of the T2 induction (`TOK`) leaves two checks open; both are
closed through the abstract reading: a call instruction shows as a call event with as many argument
trees as it has operands, a nested return as an event with its recorded type; `T2_function`
identifies the events with those of the source denotation, and `lock_fn` says what they look like
when the rule checker reports nothing.
-/
namespace SemVerif

/-! ### The scan, position by position -/

theorem typedGo_mem (c : ConstSem → Bool) (f : Func → Bool) (R : Ty) : ∀ (l : List Instr) (e : TyEnv) (p : Nat) (pb : Nat × TyBad),
    pb ∈ typedGo c f R l e p ↔
      ∃ pre i post, l = pre ++ i :: post ∧ pb.1 = p + pre.length ∧ pb.2 ∈ tyStepBad c f R (pre.foldl tyStepEnv e) i
  | [], e, p, pb => by simp [typedGo]
  | x :: xs, e, p, pb => by
    unfold typedGo
    rw [List.mem_append, typedGo_mem c f R xs]
    constructor
    · rintro (h | ⟨pre, i, post, hl, hp, hb⟩)
      · rw [List.mem_map] at h
        obtain ⟨b, hb, rfl⟩ := h
        exact ⟨[], x, xs, rfl, by simp, hb⟩
      · exact ⟨x :: pre, i, post, by rw [hl]; rfl, by simp [hp]; omega, hb⟩
    · rintro ⟨pre, i, post, hl, hp, hb⟩
      cases pre with
      | nil =>
        simp only [List.nil_append, List.cons.injEq] at hl
        obtain ⟨rfl, rfl⟩ := hl
        left
        rw [List.mem_map]
        exact ⟨pb.2, hb, by cases pb; simp at hp; simp [hp]⟩
      | cons y ys =>
        simp only [List.cons_append, List.cons.injEq] at hl
        obtain ⟨rfl, rfl⟩ := hl
        right
        exact ⟨ys, i, post, rfl, by simp at hp; omega, hb⟩

/-! ### Instructions show as events of the abstract reading -/

theorem step_out (A : AbsSt) (i : Instr) : ∀ ev ∈ A.out, ev ∈ (abstractStep A i).out := by
  intro ev h
  cases i <;> simp [abstractStep, AbsSt.emit_out, AbsSt.bind_out, AbsSt.emit, AbsSt.bind, h]

theorem fold_out : ∀ (l : List Instr) (A : AbsSt), ∀ ev ∈ A.out, ev ∈ (l.foldl abstractStep A).out
  | [], _, _, h => h
  | i :: l, A, ev, h => fold_out l _ ev (step_out A i ev h)

theorem call_event : ∀ (l : List Instr) (A : AbsSt) (fd : Func) (ps : List ExprResult) (r : Nat), .call fd ps r ∈ l →
    ∃ ts, ts.length = ps.length ∧ DStmt.callS (.call fd.name ts) ∈ (l.foldl abstractStep A).out
  | [], _, _, _, _, h => by cases h
  | i :: l, A, fd, ps, r, h => by
    simp only [List.mem_cons] at h
    rcases h with rfl | h
    · refine ⟨ps.map A.res, by simp, fold_out l _ _ ?_⟩
      simp [abstractStep, AbsSt.emit_out, AbsSt.bind_out]
    · exact call_event l _ fd ps r h

theorem jret_event : ∀ (l : List Instr) (A : AbsSt) (x : ExprResult), .jumpFnReturn x ∈ l →
    ∃ t, DStmt.jret x.ty t ∈ (l.foldl abstractStep A).out
  | [], _, _, h => by cases h
  | i :: l, A, x, h => by
    simp only [List.mem_cons] at h
    rcases h with rfl | h
    · refine ⟨A.res x, fold_out l _ _ ?_⟩
      simp [abstractStep, AbsSt.emit_out]
    · exact jret_event l _ x h

/-! ### What the two open checks say -/

theorem argCount_mem {c : ConstSem → Bool} {f : Func → Bool} {R : Ty} {e : TyEnv} {i : Instr}
    (h : TyBad.argCount ∈ tyStepBad c f R e i) : ∃ fd ps r, i = .call fd ps r ∧ ps.length ≠ fd.params.length := by
  cases i <;> simp [tyStepBad, badIf] at h
  case call fd ps r => exact ⟨fd, ps, r, rfl, h⟩
  case exprStructValue v idx r =>
    split at h
    · split at h
      · split at h <;> simp at h
      · simp at h
    · simp at h

theorem retType_jump {c : ConstSem → Bool} {f : Func → Bool} {R : Ty} {e : TyEnv} {x : ExprResult}
    (h : TyBad.retType ∈ tyStepBad c f R e (.jumpFnReturn x)) : x.ty ≠ R := by
  intro heq
  simp [tyStepBad, badIf, heq] at h

theorem calleeTable_call {c : ConstSem → Bool} {f : Func → Bool} {R : Ty} {e : TyEnv} {fd : Func} {ps : List ExprResult} {r : Nat}
    (h : f fd = false) : TyBad.calleeTable ∈ tyStepBad c f R e (.call fd ps r) := by
  simp [tyStepBad, badIf, h]

/-! ### The whole function -/

variable {g : Globals} {rg : RGlobals}

theorem typed_function (hg : GlobRel g rg) (hn : GNames g) (f : FnDecl) (hok : BodyStmt.anaOKL f.body = true)
    (he : (functionBody g f).errors = []) (hwf : checkFn rg f = []) :
    typedGo (cOkOf g) (fOkOf g) f.result.toTy (functionBody g f).root.context TyEnv.init 0 = [] := by
  obtain ⟨habs, _, htok, _⟩ := T2_function hg hn f hok he
  have hev := lock_fn rg f hwf
  rw [← habs] at hev
  rw [List.eq_nil_iff_forall_not_mem]
  intro pb hpb
  obtain ⟨i', hget, hk⟩ := htok pb hpb
  obtain ⟨pre, i, post, hctx, hpos, hb⟩ := (typedGo_mem _ _ _ _ _ _ pb).mp hpb
  have hi : i' = i := by
    rw [hctx, hpos, Nat.zero_add, List.getElem?_append_right (Nat.le_refl _)] at hget
    simpa using hget.symm
  subst hi
  have hmem : i' ∈ (functionBody g f).root.context := by rw [hctx]; simp
  obtain ⟨pos, b⟩ := pb
  dsimp only at hk hb hpos
  unfold TyBad.known at hk
  cases b <;> simp at hk
  case argCount =>
    obtain ⟨fd, ps, r, rfl, hne⟩ := argCount_mem hb
    -- the callee record is the table's
    have hfok : fOkOf g fd = true := by
      cases hfo : fOkOf g fd with
      | true => rfl
      | false =>
        exfalso
        have hct := (typedGo_mem (cOkOf g) (fOkOf g) f.result.toTy _ TyEnv.init 0 (pos, .calleeTable)).mpr
          ⟨pre, _, post, hctx, hpos, calleeTable_call hfo⟩
        obtain ⟨j, _, hkj⟩ := htok _ hct
        simp [TyBad.known] at hkj
    have hfd : g.funcs fd.name = some fd := by simpa [fOkOf] using hfok
    obtain ⟨ts, hlen, hts⟩ := call_event _ AbsSt.init fd ps r hmem
    have := hev _ hts
    obtain ⟨ps', res, hl, hlen'⟩ := this
    have hgr := hg.funcs fd.name
    rw [hfd, hl] at hgr
    simp at hgr
    apply hne
    rw [← hlen, hlen', ← hgr.1]
  case retType =>
    split at hk
    · rename_i x
      obtain ⟨t, ht⟩ := jret_event _ AbsSt.init x hmem
      have := hev _ ht
      exact retType_jump hb this
    · cases hk

end SemVerif
