import SemVerif.Lemmas.T1Stmt
/-!
# Lemmas/T1Ctl — verdict simulation (family T1), control constructs and whole bodies
-/
namespace SemVerif

/-- what a successful statement-level step guarantees: related scopes, same number of live blocks -/
def Post (s s' : St) (rs' : RS) : Prop := ScopeRel s' rs'.scope ∧ s'.inner.length = s.inner.length

theorem EStep.inner_len {s s' : St} (st : EStep s s') : s'.inner.length = s.inner.length := by
  cases st with
  | incReg => simp [St.incReg, St.mapFrames]
  | emit i _ _ _ _ => simp [St.push, St.mapFrames]
  | incEmit i _ _ _ _ => simp [St.push, St.incReg, St.mapFrames]
  | addErr k v l o => rfl
  | declare n v i _ _ _ _ _ =>
    unfold St.push St.registerInner St.mapFrames St.insertValue St.mapCur
    cases s.inner <;> simp

theorem ESteps.inner_len {s s' : St} (h : ESteps s s') : s'.inner.length = s.inner.length := by
  induction h with
  | refl => rfl
  | tail _ st ih => rw [st.inner_len, ih]

theorem BSteps.inner_len {s s' : St} (h : BSteps s s') : s'.inner.length = s.inner.length := by
  obtain ⟨s1, h1, rfl | ⟨i, rfl, _⟩⟩ := h
  · exact h1.inner_len
  · rw [← h1.inner_len]; simp [St.push, St.mapFrames]

theorem StmtSim.withLen {s s' : St} {rs rs' : RS} (h : StmtSim s s' rs rs' (ScopeRel s' rs'.scope))
    (hl : s'.inner.length = s.inner.length) : StmtSim s s' rs rs' (Post s s' rs') :=
  h.weaken fun hp => ⟨hp, hl⟩

theorem post_trans {s s1 s2 : St} {rs2 : RS} (h1 : s1.inner.length = s.inner.length) (h2 : Post s1 s2 rs2) : Post s s2 rs2 :=
  ⟨h2.1, by rw [h2.2, h1]⟩

/-- a step that changes neither errors nor violations -/
theorem StmtSim.silent {s s' : St} {rs rs' : RS} {P : Prop} (he : s'.errors = s.errors) (hv : rs'.viols = rs.viols) (hp : P) :
    StmtSim s s' rs rs' P := ⟨[], by simp [hv], Or.inl ⟨rfl, he, hp⟩⟩

theorem sim_ifCondCalc {g : Globals} {rg : RGlobals} (hg : GlobRel g rg) (c : IfCond) (lb le ln : Name) (isElse : Bool)
    (s : St) (rs : RS) (hs : ScopeRel s rs.scope) :
    StmtSim s (ifCondCalc g c lb le ln isElse s) rs (checkIfCond rg c rs)
      (ScopeRel (ifCondCalc g c lb le ln isElse s) (checkIfCond rg c rs).scope) := by
  unfold ifCondCalc checkIfCond
  cases c with
  | single e =>
    dsimp only
    have h1 := sim_exprM hg rs.scope e s hs
    refine ⟨_, rfl, ?_⟩
    cases hc : (checkExpr rg rs.scope e).2 with
    | none =>
      rw [hc] at h1
      right
      obtain ⟨e', rest, v, he, hv, hk⟩ := h1
      cases hm : exprM g e s with
      | mk a s1 =>
        rw [hm] at he
        simp only at he
        cases a with
        | none => exact ⟨e', rest, v, he, hv, hk⟩
        | some r => exact ⟨e', rest, v, by simp [St.push, St.mapFrames, he], hv, hk⟩
    | some t =>
      rw [hc] at h1
      left
      dsimp only at h1
      obtain ⟨hvs, r, hr, _, hre, hvals⟩ := h1
      cases hm : exprM g e s with
      | mk a s1 =>
        rw [hm] at hr hre hvals
        simp only at hr hre hvals
        subst hr
        dsimp only
        refine ⟨hvs, by simp [St.push, St.mapFrames, hre], ?_⟩
        unfold ScopeRel; rw [vals_push]; exact scopeRel_of_sameVals hs hvals
  | logic lc =>
    dsimp only
    refine ⟨_, rfl, ?_⟩
    rcases sim_logic hg rs.scope lc s hs with ⟨hv, he, hvals⟩ | hf
    · left
      generalize condExprM g lc s = res at he hvals
      obtain ⟨reg, s1⟩ := res
      refine ⟨hv, by simp [St.push, St.mapFrames] at he ⊢; exact he, ?_⟩
      unfold ScopeRel; rw [vals_push]; exact scopeRel_of_sameVals hs hvals
    · right
      generalize condExprM g lc s = res at hf
      obtain ⟨reg, s1⟩ := res
      obtain ⟨e', rest, v, he, hv, hk⟩ := hf
      exact ⟨e', rest, v, by simp [St.push, St.mapFrames] at he ⊢; exact he, hv, hk⟩

theorem probeLabel_fields (stem : Name) (s : St) :
    (s.probeLabel stem).2.errors = s.errors ∧ (s.probeLabel stem).2.inner.length = s.inner.length := by
  unfold St.probeLabel; simp [St.mapFrames]

/-- child block and label probes: no error, one more live block with an empty value table -/
theorem ifLabels_fields (le : Option Name) (s : St) :
    (ifLabels le s).2.2.2.errors = s.errors ∧ (ifLabels le s).2.2.2.vals = [] :: s.vals ∧
    (ifLabels le s).2.2.2.inner.length = s.inner.length + 1 := by
  unfold ifLabels
  dsimp only
  cases le with
  | some l =>
    dsimp only
    refine ⟨?_, ?_, ?_⟩
    · rw [(probeLabel_fields _ _).1, (probeLabel_fields _ _).1]; rfl
    · rw [vals_probeLabel, vals_probeLabel, vals_enter]
    · rw [(probeLabel_fields _ _).2, (probeLabel_fields _ _).2]; simp [St.enter]
  | none =>
    dsimp only
    refine ⟨?_, ?_, ?_⟩
    · rw [(probeLabel_fields _ _).1, (probeLabel_fields _ _).1, (probeLabel_fields _ _).1]; rfl
    · rw [vals_probeLabel, vals_probeLabel, vals_probeLabel, vals_enter]
    · rw [(probeLabel_fields _ _).2, (probeLabel_fields _ _).2, (probeLabel_fields _ _).2]; simp [St.enter]

theorem sim_ifPrologue {g : Globals} {rg : RGlobals} (hg : GlobRel g rg) (cond : IfCond) (dup isElse : Bool)
    (le : Option Name) (s : St) (rs : RS) (hs : ScopeRel s rs.scope) :
    StmtSim s (ifPrologue g cond dup isElse le s).2.2 rs
      (checkIfCond rg cond (if dup then rs.viol "B10" .ifElseDuplicated "if-condition".toList else rs).push)
      (ScopeRel (ifPrologue g cond dup isElse le s).2.2
          (checkIfCond rg cond (if dup then rs.viol "B10" .ifElseDuplicated "if-condition".toList else rs).push).scope ∧
        (ifPrologue g cond dup isElse le s).2.2.inner.length = s.inner.length + 1) := by
  unfold ifPrologue
  dsimp only
  have h0 := sim_optErr dup s rs .ifElseDuplicated "if-condition".toList 1 0 "B10" hs
  have hlen0 : (if dup then s.addErr .ifElseDuplicated "if-condition".toList 1 0 else s).inner.length = s.inner.length := by
    cases dup <;> rfl
  generalize (if dup then s.addErr .ifElseDuplicated "if-condition".toList 1 0 else s) = s0 at h0 hlen0
  generalize (if dup then rs.viol "B10" .ifElseDuplicated "if-condition".toList else rs) = r0 at h0
  obtain ⟨hle, hlv, hll⟩ := ifLabels_fields le s0
  generalize ifLabels le s0 = q at hle hlv hll
  obtain ⟨lb, le', ln, sx⟩ := q
  dsimp only at hle hlv hll ⊢
  refine StmtSim.seq h0 (fun hs0 => ?_) ?_ ?_
  · have hsx : ScopeRel sx r0.push.scope := by
      unfold ScopeRel; rw [hlv]; exact ValsRel.cons (fun n => by simp [assocGet, rlookup]) hs0
    have hc := sim_ifCondCalc hg cond lb le' ln isElse sx r0.push hsx
    have hlen := (esteps_ifCondCalc g cond lb le' ln isElse sx).inner_len
    obtain ⟨Δ, hΔ, hc⟩ := hc
    refine ⟨Δ, by rw [hΔ]; rfl, ?_⟩
    rcases hc with ⟨hv, he, hp⟩ | hf
    · left
      refine ⟨hv, by simp [St.push, St.mapFrames, he, hle], ?_, by simp [St.push, St.mapFrames, hlen, hll, hlen0]⟩
      unfold ScopeRel; rw [vals_push]; exact hp
    · right
      obtain ⟨e, rest, v, he, hv, hk⟩ := hf
      exact ⟨e, rest, v, by simp [St.push, St.mapFrames, he, hle], hv, hk⟩
  · obtain ⟨Δ, hΔ⟩ := (esteps_ifCondCalc g cond lb le' ln isElse sx).errors_ext
    exact ⟨Δ, by simp [St.push, St.mapFrames, hΔ, hle]⟩
  · exact (rext_push r0).trans (rext_checkIfCond rg cond _)

/-- leaving a block whose frame was pushed by the checker -/
theorem scopeRel_leave {s : St} {rs : RS} (h : ScopeRel s rs.scope) (hin : s.inner ≠ []) :
    ScopeRel s.leave.2 rs.pop.scope := by
  unfold ScopeRel
  rw [vals_leave s hin]
  exact scopeRel_tail h

theorem inner_len_leave (s : St) (hin : s.inner ≠ []) : s.leave.2.inner.length + 1 = s.inner.length := by
  unfold St.leave
  cases hi : s.inner with
  | nil => exact absurd hi hin
  | cons b rest => cases rest <;> simp

theorem inner_ne_of_len {s : St} {n : Nat} (h : s.inner.length = n + 1) : s.inner ≠ [] := by
  intro hn; rw [hn] at h; simp at h

theorem push_fields (i : Instr) (s : St) :
    (s.push i).errors = s.errors ∧ (s.push i).inner.length = s.inner.length := by
  simp [St.push, St.mapFrames]

theorem pushVia_fields (k : Nat) (i : Instr) (s : St) :
    (s.pushVia k i).errors = s.errors ∧ (s.pushVia k i).inner.length = s.inner.length := by
  unfold St.pushVia St.push St.mapFrames St.mapCur
  cases s.inner <;> simp

/-- after the if-body: no error, the block is left -/
theorem ifAfterBody_fields (isElse r : Bool) (lElse lEnd : Name) (s : St) (hin : s.inner ≠ []) :
    (ifAfterBody isElse r lElse lEnd s).2.errors = s.errors ∧
    (ifAfterBody isElse r lElse lEnd s).2.vals = s.vals.tail ∧
    (ifAfterBody isElse r lElse lEnd s).2.inner.length + 1 = s.inner.length := by
  unfold ifAfterBody
  dsimp only
  have h1 : (if r then s else s.push (.jumpTo lEnd)).errors = s.errors ∧ (if r then s else s.push (.jumpTo lEnd)).vals = s.vals ∧
      (if r then s else s.push (.jumpTo lEnd)).inner.length = s.inner.length := by
    cases r
    · simp only [Bool.false_eq_true, if_false]
      exact ⟨rfl, vals_push _ _, (push_fields _ _).2⟩
    · exact ⟨rfl, rfl, rfl⟩
  generalize (if r then s else s.push (.jumpTo lEnd)) = s1 at h1
  have h2 : (if isElse then s1.push (.setLabel lElse) else s1).errors = s.errors ∧
      (if isElse then s1.push (.setLabel lElse) else s1).vals = s.vals ∧
      (if isElse then s1.push (.setLabel lElse) else s1).inner.length = s.inner.length := by
    cases isElse
    · exact h1
    · simp only [if_true]
      exact ⟨by rw [(push_fields _ _).1, h1.1], by rw [vals_push, h1.2.1], by rw [(push_fields _ _).2, h1.2.2]⟩
  generalize (if isElse then s1.push (.setLabel lElse) else s1) = s2 at h2
  have hin2 : s2.inner ≠ [] := by
    intro hn
    have := h2.2.2
    rw [hn] at this
    cases hs : s.inner with
    | nil => exact hin hs
    | cons b rest => rw [hs] at this; simp at this
  exact ⟨by rw [leave_errors, h2.1], by rw [vals_leave s2 hin2, h2.2.1], by rw [inner_len_leave s2 hin2, h2.2.2]⟩

theorem ifAfterElse_fields (k : Nat) (r : Bool) (lEnd : Name) (s : St) (hin : s.inner ≠ []) :
    (ifAfterElse k r lEnd s).errors = s.errors ∧ (ifAfterElse k r lEnd s).vals = s.vals.tail ∧
    (ifAfterElse k r lEnd s).inner.length + 1 = s.inner.length := by
  unfold ifAfterElse
  dsimp only
  cases r
  · simp only [Bool.false_eq_true, if_false]
    exact ⟨by rw [(pushVia_fields _ _ _).1, leave_errors], by rw [vals_pushVia, vals_leave s hin],
      by rw [(pushVia_fields _ _ _).2, inner_len_leave s hin]⟩
  · simp only [if_true]
    exact ⟨leave_errors s, vals_leave s hin, inner_len_leave s hin⟩

theorem ifEpilogue_fields (k : Nat) (le : Option Name) (lEnd : Name) (s : St) :
    (ifEpilogue k le lEnd s).errors = s.errors ∧ (ifEpilogue k le lEnd s).vals = s.vals ∧
    (ifEpilogue k le lEnd s).inner.length = s.inner.length := by
  unfold ifEpilogue
  cases le
  · simp only [Option.isSome_none, Bool.false_eq_true, if_false]
    exact ⟨(pushVia_fields _ _ _).1, vals_pushVia _ _ _, (pushVia_fields _ _ _).2⟩
  · exact ⟨rfl, rfl, rfl⟩

theorem loopPrologue_fields (s : St) :
    (loopPrologue s).2.2.errors = s.errors ∧ (loopPrologue s).2.2.vals = [] :: s.vals ∧
    (loopPrologue s).2.2.inner.length = s.inner.length + 1 := by
  unfold loopPrologue
  dsimp only
  refine ⟨?_, ?_, ?_⟩
  · rw [(push_fields _ _).1, (push_fields _ _).1, (probeLabel_fields _ _).1, (probeLabel_fields _ _).1]; rfl
  · rw [vals_push, vals_push, vals_probeLabel, vals_probeLabel, vals_enter]
  · rw [(push_fields _ _).2, (push_fields _ _).2, (probeLabel_fields _ _).2, (probeLabel_fields _ _).2]; simp [St.enter]

theorem loopEpilogue_fields (r : Bool) (lb le : Name) (s : St) (hin : s.inner ≠ []) :
    (loopEpilogue r lb le s).errors = s.errors ∧ (loopEpilogue r lb le s).vals = s.vals.tail ∧
    (loopEpilogue r lb le s).inner.length + 1 = s.inner.length := by
  unfold loopEpilogue
  dsimp only
  have h1 : (if r then s else (s.push (.jumpTo lb)).push (.setLabel le)).errors = s.errors ∧
      (if r then s else (s.push (.jumpTo lb)).push (.setLabel le)).vals = s.vals ∧
      (if r then s else (s.push (.jumpTo lb)).push (.setLabel le)).inner.length = s.inner.length := by
    cases r
    · simp only [Bool.false_eq_true, if_false]
      exact ⟨rfl, by rw [vals_push, vals_push], by rw [(push_fields _ _).2, (push_fields _ _).2]⟩
    · exact ⟨rfl, rfl, rfl⟩
  generalize (if r then s else (s.push (.jumpTo lb)).push (.setLabel le)) = s1 at h1
  have hin1 : s1.inner ≠ [] := by
    intro hn
    have := h1.2.2
    rw [hn] at this
    cases hs : s.inner with
    | nil => exact hin hs
    | cons b rest => rw [hs] at this; simp at this
  exact ⟨by rw [leave_errors, h1.1], by rw [vals_leave s1 hin1, h1.2.1], by rw [inner_len_leave s1 hin1, h1.2.2]⟩


theorem StmtSim.thenSilent {s s1 s2 : St} {rs rs1 rs2 : RS} {P Q : Prop} (h : StmtSim s s1 rs rs1 P)
    (he : s2.errors = s1.errors) (hv : rs2.viols = rs1.viols) (hq : P → Q) : StmtSim s s2 rs rs2 Q := by
  obtain ⟨Δ, hΔ, h⟩ := h
  refine ⟨Δ, by rw [hv, hΔ], ?_⟩
  rcases h with ⟨a, b, c⟩ | ⟨e, rest, v, he', hv', hk⟩
  · exact Or.inl ⟨a, by rw [he, b], hq c⟩
  · exact Or.inr ⟨e, rest, v, by rw [he, he'], hv', hk⟩

theorem scopeRel_enter_push {s : St} {rs : RS} (h : ScopeRel s rs.scope) : ScopeRel s.enter rs.push.scope :=
  scopeRel_enter h

variable {g : Globals} {rg : RGlobals}

theorem sim_loopWrap (k : Name → Name → Bool → Bool → Bool → St → St × Bool) (kc : RS → RS)
    (hk : ∀ lb le s rs, ScopeRel s rs.scope → StmtSim s (k lb le false false false s).1 rs (kc rs) (Post s (k lb le false false false s).1 (kc rs)))
    (hka : ∀ lb le s, ∃ Δ, (k lb le false false false s).1.errors = s.errors ++ Δ) (hkc : ∀ rs, RExt rs (kc rs))
    (s : St) (rs : RS) (hs : ScopeRel s rs.scope) :
    StmtSim s (loopWrap k s) rs (kc rs.push).pop (Post s (loopWrap k s) (kc rs.push).pop) := by
  unfold loopWrap
  dsimp only
  obtain ⟨hpe, hpv, hpl⟩ := loopPrologue_fields s
  generalize loopPrologue s = p at hpe hpv hpl
  obtain ⟨lb, le, s1⟩ := p
  dsimp only at hpe hpv hpl ⊢
  have hs1 : ScopeRel s1 rs.push.scope := by
    unfold ScopeRel; rw [hpv]; exact ValsRel.cons (fun n => by simp [assocGet, rlookup]) hs
  have hb := hk lb le s1 rs.push hs1
  generalize hq : k lb le false false false s1 = q at hb
  obtain ⟨s2, r⟩ := q
  dsimp only at hb ⊢
  -- the prologue is silent on both sides
  have hb' : StmtSim s s2 rs (kc rs.push) (Post s1 s2 (kc rs.push)) := by
    obtain ⟨Δ, hΔ, h⟩ := hb
    refine ⟨Δ, by rw [hΔ]; rfl, ?_⟩
    rcases h with ⟨a, b, c⟩ | ⟨e, rest, v, he', hv', hk'⟩
    · exact Or.inl ⟨a, by rw [b, hpe], c⟩
    · exact Or.inr ⟨e, rest, v, by rw [he', hpe], hv', hk'⟩
  refine hb'.thenSilent (s2 := loopEpilogue r lb le s2) (rs2 := (kc rs.push).pop) ?_ rfl ?_
  · by_cases hin : s2.inner = []
    · -- unreachable in the success case; the equation on errors holds anyway
      unfold loopEpilogue; dsimp only; rw [leave_errors]; cases r <;> rfl
    · exact (loopEpilogue_fields r lb le s2 hin).1
  · intro ⟨hsc, hlen⟩
    have hin : s2.inner ≠ [] := inner_ne_of_len (by rw [hlen, hpl])
    obtain ⟨_, hv, hl⟩ := loopEpilogue_fields r lb le s2 hin
    refine ⟨?_, by omega⟩
    unfold ScopeRel; rw [hv]; exact scopeRel_tail hsc


/-- "code after" diagnostics, one statement, the rest of the list -/
theorem sim_step3 {s s0 s1 s2 : St} {rs r0 r1 r2 : RS}
    (h0 : StmtSim s s0 rs r0 (ScopeRel s0 r0.scope)) (l0 : s0.inner.length = s.inner.length)
    (h1 : ScopeRel s0 r0.scope → StmtSim s0 s1 r0 r1 (Post s0 s1 r1)) (a1 : ∃ Δ, s1.errors = s0.errors ++ Δ) (c1 : RExt r0 r1)
    (h2 : Post s0 s1 r1 → StmtSim s1 s2 r1 r2 (Post s1 s2 r2)) (a2 : ∃ Δ, s2.errors = s1.errors ++ Δ) (c2 : RExt r1 r2) :
    StmtSim s s2 rs r2 (Post s s2 r2) := by
  have h01 : StmtSim s s1 rs r1 (Post s0 s1 r1) := StmtSim.seq h0 h1 a1 c1
  refine StmtSim.seq h01 (fun hp => (h2 hp).weaken fun hq => ⟨hq.1, by rw [hq.2, hp.2, l0]⟩) a2 c2

theorem forbidden_len (rc bc cc : Bool) (s : St) : (forbidden rc bc cc s).inner.length = s.inner.length :=
  (esteps_forbidden rc bc cc s).inner_len

theorem ext_of_steps {s s' : St} (h : Steps s s') : ∃ Δ, s'.errors = s.errors ++ Δ := h.errors_ext
theorem ext_of_esteps {s s' : St} (h : ESteps s s') : ∃ Δ, s'.errors = s.errors ++ Δ := h.errors_ext

theorem sim_let' (hg : GlobRel g rg) (b : LetB) (s : St) (rs : RS) (hs : ScopeRel s rs.scope) :
    StmtSim s (letBinding g b s) rs (checkLet rg b rs) (Post s (letBinding g b s) (checkLet rg b rs)) :=
  (sim_let hg b s rs hs).withLen (esteps_letBinding g b s).inner_len
theorem sim_bind' (hg : GlobRel g rg) (b : Bind) (s : St) (rs : RS) (hs : ScopeRel s rs.scope) :
    StmtSim s (binding g b s) rs (checkBind rg b rs) (Post s (binding g b s) (checkBind rg b rs)) :=
  (sim_bind hg b s rs hs).withLen (esteps_binding g b s).inner_len
theorem sim_callS' (hg : GlobRel g rg) (c : CallS) (s : St) (rs : RS) (hs : ScopeRel s rs.scope) :
    StmtSim s (callStmt g c s) rs (checkCallS rg c rs) (Post s (callStmt g c s) (checkCallS rg c rs)) :=
  (sim_callS hg c s rs hs).withLen (esteps_callStmt g c s).inner_len

theorem nestedReturn_len (e : Expr) (s : St) : (nestedReturn g e s).1.inner.length = s.inner.length := by
  obtain ⟨s1, h1, h | ⟨r, h⟩⟩ := esteps_nestedReturn_pre g e s
  · rw [h]; exact h1.inner_len
  · rw [h]; simp [St.setReturn, St.push, St.mapFrames, h1.inner_len]

mutual
theorem sim_ifCondition (hg : GlobRel g rg) (resTy : Ty) : ∀ (i : IfStmt) (le : Option Name) (ll : Option (Name × Name))
    (s : St) (rs : RS), IfStmt.loopOK ll.isSome i = true → ScopeRel s rs.scope →
    StmtSim s (ifCondition g i le ll s) rs (checkIf rg resTy i rs) (Post s (ifCondition g i le ll s) (checkIf rg resTy i rs))
  | .mk cond body els elif, le, ll, s, rs, hok, hs => by
    unfold IfStmt.loopOK at hok
    simp only [Bool.and_eq_true] at hok
    obtain ⟨⟨hokb, hoke⟩, hokei⟩ := hok
    unfold ifCondition checkIf
    dsimp only
    have hA := sim_ifPrologue hg cond (els.isSome && elif.isSome) (els.isSome || elif.isSome) le s rs hs
    generalize (if els.isSome && elif.isSome then rs.viol "B10" .ifElseDuplicated "if-condition".toList else rs) = r0 at hA
    generalize ifPrologue g cond (els.isSome && elif.isSome) (els.isSome || elif.isSome) le s = p at hA
    obtain ⟨lElse, lEnd, s1⟩ := p
    dsimp only at hA ⊢
    -- the if-body
    have hAB : StmtSim s (ifBodies g body lEnd ll s1).1 rs (checkBodies rg resTy body (checkIfCond rg cond r0.push))
        (ScopeRel (ifBodies g body lEnd ll s1).1 (checkBodies rg resTy body (checkIfCond rg cond r0.push)).scope ∧
          (ifBodies g body lEnd ll s1).1.inner.length = s.inner.length + 1) :=
      StmtSim.seq hA (fun hp => (sim_ifBodies hg resTy body lEnd ll s1 _ hokb hp.1).weaken fun hq => ⟨hq.1, by rw [hq.2, hp.2]⟩)
        (ext_of_steps (steps_ifBodies g body lEnd ll s1)) (rext_checkBodies rg resTy body _)
    generalize ifBodies g body lEnd ll s1 = q at hAB
    obtain ⟨s2, r⟩ := q
    dsimp only at hAB ⊢
    generalize checkBodies rg resTy body (checkIfCond rg cond r0.push) = rB at hAB
    -- leaving the if-body block
    have hC : StmtSim s (ifAfterBody (els.isSome || elif.isSome) r lElse lEnd s2).2 rs rB.pop
        (Post s (ifAfterBody (els.isSome || elif.isSome) r lElse lEnd s2).2 rB.pop) := by
      refine hAB.thenSilent ?_ rfl ?_
      · by_cases hin : s2.inner = []
        · unfold ifAfterBody; dsimp only; rw [leave_errors]
          cases r <;> cases (els.isSome || elif.isSome) <;> rfl
        · exact (ifAfterBody_fields _ r lElse lEnd s2 hin).1
      · intro ⟨hsc, hlen⟩
        have hin : s2.inner ≠ [] := inner_ne_of_len hlen
        obtain ⟨_, hv, hl⟩ := ifAfterBody_fields (els.isSome || elif.isSome) r lElse lEnd s2 hin
        refine ⟨?_, by omega⟩
        unfold ScopeRel; rw [hv]; exact scopeRel_tail hsc
    generalize ifAfterBody (els.isSome || elif.isSome) r lElse lEnd s2 = q3 at hC
    obtain ⟨k, s3⟩ := q3
    dsimp only at hC ⊢
    generalize rB.pop = r3 at hC
    -- the epilogue is silent
    have hE : ∀ (s4 : St) (r4 : RS), StmtSim s s4 rs r4 (Post s s4 r4) →
        StmtSim s (ifEpilogue k le lEnd s4) rs r4 (Post s (ifEpilogue k le lEnd s4) r4) := by
      intro s4 r4 h4
      obtain ⟨he, hv, hl⟩ := ifEpilogue_fields k le lEnd s4
      exact h4.thenSilent he rfl fun ⟨hsc, hlen⟩ => ⟨by unfold ScopeRel; rw [hv]; exact hsc, by rw [hl, hlen]⟩
    cases els with
    | some eb =>
      dsimp only
      apply hE
      have hD : StmtSim s (ifBodies g eb lEnd ll s3.enter).1 rs (checkBodies rg resTy eb r3.push)
          (ScopeRel (ifBodies g eb lEnd ll s3.enter).1 (checkBodies rg resTy eb r3.push).scope ∧
            (ifBodies g eb lEnd ll s3.enter).1.inner.length = s.inner.length + 1) := by
        have hC' : StmtSim s s3.enter rs r3.push (ScopeRel s3.enter r3.push.scope ∧ s3.enter.inner.length = s.inner.length + 1) :=
          hC.thenSilent rfl rfl fun ⟨hsc, hlen⟩ => ⟨scopeRel_enter hsc, by simp [St.enter, hlen]⟩
        exact StmtSim.seq hC' (fun hp => (sim_ifBodies hg resTy eb lEnd ll s3.enter _ (by simpa using hoke) hp.1).weaken
            fun hq => ⟨hq.1, by rw [hq.2, hp.2]⟩)
          (ext_of_steps (steps_ifBodies g eb lEnd ll s3.enter)) (rext_checkBodies rg resTy eb _)
      generalize ifBodies g eb lEnd ll s3.enter = q4 at hD
      obtain ⟨s4, r4⟩ := q4
      dsimp only at hD ⊢
      refine hD.thenSilent ?_ rfl ?_
      · by_cases hin : s4.inner = []
        · unfold ifAfterElse; dsimp only
          cases r4
          · simp only [Bool.false_eq_true, if_false]; rw [(pushVia_fields _ _ _).1, leave_errors]
          · simp only [if_true]; rw [leave_errors]
        · exact (ifAfterElse_fields k r4 lEnd s4 hin).1
      · intro ⟨hsc, hlen⟩
        have hin : s4.inner ≠ [] := inner_ne_of_len hlen
        obtain ⟨_, hv, hl⟩ := ifAfterElse_fields k r4 lEnd s4 hin
        refine ⟨?_, by omega⟩
        unfold ScopeRel; rw [hv]; exact scopeRel_tail hsc
    | none =>
      cases elif with
      | some ei =>
        dsimp only
        apply hE
        exact StmtSim.seq hC (fun hp => (sim_ifCondition hg resTy ei (some lEnd) ll s3 r3 (by simpa using hokei) hp.1).weaken
            fun hq => ⟨hq.1, by rw [hq.2, hp.2]⟩)
          (ext_of_steps (steps_ifCondition g ei (some lEnd) ll s3)) (rext_checkIf rg resTy ei r3)
      | none =>
        dsimp only
        exact hE s3 r3 hC
theorem sim_ifBodies (hg : GlobRel g rg) (resTy : Ty) : ∀ (b : IfBodies) (lEnd : Name) (ll : Option (Name × Name))
    (s : St) (rs : RS), IfBodies.loopOK ll.isSome b = true → ScopeRel s rs.scope →
    StmtSim s (ifBodies g b lEnd ll s).1 rs (checkBodies rg resTy b rs) (Post s (ifBodies g b lEnd ll s).1 (checkBodies rg resTy b rs))
  | .ifb l, lEnd, ll, s, rs, hok, hs => by
    unfold IfBodies.loopOK at hok; unfold ifBodies checkBodies
    exact sim_ifBody hg resTy l lEnd ll false s rs hok hs
  | .loopb l, lEnd, some (lb, le), s, rs, hok, hs => by
    unfold IfBodies.loopOK at hok; simp at hok; unfold ifBodies checkBodies
    exact sim_ifLoopBody hg resTy l lEnd lb le false false false s rs hok hs
  | .loopb _, _, none, s, rs, hok, _ => by
    unfold IfBodies.loopOK at hok; simp at hok
theorem sim_ifBody (hg : GlobRel g rg) (resTy : Ty) : ∀ (l : List IfBodyStmt) (lEnd : Name) (ll : Option (Name × Name)) (rc : Bool)
    (s : St) (rs : RS), IfBodyStmt.loopOKL ll.isSome l = true → ScopeRel s rs.scope →
    StmtSim s (ifBody g l lEnd ll rc s).1 rs (checkIfBody rg resTy l rc rs)
      (Post s (ifBody g l lEnd ll rc s).1 (checkIfBody rg resTy l rc rs))
  | [], _, _, _, s, rs, _, hs => by unfold ifBody checkIfBody; exact StmtSim.refl s rs ⟨hs, rfl⟩
  | st :: tl, lEnd, ll, rc, s, rs, hok, hs => by
    unfold ifBody checkIfBody
    dsimp only
    have h0 := sim_forbidden rc false false s rs hs
    have l0 := forbidden_len rc false false s
    generalize forbidden rc false false s = s0 at h0 l0
    generalize codeAfter rc false false rs = r0 at h0
    cases st with
    | letB b =>
      unfold IfBodyStmt.loopOKL at hok
      exact sim_step3 h0 l0 (sim_let' hg b s0 r0) (ext_of_esteps (esteps_letBinding g b s0)) (rext_checkLet rg b r0)
        (fun hp => sim_ifBody hg resTy tl lEnd ll rc _ _ hok hp.1) (ext_of_steps (steps_ifBody g tl lEnd ll rc _)) (rext_checkIfBody rg resTy tl rc _)
    | bind b =>
      unfold IfBodyStmt.loopOKL at hok
      exact sim_step3 h0 l0 (sim_bind' hg b s0 r0) (ext_of_esteps (esteps_binding g b s0)) (rext_checkBind rg b r0)
        (fun hp => sim_ifBody hg resTy tl lEnd ll rc _ _ hok hp.1) (ext_of_steps (steps_ifBody g tl lEnd ll rc _)) (rext_checkIfBody rg resTy tl rc _)
    | call c =>
      unfold IfBodyStmt.loopOKL at hok
      exact sim_step3 h0 l0 (sim_callS' hg c s0 r0) (ext_of_esteps (esteps_callStmt g c s0)) (rext_checkCallS rg c r0)
        (fun hp => sim_ifBody hg resTy tl lEnd ll rc _ _ hok hp.1) (ext_of_steps (steps_ifBody g tl lEnd ll rc _)) (rext_checkIfBody rg resTy tl rc _)
    | ifS i =>
      unfold IfBodyStmt.loopOKL at hok
      simp only [Bool.and_eq_true] at hok
      exact sim_step3 h0 l0 (sim_ifCondition hg resTy i (some lEnd) ll s0 r0 hok.1)
        (ext_of_steps (steps_ifCondition g i (some lEnd) ll s0)) (rext_checkIf rg resTy i r0)
        (fun hp => sim_ifBody hg resTy tl lEnd ll rc _ _ hok.2 hp.1) (ext_of_steps (steps_ifBody g tl lEnd ll rc _)) (rext_checkIfBody rg resTy tl rc _)
    | loop b =>
      unfold IfBodyStmt.loopOKL at hok
      simp only [Bool.and_eq_true] at hok
      exact sim_step3 h0 l0
        (sim_loopWrap (loopBody g b) (checkLoopBody rg resTy b false false false)
          (fun lb le s rs hs => sim_loopBody hg resTy b lb le false false false s rs hok.1 hs)
          (fun lb le s => ext_of_steps (steps_loopBody g b lb le false false false s))
          (fun rs => rext_checkLoopBody rg resTy b false false false rs) s0 r0)
        (ext_of_steps (steps_loopWrap _ (steps_loopBody g b) s0))
        (((rext_push r0).trans (rext_checkLoopBody rg resTy b false false false _)).trans (rext_pop _))
        (fun hp => sim_ifBody hg resTy tl lEnd ll rc _ _ hok.2 hp.1) (ext_of_steps (steps_ifBody g tl lEnd ll rc _)) (rext_checkIfBody rg resTy tl rc _)
    | ret e =>
      unfold IfBodyStmt.loopOKL at hok
      dsimp only
      have h1 : ScopeRel s0 r0.scope → StmtSim s0 (nestedReturn g e s0).1 r0 (checkNestedRet rg resTy e r0).1
          (Post s0 (nestedReturn g e s0).1 (checkNestedRet rg resTy e r0).1 ∧ (nestedReturn g e s0).2 = (checkNestedRet rg resTy e r0).2) :=
        fun hs0 => (sim_nestedRet hg resTy e s0 r0 hs0).weaken fun hp => ⟨⟨hp.1, nestedReturn_len e s0⟩, hp.2⟩
      have a1 := ext_of_steps (steps_nestedReturn g e s0)
      have c1 := rext_checkNestedRet rg resTy e r0
      generalize nestedReturn g e s0 = q at h1 a1
      obtain ⟨s1, r⟩ := q
      generalize checkNestedRet rg resTy e r0 = qc at h1 c1
      obtain ⟨r1, rcq⟩ := qc
      dsimp only at h1 a1 c1 ⊢
      have h01 : StmtSim s s1 rs r1 (Post s0 s1 r1 ∧ r = rcq) := StmtSim.seq h0 h1 a1 c1
      refine StmtSim.seq h01 (fun hp => ?_) (ext_of_steps (steps_ifBody g tl lEnd ll (rc || r) s1)) (rext_checkIfBody rg resTy tl (rc || rcq) r1)
      obtain ⟨hp1, hr⟩ := hp
      subst hr
      exact (sim_ifBody hg resTy tl lEnd ll (rc || r) s1 r1 hok hp1.1).weaken fun hq => ⟨hq.1, by rw [hq.2, hp1.2, l0]⟩
theorem sim_ifLoopBody (hg : GlobRel g rg) (resTy : Ty) : ∀ (l : List IfLoopStmt) (lEnd lb le : Name) (rc bc cc : Bool)
    (s : St) (rs : RS), IfLoopStmt.loopOKL l = true → ScopeRel s rs.scope →
    StmtSim s (ifLoopBody g l lEnd lb le rc bc cc s).1 rs (checkIfLoopBody rg resTy l rc bc cc rs)
      (Post s (ifLoopBody g l lEnd lb le rc bc cc s).1 (checkIfLoopBody rg resTy l rc bc cc rs))
  | [], _, _, _, _, _, _, s, rs, _, hs => by unfold ifLoopBody checkIfLoopBody; exact StmtSim.refl s rs ⟨hs, rfl⟩
  | st :: tl, lEnd, lb, le, rc, bc, cc, s, rs, hok, hs => by
    unfold ifLoopBody checkIfLoopBody
    dsimp only
    have h0 := sim_forbidden rc bc cc s rs hs
    have l0 := forbidden_len rc bc cc s
    generalize forbidden rc bc cc s = s0 at h0 l0
    generalize codeAfter rc bc cc rs = r0 at h0
    cases st with
    | letB b =>
      unfold IfLoopStmt.loopOKL at hok
      exact sim_step3 h0 l0 (sim_let' hg b s0 r0) (ext_of_esteps (esteps_letBinding g b s0)) (rext_checkLet rg b r0)
        (fun hp => sim_ifLoopBody hg resTy tl lEnd lb le rc bc cc _ _ hok hp.1) (ext_of_steps (steps_ifLoopBody g tl lEnd lb le rc bc cc _)) (rext_checkIfLoopBody rg resTy tl rc bc cc _)
    | bind b =>
      unfold IfLoopStmt.loopOKL at hok
      exact sim_step3 h0 l0 (sim_bind' hg b s0 r0) (ext_of_esteps (esteps_binding g b s0)) (rext_checkBind rg b r0)
        (fun hp => sim_ifLoopBody hg resTy tl lEnd lb le rc bc cc _ _ hok hp.1) (ext_of_steps (steps_ifLoopBody g tl lEnd lb le rc bc cc _)) (rext_checkIfLoopBody rg resTy tl rc bc cc _)
    | call c =>
      unfold IfLoopStmt.loopOKL at hok
      exact sim_step3 h0 l0 (sim_callS' hg c s0 r0) (ext_of_esteps (esteps_callStmt g c s0)) (rext_checkCallS rg c r0)
        (fun hp => sim_ifLoopBody hg resTy tl lEnd lb le rc bc cc _ _ hok hp.1) (ext_of_steps (steps_ifLoopBody g tl lEnd lb le rc bc cc _)) (rext_checkIfLoopBody rg resTy tl rc bc cc _)
    | ifS i =>
      unfold IfLoopStmt.loopOKL at hok
      simp only [Bool.and_eq_true] at hok
      exact sim_step3 h0 l0 (sim_ifCondition hg resTy i (some lEnd) (some (lb, le)) s0 r0 hok.1)
        (ext_of_steps (steps_ifCondition g i (some lEnd) (some (lb, le)) s0)) (rext_checkIf rg resTy i r0)
        (fun hp => sim_ifLoopBody hg resTy tl lEnd lb le rc bc cc _ _ hok.2 hp.1) (ext_of_steps (steps_ifLoopBody g tl lEnd lb le rc bc cc _)) (rext_checkIfLoopBody rg resTy tl rc bc cc _)
    | loop b =>
      unfold IfLoopStmt.loopOKL at hok
      simp only [Bool.and_eq_true] at hok
      exact sim_step3 h0 l0
        (sim_loopWrap (loopBody g b) (checkLoopBody rg resTy b false false false)
          (fun lb le s rs hs => sim_loopBody hg resTy b lb le false false false s rs hok.1 hs)
          (fun lb le s => ext_of_steps (steps_loopBody g b lb le false false false s))
          (fun rs => rext_checkLoopBody rg resTy b false false false rs) s0 r0)
        (ext_of_steps (steps_loopWrap _ (steps_loopBody g b) s0))
        (((rext_push r0).trans (rext_checkLoopBody rg resTy b false false false _)).trans (rext_pop _))
        (fun hp => sim_ifLoopBody hg resTy tl lEnd lb le rc bc cc _ _ hok.2 hp.1) (ext_of_steps (steps_ifLoopBody g tl lEnd lb le rc bc cc _)) (rext_checkIfLoopBody rg resTy tl rc bc cc _)
    | ret e =>
      unfold IfLoopStmt.loopOKL at hok
      dsimp only
      have h1 : ScopeRel s0 r0.scope → StmtSim s0 (nestedReturn g e s0).1 r0 (checkNestedRet rg resTy e r0).1
          (Post s0 (nestedReturn g e s0).1 (checkNestedRet rg resTy e r0).1 ∧ (nestedReturn g e s0).2 = (checkNestedRet rg resTy e r0).2) :=
        fun hs0 => (sim_nestedRet hg resTy e s0 r0 hs0).weaken fun hp => ⟨⟨hp.1, nestedReturn_len e s0⟩, hp.2⟩
      have a1 := ext_of_steps (steps_nestedReturn g e s0)
      have c1 := rext_checkNestedRet rg resTy e r0
      generalize nestedReturn g e s0 = q at h1 a1
      obtain ⟨s1, r⟩ := q
      generalize checkNestedRet rg resTy e r0 = qc at h1 c1
      obtain ⟨r1, rcq⟩ := qc
      dsimp only at h1 a1 c1 ⊢
      have h01 : StmtSim s s1 rs r1 (Post s0 s1 r1 ∧ r = rcq) := StmtSim.seq h0 h1 a1 c1
      refine StmtSim.seq h01 (fun hp => ?_) (ext_of_steps (steps_ifLoopBody g tl lEnd lb le (rc || r) bc cc s1)) (rext_checkIfLoopBody rg resTy tl (rc || rcq) bc cc r1)
      obtain ⟨hp1, hr⟩ := hp
      subst hr
      exact (sim_ifLoopBody hg resTy tl lEnd lb le (rc || r) bc cc s1 r1 hok hp1.1).weaken fun hq => ⟨hq.1, by rw [hq.2, hp1.2, l0]⟩
    | cont =>
      unfold IfLoopStmt.loopOKL at hok
      have h0' : StmtSim s (s0.push (.jumpTo lb)) rs r0 (Post s (s0.push (.jumpTo lb)) r0) :=
        h0.thenSilent rfl rfl fun hp => ⟨by unfold ScopeRel; rw [vals_push]; exact hp, by rw [(push_fields _ _).2, l0]⟩
      exact StmtSim.seq h0' (fun hp => (sim_ifLoopBody hg resTy tl lEnd lb le rc bc true _ r0 hok hp.1).weaken fun hq => ⟨hq.1, by rw [hq.2, hp.2]⟩)
        (ext_of_steps (steps_ifLoopBody g tl lEnd lb le rc bc true _)) (rext_checkIfLoopBody rg resTy tl rc bc true r0)
    | brk =>
      unfold IfLoopStmt.loopOKL at hok
      have h0' : StmtSim s (s0.push (.jumpTo le)) rs r0 (Post s (s0.push (.jumpTo le)) r0) :=
        h0.thenSilent rfl rfl fun hp => ⟨by unfold ScopeRel; rw [vals_push]; exact hp, by rw [(push_fields _ _).2, l0]⟩
      exact StmtSim.seq h0' (fun hp => (sim_ifLoopBody hg resTy tl lEnd lb le rc true cc _ r0 hok hp.1).weaken fun hq => ⟨hq.1, by rw [hq.2, hp.2]⟩)
        (ext_of_steps (steps_ifLoopBody g tl lEnd lb le rc true cc _)) (rext_checkIfLoopBody rg resTy tl rc true cc r0)
theorem sim_loopBody (hg : GlobRel g rg) (resTy : Ty) : ∀ (l : List LoopStmt) (lb le : Name) (rc bc cc : Bool)
    (s : St) (rs : RS), LoopStmt.loopOKL l = true → ScopeRel s rs.scope →
    StmtSim s (loopBody g l lb le rc bc cc s).1 rs (checkLoopBody rg resTy l rc bc cc rs)
      (Post s (loopBody g l lb le rc bc cc s).1 (checkLoopBody rg resTy l rc bc cc rs))
  | [], _, _, _, _, _, s, rs, _, hs => by unfold loopBody checkLoopBody; exact StmtSim.refl s rs ⟨hs, rfl⟩
  | st :: tl, lb, le, rc, bc, cc, s, rs, hok, hs => by
    unfold loopBody checkLoopBody
    dsimp only
    have h0 := sim_forbidden rc bc cc s rs hs
    have l0 := forbidden_len rc bc cc s
    generalize forbidden rc bc cc s = s0 at h0 l0
    generalize codeAfter rc bc cc rs = r0 at h0
    cases st with
    | letB b =>
      unfold LoopStmt.loopOKL at hok
      exact sim_step3 h0 l0 (sim_let' hg b s0 r0) (ext_of_esteps (esteps_letBinding g b s0)) (rext_checkLet rg b r0)
        (fun hp => sim_loopBody hg resTy tl lb le rc bc cc _ _ hok hp.1) (ext_of_steps (steps_loopBody g tl lb le rc bc cc _)) (rext_checkLoopBody rg resTy tl rc bc cc _)
    | bind b =>
      unfold LoopStmt.loopOKL at hok
      exact sim_step3 h0 l0 (sim_bind' hg b s0 r0) (ext_of_esteps (esteps_binding g b s0)) (rext_checkBind rg b r0)
        (fun hp => sim_loopBody hg resTy tl lb le rc bc cc _ _ hok hp.1) (ext_of_steps (steps_loopBody g tl lb le rc bc cc _)) (rext_checkLoopBody rg resTy tl rc bc cc _)
    | call c =>
      unfold LoopStmt.loopOKL at hok
      exact sim_step3 h0 l0 (sim_callS' hg c s0 r0) (ext_of_esteps (esteps_callStmt g c s0)) (rext_checkCallS rg c r0)
        (fun hp => sim_loopBody hg resTy tl lb le rc bc cc _ _ hok hp.1) (ext_of_steps (steps_loopBody g tl lb le rc bc cc _)) (rext_checkLoopBody rg resTy tl rc bc cc _)
    | ifS i =>
      unfold LoopStmt.loopOKL at hok
      simp only [Bool.and_eq_true] at hok
      exact sim_step3 h0 l0 (sim_ifCondition hg resTy i none (some (lb, le)) s0 r0 hok.1)
        (ext_of_steps (steps_ifCondition g i none (some (lb, le)) s0)) (rext_checkIf rg resTy i r0)
        (fun hp => sim_loopBody hg resTy tl lb le rc bc cc _ _ hok.2 hp.1) (ext_of_steps (steps_loopBody g tl lb le rc bc cc _)) (rext_checkLoopBody rg resTy tl rc bc cc _)
    | loop b =>
      unfold LoopStmt.loopOKL at hok
      simp only [Bool.and_eq_true] at hok
      exact sim_step3 h0 l0
        (sim_loopWrap (loopBody g b) (checkLoopBody rg resTy b false false false)
          (fun lb le s rs hs => sim_loopBody hg resTy b lb le false false false s rs hok.1 hs)
          (fun lb le s => ext_of_steps (steps_loopBody g b lb le false false false s))
          (fun rs => rext_checkLoopBody rg resTy b false false false rs) s0 r0)
        (ext_of_steps (steps_loopWrap _ (steps_loopBody g b) s0))
        (((rext_push r0).trans (rext_checkLoopBody rg resTy b false false false _)).trans (rext_pop _))
        (fun hp => sim_loopBody hg resTy tl lb le rc bc cc _ _ hok.2 hp.1) (ext_of_steps (steps_loopBody g tl lb le rc bc cc _)) (rext_checkLoopBody rg resTy tl rc bc cc _)
    | ret e =>
      unfold LoopStmt.loopOKL at hok
      dsimp only
      have h1 : ScopeRel s0 r0.scope → StmtSim s0 (nestedReturn g e s0).1 r0 (checkNestedRet rg resTy e r0).1
          (Post s0 (nestedReturn g e s0).1 (checkNestedRet rg resTy e r0).1 ∧ (nestedReturn g e s0).2 = (checkNestedRet rg resTy e r0).2) :=
        fun hs0 => (sim_nestedRet hg resTy e s0 r0 hs0).weaken fun hp => ⟨⟨hp.1, nestedReturn_len e s0⟩, hp.2⟩
      have a1 := ext_of_steps (steps_nestedReturn g e s0)
      have c1 := rext_checkNestedRet rg resTy e r0
      generalize nestedReturn g e s0 = q at h1 a1
      obtain ⟨s1, r⟩ := q
      generalize checkNestedRet rg resTy e r0 = qc at h1 c1
      obtain ⟨r1, rcq⟩ := qc
      dsimp only at h1 a1 c1 ⊢
      have h01 : StmtSim s s1 rs r1 (Post s0 s1 r1 ∧ r = rcq) := StmtSim.seq h0 h1 a1 c1
      refine StmtSim.seq h01 (fun hp => ?_) (ext_of_steps (steps_loopBody g tl lb le (rc || r) bc cc s1)) (rext_checkLoopBody rg resTy tl (rc || rcq) bc cc r1)
      obtain ⟨hp1, hr⟩ := hp
      subst hr
      exact (sim_loopBody hg resTy tl lb le (rc || r) bc cc s1 r1 hok hp1.1).weaken fun hq => ⟨hq.1, by rw [hq.2, hp1.2, l0]⟩
    | brk =>
      unfold LoopStmt.loopOKL at hok
      have h0' : StmtSim s (s0.push (.jumpTo le)) rs r0 (Post s (s0.push (.jumpTo le)) r0) :=
        h0.thenSilent rfl rfl fun hp => ⟨by unfold ScopeRel; rw [vals_push]; exact hp, by rw [(push_fields _ _).2, l0]⟩
      exact StmtSim.seq h0' (fun hp => (sim_loopBody hg resTy tl lb le rc true cc _ r0 hok hp.1).weaken fun hq => ⟨hq.1, by rw [hq.2, hp.2]⟩)
        (ext_of_steps (steps_loopBody g tl lb le rc true cc _)) (rext_checkLoopBody rg resTy tl rc true cc r0)
    | cont =>
      unfold LoopStmt.loopOKL at hok
      have h0' : StmtSim s (s0.push (.jumpTo lb)) rs r0 (Post s (s0.push (.jumpTo lb)) r0) :=
        h0.thenSilent rfl rfl fun hp => ⟨by unfold ScopeRel; rw [vals_push]; exact hp, by rw [(push_fields _ _).2, l0]⟩
      exact StmtSim.seq h0' (fun hp => (sim_loopBody hg resTy tl lb le rc bc true _ r0 hok hp.1).weaken fun hq => ⟨hq.1, by rw [hq.2, hp.2]⟩)
        (ext_of_steps (steps_loopBody g tl lb le rc bc true _)) (rext_checkLoopBody rg resTy tl rc bc true r0)
end

end SemVerif
