import SemVerif.Spec.Codec
/-!
# Lemmas/CodecInj — the JSON data model of the AST loses no information (C20)

`encProgram_inj`: two programs with the same encoding are equal — for every program, of any size and
nesting depth.  Together with the correspondence run (the encoding is what `serde_json` produces
for the real AST) this says that serialisation is injective on the AST; that the real deserialiser
inverts it is what the native round trips check.
-/
namespace SemVerif

theorem str_lit_inj {a b : String} : (Json.str a.toList = Json.str b.toList) ↔ a = b := by
  constructor
  · intro h
    injection h with h
    exact String.ext h
  · rintro rfl; rfl

theorem tag0_inj {a b : String} : tag0 a = tag0 b ↔ a = b := by
  unfold tag0
  constructor
  · intro h
    simp only [Json.obj.injEq, List.cons.injEq, Prod.mk.injEq, true_and, and_true] at h
    exact str_lit_inj.mp h
  · rintro rfl; rfl

theorem tag1_inj {a b : String} {c d : Json} : tag1 a c = tag1 b d ↔ a = b ∧ c = d := by
  unfold tag1
  constructor
  · intro h
    simp only [Json.obj.injEq, List.cons.injEq, Prod.mk.injEq, true_and, and_true] at h
    exact ⟨str_lit_inj.mp h.1, h.2⟩
  · rintro ⟨rfl, rfl⟩; rfl

theorem tag0_ne_tag1 {a b : String} {c : Json} : tag0 a ≠ tag1 b c := by
  unfold tag0 tag1; intro h; simp at h

theorem encIdent_inj {a b : Name} : encIdent a = encIdent b ↔ a = b := by
  unfold encIdent
  constructor
  · intro h; simpa using h
  · rintro rfl; rfl

theorem primTy_variant_inj : ∀ {a b : PrimTy}, a.variant = b.variant → a = b := by
  intro a b h
  cases a <;> cases b <;> first | rfl | (exfalso; revert h; unfold PrimTy.variant; decide)

theorem op_variant_inj : ∀ {a b : Op}, a.variant = b.variant → a = b := by
  intro a b h
  cases a <;> cases b <;> first | rfl | (exfalso; revert h; unfold Op.variant; decide)

theorem cond_variant_inj : ∀ {a b : Cond}, a.variant = b.variant → a = b := by
  intro a b h
  cases a <;> cases b <;> first | rfl | (exfalso; revert h; unfold Cond.variant; decide)

theorem logic_variant_inj : ∀ {a b : Logic}, a.variant = b.variant → a = b := by
  intro a b h
  cases a <;> cases b <;> first | rfl | (exfalso; revert h; unfold Logic.variant; decide)

mutual
theorem encATy_inj : ∀ (a b : ATy), encATy a = encATy b → a = b
  | .prim p, .prim q, h => by
    simp [encATy, tag1_inj, tag0_inj] at h
    rw [primTy_variant_inj h]
  | .prim p, .struct n as, h => by simp [encATy, tag1_inj] at h
  | .prim p, .array t n, h => by simp [encATy, tag1_inj] at h
  | .struct n as, .prim p, h => by simp [encATy, tag1_inj] at h
  | .struct n as, .struct m bs, h => by
    simp [encATy, tag1_inj, encIdent_inj] at h
    rw [h.1, encAttrs_inj as bs h.2]
  | .struct n as, .array t k, h => by simp [encATy, tag1_inj] at h
  | .array t n, .prim p, h => by simp [encATy, tag1_inj] at h
  | .array t n, .struct m bs, h => by simp [encATy, tag1_inj] at h
  | .array t n, .array u k, h => by
    simp [encATy, tag1_inj] at h
    rw [encATy_inj t u h.1, Int.ofNat_inj.mp h.2]
theorem encAttrs_inj : ∀ (l m : List (Name × ATy)), encAttrs l = encAttrs m → l = m
  | [], [], _ => rfl
  | [], (n, t) :: rest, h => by simp [encAttrs] at h
  | (n, t) :: rest, [], h => by simp [encAttrs] at h
  | (n, t) :: rest, (m, u) :: rest', h => by
    simp [encAttrs, encIdent_inj] at h
    rw [h.1.1, encATy_inj t u h.1.2, encAttrs_inj rest rest' h.2]
end


theorem encATy_ne_null (a : ATy) : encATy a ≠ .null := by
  cases a <;> simp [encATy, tag1]

theorem encPrimVal_inj : ∀ (a b : PrimVal), encPrimVal a = encPrimVal b → a = b := by
  intro a b h
  cases a <;> cases b <;>
    first
      | rfl
      | (simp [encPrimVal, tag1_inj, tag0_inj, tag0_ne_tag1, Ne.symm tag0_ne_tag1] at h; done)
      | (simp [encPrimVal, tag1_inj, tag0_inj] at h
         first
           | (rw [Int.ofNat_inj.mp h])
           | (rw [h])
           | (rw [h.1, h.2]))

theorem encCVal_inj : ∀ (a b : CVal), encCVal a = encCVal b → a = b
  | .const n, .const m, h => by simp [encCVal, tag1_inj, encIdent_inj] at h; rw [h]
  | .val v, .val w, h => by simp [encCVal, tag1_inj] at h; rw [encPrimVal_inj v w h]
  | .const n, .val w, h => by simp [encCVal, tag1_inj] at h
  | .val v, .const m, h => by simp [encCVal, tag1_inj] at h

theorem encCExpr_inj : ∀ (a b : CExpr), encCExpr a = encCExpr b → a = b
  | .last v, .last w, h => by simp [encCExpr] at h; rw [encCVal_inj v w h]
  | .last v, .cons w o r, h => by simp [encCExpr] at h
  | .cons v o r, .last w, h => by simp [encCExpr] at h
  | .cons v o r, .cons w o' r', h => by
    simp [encCExpr, tag0_inj] at h
    rw [encCVal_inj v w h.1, op_variant_inj h.2.1, encCExpr_inj r r' h.2.2]

def extTyCode : PrimTy → Int
  | .u8 => 0 | .u16 => 1 | .u32 => 2 | .u64 => 3 | .i8 => 4 | .i16 => 5 | .i32 => 6 | .i64 => 7
  | .f32 => 8 | .f64 => 9 | .bool => 10 | .char => 11 | .ptr => 12 | .none => 13

theorem extTyCode_inj : ∀ {a b : PrimTy}, extTyCode a = extTyCode b → a = b := by
  intro a b h
  cases a <;> cases b <;> first | rfl | (exfalso; revert h; unfold extTyCode; decide)

theorem encExt_eq (tag : Nat) (ty : PrimTy) :
    encExprValue (.ext tag ty) = tag1 "ExtendedExpression" (.obj [("tag", .num tag), ("ty", .num (extTyCode ty))]) := by
  cases ty <;> rfl

mutual
theorem encExpr_inj : ∀ (a b : Expr), encExpr a = encExpr b → a = b
  | .mk v none, .mk w none, h => by simp [encExpr] at h; rw [encExprValue_inj v w h]
  | .mk v none, .mk w (some (o, e)), h => by simp [encExpr] at h
  | .mk v (some (o, e)), .mk w none, h => by simp [encExpr] at h
  | .mk v (some (o, e)), .mk w (some (o', e')), h => by
    simp [encExpr, tag0_inj] at h
    rw [encExprValue_inj v w h.1, op_variant_inj h.2.1, encExpr_inj e e' h.2.2]
theorem encExprValue_inj : ∀ (a b : ExprValue), encExprValue a = encExprValue b → a = b
  | .var n, .var m, h => by simp [encExprValue, tag1_inj, encIdent_inj] at h; rw [h]
  | .lit v, .lit w, h => by simp [encExprValue, tag1_inj] at h; rw [encPrimVal_inj v w h]
  | .call f as, .call g bs, h => by
    simp [encExprValue, tag1_inj, encIdent_inj] at h
    rw [h.1, encExprs_inj as bs h.2]
  | .field v a, .field w b, h => by simp [encExprValue, tag1_inj, encIdent_inj] at h; rw [h.1, h.2]
  | .sub e, .sub e', h => by simp [encExprValue, tag1_inj] at h; rw [encExpr_inj e e' h]
  | .ext t ty, .ext t' ty', h => by
    rw [encExt_eq, encExt_eq] at h
    simp [tag1_inj] at h
    rw [Int.ofNat_inj.mp h.1, extTyCode_inj h.2]
  | .var n, .lit w, h => by simp [encExprValue, tag1_inj] at h
  | .var n, .call g bs, h => by simp [encExprValue, tag1_inj] at h
  | .var n, .field w b, h => by simp [encExprValue, tag1_inj] at h
  | .var n, .sub e', h => by simp [encExprValue, tag1_inj] at h
  | .var n, .ext t' ty', h => by rw [encExt_eq] at h; simp [encExprValue, tag1_inj] at h
  | .lit v, .var m, h => by simp [encExprValue, tag1_inj] at h
  | .lit v, .call g bs, h => by simp [encExprValue, tag1_inj] at h
  | .lit v, .field w b, h => by simp [encExprValue, tag1_inj] at h
  | .lit v, .sub e', h => by simp [encExprValue, tag1_inj] at h
  | .lit v, .ext t' ty', h => by rw [encExt_eq] at h; simp [encExprValue, tag1_inj] at h
  | .call f as, .var m, h => by simp [encExprValue, tag1_inj] at h
  | .call f as, .lit w, h => by simp [encExprValue, tag1_inj] at h
  | .call f as, .field w b, h => by simp [encExprValue, tag1_inj] at h
  | .call f as, .sub e', h => by simp [encExprValue, tag1_inj] at h
  | .call f as, .ext t' ty', h => by rw [encExt_eq] at h; simp [encExprValue, tag1_inj] at h
  | .field v a, .var m, h => by simp [encExprValue, tag1_inj] at h
  | .field v a, .lit w, h => by simp [encExprValue, tag1_inj] at h
  | .field v a, .call g bs, h => by simp [encExprValue, tag1_inj] at h
  | .field v a, .sub e', h => by simp [encExprValue, tag1_inj] at h
  | .field v a, .ext t' ty', h => by rw [encExt_eq] at h; simp [encExprValue, tag1_inj] at h
  | .sub e, .var m, h => by simp [encExprValue, tag1_inj] at h
  | .sub e, .lit w, h => by simp [encExprValue, tag1_inj] at h
  | .sub e, .call g bs, h => by simp [encExprValue, tag1_inj] at h
  | .sub e, .field w b, h => by simp [encExprValue, tag1_inj] at h
  | .sub e, .ext t' ty', h => by rw [encExt_eq] at h; simp [encExprValue, tag1_inj] at h
  | .ext t ty, .var m, h => by rw [encExt_eq] at h; simp [encExprValue, tag1_inj] at h
  | .ext t ty, .lit w, h => by rw [encExt_eq] at h; simp [encExprValue, tag1_inj] at h
  | .ext t ty, .call g bs, h => by rw [encExt_eq] at h; simp [encExprValue, tag1_inj] at h
  | .ext t ty, .field w b, h => by rw [encExt_eq] at h; simp [encExprValue, tag1_inj] at h
  | .ext t ty, .sub e', h => by rw [encExt_eq] at h; simp [encExprValue, tag1_inj] at h
theorem encExprs_inj : ∀ (l m : List Expr), encExprs l = encExprs m → l = m
  | [], [], _ => rfl
  | [], e :: es, h => by simp [encExprs] at h
  | e :: es, [], h => by simp [encExprs] at h
  | e :: es, e' :: es', h => by
    simp [encExprs] at h
    rw [encExpr_inj e e' h.1, encExprs_inj es es' h.2]
end

theorem encExpr_ne_null (e : Expr) : encExpr e ≠ .null := by
  cases e with | mk v r => cases r with
    | none => simp [encExpr]
    | some p => obtain ⟨o, e'⟩ := p; simp [encExpr]

theorem encLet_inj : ∀ (a b : LetB), encLet a = encLet b → a = b := by
  intro a b h
  obtain ⟨n, m, ty, v⟩ := a
  obtain ⟨n', m', ty', v'⟩ := b
  cases ty <;> cases ty' <;> simp [encLet, encIdent_inj, encATy_ne_null, Ne.symm (encATy_ne_null _)] at h
  · rw [h.1, h.2.1, encExpr_inj v v' h.2.2]
  · rename_i t t'
    rw [h.1, h.2.1, encATy_inj t t' h.2.2.1, encExpr_inj v v' h.2.2.2]

theorem encBind_inj : ∀ (a b : Bind), encBind a = encBind b → a = b := by
  intro a b h
  obtain ⟨n, v⟩ := a
  obtain ⟨n', v'⟩ := b
  simp [encBind, encIdent_inj] at h
  rw [h.1, encExpr_inj v v' h.2]

theorem encCallS_inj : ∀ (a b : CallS), encCallS a = encCallS b → a = b := by
  intro a b h
  obtain ⟨n, as⟩ := a
  obtain ⟨n', bs⟩ := b
  simp [encCallS, encIdent_inj] at h
  rw [h.1, encExprs_inj as bs h.2]

theorem encCmp_inj : ∀ (a b : CmpCond), encCmp a = encCmp b → a = b := by
  intro a b h
  obtain ⟨l, c, r⟩ := a
  obtain ⟨l', c', r'⟩ := b
  simp [encCmp, tag0_inj] at h
  rw [encExpr_inj l l' h.1, cond_variant_inj h.2.1, encExpr_inj r r' h.2.2]

theorem encLogicCond_inj : ∀ (a b : LogicCond), encLogicCond a = encLogicCond b → a = b
  | .mk c none, .mk d none, h => by simp [encLogicCond] at h; rw [encCmp_inj c d h]
  | .mk c none, .mk d (some (lg, rc)), h => by simp [encLogicCond] at h
  | .mk c (some (lg, rc)), .mk d none, h => by simp [encLogicCond] at h
  | .mk c (some (lg, rc)), .mk d (some (lg', rc')), h => by
    simp [encLogicCond, tag0_inj] at h
    rw [encCmp_inj c d h.1, logic_variant_inj h.2.1, encLogicCond_inj rc rc' h.2.2]

theorem encIfCond_inj : ∀ (a b : IfCond), encIfCond a = encIfCond b → a = b
  | .single e, .single e', h => by simp [encIfCond, tag1_inj] at h; rw [encExpr_inj e e' h]
  | .logic l, .logic l', h => by simp [encIfCond, tag1_inj] at h; rw [encLogicCond_inj l l' h]
  | .single e, .logic l', h => by simp [encIfCond, tag1_inj] at h
  | .logic l, .single e', h => by simp [encIfCond, tag1_inj] at h


theorem encIfBodies_ne_null (b : IfBodies) : encIfBodies b ≠ .null := by
  cases b <;> simp [encIfBodies, tag1]

theorem encIfStmt_ne_null (i : IfStmt) : encIfStmt i ≠ .null := by
  cases i with | mk c b e f => unfold encIfStmt; intro h; cases h

mutual
theorem encIfStmt_inj : ∀ (a b : IfStmt), encIfStmt a = encIfStmt b → a = b
  | .mk c b none none, .mk c' b' none none, h => by
    simp [encIfStmt] at h
    rw [encIfCond_inj c c' h.1, encIfBodies_inj b b' h.2]
  | .mk c b none none, .mk c' b' none (some ei'), h => by simp [encIfStmt, encIfBodies_ne_null, encIfStmt_ne_null, Ne.symm (encIfBodies_ne_null _), Ne.symm (encIfStmt_ne_null _)] at h
  | .mk c b none none, .mk c' b' (some eb') none, h => by simp [encIfStmt, encIfBodies_ne_null, encIfStmt_ne_null, Ne.symm (encIfBodies_ne_null _), Ne.symm (encIfStmt_ne_null _)] at h
  | .mk c b none none, .mk c' b' (some eb') (some ei'), h => by simp [encIfStmt, encIfBodies_ne_null, encIfStmt_ne_null, Ne.symm (encIfBodies_ne_null _), Ne.symm (encIfStmt_ne_null _)] at h
  | .mk c b none (some ei), .mk c' b' none none, h => by simp [encIfStmt, encIfBodies_ne_null, encIfStmt_ne_null, Ne.symm (encIfBodies_ne_null _), Ne.symm (encIfStmt_ne_null _)] at h
  | .mk c b none (some ei), .mk c' b' none (some ei'), h => by
    simp [encIfStmt] at h
    rw [encIfCond_inj c c' h.1, encIfBodies_inj b b' h.2.1, encIfStmt_inj ei ei' h.2.2]
  | .mk c b none (some ei), .mk c' b' (some eb') none, h => by simp [encIfStmt, encIfBodies_ne_null, encIfStmt_ne_null, Ne.symm (encIfBodies_ne_null _), Ne.symm (encIfStmt_ne_null _)] at h
  | .mk c b none (some ei), .mk c' b' (some eb') (some ei'), h => by simp [encIfStmt, encIfBodies_ne_null, encIfStmt_ne_null, Ne.symm (encIfBodies_ne_null _), Ne.symm (encIfStmt_ne_null _)] at h
  | .mk c b (some eb) none, .mk c' b' none none, h => by simp [encIfStmt, encIfBodies_ne_null, encIfStmt_ne_null, Ne.symm (encIfBodies_ne_null _), Ne.symm (encIfStmt_ne_null _)] at h
  | .mk c b (some eb) none, .mk c' b' none (some ei'), h => by simp [encIfStmt, encIfBodies_ne_null, encIfStmt_ne_null, Ne.symm (encIfBodies_ne_null _), Ne.symm (encIfStmt_ne_null _)] at h
  | .mk c b (some eb) none, .mk c' b' (some eb') none, h => by
    simp [encIfStmt] at h
    rw [encIfCond_inj c c' h.1, encIfBodies_inj b b' h.2.1, encIfBodies_inj eb eb' h.2.2]
  | .mk c b (some eb) none, .mk c' b' (some eb') (some ei'), h => by simp [encIfStmt, encIfBodies_ne_null, encIfStmt_ne_null, Ne.symm (encIfBodies_ne_null _), Ne.symm (encIfStmt_ne_null _)] at h
  | .mk c b (some eb) (some ei), .mk c' b' none none, h => by simp [encIfStmt, encIfBodies_ne_null, encIfStmt_ne_null, Ne.symm (encIfBodies_ne_null _), Ne.symm (encIfStmt_ne_null _)] at h
  | .mk c b (some eb) (some ei), .mk c' b' none (some ei'), h => by simp [encIfStmt, encIfBodies_ne_null, encIfStmt_ne_null, Ne.symm (encIfBodies_ne_null _), Ne.symm (encIfStmt_ne_null _)] at h
  | .mk c b (some eb) (some ei), .mk c' b' (some eb') none, h => by simp [encIfStmt, encIfBodies_ne_null, encIfStmt_ne_null, Ne.symm (encIfBodies_ne_null _), Ne.symm (encIfStmt_ne_null _)] at h
  | .mk c b (some eb) (some ei), .mk c' b' (some eb') (some ei'), h => by
    simp [encIfStmt] at h
    rw [encIfCond_inj c c' h.1, encIfBodies_inj b b' h.2.1, encIfBodies_inj eb eb' h.2.2.1, encIfStmt_inj ei ei' h.2.2.2]
theorem encIfBodies_inj : ∀ (a b : IfBodies), encIfBodies a = encIfBodies b → a = b
  | .ifb l, .ifb m, h => by simp [encIfBodies, tag1_inj] at h; rw [encIfBodyL_inj l m h]
  | .loopb l, .loopb m, h => by simp [encIfBodies, tag1_inj] at h; rw [encIfLoopL_inj l m h]
  | .ifb l, .loopb m, h => by simp [encIfBodies, tag1_inj] at h
  | .loopb l, .ifb m, h => by simp [encIfBodies, tag1_inj] at h
theorem encIfBodyL_inj : ∀ (l m : List IfBodyStmt), encIfBodyL l = encIfBodyL m → l = m
  | [], [], _ => rfl
  | [], .letB b :: tl, h => by simp [encIfBodyL] at h
  | .letB b :: tl, [], h => by simp [encIfBodyL] at h
  | [], .bind b :: tl, h => by simp [encIfBodyL] at h
  | .bind b :: tl, [], h => by simp [encIfBodyL] at h
  | [], .call c :: tl, h => by simp [encIfBodyL] at h
  | .call c :: tl, [], h => by simp [encIfBodyL] at h
  | [], .ifS i :: tl, h => by simp [encIfBodyL] at h
  | .ifS i :: tl, [], h => by simp [encIfBodyL] at h
  | [], .loop b :: tl, h => by simp [encIfBodyL] at h
  | .loop b :: tl, [], h => by simp [encIfBodyL] at h
  | [], .ret e :: tl, h => by simp [encIfBodyL] at h
  | .ret e :: tl, [], h => by simp [encIfBodyL] at h
  | .letB b :: tl, .letB b' :: tl', h => by
    simp [encIfBodyL, tag1_inj] at h
    rw [encLet_inj b b' h.1, encIfBodyL_inj tl tl' h.2]
  | .letB b :: tl, .bind b' :: tl', h => by simp [encIfBodyL, tag1_inj, tag0_inj, tag0_ne_tag1, Ne.symm tag0_ne_tag1] at h
  | .letB b :: tl, .call c' :: tl', h => by simp [encIfBodyL, tag1_inj, tag0_inj, tag0_ne_tag1, Ne.symm tag0_ne_tag1] at h
  | .letB b :: tl, .ifS i' :: tl', h => by simp [encIfBodyL, tag1_inj, tag0_inj, tag0_ne_tag1, Ne.symm tag0_ne_tag1] at h
  | .letB b :: tl, .loop b' :: tl', h => by simp [encIfBodyL, tag1_inj, tag0_inj, tag0_ne_tag1, Ne.symm tag0_ne_tag1] at h
  | .letB b :: tl, .ret e' :: tl', h => by simp [encIfBodyL, tag1_inj, tag0_inj, tag0_ne_tag1, Ne.symm tag0_ne_tag1] at h
  | .bind b :: tl, .letB b' :: tl', h => by simp [encIfBodyL, tag1_inj, tag0_inj, tag0_ne_tag1, Ne.symm tag0_ne_tag1] at h
  | .bind b :: tl, .bind b' :: tl', h => by
    simp [encIfBodyL, tag1_inj] at h
    rw [encBind_inj b b' h.1, encIfBodyL_inj tl tl' h.2]
  | .bind b :: tl, .call c' :: tl', h => by simp [encIfBodyL, tag1_inj, tag0_inj, tag0_ne_tag1, Ne.symm tag0_ne_tag1] at h
  | .bind b :: tl, .ifS i' :: tl', h => by simp [encIfBodyL, tag1_inj, tag0_inj, tag0_ne_tag1, Ne.symm tag0_ne_tag1] at h
  | .bind b :: tl, .loop b' :: tl', h => by simp [encIfBodyL, tag1_inj, tag0_inj, tag0_ne_tag1, Ne.symm tag0_ne_tag1] at h
  | .bind b :: tl, .ret e' :: tl', h => by simp [encIfBodyL, tag1_inj, tag0_inj, tag0_ne_tag1, Ne.symm tag0_ne_tag1] at h
  | .call c :: tl, .letB b' :: tl', h => by simp [encIfBodyL, tag1_inj, tag0_inj, tag0_ne_tag1, Ne.symm tag0_ne_tag1] at h
  | .call c :: tl, .bind b' :: tl', h => by simp [encIfBodyL, tag1_inj, tag0_inj, tag0_ne_tag1, Ne.symm tag0_ne_tag1] at h
  | .call c :: tl, .call c' :: tl', h => by
    simp [encIfBodyL, tag1_inj] at h
    rw [encCallS_inj c c' h.1, encIfBodyL_inj tl tl' h.2]
  | .call c :: tl, .ifS i' :: tl', h => by simp [encIfBodyL, tag1_inj, tag0_inj, tag0_ne_tag1, Ne.symm tag0_ne_tag1] at h
  | .call c :: tl, .loop b' :: tl', h => by simp [encIfBodyL, tag1_inj, tag0_inj, tag0_ne_tag1, Ne.symm tag0_ne_tag1] at h
  | .call c :: tl, .ret e' :: tl', h => by simp [encIfBodyL, tag1_inj, tag0_inj, tag0_ne_tag1, Ne.symm tag0_ne_tag1] at h
  | .ifS i :: tl, .letB b' :: tl', h => by simp [encIfBodyL, tag1_inj, tag0_inj, tag0_ne_tag1, Ne.symm tag0_ne_tag1] at h
  | .ifS i :: tl, .bind b' :: tl', h => by simp [encIfBodyL, tag1_inj, tag0_inj, tag0_ne_tag1, Ne.symm tag0_ne_tag1] at h
  | .ifS i :: tl, .call c' :: tl', h => by simp [encIfBodyL, tag1_inj, tag0_inj, tag0_ne_tag1, Ne.symm tag0_ne_tag1] at h
  | .ifS i :: tl, .ifS i' :: tl', h => by
    simp [encIfBodyL, tag1_inj] at h
    rw [encIfStmt_inj i i' h.1, encIfBodyL_inj tl tl' h.2]
  | .ifS i :: tl, .loop b' :: tl', h => by simp [encIfBodyL, tag1_inj, tag0_inj, tag0_ne_tag1, Ne.symm tag0_ne_tag1] at h
  | .ifS i :: tl, .ret e' :: tl', h => by simp [encIfBodyL, tag1_inj, tag0_inj, tag0_ne_tag1, Ne.symm tag0_ne_tag1] at h
  | .loop b :: tl, .letB b' :: tl', h => by simp [encIfBodyL, tag1_inj, tag0_inj, tag0_ne_tag1, Ne.symm tag0_ne_tag1] at h
  | .loop b :: tl, .bind b' :: tl', h => by simp [encIfBodyL, tag1_inj, tag0_inj, tag0_ne_tag1, Ne.symm tag0_ne_tag1] at h
  | .loop b :: tl, .call c' :: tl', h => by simp [encIfBodyL, tag1_inj, tag0_inj, tag0_ne_tag1, Ne.symm tag0_ne_tag1] at h
  | .loop b :: tl, .ifS i' :: tl', h => by simp [encIfBodyL, tag1_inj, tag0_inj, tag0_ne_tag1, Ne.symm tag0_ne_tag1] at h
  | .loop b :: tl, .loop b' :: tl', h => by
    simp [encIfBodyL, tag1_inj] at h
    rw [encLoopL_inj b b' h.1, encIfBodyL_inj tl tl' h.2]
  | .loop b :: tl, .ret e' :: tl', h => by simp [encIfBodyL, tag1_inj, tag0_inj, tag0_ne_tag1, Ne.symm tag0_ne_tag1] at h
  | .ret e :: tl, .letB b' :: tl', h => by simp [encIfBodyL, tag1_inj, tag0_inj, tag0_ne_tag1, Ne.symm tag0_ne_tag1] at h
  | .ret e :: tl, .bind b' :: tl', h => by simp [encIfBodyL, tag1_inj, tag0_inj, tag0_ne_tag1, Ne.symm tag0_ne_tag1] at h
  | .ret e :: tl, .call c' :: tl', h => by simp [encIfBodyL, tag1_inj, tag0_inj, tag0_ne_tag1, Ne.symm tag0_ne_tag1] at h
  | .ret e :: tl, .ifS i' :: tl', h => by simp [encIfBodyL, tag1_inj, tag0_inj, tag0_ne_tag1, Ne.symm tag0_ne_tag1] at h
  | .ret e :: tl, .loop b' :: tl', h => by simp [encIfBodyL, tag1_inj, tag0_inj, tag0_ne_tag1, Ne.symm tag0_ne_tag1] at h
  | .ret e :: tl, .ret e' :: tl', h => by
    simp [encIfBodyL, tag1_inj] at h
    rw [encExpr_inj e e' h.1, encIfBodyL_inj tl tl' h.2]
theorem encIfLoopL_inj : ∀ (l m : List IfLoopStmt), encIfLoopL l = encIfLoopL m → l = m
  | [], [], _ => rfl
  | [], .letB b :: tl, h => by simp [encIfLoopL] at h
  | .letB b :: tl, [], h => by simp [encIfLoopL] at h
  | [], .bind b :: tl, h => by simp [encIfLoopL] at h
  | .bind b :: tl, [], h => by simp [encIfLoopL] at h
  | [], .call c :: tl, h => by simp [encIfLoopL] at h
  | .call c :: tl, [], h => by simp [encIfLoopL] at h
  | [], .ifS i :: tl, h => by simp [encIfLoopL] at h
  | .ifS i :: tl, [], h => by simp [encIfLoopL] at h
  | [], .loop b :: tl, h => by simp [encIfLoopL] at h
  | .loop b :: tl, [], h => by simp [encIfLoopL] at h
  | [], .ret e :: tl, h => by simp [encIfLoopL] at h
  | .ret e :: tl, [], h => by simp [encIfLoopL] at h
  | [], .brk :: tl, h => by simp [encIfLoopL] at h
  | .brk :: tl, [], h => by simp [encIfLoopL] at h
  | [], .cont :: tl, h => by simp [encIfLoopL] at h
  | .cont :: tl, [], h => by simp [encIfLoopL] at h
  | .letB b :: tl, .letB b' :: tl', h => by
    simp [encIfLoopL, tag1_inj] at h
    rw [encLet_inj b b' h.1, encIfLoopL_inj tl tl' h.2]
  | .letB b :: tl, .bind b' :: tl', h => by simp [encIfLoopL, tag1_inj, tag0_inj, tag0_ne_tag1, Ne.symm tag0_ne_tag1] at h
  | .letB b :: tl, .call c' :: tl', h => by simp [encIfLoopL, tag1_inj, tag0_inj, tag0_ne_tag1, Ne.symm tag0_ne_tag1] at h
  | .letB b :: tl, .ifS i' :: tl', h => by simp [encIfLoopL, tag1_inj, tag0_inj, tag0_ne_tag1, Ne.symm tag0_ne_tag1] at h
  | .letB b :: tl, .loop b' :: tl', h => by simp [encIfLoopL, tag1_inj, tag0_inj, tag0_ne_tag1, Ne.symm tag0_ne_tag1] at h
  | .letB b :: tl, .ret e' :: tl', h => by simp [encIfLoopL, tag1_inj, tag0_inj, tag0_ne_tag1, Ne.symm tag0_ne_tag1] at h
  | .letB b :: tl, .brk :: tl', h => by simp [encIfLoopL, tag1_inj, tag0_inj, tag0_ne_tag1, Ne.symm tag0_ne_tag1] at h
  | .letB b :: tl, .cont :: tl', h => by simp [encIfLoopL, tag1_inj, tag0_inj, tag0_ne_tag1, Ne.symm tag0_ne_tag1] at h
  | .bind b :: tl, .letB b' :: tl', h => by simp [encIfLoopL, tag1_inj, tag0_inj, tag0_ne_tag1, Ne.symm tag0_ne_tag1] at h
  | .bind b :: tl, .bind b' :: tl', h => by
    simp [encIfLoopL, tag1_inj] at h
    rw [encBind_inj b b' h.1, encIfLoopL_inj tl tl' h.2]
  | .bind b :: tl, .call c' :: tl', h => by simp [encIfLoopL, tag1_inj, tag0_inj, tag0_ne_tag1, Ne.symm tag0_ne_tag1] at h
  | .bind b :: tl, .ifS i' :: tl', h => by simp [encIfLoopL, tag1_inj, tag0_inj, tag0_ne_tag1, Ne.symm tag0_ne_tag1] at h
  | .bind b :: tl, .loop b' :: tl', h => by simp [encIfLoopL, tag1_inj, tag0_inj, tag0_ne_tag1, Ne.symm tag0_ne_tag1] at h
  | .bind b :: tl, .ret e' :: tl', h => by simp [encIfLoopL, tag1_inj, tag0_inj, tag0_ne_tag1, Ne.symm tag0_ne_tag1] at h
  | .bind b :: tl, .brk :: tl', h => by simp [encIfLoopL, tag1_inj, tag0_inj, tag0_ne_tag1, Ne.symm tag0_ne_tag1] at h
  | .bind b :: tl, .cont :: tl', h => by simp [encIfLoopL, tag1_inj, tag0_inj, tag0_ne_tag1, Ne.symm tag0_ne_tag1] at h
  | .call c :: tl, .letB b' :: tl', h => by simp [encIfLoopL, tag1_inj, tag0_inj, tag0_ne_tag1, Ne.symm tag0_ne_tag1] at h
  | .call c :: tl, .bind b' :: tl', h => by simp [encIfLoopL, tag1_inj, tag0_inj, tag0_ne_tag1, Ne.symm tag0_ne_tag1] at h
  | .call c :: tl, .call c' :: tl', h => by
    simp [encIfLoopL, tag1_inj] at h
    rw [encCallS_inj c c' h.1, encIfLoopL_inj tl tl' h.2]
  | .call c :: tl, .ifS i' :: tl', h => by simp [encIfLoopL, tag1_inj, tag0_inj, tag0_ne_tag1, Ne.symm tag0_ne_tag1] at h
  | .call c :: tl, .loop b' :: tl', h => by simp [encIfLoopL, tag1_inj, tag0_inj, tag0_ne_tag1, Ne.symm tag0_ne_tag1] at h
  | .call c :: tl, .ret e' :: tl', h => by simp [encIfLoopL, tag1_inj, tag0_inj, tag0_ne_tag1, Ne.symm tag0_ne_tag1] at h
  | .call c :: tl, .brk :: tl', h => by simp [encIfLoopL, tag1_inj, tag0_inj, tag0_ne_tag1, Ne.symm tag0_ne_tag1] at h
  | .call c :: tl, .cont :: tl', h => by simp [encIfLoopL, tag1_inj, tag0_inj, tag0_ne_tag1, Ne.symm tag0_ne_tag1] at h
  | .ifS i :: tl, .letB b' :: tl', h => by simp [encIfLoopL, tag1_inj, tag0_inj, tag0_ne_tag1, Ne.symm tag0_ne_tag1] at h
  | .ifS i :: tl, .bind b' :: tl', h => by simp [encIfLoopL, tag1_inj, tag0_inj, tag0_ne_tag1, Ne.symm tag0_ne_tag1] at h
  | .ifS i :: tl, .call c' :: tl', h => by simp [encIfLoopL, tag1_inj, tag0_inj, tag0_ne_tag1, Ne.symm tag0_ne_tag1] at h
  | .ifS i :: tl, .ifS i' :: tl', h => by
    simp [encIfLoopL, tag1_inj] at h
    rw [encIfStmt_inj i i' h.1, encIfLoopL_inj tl tl' h.2]
  | .ifS i :: tl, .loop b' :: tl', h => by simp [encIfLoopL, tag1_inj, tag0_inj, tag0_ne_tag1, Ne.symm tag0_ne_tag1] at h
  | .ifS i :: tl, .ret e' :: tl', h => by simp [encIfLoopL, tag1_inj, tag0_inj, tag0_ne_tag1, Ne.symm tag0_ne_tag1] at h
  | .ifS i :: tl, .brk :: tl', h => by simp [encIfLoopL, tag1_inj, tag0_inj, tag0_ne_tag1, Ne.symm tag0_ne_tag1] at h
  | .ifS i :: tl, .cont :: tl', h => by simp [encIfLoopL, tag1_inj, tag0_inj, tag0_ne_tag1, Ne.symm tag0_ne_tag1] at h
  | .loop b :: tl, .letB b' :: tl', h => by simp [encIfLoopL, tag1_inj, tag0_inj, tag0_ne_tag1, Ne.symm tag0_ne_tag1] at h
  | .loop b :: tl, .bind b' :: tl', h => by simp [encIfLoopL, tag1_inj, tag0_inj, tag0_ne_tag1, Ne.symm tag0_ne_tag1] at h
  | .loop b :: tl, .call c' :: tl', h => by simp [encIfLoopL, tag1_inj, tag0_inj, tag0_ne_tag1, Ne.symm tag0_ne_tag1] at h
  | .loop b :: tl, .ifS i' :: tl', h => by simp [encIfLoopL, tag1_inj, tag0_inj, tag0_ne_tag1, Ne.symm tag0_ne_tag1] at h
  | .loop b :: tl, .loop b' :: tl', h => by
    simp [encIfLoopL, tag1_inj] at h
    rw [encLoopL_inj b b' h.1, encIfLoopL_inj tl tl' h.2]
  | .loop b :: tl, .ret e' :: tl', h => by simp [encIfLoopL, tag1_inj, tag0_inj, tag0_ne_tag1, Ne.symm tag0_ne_tag1] at h
  | .loop b :: tl, .brk :: tl', h => by simp [encIfLoopL, tag1_inj, tag0_inj, tag0_ne_tag1, Ne.symm tag0_ne_tag1] at h
  | .loop b :: tl, .cont :: tl', h => by simp [encIfLoopL, tag1_inj, tag0_inj, tag0_ne_tag1, Ne.symm tag0_ne_tag1] at h
  | .ret e :: tl, .letB b' :: tl', h => by simp [encIfLoopL, tag1_inj, tag0_inj, tag0_ne_tag1, Ne.symm tag0_ne_tag1] at h
  | .ret e :: tl, .bind b' :: tl', h => by simp [encIfLoopL, tag1_inj, tag0_inj, tag0_ne_tag1, Ne.symm tag0_ne_tag1] at h
  | .ret e :: tl, .call c' :: tl', h => by simp [encIfLoopL, tag1_inj, tag0_inj, tag0_ne_tag1, Ne.symm tag0_ne_tag1] at h
  | .ret e :: tl, .ifS i' :: tl', h => by simp [encIfLoopL, tag1_inj, tag0_inj, tag0_ne_tag1, Ne.symm tag0_ne_tag1] at h
  | .ret e :: tl, .loop b' :: tl', h => by simp [encIfLoopL, tag1_inj, tag0_inj, tag0_ne_tag1, Ne.symm tag0_ne_tag1] at h
  | .ret e :: tl, .ret e' :: tl', h => by
    simp [encIfLoopL, tag1_inj] at h
    rw [encExpr_inj e e' h.1, encIfLoopL_inj tl tl' h.2]
  | .ret e :: tl, .brk :: tl', h => by simp [encIfLoopL, tag1_inj, tag0_inj, tag0_ne_tag1, Ne.symm tag0_ne_tag1] at h
  | .ret e :: tl, .cont :: tl', h => by simp [encIfLoopL, tag1_inj, tag0_inj, tag0_ne_tag1, Ne.symm tag0_ne_tag1] at h
  | .brk :: tl, .letB b' :: tl', h => by simp [encIfLoopL, tag1_inj, tag0_inj, tag0_ne_tag1, Ne.symm tag0_ne_tag1] at h
  | .brk :: tl, .bind b' :: tl', h => by simp [encIfLoopL, tag1_inj, tag0_inj, tag0_ne_tag1, Ne.symm tag0_ne_tag1] at h
  | .brk :: tl, .call c' :: tl', h => by simp [encIfLoopL, tag1_inj, tag0_inj, tag0_ne_tag1, Ne.symm tag0_ne_tag1] at h
  | .brk :: tl, .ifS i' :: tl', h => by simp [encIfLoopL, tag1_inj, tag0_inj, tag0_ne_tag1, Ne.symm tag0_ne_tag1] at h
  | .brk :: tl, .loop b' :: tl', h => by simp [encIfLoopL, tag1_inj, tag0_inj, tag0_ne_tag1, Ne.symm tag0_ne_tag1] at h
  | .brk :: tl, .ret e' :: tl', h => by simp [encIfLoopL, tag1_inj, tag0_inj, tag0_ne_tag1, Ne.symm tag0_ne_tag1] at h
  | .brk :: tl, .brk :: tl', h => by
    simp [encIfLoopL] at h
    rw [encIfLoopL_inj tl tl' h]
  | .brk :: tl, .cont :: tl', h => by simp [encIfLoopL, tag1_inj, tag0_inj, tag0_ne_tag1, Ne.symm tag0_ne_tag1] at h
  | .cont :: tl, .letB b' :: tl', h => by simp [encIfLoopL, tag1_inj, tag0_inj, tag0_ne_tag1, Ne.symm tag0_ne_tag1] at h
  | .cont :: tl, .bind b' :: tl', h => by simp [encIfLoopL, tag1_inj, tag0_inj, tag0_ne_tag1, Ne.symm tag0_ne_tag1] at h
  | .cont :: tl, .call c' :: tl', h => by simp [encIfLoopL, tag1_inj, tag0_inj, tag0_ne_tag1, Ne.symm tag0_ne_tag1] at h
  | .cont :: tl, .ifS i' :: tl', h => by simp [encIfLoopL, tag1_inj, tag0_inj, tag0_ne_tag1, Ne.symm tag0_ne_tag1] at h
  | .cont :: tl, .loop b' :: tl', h => by simp [encIfLoopL, tag1_inj, tag0_inj, tag0_ne_tag1, Ne.symm tag0_ne_tag1] at h
  | .cont :: tl, .ret e' :: tl', h => by simp [encIfLoopL, tag1_inj, tag0_inj, tag0_ne_tag1, Ne.symm tag0_ne_tag1] at h
  | .cont :: tl, .brk :: tl', h => by simp [encIfLoopL, tag1_inj, tag0_inj, tag0_ne_tag1, Ne.symm tag0_ne_tag1] at h
  | .cont :: tl, .cont :: tl', h => by
    simp [encIfLoopL] at h
    rw [encIfLoopL_inj tl tl' h]
theorem encLoopL_inj : ∀ (l m : List LoopStmt), encLoopL l = encLoopL m → l = m
  | [], [], _ => rfl
  | [], .letB b :: tl, h => by simp [encLoopL] at h
  | .letB b :: tl, [], h => by simp [encLoopL] at h
  | [], .bind b :: tl, h => by simp [encLoopL] at h
  | .bind b :: tl, [], h => by simp [encLoopL] at h
  | [], .call c :: tl, h => by simp [encLoopL] at h
  | .call c :: tl, [], h => by simp [encLoopL] at h
  | [], .ifS i :: tl, h => by simp [encLoopL] at h
  | .ifS i :: tl, [], h => by simp [encLoopL] at h
  | [], .loop b :: tl, h => by simp [encLoopL] at h
  | .loop b :: tl, [], h => by simp [encLoopL] at h
  | [], .ret e :: tl, h => by simp [encLoopL] at h
  | .ret e :: tl, [], h => by simp [encLoopL] at h
  | [], .brk :: tl, h => by simp [encLoopL] at h
  | .brk :: tl, [], h => by simp [encLoopL] at h
  | [], .cont :: tl, h => by simp [encLoopL] at h
  | .cont :: tl, [], h => by simp [encLoopL] at h
  | .letB b :: tl, .letB b' :: tl', h => by
    simp [encLoopL, tag1_inj] at h
    rw [encLet_inj b b' h.1, encLoopL_inj tl tl' h.2]
  | .letB b :: tl, .bind b' :: tl', h => by simp [encLoopL, tag1_inj, tag0_inj, tag0_ne_tag1, Ne.symm tag0_ne_tag1] at h
  | .letB b :: tl, .call c' :: tl', h => by simp [encLoopL, tag1_inj, tag0_inj, tag0_ne_tag1, Ne.symm tag0_ne_tag1] at h
  | .letB b :: tl, .ifS i' :: tl', h => by simp [encLoopL, tag1_inj, tag0_inj, tag0_ne_tag1, Ne.symm tag0_ne_tag1] at h
  | .letB b :: tl, .loop b' :: tl', h => by simp [encLoopL, tag1_inj, tag0_inj, tag0_ne_tag1, Ne.symm tag0_ne_tag1] at h
  | .letB b :: tl, .ret e' :: tl', h => by simp [encLoopL, tag1_inj, tag0_inj, tag0_ne_tag1, Ne.symm tag0_ne_tag1] at h
  | .letB b :: tl, .brk :: tl', h => by simp [encLoopL, tag1_inj, tag0_inj, tag0_ne_tag1, Ne.symm tag0_ne_tag1] at h
  | .letB b :: tl, .cont :: tl', h => by simp [encLoopL, tag1_inj, tag0_inj, tag0_ne_tag1, Ne.symm tag0_ne_tag1] at h
  | .bind b :: tl, .letB b' :: tl', h => by simp [encLoopL, tag1_inj, tag0_inj, tag0_ne_tag1, Ne.symm tag0_ne_tag1] at h
  | .bind b :: tl, .bind b' :: tl', h => by
    simp [encLoopL, tag1_inj] at h
    rw [encBind_inj b b' h.1, encLoopL_inj tl tl' h.2]
  | .bind b :: tl, .call c' :: tl', h => by simp [encLoopL, tag1_inj, tag0_inj, tag0_ne_tag1, Ne.symm tag0_ne_tag1] at h
  | .bind b :: tl, .ifS i' :: tl', h => by simp [encLoopL, tag1_inj, tag0_inj, tag0_ne_tag1, Ne.symm tag0_ne_tag1] at h
  | .bind b :: tl, .loop b' :: tl', h => by simp [encLoopL, tag1_inj, tag0_inj, tag0_ne_tag1, Ne.symm tag0_ne_tag1] at h
  | .bind b :: tl, .ret e' :: tl', h => by simp [encLoopL, tag1_inj, tag0_inj, tag0_ne_tag1, Ne.symm tag0_ne_tag1] at h
  | .bind b :: tl, .brk :: tl', h => by simp [encLoopL, tag1_inj, tag0_inj, tag0_ne_tag1, Ne.symm tag0_ne_tag1] at h
  | .bind b :: tl, .cont :: tl', h => by simp [encLoopL, tag1_inj, tag0_inj, tag0_ne_tag1, Ne.symm tag0_ne_tag1] at h
  | .call c :: tl, .letB b' :: tl', h => by simp [encLoopL, tag1_inj, tag0_inj, tag0_ne_tag1, Ne.symm tag0_ne_tag1] at h
  | .call c :: tl, .bind b' :: tl', h => by simp [encLoopL, tag1_inj, tag0_inj, tag0_ne_tag1, Ne.symm tag0_ne_tag1] at h
  | .call c :: tl, .call c' :: tl', h => by
    simp [encLoopL, tag1_inj] at h
    rw [encCallS_inj c c' h.1, encLoopL_inj tl tl' h.2]
  | .call c :: tl, .ifS i' :: tl', h => by simp [encLoopL, tag1_inj, tag0_inj, tag0_ne_tag1, Ne.symm tag0_ne_tag1] at h
  | .call c :: tl, .loop b' :: tl', h => by simp [encLoopL, tag1_inj, tag0_inj, tag0_ne_tag1, Ne.symm tag0_ne_tag1] at h
  | .call c :: tl, .ret e' :: tl', h => by simp [encLoopL, tag1_inj, tag0_inj, tag0_ne_tag1, Ne.symm tag0_ne_tag1] at h
  | .call c :: tl, .brk :: tl', h => by simp [encLoopL, tag1_inj, tag0_inj, tag0_ne_tag1, Ne.symm tag0_ne_tag1] at h
  | .call c :: tl, .cont :: tl', h => by simp [encLoopL, tag1_inj, tag0_inj, tag0_ne_tag1, Ne.symm tag0_ne_tag1] at h
  | .ifS i :: tl, .letB b' :: tl', h => by simp [encLoopL, tag1_inj, tag0_inj, tag0_ne_tag1, Ne.symm tag0_ne_tag1] at h
  | .ifS i :: tl, .bind b' :: tl', h => by simp [encLoopL, tag1_inj, tag0_inj, tag0_ne_tag1, Ne.symm tag0_ne_tag1] at h
  | .ifS i :: tl, .call c' :: tl', h => by simp [encLoopL, tag1_inj, tag0_inj, tag0_ne_tag1, Ne.symm tag0_ne_tag1] at h
  | .ifS i :: tl, .ifS i' :: tl', h => by
    simp [encLoopL, tag1_inj] at h
    rw [encIfStmt_inj i i' h.1, encLoopL_inj tl tl' h.2]
  | .ifS i :: tl, .loop b' :: tl', h => by simp [encLoopL, tag1_inj, tag0_inj, tag0_ne_tag1, Ne.symm tag0_ne_tag1] at h
  | .ifS i :: tl, .ret e' :: tl', h => by simp [encLoopL, tag1_inj, tag0_inj, tag0_ne_tag1, Ne.symm tag0_ne_tag1] at h
  | .ifS i :: tl, .brk :: tl', h => by simp [encLoopL, tag1_inj, tag0_inj, tag0_ne_tag1, Ne.symm tag0_ne_tag1] at h
  | .ifS i :: tl, .cont :: tl', h => by simp [encLoopL, tag1_inj, tag0_inj, tag0_ne_tag1, Ne.symm tag0_ne_tag1] at h
  | .loop b :: tl, .letB b' :: tl', h => by simp [encLoopL, tag1_inj, tag0_inj, tag0_ne_tag1, Ne.symm tag0_ne_tag1] at h
  | .loop b :: tl, .bind b' :: tl', h => by simp [encLoopL, tag1_inj, tag0_inj, tag0_ne_tag1, Ne.symm tag0_ne_tag1] at h
  | .loop b :: tl, .call c' :: tl', h => by simp [encLoopL, tag1_inj, tag0_inj, tag0_ne_tag1, Ne.symm tag0_ne_tag1] at h
  | .loop b :: tl, .ifS i' :: tl', h => by simp [encLoopL, tag1_inj, tag0_inj, tag0_ne_tag1, Ne.symm tag0_ne_tag1] at h
  | .loop b :: tl, .loop b' :: tl', h => by
    simp [encLoopL, tag1_inj] at h
    rw [encLoopL_inj b b' h.1, encLoopL_inj tl tl' h.2]
  | .loop b :: tl, .ret e' :: tl', h => by simp [encLoopL, tag1_inj, tag0_inj, tag0_ne_tag1, Ne.symm tag0_ne_tag1] at h
  | .loop b :: tl, .brk :: tl', h => by simp [encLoopL, tag1_inj, tag0_inj, tag0_ne_tag1, Ne.symm tag0_ne_tag1] at h
  | .loop b :: tl, .cont :: tl', h => by simp [encLoopL, tag1_inj, tag0_inj, tag0_ne_tag1, Ne.symm tag0_ne_tag1] at h
  | .ret e :: tl, .letB b' :: tl', h => by simp [encLoopL, tag1_inj, tag0_inj, tag0_ne_tag1, Ne.symm tag0_ne_tag1] at h
  | .ret e :: tl, .bind b' :: tl', h => by simp [encLoopL, tag1_inj, tag0_inj, tag0_ne_tag1, Ne.symm tag0_ne_tag1] at h
  | .ret e :: tl, .call c' :: tl', h => by simp [encLoopL, tag1_inj, tag0_inj, tag0_ne_tag1, Ne.symm tag0_ne_tag1] at h
  | .ret e :: tl, .ifS i' :: tl', h => by simp [encLoopL, tag1_inj, tag0_inj, tag0_ne_tag1, Ne.symm tag0_ne_tag1] at h
  | .ret e :: tl, .loop b' :: tl', h => by simp [encLoopL, tag1_inj, tag0_inj, tag0_ne_tag1, Ne.symm tag0_ne_tag1] at h
  | .ret e :: tl, .ret e' :: tl', h => by
    simp [encLoopL, tag1_inj] at h
    rw [encExpr_inj e e' h.1, encLoopL_inj tl tl' h.2]
  | .ret e :: tl, .brk :: tl', h => by simp [encLoopL, tag1_inj, tag0_inj, tag0_ne_tag1, Ne.symm tag0_ne_tag1] at h
  | .ret e :: tl, .cont :: tl', h => by simp [encLoopL, tag1_inj, tag0_inj, tag0_ne_tag1, Ne.symm tag0_ne_tag1] at h
  | .brk :: tl, .letB b' :: tl', h => by simp [encLoopL, tag1_inj, tag0_inj, tag0_ne_tag1, Ne.symm tag0_ne_tag1] at h
  | .brk :: tl, .bind b' :: tl', h => by simp [encLoopL, tag1_inj, tag0_inj, tag0_ne_tag1, Ne.symm tag0_ne_tag1] at h
  | .brk :: tl, .call c' :: tl', h => by simp [encLoopL, tag1_inj, tag0_inj, tag0_ne_tag1, Ne.symm tag0_ne_tag1] at h
  | .brk :: tl, .ifS i' :: tl', h => by simp [encLoopL, tag1_inj, tag0_inj, tag0_ne_tag1, Ne.symm tag0_ne_tag1] at h
  | .brk :: tl, .loop b' :: tl', h => by simp [encLoopL, tag1_inj, tag0_inj, tag0_ne_tag1, Ne.symm tag0_ne_tag1] at h
  | .brk :: tl, .ret e' :: tl', h => by simp [encLoopL, tag1_inj, tag0_inj, tag0_ne_tag1, Ne.symm tag0_ne_tag1] at h
  | .brk :: tl, .brk :: tl', h => by
    simp [encLoopL] at h
    rw [encLoopL_inj tl tl' h]
  | .brk :: tl, .cont :: tl', h => by simp [encLoopL, tag1_inj, tag0_inj, tag0_ne_tag1, Ne.symm tag0_ne_tag1] at h
  | .cont :: tl, .letB b' :: tl', h => by simp [encLoopL, tag1_inj, tag0_inj, tag0_ne_tag1, Ne.symm tag0_ne_tag1] at h
  | .cont :: tl, .bind b' :: tl', h => by simp [encLoopL, tag1_inj, tag0_inj, tag0_ne_tag1, Ne.symm tag0_ne_tag1] at h
  | .cont :: tl, .call c' :: tl', h => by simp [encLoopL, tag1_inj, tag0_inj, tag0_ne_tag1, Ne.symm tag0_ne_tag1] at h
  | .cont :: tl, .ifS i' :: tl', h => by simp [encLoopL, tag1_inj, tag0_inj, tag0_ne_tag1, Ne.symm tag0_ne_tag1] at h
  | .cont :: tl, .loop b' :: tl', h => by simp [encLoopL, tag1_inj, tag0_inj, tag0_ne_tag1, Ne.symm tag0_ne_tag1] at h
  | .cont :: tl, .ret e' :: tl', h => by simp [encLoopL, tag1_inj, tag0_inj, tag0_ne_tag1, Ne.symm tag0_ne_tag1] at h
  | .cont :: tl, .brk :: tl', h => by simp [encLoopL, tag1_inj, tag0_inj, tag0_ne_tag1, Ne.symm tag0_ne_tag1] at h
  | .cont :: tl, .cont :: tl', h => by
    simp [encLoopL] at h
    rw [encLoopL_inj tl tl' h]
end

theorem encBodyL_inj : ∀ (l m : List BodyStmt), encBodyL l = encBodyL m → l = m
  | [], [], _ => rfl
  | [], .letB b :: tl, h => by simp [encBodyL] at h
  | .letB b :: tl, [], h => by simp [encBodyL] at h
  | [], .bind b :: tl, h => by simp [encBodyL] at h
  | .bind b :: tl, [], h => by simp [encBodyL] at h
  | [], .call c :: tl, h => by simp [encBodyL] at h
  | .call c :: tl, [], h => by simp [encBodyL] at h
  | [], .ifS i :: tl, h => by simp [encBodyL] at h
  | .ifS i :: tl, [], h => by simp [encBodyL] at h
  | [], .loop b :: tl, h => by simp [encBodyL] at h
  | .loop b :: tl, [], h => by simp [encBodyL] at h
  | [], .expr e :: tl, h => by simp [encBodyL] at h
  | .expr e :: tl, [], h => by simp [encBodyL] at h
  | [], .ret e :: tl, h => by simp [encBodyL] at h
  | .ret e :: tl, [], h => by simp [encBodyL] at h
  | .letB b :: tl, .letB b' :: tl', h => by
    simp [encBodyL, tag1_inj] at h
    rw [encLet_inj b b' h.1, encBodyL_inj tl tl' h.2]
  | .letB b :: tl, .bind b' :: tl', h => by simp [encBodyL, tag1_inj, tag0_inj, tag0_ne_tag1, Ne.symm tag0_ne_tag1] at h
  | .letB b :: tl, .call c' :: tl', h => by simp [encBodyL, tag1_inj, tag0_inj, tag0_ne_tag1, Ne.symm tag0_ne_tag1] at h
  | .letB b :: tl, .ifS i' :: tl', h => by simp [encBodyL, tag1_inj, tag0_inj, tag0_ne_tag1, Ne.symm tag0_ne_tag1] at h
  | .letB b :: tl, .loop b' :: tl', h => by simp [encBodyL, tag1_inj, tag0_inj, tag0_ne_tag1, Ne.symm tag0_ne_tag1] at h
  | .letB b :: tl, .expr e' :: tl', h => by simp [encBodyL, tag1_inj, tag0_inj, tag0_ne_tag1, Ne.symm tag0_ne_tag1] at h
  | .letB b :: tl, .ret e' :: tl', h => by simp [encBodyL, tag1_inj, tag0_inj, tag0_ne_tag1, Ne.symm tag0_ne_tag1] at h
  | .bind b :: tl, .letB b' :: tl', h => by simp [encBodyL, tag1_inj, tag0_inj, tag0_ne_tag1, Ne.symm tag0_ne_tag1] at h
  | .bind b :: tl, .bind b' :: tl', h => by
    simp [encBodyL, tag1_inj] at h
    rw [encBind_inj b b' h.1, encBodyL_inj tl tl' h.2]
  | .bind b :: tl, .call c' :: tl', h => by simp [encBodyL, tag1_inj, tag0_inj, tag0_ne_tag1, Ne.symm tag0_ne_tag1] at h
  | .bind b :: tl, .ifS i' :: tl', h => by simp [encBodyL, tag1_inj, tag0_inj, tag0_ne_tag1, Ne.symm tag0_ne_tag1] at h
  | .bind b :: tl, .loop b' :: tl', h => by simp [encBodyL, tag1_inj, tag0_inj, tag0_ne_tag1, Ne.symm tag0_ne_tag1] at h
  | .bind b :: tl, .expr e' :: tl', h => by simp [encBodyL, tag1_inj, tag0_inj, tag0_ne_tag1, Ne.symm tag0_ne_tag1] at h
  | .bind b :: tl, .ret e' :: tl', h => by simp [encBodyL, tag1_inj, tag0_inj, tag0_ne_tag1, Ne.symm tag0_ne_tag1] at h
  | .call c :: tl, .letB b' :: tl', h => by simp [encBodyL, tag1_inj, tag0_inj, tag0_ne_tag1, Ne.symm tag0_ne_tag1] at h
  | .call c :: tl, .bind b' :: tl', h => by simp [encBodyL, tag1_inj, tag0_inj, tag0_ne_tag1, Ne.symm tag0_ne_tag1] at h
  | .call c :: tl, .call c' :: tl', h => by
    simp [encBodyL, tag1_inj] at h
    rw [encCallS_inj c c' h.1, encBodyL_inj tl tl' h.2]
  | .call c :: tl, .ifS i' :: tl', h => by simp [encBodyL, tag1_inj, tag0_inj, tag0_ne_tag1, Ne.symm tag0_ne_tag1] at h
  | .call c :: tl, .loop b' :: tl', h => by simp [encBodyL, tag1_inj, tag0_inj, tag0_ne_tag1, Ne.symm tag0_ne_tag1] at h
  | .call c :: tl, .expr e' :: tl', h => by simp [encBodyL, tag1_inj, tag0_inj, tag0_ne_tag1, Ne.symm tag0_ne_tag1] at h
  | .call c :: tl, .ret e' :: tl', h => by simp [encBodyL, tag1_inj, tag0_inj, tag0_ne_tag1, Ne.symm tag0_ne_tag1] at h
  | .ifS i :: tl, .letB b' :: tl', h => by simp [encBodyL, tag1_inj, tag0_inj, tag0_ne_tag1, Ne.symm tag0_ne_tag1] at h
  | .ifS i :: tl, .bind b' :: tl', h => by simp [encBodyL, tag1_inj, tag0_inj, tag0_ne_tag1, Ne.symm tag0_ne_tag1] at h
  | .ifS i :: tl, .call c' :: tl', h => by simp [encBodyL, tag1_inj, tag0_inj, tag0_ne_tag1, Ne.symm tag0_ne_tag1] at h
  | .ifS i :: tl, .ifS i' :: tl', h => by
    simp [encBodyL, tag1_inj] at h
    rw [encIfStmt_inj i i' h.1, encBodyL_inj tl tl' h.2]
  | .ifS i :: tl, .loop b' :: tl', h => by simp [encBodyL, tag1_inj, tag0_inj, tag0_ne_tag1, Ne.symm tag0_ne_tag1] at h
  | .ifS i :: tl, .expr e' :: tl', h => by simp [encBodyL, tag1_inj, tag0_inj, tag0_ne_tag1, Ne.symm tag0_ne_tag1] at h
  | .ifS i :: tl, .ret e' :: tl', h => by simp [encBodyL, tag1_inj, tag0_inj, tag0_ne_tag1, Ne.symm tag0_ne_tag1] at h
  | .loop b :: tl, .letB b' :: tl', h => by simp [encBodyL, tag1_inj, tag0_inj, tag0_ne_tag1, Ne.symm tag0_ne_tag1] at h
  | .loop b :: tl, .bind b' :: tl', h => by simp [encBodyL, tag1_inj, tag0_inj, tag0_ne_tag1, Ne.symm tag0_ne_tag1] at h
  | .loop b :: tl, .call c' :: tl', h => by simp [encBodyL, tag1_inj, tag0_inj, tag0_ne_tag1, Ne.symm tag0_ne_tag1] at h
  | .loop b :: tl, .ifS i' :: tl', h => by simp [encBodyL, tag1_inj, tag0_inj, tag0_ne_tag1, Ne.symm tag0_ne_tag1] at h
  | .loop b :: tl, .loop b' :: tl', h => by
    simp [encBodyL, tag1_inj] at h
    rw [encLoopL_inj b b' h.1, encBodyL_inj tl tl' h.2]
  | .loop b :: tl, .expr e' :: tl', h => by simp [encBodyL, tag1_inj, tag0_inj, tag0_ne_tag1, Ne.symm tag0_ne_tag1] at h
  | .loop b :: tl, .ret e' :: tl', h => by simp [encBodyL, tag1_inj, tag0_inj, tag0_ne_tag1, Ne.symm tag0_ne_tag1] at h
  | .expr e :: tl, .letB b' :: tl', h => by simp [encBodyL, tag1_inj, tag0_inj, tag0_ne_tag1, Ne.symm tag0_ne_tag1] at h
  | .expr e :: tl, .bind b' :: tl', h => by simp [encBodyL, tag1_inj, tag0_inj, tag0_ne_tag1, Ne.symm tag0_ne_tag1] at h
  | .expr e :: tl, .call c' :: tl', h => by simp [encBodyL, tag1_inj, tag0_inj, tag0_ne_tag1, Ne.symm tag0_ne_tag1] at h
  | .expr e :: tl, .ifS i' :: tl', h => by simp [encBodyL, tag1_inj, tag0_inj, tag0_ne_tag1, Ne.symm tag0_ne_tag1] at h
  | .expr e :: tl, .loop b' :: tl', h => by simp [encBodyL, tag1_inj, tag0_inj, tag0_ne_tag1, Ne.symm tag0_ne_tag1] at h
  | .expr e :: tl, .expr e' :: tl', h => by
    simp [encBodyL, tag1_inj] at h
    rw [encExpr_inj e e' h.1, encBodyL_inj tl tl' h.2]
  | .expr e :: tl, .ret e' :: tl', h => by simp [encBodyL, tag1_inj, tag0_inj, tag0_ne_tag1, Ne.symm tag0_ne_tag1] at h
  | .ret e :: tl, .letB b' :: tl', h => by simp [encBodyL, tag1_inj, tag0_inj, tag0_ne_tag1, Ne.symm tag0_ne_tag1] at h
  | .ret e :: tl, .bind b' :: tl', h => by simp [encBodyL, tag1_inj, tag0_inj, tag0_ne_tag1, Ne.symm tag0_ne_tag1] at h
  | .ret e :: tl, .call c' :: tl', h => by simp [encBodyL, tag1_inj, tag0_inj, tag0_ne_tag1, Ne.symm tag0_ne_tag1] at h
  | .ret e :: tl, .ifS i' :: tl', h => by simp [encBodyL, tag1_inj, tag0_inj, tag0_ne_tag1, Ne.symm tag0_ne_tag1] at h
  | .ret e :: tl, .loop b' :: tl', h => by simp [encBodyL, tag1_inj, tag0_inj, tag0_ne_tag1, Ne.symm tag0_ne_tag1] at h
  | .ret e :: tl, .expr e' :: tl', h => by simp [encBodyL, tag1_inj, tag0_inj, tag0_ne_tag1, Ne.symm tag0_ne_tag1] at h
  | .ret e :: tl, .ret e' :: tl', h => by
    simp [encBodyL, tag1_inj] at h
    rw [encExpr_inj e e' h.1, encBodyL_inj tl tl' h.2]

theorem encParams_inj : ∀ (l m : List (Name × ATy)), encParams l = encParams m → l = m
  | [], [], _ => rfl
  | [], (n, t) :: rest, h => by simp [encParams] at h
  | (n, t) :: rest, [], h => by simp [encParams] at h
  | (n, t) :: rest, (m, u) :: rest', h => by
    simp [encParams, encIdent_inj] at h
    rw [h.1.1, encATy_inj t u h.1.2, encParams_inj rest rest' h.2]

theorem map_encIdent_inj : ∀ (l m : List Name), l.map encIdent = m.map encIdent → l = m
  | [], [], _ => rfl
  | [], _ :: _, h => by simp at h
  | _ :: _, [], h => by simp at h
  | a :: l, b :: m, h => by
    simp [encIdent_inj] at h
    rw [h.1, map_encIdent_inj l m h.2]

theorem encTop_inj : ∀ (a b : TopStmt), encTop a = encTop b → a = b
  | .imp p, .imp q, h => by simp [encTop, tag1_inj] at h; rw [map_encIdent_inj p q h]
  | .types d, .types d', h => by
    obtain ⟨n, as⟩ := d
    obtain ⟨n', as'⟩ := d'
    simp [encTop, tag1_inj, encIdent_inj] at h
    rw [h.1, encAttrs_inj as as' h.2]
  | .const d, .const d', h => by
    obtain ⟨n, t, v⟩ := d
    obtain ⟨n', t', v'⟩ := d'
    simp [encTop, tag1_inj, encIdent_inj] at h
    rw [h.1, encATy_inj t t' h.2.1, encCExpr_inj v v' h.2.2]
  | .fn f, .fn f', h => by
    obtain ⟨n, ps, r, b⟩ := f
    obtain ⟨n', ps', r', b'⟩ := f'
    simp [encTop, tag1_inj, encIdent_inj] at h
    rw [h.1, encParams_inj ps ps' h.2.1, encATy_inj r r' h.2.2.1, encBodyL_inj b b' h.2.2.2]
  | .imp p, .types d', h => by simp [encTop, tag1_inj] at h
  | .imp p, .const d', h => by simp [encTop, tag1_inj] at h
  | .imp p, .fn f', h => by simp [encTop, tag1_inj] at h
  | .types d, .imp q, h => by simp [encTop, tag1_inj] at h
  | .types d, .const d', h => by simp [encTop, tag1_inj] at h
  | .types d, .fn f', h => by simp [encTop, tag1_inj] at h
  | .const d, .imp q, h => by simp [encTop, tag1_inj] at h
  | .const d, .types d', h => by simp [encTop, tag1_inj] at h
  | .const d, .fn f', h => by simp [encTop, tag1_inj] at h
  | .fn f, .imp q, h => by simp [encTop, tag1_inj] at h
  | .fn f, .types d', h => by simp [encTop, tag1_inj] at h
  | .fn f, .const d', h => by simp [encTop, tag1_inj] at h

theorem map_encTop_inj : ∀ (l m : List TopStmt), l.map encTop = m.map encTop → l = m
  | [], [], _ => rfl
  | [], _ :: _, h => by simp at h
  | _ :: _, [], h => by simp at h
  | a :: l, b :: m, h => by
    simp at h
    rw [encTop_inj a b h.1, map_encTop_inj l m h.2]

/-- **the data model of the serialised AST is injective** -/
theorem encProgram_inj (p q : Program) (h : encProgram p = encProgram q) : p = q := by
  unfold encProgram at h
  injection h with h
  exact map_encTop_inj p q h

end SemVerif
