import SemVerif.Lemmas.FlowLay
/-!
# Lemmas/FlowSim — laid-out code run as a jump program does what the structured flow does

Forward simulation with exact step counts: whenever the structured run of `flows` (any fuel) ends
normally / by break / by continue, the jump program reaches the corresponding position with the
same remaining outcomes and the same trace after a fixed number of steps; when it returns or runs out
of outcomes, so does the jump program, with the same trace; when it runs out of fuel, the trace it
has produced so far is a prefix of a trace of the jump program.  Induction on the fuel of the
structured run, inside it on the layout derivation.
-/
namespace SemVerif

/-! ### One step of the jump program -/

section steps
variable (S : List Instr)

theorem jstep_plain {pc : Nat} {i : Instr} (h : S[pc]? = some i) (hs : i.straight = true) (he : i.isEffect = false)
    (m : Nat) (os : List Bool) (tr : List Nat) : runJump S (m + 1) pc os tr = runJump S m (pc + 1) os tr := by
  conv => lhs; unfold runJump
  rw [h]
  cases i <;> simp [Instr.straight, Instr.targets, Instr.setsLabel, Instr.isRet, Instr.isFnReturn, Instr.isJumpReturn, Instr.isEffect] at hs he ⊢

theorem jstep_eff {pc : Nat} {i : Instr} (h : S[pc]? = some i) (hs : i.straight = true) (he : i.isEffect = true)
    (m : Nat) (os : List Bool) (tr : List Nat) :
    runJump S (m + 1) pc os tr = runJump S m (pc + 1) os (tr ++ [effectIndex S pc]) := by
  conv => lhs; unfold runJump
  rw [h]
  cases i <;> simp [Instr.straight, Instr.targets, Instr.setsLabel, Instr.isRet, Instr.isFnReturn, Instr.isJumpReturn, Instr.isEffect] at hs he ⊢

theorem jstep_label {pc : Nat} {l : Name} (h : S[pc]? = some (.setLabel l))
    (m : Nat) (os : List Bool) (tr : List Nat) : runJump S (m + 1) pc os tr = runJump S m (pc + 1) os tr := by
  conv => lhs; unfold runJump
  rw [h]

theorem jstep_jump {pc t : Nat} {l : Name} (h : S[pc]? = some (.jumpTo l)) (ht : findLabel S l = some t)
    (m : Nat) (os : List Bool) (tr : List Nat) : runJump S (m + 1) pc os tr = runJump S m t os tr := by
  conv => lhs; unfold runJump
  rw [h]; simp only [ht]

theorem jstep_ret {pc : Nat} {i : Instr} (h : S[pc]? = some i) (hr : i.isRet = true)
    (m : Nat) (os : List Bool) (tr : List Nat) : runJump S (m + 1) pc os tr = (.returned, tr ++ [effectIndex S pc]) := by
  conv => lhs; unfold runJump
  rw [h]
  cases i <;> simp [Instr.isRet, Instr.isFnReturn, Instr.isJumpReturn] at hr ⊢

theorem jstep_branch_nil {pc : Nat} {br : Instr} {a b : Name} (h : S[pc]? = some br) (hbr : br.targets = [a, b])
    (m : Nat) (tr : List Nat) : runJump S (m + 1) pc [] tr = (.noOutcome, tr) := by
  conv => lhs; unfold runJump
  rw [h]
  cases br <;> simp [Instr.targets] at hbr ⊢

theorem jstep_branch {pc t : Nat} {br : Instr} {a b : Name} (h : S[pc]? = some br) (hbr : br.targets = [a, b])
    (o : Bool) (ht : findLabel S (if o then a else b) = some t)
    (m : Nat) (os : List Bool) (tr : List Nat) : runJump S (m + 1) pc (o :: os) tr = runJump S m t os tr := by
  conv => lhs; unfold runJump
  rw [h]
  cases br <;> simp [Instr.targets] at hbr ⊢
  all_goals (obtain ⟨rfl, rfl⟩ := hbr; simp only [ht])

/-- the trace of the jump program only grows -/
theorem jtrace_ext : ∀ (a pc : Nat) (os : List Bool) (tr : List Nat), tr <+: (runJump S a pc os tr).2
  | 0, _, _, tr => by unfold runJump; exact List.prefix_refl _
  | a + 1, pc, os, tr => by
    unfold runJump
    cases hg : S[pc]? with
    | none => exact List.prefix_refl _
    | some i =>
      dsimp only
      have ih := fun pc' os' tr' => jtrace_ext a pc' os' tr'
      have app : ∀ x, tr <+: tr ++ [x] := fun x => List.prefix_append _ _
      cases i with
      | jumpTo l =>
        dsimp only
        cases findLabel S l with
        | none => exact List.prefix_refl _
        | some t => exact ih t os tr
      | ifCondExpr x b e =>
        dsimp only
        cases os with
        | nil => exact List.prefix_refl _
        | cons o os =>
          dsimp only
          cases findLabel S (if o then b else e) with
          | none => exact List.prefix_refl _
          | some t => exact ih t os tr
      | ifCondLogic b e r =>
        dsimp only
        cases os with
        | nil => exact List.prefix_refl _
        | cons o os =>
          dsimp only
          cases findLabel S (if o then b else e) with
          | none => exact List.prefix_refl _
          | some t => exact ih t os tr
      | fnReturn x => exact app _
      | fnReturnWithLabel x => exact app _
      | jumpFnReturn x => exact app _
      | letBinding v x => exact (app _).trans (ih _ _ _)
      | binding v x => exact (app _).trans (ih _ _ _)
      | call f ps r => exact (app _).trans (ih _ _ _)
      | _ => exact ih _ _ _

/-- the unique `SetLabel l` of a stack is where `findLabel` points -/
theorem findLabel_unique {pre post : List Instr} {l : Name} (hS : S = pre ++ .setLabel l :: post)
    (hn : (setLabels S).Nodup) : findLabel S l = some pre.length := by
  unfold findLabel
  rw [List.findIdx?_eq_some_iff_getElem]
  refine ⟨by rw [hS]; simp, ?_, ?_⟩
  · simp [hS, Instr.setsLabel]
  · intro j hj
    simp only [hS, Bool.not_eq_true, beq_eq_false_iff_ne, ne_eq]
    rw [List.getElem_append_left hj]
    intro heq
    -- `pre[j]` would set `l` a second time
    have h1 : l ∈ setLabels pre := by
      unfold setLabels
      rw [List.mem_filterMap]
      exact ⟨pre[j], List.getElem_mem hj, heq⟩
    have h2 : setLabels S = setLabels pre ++ l :: setLabels post := by
      rw [hS]; unfold setLabels; simp [List.filterMap_append, List.filterMap_cons, Instr.setsLabel]
    rw [h2, List.nodup_append] at hn
    exact hn.2.2 l h1 l (by simp) rfl

end steps

/-! ### The simulation statement -/

structure Pos (S : List Instr) (K : LoopK) : Prop where
  begin_ : ∀ lb le b, K = some (lb, le, b) → ∃ pb, findLabel S lb = some pb
  end_ : ∀ lb le, K = some (lb, le, true) → ∃ pe, findLabel S le = some pe

def exitPos (S : List Instr) (e : Exit) (fallPos p : Nat) : Prop :=
  match e with
  | .fall => p = fallPos
  | .jump l => findLabel S l = some p

def Out (S : List Instr) (K : LoopK) (pc : Nat) (os : List Bool) (tr : List Nat) (r : Run) (ex : Nat) : Prop :=
  match r.ctl with
  | .normal => ∃ k, ∀ m, runJump S (k + m) pc os tr = runJump S m ex r.outcomes r.trace
  | .brk => ∃ k lb le pe, K = some (lb, le, true) ∧ findLabel S le = some pe ∧
      ∀ m, runJump S (k + m) pc os tr = runJump S m pe r.outcomes r.trace
  | .cont => ∃ k lb le b pb, K = some (lb, le, b) ∧ findLabel S lb = some pb ∧
      ∀ m, runJump S (k + m) pc os tr = runJump S m pb r.outcomes r.trace
  | .returned => ∃ k, ∀ m, runJump S (k + m) pc os tr = (.returned, r.trace)
  | .noOutcome => ∃ k, ∀ m, runJump S (k + m) pc os tr = (.noOutcome, r.trace)
  | .noFuel => ∃ a, r.trace <+: (runJump S a pc os tr).2

/-- the jump program first takes `k0` steps to the configuration from which the rest is simulated -/
theorem out_pre {S : List Instr} {K : LoopK} {pc pc' : Nat} {os os' : List Bool} {tr tr' : List Nat} {r : Run} {ex : Nat}
    (k0 : Nat) (hJ : ∀ m, runJump S (k0 + m) pc os tr = runJump S m pc' os' tr')
    (h : Out S K pc' os' tr' r ex) : Out S K pc os tr r ex := by
  unfold Out at h ⊢
  cases hc : r.ctl with
  | normal =>
    rw [hc] at h; dsimp only at h ⊢
    obtain ⟨k, hk⟩ := h
    exact ⟨k0 + k, fun m => by rw [Nat.add_assoc, hJ, hk]⟩
  | brk =>
    rw [hc] at h; dsimp only at h ⊢
    obtain ⟨k, lb, le, pe, h1, h2, hk⟩ := h
    exact ⟨k0 + k, lb, le, pe, h1, h2, fun m => by rw [Nat.add_assoc, hJ, hk]⟩
  | cont =>
    rw [hc] at h; dsimp only at h ⊢
    obtain ⟨k, lb, le, b, pb, h1, h2, hk⟩ := h
    exact ⟨k0 + k, lb, le, b, pb, h1, h2, fun m => by rw [Nat.add_assoc, hJ, hk]⟩
  | returned =>
    rw [hc] at h; dsimp only at h ⊢
    obtain ⟨k, hk⟩ := h
    exact ⟨k0 + k, fun m => by rw [Nat.add_assoc, hJ, hk]⟩
  | noOutcome =>
    rw [hc] at h; dsimp only at h ⊢
    obtain ⟨k, hk⟩ := h
    exact ⟨k0 + k, fun m => by rw [Nat.add_assoc, hJ, hk]⟩
  | noFuel =>
    rw [hc] at h; dsimp only at h ⊢
    obtain ⟨a, ha⟩ := h
    exact ⟨k0 + a, by rw [hJ]; exact ha⟩

/-- out of fuel right away -/
theorem out_noFuel {S : List Instr} {K : LoopK} {pc : Nat} {os : List Bool} {tr : List Nat} {ex : Nat} :
    Out S K pc os tr ⟨.noFuel, os, tr⟩ ex := by
  unfold Out; exact ⟨0, by unfold runJump; exact List.prefix_refl _⟩

theorem endsRet_not_normal : ∀ (fl : List Flow) (f : Nat) (os : List Bool) (tr : List Nat),
    endsRet fl = true → (runList f fl os tr).ctl ≠ .normal
  | [], _, _, _, h => by simp [endsRet] at h
  | x :: rest, 0, os, tr, _ => by unfold runList; simp
  | x :: rest, f + 1, os, tr, h => by
    unfold runList
    dsimp only
    cases hc : (runOne f x os tr).ctl with
    | normal =>
      dsimp only
      cases rest with
      | nil =>
        -- x is the return
        cases x <;> simp [endsRet] at h
        cases f <;> simp [runOne] at hc
      | cons y ys =>
        apply endsRet_not_normal (y :: ys) f
        cases x <;> simpa [endsRet] using h
    | brk => dsimp only; rw [hc]; simp
    | cont => dsimp only; rw [hc]; simp
    | returned => dsimp only; rw [hc]; simp
    | noOutcome => dsimp only; rw [hc]; simp
    | noFuel => dsimp only; rw [hc]; simp

/-! ### Unfolding the structured run -/

theorem runList_zero (fl : List Flow) (os : List Bool) (tr : List Nat) : runList 0 fl os tr = ⟨.noFuel, os, tr⟩ := by
  unfold runList; rfl
theorem runList_nil (f : Nat) (os : List Bool) (tr : List Nat) : runList (f + 1) [] os tr = ⟨.normal, os, tr⟩ := by
  unfold runList; rfl
theorem runList_cons (f : Nat) (x : Flow) (rest : List Flow) (os : List Bool) (tr : List Nat) :
    runList (f + 1) (x :: rest) os tr =
      (match (runOne f x os tr).ctl with
       | .normal => runList f rest (runOne f x os tr).outcomes (runOne f x os tr).trace
       | _ => runOne f x os tr) := by
  conv => lhs; unfold runList
  rfl
theorem runOne_zero (x : Flow) (os : List Bool) (tr : List Nat) : runOne 0 x os tr = ⟨.noFuel, os, tr⟩ := by
  unfold runOne; rfl

/-- after an item whose normal exit is the start of the rest -/
theorem out_seq {S : List Instr} {K : LoopK} {pc pcRest ex : Nat} {os : List Bool} {tr : List Nat} {r1 r2 : Run}
    (h1 : Out S K pc os tr r1 pcRest)
    (h2 : r1.ctl = .normal → Out S K pcRest r1.outcomes r1.trace r2 ex) :
    Out S K pc os tr (match r1.ctl with | .normal => r2 | _ => r1) ex := by
  cases hc : r1.ctl with
  | normal =>
    dsimp only
    unfold Out at h1
    rw [hc] at h1
    obtain ⟨k, hk⟩ := h1
    exact out_pre k hk (h2 hc)
  | brk => dsimp only; unfold Out at h1 ⊢; rw [hc] at h1 ⊢; exact h1
  | cont => dsimp only; unfold Out at h1 ⊢; rw [hc] at h1 ⊢; exact h1
  | returned => dsimp only; unfold Out at h1 ⊢; rw [hc] at h1 ⊢; exact h1
  | noOutcome => dsimp only; unfold Out at h1 ⊢; rw [hc] at h1 ⊢; exact h1
  | noFuel => dsimp only; unfold Out at h1 ⊢; rw [hc] at h1 ⊢; exact h1

/-- the normal exit is moved on by further steps of the jump program -/
theorem out_post {S : List Instr} {K : LoopK} {pc ex ex' : Nat} {os : List Bool} {tr : List Nat} {r : Run} (k1 : Nat)
    (hJ : ∀ m os' tr', runJump S (k1 + m) ex os' tr' = runJump S m ex' os' tr')
    (h : Out S K pc os tr r ex) : Out S K pc os tr r ex' := by
  unfold Out at h ⊢
  cases hc : r.ctl with
  | normal =>
    rw [hc] at h; dsimp only at h ⊢
    obtain ⟨k, hk⟩ := h
    exact ⟨k + k1, fun m => by rw [Nat.add_assoc, hk, hJ]⟩
  | brk => rw [hc] at h; exact h
  | cont => rw [hc] at h; exact h
  | returned => rw [hc] at h; exact h
  | noOutcome => rw [hc] at h; exact h
  | noFuel => rw [hc] at h; exact h

/-- the loop context only matters for break and continue -/
theorem out_K {S : List Instr} {K K' : LoopK} {pc ex : Nat} {os : List Bool} {tr : List Nat} {r : Run}
    (hb : r.ctl ≠ .brk) (hc : r.ctl ≠ .cont) (h : Out S K pc os tr r ex) : Out S K' pc os tr r ex := by
  unfold Out at h ⊢
  cases hr : r.ctl with
  | normal => rw [hr] at h; exact h
  | brk => exact absurd hr hb
  | cont => exact absurd hr hc
  | returned => rw [hr] at h; exact h
  | noOutcome => rw [hr] at h; exact h
  | noFuel => rw [hr] at h; exact h

theorem out_nil_at {S : List Instr} {K : LoopK} {ex : Nat} (f : Nat) (os : List Bool) (tr : List Nat) :
    Out S K ex os tr (runList f [] os tr) ex := by
  cases f with
  | zero => rw [runList_zero]; exact out_noFuel
  | succ f => rw [runList_nil]; unfold Out; exact ⟨0, fun m => by simp⟩

theorem getS {S pre post : List Instr} {i : Instr} {c : List Instr} (hS : S = pre ++ (i :: c) ++ post) :
    S[pre.length]? = some i := by
  rw [hS]; simp

theorem getS' {S pre post : List Instr} {i : Instr} (hS : S = pre ++ i :: post) : S[pre.length]? = some i := by
  rw [hS]; simp

theorem effIdx {S pre rest : List Instr} (hS : S = pre ++ rest) : effectIndex S pre.length = effCount pre := by
  unfold effectIndex effCount; rw [hS]; simp

/-- the exit position only matters for a normal end -/
theorem out_ex {S : List Instr} {K : LoopK} {pc ex ex' : Nat} {os : List Bool} {tr : List Nat} {r : Run}
    (hn : r.ctl ≠ .normal) (h : Out S K pc os tr r ex) : Out S K pc os tr r ex' := by
  unfold Out at h ⊢
  cases hr : r.ctl with
  | normal => exact absurd hr hn
  | brk => rw [hr] at h; exact h
  | cont => rw [hr] at h; exact h
  | returned => rw [hr] at h; exact h
  | noOutcome => rw [hr] at h; exact h
  | noFuel => rw [hr] at h; exact h

theorem findLabel_fun {S : List Instr} {l : Name} {a b : Nat} (h1 : findLabel S l = some a) (h2 : findLabel S l = some b) : a = b := by
  rw [h1] at h2; injection h2

def SimAll (S : List Instr) (fuel : Nat) : Prop :=
  ∀ (K : LoopK) (n : Nat) (fl : List Flow) (code : List Instr) (e : Exit), Lay K n fl code e →
    ∀ (pre post : List Instr) (ex : Nat), S = pre ++ code ++ post → effCount pre = n → Pos S K →
      exitPos S e (pre.length + code.length) ex →
      ∀ (os : List Bool) (tr : List Nat), Out S K pre.length os tr (runList fuel fl os tr) ex

theorem runOne_ev (f n : Nat) (os : List Bool) (tr : List Nat) : runOne (f + 1) (.ev n) os tr = ⟨.normal, os, tr ++ [n]⟩ := by
  unfold runOne; rfl
theorem runOne_ret (f n : Nat) (os : List Bool) (tr : List Nat) : runOne (f + 1) (.ret n) os tr = ⟨.returned, os, tr ++ [n]⟩ := by
  unfold runOne; rfl
theorem runOne_brk (f : Nat) (os : List Bool) (tr : List Nat) : runOne (f + 1) .brk os tr = ⟨.brk, os, tr⟩ := by
  unfold runOne; rfl
theorem runOne_cont (f : Nat) (os : List Bool) (tr : List Nat) : runOne (f + 1) .cont os tr = ⟨.cont, os, tr⟩ := by
  unfold runOne; rfl
theorem runOne_ite_nil (f : Nat) (t e : List Flow) (tr : List Nat) : runOne (f + 1) (.ite t e) [] tr = ⟨.noOutcome, [], tr⟩ := by
  unfold runOne; rfl
theorem runOne_ite_true (f : Nat) (t e : List Flow) (os : List Bool) (tr : List Nat) :
    runOne (f + 1) (.ite t e) (true :: os) tr = runList f t os tr := by
  conv => lhs; unfold runOne
theorem runOne_ite_false (f : Nat) (t e : List Flow) (os : List Bool) (tr : List Nat) :
    runOne (f + 1) (.ite t e) (false :: os) tr = runList f e os tr := by
  conv => lhs; unfold runOne
theorem runOne_loop (f : Nat) (body : List Flow) (os : List Bool) (tr : List Nat) :
    runOne (f + 1) (.loop body) os tr =
      (match (runList f body os tr).ctl with
       | .normal | .cont => runOne f (.loop body) (runList f body os tr).outcomes (runList f body os tr).trace
       | .brk => ⟨.normal, (runList f body os tr).outcomes, (runList f body os tr).trace⟩
       | _ => runList f body os tr) := by
  conv => lhs; unfold runOne
  rfl

/-- one `if` item, given what its two branches do -/
theorem out_ite {S : List Instr} {K : LoopK} {pc0 pT pF exI : Nat} {tb eb : List Flow} (kF F : Nat)
    (jN : ∀ m tr, runJump S (1 + m) pc0 [] tr = (.noOutcome, tr))
    (jT : ∀ m os tr, runJump S (2 + m) pc0 (true :: os) tr = runJump S m pT os tr)
    (jF : ∀ m os tr, runJump S (kF + m) pc0 (false :: os) tr = runJump S m pF os tr)
    (hT : ∀ f, f < F → ∀ os tr, Out S K pT os tr (runList f tb os tr) exI)
    (hF : ∀ f, f < F → ∀ os tr, Out S K pF os tr (runList f eb os tr) exI) :
    ∀ f, f ≤ F → ∀ os tr, Out S K pc0 os tr (runOne f (.ite tb eb) os tr) exI := by
  intro f hf os tr
  cases f with
  | zero => rw [runOne_zero]; exact out_noFuel
  | succ f1 =>
    cases os with
    | nil => rw [runOne_ite_nil]; unfold Out; exact ⟨1, fun m => jN m tr⟩
    | cons o os' =>
      cases o with
      | true => rw [runOne_ite_true]; exact out_pre 2 (fun m => jT m os' tr) (hT f1 (by omega) os' tr)
      | false => rw [runOne_ite_false]; exact out_pre kF (fun m => jF m os' tr) (hF f1 (by omega) os' tr)

theorem sim_step (S : List Instr) (hn : (setLabels S).Nodup) (fuel : Nat) (ih : ∀ f, f < fuel → SimAll S f) :
    SimAll S fuel := by
  intro K n fl code e h
  induction h with
  | nil K n =>
    intro pre post ex hS hne hpos hex os tr
    have : ex = pre.length := by simpa [exitPos] using hex
    subst this
    exact out_nil_at fuel os tr
  | @skip K n fl c e i hs he h' ih' =>
    intro pre post ex hS hne hpos hex os tr
    have hg := getS hS
    refine out_pre 1 (fun m => by rw [Nat.add_comm]; exact jstep_plain S hg hs he m os tr) ?_
    have := ih' (pre ++ [i]) post ex (by rw [hS]; simp) (by rw [effCount_append, hne]; simp [effCount, he]) hpos
      (by simpa [Nat.add_assoc, Nat.add_comm 1] using hex) os tr
    simpa using this
  | @label K n fl c e l h' ih' =>
    intro pre post ex hS hne hpos hex os tr
    have hg := getS hS
    refine out_pre 1 (fun m => by rw [Nat.add_comm]; exact jstep_label S hg m os tr) ?_
    have := ih' (pre ++ [.setLabel l]) post ex (by rw [hS]; simp) (by rw [effCount_append, hne]; simp [effCount, Instr.isEffect]) hpos
      (by simpa [Nat.add_assoc, Nat.add_comm 1] using hex) os tr
    simpa using this
  | @eff K n fl c e i hs he h' _ =>
    intro pre post ex hS hne hpos hex os tr
    cases fuel with
    | zero => rw [runList_zero]; exact out_noFuel
    | succ f =>
      rw [runList_cons]
      cases f with
      | zero => rw [runOne_zero]; exact out_noFuel
      | succ f' =>
        rw [runOne_ev]
        dsimp only
        have hg := getS hS
        have hidx : effectIndex S pre.length = n := by
          rw [effIdx (S := S) (pre := pre) (rest := (i :: c) ++ post) (by rw [hS]; simp), hne]
        refine out_pre 1 (fun m => by rw [Nat.add_comm, jstep_eff S hg hs he m os tr, hidx]) ?_
        have := ih (f' + 1) (by omega) K (n + 1) fl c e h' (pre ++ [i]) post ex (by rw [hS]; simp)
          (by rw [effCount_append, hne]; simp [effCount, he]) hpos
          (by simpa [Nat.add_assoc, Nat.add_comm 1] using hex) os (tr ++ [n])
        simpa using this
  | ret K n fl' i c e hr =>
    intro pre post ex hS hne hpos hex os tr
    cases fuel with
    | zero => rw [runList_zero]; exact out_noFuel
    | succ f =>
      rw [runList_cons]
      cases f with
      | zero => rw [runOne_zero]; exact out_noFuel
      | succ f' =>
        rw [runOne_ret]
        dsimp only
        have hg := getS hS
        have hidx : effectIndex S pre.length = n := by
          rw [effIdx (S := S) (pre := pre) (rest := (i :: c) ++ post) (by rw [hS]; simp), hne]
        unfold Out
        exact ⟨1, fun m => by rw [Nat.add_comm, jstep_ret S hg hr m os tr, hidx]⟩
  | brk n fl' lb le c e =>
    intro pre post ex hS hne hpos hex os tr
    cases fuel with
    | zero => rw [runList_zero]; exact out_noFuel
    | succ f =>
      rw [runList_cons]
      cases f with
      | zero => rw [runOne_zero]; exact out_noFuel
      | succ f' =>
        rw [runOne_brk]
        dsimp only
        obtain ⟨pe, hpe⟩ := hpos.end_ lb le rfl
        unfold Out
        exact ⟨1, lb, le, pe, rfl, hpe, fun m => by rw [Nat.add_comm]; exact jstep_jump S (getS hS) hpe m os tr⟩
  | cont n fl' lb le b c e =>
    intro pre post ex hS hne hpos hex os tr
    cases fuel with
    | zero => rw [runList_zero]; exact out_noFuel
    | succ f =>
      rw [runList_cons]
      cases f with
      | zero => rw [runOne_zero]; exact out_noFuel
      | succ f' =>
        rw [runOne_cont]
        dsimp only
        obtain ⟨pb, hpb⟩ := hpos.begin_ lb le b rfl
        unfold Out
        exact ⟨1, lb, le, b, pb, rfl, hpb, fun m => by rw [Nat.add_comm]; exact jstep_jump S (getS hS) hpb m os tr⟩
  | jmp K n l c =>
    intro pre post ex hS hne hpos hex os tr
    have hl : findLabel S l = some ex := hex
    refine out_pre 1 (fun m => by rw [Nat.add_comm]; exact jstep_jump S (getS hS) hl m os tr) ?_
    exact out_nil_at fuel os tr
  | @dead K n fl c l d h' ih' =>
    intro pre post ex hS hne hpos hex os tr
    exact ih' pre (d ++ post) ex (by rw [hS]; simp) hne hpos hex os tr
  | @loop K n body rest bc c tail e lb le b hbody htail hrest _ _ =>
    intro pre post ex hS hne hpos hex os tr
    -- positions
    have hlenB : (pre ++ [Instr.jumpTo lb, Instr.setLabel lb]).length = pre.length + 2 := by simp
    have hS1 : S = (pre ++ [Instr.jumpTo lb]) ++ Instr.setLabel lb :: (bc ++ tail ++ c ++ post) := by rw [hS]; simp
    have hg0 : S[pre.length]? = some (Instr.jumpTo lb) := getS hS
    have hg1 : S[pre.length + 1]? = some (Instr.setLabel lb) := by
      have h := getS' hS1
      rw [show (pre ++ [Instr.jumpTo lb]).length = pre.length + 1 by simp] at h; exact h
    have hlb : findLabel S lb = some (pre.length + 1) := by
      have h := findLabel_unique S hS1 hn
      rw [show (pre ++ [Instr.jumpTo lb]).length = pre.length + 1 by simp] at h; exact h
    have hSB : S = (pre ++ [Instr.jumpTo lb, Instr.setLabel lb]) ++ bc ++ (tail ++ c ++ post) := by rw [hS]; simp
    have hneB : effCount (pre ++ [Instr.jumpTo lb, Instr.setLabel lb]) = n := by
      rw [effCount_append, hne]; simp [effCount, Instr.isEffect]
    -- with the tail present: its two instructions
    have htl : tail = [Instr.jumpTo lb, Instr.setLabel le] →
        S[pre.length + 2 + bc.length]? = some (Instr.jumpTo lb) ∧
        S[pre.length + 2 + bc.length + 1]? = some (Instr.setLabel le) ∧
        findLabel S le = some (pre.length + 2 + bc.length + 1) := by
      intro ht
      have hSa : S = (pre ++ [Instr.jumpTo lb, Instr.setLabel lb] ++ bc) ++ Instr.jumpTo lb :: (Instr.setLabel le :: (c ++ post)) := by
        rw [hS, ht]; simp
      have hSb : S = (pre ++ [Instr.jumpTo lb, Instr.setLabel lb] ++ bc ++ [Instr.jumpTo lb]) ++ Instr.setLabel le :: (c ++ post) := by
        rw [hS, ht]; simp
      have la : (pre ++ [Instr.jumpTo lb, Instr.setLabel lb] ++ bc).length = pre.length + 2 + bc.length := by simp; omega
      have lb' : (pre ++ [Instr.jumpTo lb, Instr.setLabel lb] ++ bc ++ [Instr.jumpTo lb]).length = pre.length + 2 + bc.length + 1 := by
        simp; omega
      have h1 := getS' hSa
      have h2 := getS' hSb
      have h3 := findLabel_unique S hSb hn
      rw [la] at h1; rw [lb'] at h2 h3
      exact ⟨h1, h2, h3⟩
    have hle : b = true → findLabel S le = some (pre.length + 2 + bc.length + 1) := by
      intro hb
      rcases htail with ht | ⟨_, _, hb'⟩
      · exact (htl ht).2.2
      · rw [hb] at hb'; cases hb'
    have posB : Pos S (some (lb, le, b)) := by
      refine ⟨?_, ?_⟩
      · intro lb' le' b' h; injection h with h; injection h with h1 h2; subst h1
        exact ⟨_, hlb⟩
      · intro lb' le' h; injection h with h; injection h with h1 h2; injection h2 with h2 h3
        subst h2; exact ⟨_, hle h3⟩
    have hSR : S = (pre ++ [Instr.jumpTo lb, Instr.setLabel lb] ++ bc ++ tail) ++ c ++ post := by rw [hS]; simp
    have hlenR : (pre ++ [Instr.jumpTo lb, Instr.setLabel lb] ++ bc ++ tail).length = pre.length + 2 + bc.length + tail.length := by
      simp; omega
    have hneR : effCount (pre ++ [Instr.jumpTo lb, Instr.setLabel lb] ++ bc ++ tail) = n + effCount bc := by
      rw [effCount_append, effCount_append, hneB]
      rcases htail with ht | ⟨ht, _, _⟩ <;> simp [ht, effCount, Instr.isEffect]
    have hexR : exitPos S e ((pre ++ [Instr.jumpTo lb, Instr.setLabel lb] ++ bc ++ tail).length + c.length) ex := by
      have : (pre ++ [Instr.jumpTo lb, Instr.setLabel lb] ++ bc ++ tail).length + c.length =
          pre.length + (Instr.jumpTo lb :: Instr.setLabel lb :: (bc ++ tail ++ c)).length := by simp; omega
      rw [this]; exact hex
    -- entering the loop: jump to the begin label, pass it
    have hentry : ∀ m os tr, runJump S (2 + m) pre.length os tr = runJump S m (pre.length + 2) os tr := by
      intro m os tr
      rw [show 2 + m = (m + 1) + 1 by omega, jstep_jump S hg0 hlb, jstep_label S hg1]
    -- from the begin label into the body
    have hback : ∀ m os tr, runJump S (1 + m) (pre.length + 1) os tr = runJump S m (pre.length + 2) os tr := by
      intro m os tr
      rw [Nat.add_comm, jstep_label S hg1]
    -- every run of the loop item, from the start of the body
    have claim : ∀ f, f < fuel → ∀ os tr,
        Out S K (pre.length + 2) os tr (runOne f (.loop body) os tr) (pre.length + 2 + bc.length + tail.length) := by
      intro f
      induction f with
      | zero => intro _ os tr; rw [runOne_zero]; exact out_noFuel
      | succ f ihf =>
        intro hf os tr
        rw [runOne_loop]
        have hb1 := ih f (by omega) (some (lb, le, b)) n body bc .fall hbody (pre ++ [Instr.jumpTo lb, Instr.setLabel lb])
          (tail ++ c ++ post) ((pre ++ [Instr.jumpTo lb, Instr.setLabel lb]).length + bc.length) hSB hneB posB rfl os tr
        rw [hlenB] at hb1
        have hnn := endsRet_not_normal body f os tr
        generalize runList f body os tr = r1 at hb1 hnn ⊢
        cases hc : r1.ctl with
        | normal =>
          dsimp only
          rcases htail with ht | ⟨_, her, _⟩
          · unfold Out at hb1; rw [hc] at hb1
            obtain ⟨k, hk⟩ := hb1
            obtain ⟨hj, _, _⟩ := htl ht
            refine out_pre k hk (out_pre 2 ?_ (ihf (by omega) r1.outcomes r1.trace))
            intro m
            rw [show 2 + m = (m + 1) + 1 by omega, jstep_jump S hj hlb, jstep_label S hg1]
          · exact absurd hc (hnn her)
        | cont =>
          dsimp only
          unfold Out at hb1; rw [hc] at hb1
          obtain ⟨k, lb', le', b', pb, hK, hpb, hk⟩ := hb1
          injection hK with hK; injection hK with h1 h2; subst h1
          have : pb = pre.length + 1 := findLabel_fun hpb hlb
          subst this
          exact out_pre k hk (out_pre 1 (fun m => hback m _ _) (ihf (by omega) r1.outcomes r1.trace))
        | brk =>
          dsimp only
          unfold Out at hb1; rw [hc] at hb1
          obtain ⟨k, lb', le', pe, hK, hpe, hk⟩ := hb1
          injection hK with hK; injection hK with h1 h2; injection h2 with h2 h3
          subst h1; subst h2
          have hpe' : pe = pre.length + 2 + bc.length + 1 := findLabel_fun hpe (hle h3)
          subst hpe'
          have ht : tail = [Instr.jumpTo lb, Instr.setLabel le] := by
            rcases htail with ht | ⟨_, _, hb'⟩
            · exact ht
            · rw [h3] at hb'; cases hb'
          obtain ⟨_, hl, _⟩ := htl ht
          unfold Out
          refine ⟨k + 1, fun m => ?_⟩
          rw [Nat.add_assoc, hk, Nat.add_comm 1 m, jstep_label S hl, ht]
          rfl
        | returned =>
          dsimp only
          exact out_ex (by rw [hc]; simp) (out_K (by rw [hc]; simp) (by rw [hc]; simp) hb1)
        | noOutcome =>
          dsimp only
          exact out_ex (by rw [hc]; simp) (out_K (by rw [hc]; simp) (by rw [hc]; simp) hb1)
        | noFuel =>
          dsimp only
          exact out_ex (by rw [hc]; simp) (out_K (by rw [hc]; simp) (by rw [hc]; simp) hb1)
    cases fuel with
    | zero => rw [runList_zero]; exact out_noFuel
    | succ f =>
      rw [runList_cons]
      refine out_seq (out_pre 2 (fun m => hentry m os tr) (claim f (by omega) os tr)) ?_
      intro _
      have := ih f (by omega) K (n + effCount bc) rest c e hrest (pre ++ [Instr.jumpTo lb, Instr.setLabel lb] ++ bc ++ tail) post ex
        hSR hneR hpos hexR (runOne f (.loop body) os tr).outcomes (runOne f (.loop body) os tr).trace
      rw [hlenR] at this
      exact this
  | @iteOwn K n tb rest tc c e br lBegin lEnd hbr hnr hne' htb hrest _ _ =>
    intro pre post ex hS hne hpos hex os tr
    have hg0 : S[pre.length]? = some br := getS hS
    have hSb : S = (pre ++ [br]) ++ Instr.setLabel lBegin :: (tc ++ Instr.setLabel lEnd :: c ++ post) := by rw [hS]; simp
    have l1 : (pre ++ [br]).length = pre.length + 1 := by simp
    have hg1 : S[pre.length + 1]? = some (Instr.setLabel lBegin) := by have h := getS' hSb; rw [l1] at h; exact h
    have hlB : findLabel S lBegin = some (pre.length + 1) := by have h := findLabel_unique S hSb hn; rw [l1] at h; exact h
    have hSe : S = (pre ++ [br, Instr.setLabel lBegin] ++ tc) ++ Instr.setLabel lEnd :: (c ++ post) := by rw [hS]; simp
    have l2 : (pre ++ [br, Instr.setLabel lBegin] ++ tc).length = pre.length + 2 + tc.length := by simp; omega
    have hgE : S[pre.length + 2 + tc.length]? = some (Instr.setLabel lEnd) := by have h := getS' hSe; rw [l2] at h; exact h
    have hlE : findLabel S lEnd = some (pre.length + 2 + tc.length) := by have h := findLabel_unique S hSe hn; rw [l2] at h; exact h
    have hST : S = (pre ++ [br, Instr.setLabel lBegin]) ++ tc ++ (Instr.setLabel lEnd :: c ++ post) := by rw [hS]; simp
    have l3 : (pre ++ [br, Instr.setLabel lBegin]).length = pre.length + 2 := by simp
    have hneT : effCount (pre ++ [br, Instr.setLabel lBegin]) = n := by
      rw [effCount_append, hne, effCount_cons, effCount_cons, hne']; simp [effCount, Instr.isEffect]
    have hSR : S = (pre ++ [br, Instr.setLabel lBegin] ++ tc ++ [Instr.setLabel lEnd]) ++ c ++ post := by rw [hS]; simp
    have l4 : (pre ++ [br, Instr.setLabel lBegin] ++ tc ++ [Instr.setLabel lEnd]).length = pre.length + 2 + tc.length + 1 := by simp; omega
    have hneR : effCount (pre ++ [br, Instr.setLabel lBegin] ++ tc ++ [Instr.setLabel lEnd]) = n + effCount tc := by
      rw [effCount_append, effCount_append, hneT]; simp [effCount, Instr.isEffect]
    have hexR : exitPos S e ((pre ++ [br, Instr.setLabel lBegin] ++ tc ++ [Instr.setLabel lEnd]).length + c.length) ex := by
      have : (pre ++ [br, Instr.setLabel lBegin] ++ tc ++ [Instr.setLabel lEnd]).length + c.length =
          pre.length + (br :: Instr.setLabel lBegin :: (tc ++ Instr.setLabel lEnd :: c)).length := by simp; omega
      rw [this]; exact hex
    have jE : ∀ m os' tr', runJump S (1 + m) (pre.length + 2 + tc.length) os' tr' = runJump S m (pre.length + 2 + tc.length + 1) os' tr' := by
      intro m os' tr'; rw [Nat.add_comm, jstep_label S hgE]
    have item := out_ite (S := S) (K := K) (pc0 := pre.length) (pT := pre.length + 2) (pF := pre.length + 2 + tc.length + 1)
      (exI := pre.length + 2 + tc.length + 1) (tb := tb) (eb := []) 2 fuel
      (fun m tr' => by rw [Nat.add_comm]; exact jstep_branch_nil S hg0 hbr m tr')
      (fun m os' tr' => by
        rw [show 2 + m = (m + 1) + 1 by omega, jstep_branch S hg0 hbr true (by simpa using hlB), jstep_label S hg1])
      (fun m os' tr' => by
        rw [show 2 + m = (m + 1) + 1 by omega, jstep_branch S hg0 hbr false (by simpa using hlE), jstep_label S hgE])
      (fun f hf os' tr' => by
        have := ih f hf K n tb tc (.jump lEnd) htb (pre ++ [br, Instr.setLabel lBegin]) (Instr.setLabel lEnd :: c ++ post)
          (pre.length + 2 + tc.length) hST hneT hpos hlE os' tr'
        rw [l3] at this
        exact out_post 1 jE this)
      (fun f _ os' tr' => out_nil_at f os' tr')
    cases fuel with
    | zero => rw [runList_zero]; exact out_noFuel
    | succ f =>
      rw [runList_cons]
      refine out_seq (item f (by omega) os tr) ?_
      intro _
      have := ih f (by omega) K (n + effCount tc) rest c e hrest (pre ++ [br, Instr.setLabel lBegin] ++ tc ++ [Instr.setLabel lEnd]) post ex
        hSR hneR hpos hexR (runOne f (.ite tb []) os tr).outcomes (runOne f (.ite tb []) os tr).trace
      rw [l4] at this
      exact this
  | @iteElseOwn K n tb eb rest tc ec c e br lBegin lElse lEnd hbr hnr hne' htb heb hrest _ _ _ =>
    intro pre post ex hS hne hpos hex os tr
    have hg0 : S[pre.length]? = some br := getS hS
    have hSb : S = (pre ++ [br]) ++ Instr.setLabel lBegin :: (tc ++ Instr.setLabel lElse :: (ec ++ Instr.setLabel lEnd :: c) ++ post) := by
      rw [hS]; simp
    have l1 : (pre ++ [br]).length = pre.length + 1 := by simp
    have hg1 : S[pre.length + 1]? = some (Instr.setLabel lBegin) := by have h := getS' hSb; rw [l1] at h; exact h
    have hlB : findLabel S lBegin = some (pre.length + 1) := by have h := findLabel_unique S hSb hn; rw [l1] at h; exact h
    have hSl : S = (pre ++ [br, Instr.setLabel lBegin] ++ tc) ++ Instr.setLabel lElse :: (ec ++ Instr.setLabel lEnd :: c ++ post) := by
      rw [hS]; simp
    have l2 : (pre ++ [br, Instr.setLabel lBegin] ++ tc).length = pre.length + 2 + tc.length := by simp; omega
    have hgL : S[pre.length + 2 + tc.length]? = some (Instr.setLabel lElse) := by have h := getS' hSl; rw [l2] at h; exact h
    have hlL : findLabel S lElse = some (pre.length + 2 + tc.length) := by have h := findLabel_unique S hSl hn; rw [l2] at h; exact h
    have hSe : S = (pre ++ [br, Instr.setLabel lBegin] ++ tc ++ [Instr.setLabel lElse] ++ ec) ++ Instr.setLabel lEnd :: (c ++ post) := by
      rw [hS]; simp
    have l5 : (pre ++ [br, Instr.setLabel lBegin] ++ tc ++ [Instr.setLabel lElse] ++ ec).length = pre.length + 2 + tc.length + 1 + ec.length := by
      simp; omega
    have hgE : S[pre.length + 2 + tc.length + 1 + ec.length]? = some (Instr.setLabel lEnd) := by have h := getS' hSe; rw [l5] at h; exact h
    have hlE : findLabel S lEnd = some (pre.length + 2 + tc.length + 1 + ec.length) := by
      have h := findLabel_unique S hSe hn; rw [l5] at h; exact h
    have hST : S = (pre ++ [br, Instr.setLabel lBegin]) ++ tc ++ (Instr.setLabel lElse :: (ec ++ Instr.setLabel lEnd :: c) ++ post) := by
      rw [hS]; simp
    have l3 : (pre ++ [br, Instr.setLabel lBegin]).length = pre.length + 2 := by simp
    have hneT : effCount (pre ++ [br, Instr.setLabel lBegin]) = n := by
      rw [effCount_append, hne, effCount_cons, effCount_cons, hne']; simp [effCount, Instr.isEffect]
    have hSE : S = (pre ++ [br, Instr.setLabel lBegin] ++ tc ++ [Instr.setLabel lElse]) ++ ec ++ (Instr.setLabel lEnd :: c ++ post) := by
      rw [hS]; simp
    have l6 : (pre ++ [br, Instr.setLabel lBegin] ++ tc ++ [Instr.setLabel lElse]).length = pre.length + 2 + tc.length + 1 := by simp; omega
    have hneE : effCount (pre ++ [br, Instr.setLabel lBegin] ++ tc ++ [Instr.setLabel lElse]) = n + effCount tc := by
      rw [effCount_append, effCount_append, hneT]; simp [effCount, Instr.isEffect]
    have hSR : S = (pre ++ [br, Instr.setLabel lBegin] ++ tc ++ [Instr.setLabel lElse] ++ ec ++ [Instr.setLabel lEnd]) ++ c ++ post := by
      rw [hS]; simp
    have l4 : (pre ++ [br, Instr.setLabel lBegin] ++ tc ++ [Instr.setLabel lElse] ++ ec ++ [Instr.setLabel lEnd]).length =
        pre.length + 2 + tc.length + 1 + ec.length + 1 := by simp; omega
    have hneR : effCount (pre ++ [br, Instr.setLabel lBegin] ++ tc ++ [Instr.setLabel lElse] ++ ec ++ [Instr.setLabel lEnd]) =
        n + effCount tc + effCount ec := by
      rw [effCount_append, effCount_append, hneE]; simp [effCount, Instr.isEffect]
    have hexR : exitPos S e ((pre ++ [br, Instr.setLabel lBegin] ++ tc ++ [Instr.setLabel lElse] ++ ec ++ [Instr.setLabel lEnd]).length + c.length) ex := by
      have : (pre ++ [br, Instr.setLabel lBegin] ++ tc ++ [Instr.setLabel lElse] ++ ec ++ [Instr.setLabel lEnd]).length + c.length =
          pre.length + (br :: Instr.setLabel lBegin :: (tc ++ Instr.setLabel lElse :: (ec ++ Instr.setLabel lEnd :: c))).length := by
        simp; omega
      rw [this]; exact hex
    have jE : ∀ m os' tr', runJump S (1 + m) (pre.length + 2 + tc.length + 1 + ec.length) os' tr' =
        runJump S m (pre.length + 2 + tc.length + 1 + ec.length + 1) os' tr' := by
      intro m os' tr'; rw [Nat.add_comm, jstep_label S hgE]
    have item := out_ite (S := S) (K := K) (pc0 := pre.length) (pT := pre.length + 2) (pF := pre.length + 2 + tc.length + 1)
      (exI := pre.length + 2 + tc.length + 1 + ec.length + 1) (tb := tb) (eb := eb) 2 fuel
      (fun m tr' => by rw [Nat.add_comm]; exact jstep_branch_nil S hg0 hbr m tr')
      (fun m os' tr' => by
        rw [show 2 + m = (m + 1) + 1 by omega, jstep_branch S hg0 hbr true (by simpa using hlB), jstep_label S hg1])
      (fun m os' tr' => by
        rw [show 2 + m = (m + 1) + 1 by omega, jstep_branch S hg0 hbr false (by simpa using hlL), jstep_label S hgL])
      (fun f hf os' tr' => by
        have := ih f hf K n tb tc (.jump lEnd) htb (pre ++ [br, Instr.setLabel lBegin])
          (Instr.setLabel lElse :: (ec ++ Instr.setLabel lEnd :: c) ++ post)
          (pre.length + 2 + tc.length + 1 + ec.length) hST hneT hpos hlE os' tr'
        rw [l3] at this
        exact out_post 1 jE this)
      (fun f hf os' tr' => by
        have := ih f hf K (n + effCount tc) eb ec (.jump lEnd) heb (pre ++ [br, Instr.setLabel lBegin] ++ tc ++ [Instr.setLabel lElse])
          (Instr.setLabel lEnd :: c ++ post) (pre.length + 2 + tc.length + 1 + ec.length) hSE hneE hpos hlE os' tr'
        rw [l6] at this
        exact out_post 1 jE this)
    cases fuel with
    | zero => rw [runList_zero]; exact out_noFuel
    | succ f =>
      rw [runList_cons]
      refine out_seq (item f (by omega) os tr) ?_
      intro _
      have := ih f (by omega) K (n + effCount tc + effCount ec) rest c e hrest
        (pre ++ [br, Instr.setLabel lBegin] ++ tc ++ [Instr.setLabel lElse] ++ ec ++ [Instr.setLabel lEnd]) post ex
        hSR hneR hpos hexR (runOne f (.ite tb eb) os tr).outcomes (runOne f (.ite tb eb) os tr).trace
      rw [l4] at this
      exact this
  | @itePass K n tb tc br lBegin lEnd hbr hnr hne' htb _ =>
    intro pre post ex hS hne hpos hex os tr
    have hlE : findLabel S lEnd = some ex := hex
    have hg0 : S[pre.length]? = some br := getS hS
    have hSb : S = (pre ++ [br]) ++ Instr.setLabel lBegin :: (tc ++ post) := by rw [hS]; simp
    have l1 : (pre ++ [br]).length = pre.length + 1 := by simp
    have hg1 : S[pre.length + 1]? = some (Instr.setLabel lBegin) := by have h := getS' hSb; rw [l1] at h; exact h
    have hlB : findLabel S lBegin = some (pre.length + 1) := by have h := findLabel_unique S hSb hn; rw [l1] at h; exact h
    have hST : S = (pre ++ [br, Instr.setLabel lBegin]) ++ tc ++ post := by rw [hS]; simp
    have l3 : (pre ++ [br, Instr.setLabel lBegin]).length = pre.length + 2 := by simp
    have hneT : effCount (pre ++ [br, Instr.setLabel lBegin]) = n := by
      rw [effCount_append, hne, effCount_cons, effCount_cons, hne']; simp [effCount, Instr.isEffect]
    have item := out_ite (S := S) (K := K) (pc0 := pre.length) (pT := pre.length + 2) (pF := ex)
      (exI := ex) (tb := tb) (eb := []) 1 fuel
      (fun m tr' => by rw [Nat.add_comm]; exact jstep_branch_nil S hg0 hbr m tr')
      (fun m os' tr' => by
        rw [show 2 + m = (m + 1) + 1 by omega, jstep_branch S hg0 hbr true (by simpa using hlB), jstep_label S hg1])
      (fun m os' tr' => by
        rw [Nat.add_comm, jstep_branch S hg0 hbr false (by simpa using hlE)])
      (fun f hf os' tr' => by
        have := ih f hf K n tb tc (.jump lEnd) htb (pre ++ [br, Instr.setLabel lBegin]) post ex hST hneT hpos hlE os' tr'
        rw [l3] at this
        exact this)
      (fun f _ os' tr' => out_nil_at f os' tr')
    cases fuel with
    | zero => rw [runList_zero]; exact out_noFuel
    | succ f =>
      rw [runList_cons]
      exact out_seq (item f (by omega) os tr) (fun _ => out_nil_at f _ _)
  | @iteElsePass K n tb eb tc ec br lBegin lElse lEnd hbr hnr hne' htb heb _ _ =>
    intro pre post ex hS hne hpos hex os tr
    have hlE : findLabel S lEnd = some ex := hex
    have hg0 : S[pre.length]? = some br := getS hS
    have hSb : S = (pre ++ [br]) ++ Instr.setLabel lBegin :: (tc ++ Instr.setLabel lElse :: ec ++ post) := by rw [hS]; simp
    have l1 : (pre ++ [br]).length = pre.length + 1 := by simp
    have hg1 : S[pre.length + 1]? = some (Instr.setLabel lBegin) := by have h := getS' hSb; rw [l1] at h; exact h
    have hlB : findLabel S lBegin = some (pre.length + 1) := by have h := findLabel_unique S hSb hn; rw [l1] at h; exact h
    have hSl : S = (pre ++ [br, Instr.setLabel lBegin] ++ tc) ++ Instr.setLabel lElse :: (ec ++ post) := by rw [hS]; simp
    have l2 : (pre ++ [br, Instr.setLabel lBegin] ++ tc).length = pre.length + 2 + tc.length := by simp; omega
    have hgL : S[pre.length + 2 + tc.length]? = some (Instr.setLabel lElse) := by have h := getS' hSl; rw [l2] at h; exact h
    have hlL : findLabel S lElse = some (pre.length + 2 + tc.length) := by have h := findLabel_unique S hSl hn; rw [l2] at h; exact h
    have hST : S = (pre ++ [br, Instr.setLabel lBegin]) ++ tc ++ (Instr.setLabel lElse :: ec ++ post) := by rw [hS]; simp
    have l3 : (pre ++ [br, Instr.setLabel lBegin]).length = pre.length + 2 := by simp
    have hneT : effCount (pre ++ [br, Instr.setLabel lBegin]) = n := by
      rw [effCount_append, hne, effCount_cons, effCount_cons, hne']; simp [effCount, Instr.isEffect]
    have hSE : S = (pre ++ [br, Instr.setLabel lBegin] ++ tc ++ [Instr.setLabel lElse]) ++ ec ++ post := by rw [hS]; simp
    have l6 : (pre ++ [br, Instr.setLabel lBegin] ++ tc ++ [Instr.setLabel lElse]).length = pre.length + 2 + tc.length + 1 := by simp; omega
    have hneE : effCount (pre ++ [br, Instr.setLabel lBegin] ++ tc ++ [Instr.setLabel lElse]) = n + effCount tc := by
      rw [effCount_append, effCount_append, hneT]; simp [effCount, Instr.isEffect]
    have item := out_ite (S := S) (K := K) (pc0 := pre.length) (pT := pre.length + 2) (pF := pre.length + 2 + tc.length + 1)
      (exI := ex) (tb := tb) (eb := eb) 2 fuel
      (fun m tr' => by rw [Nat.add_comm]; exact jstep_branch_nil S hg0 hbr m tr')
      (fun m os' tr' => by
        rw [show 2 + m = (m + 1) + 1 by omega, jstep_branch S hg0 hbr true (by simpa using hlB), jstep_label S hg1])
      (fun m os' tr' => by
        rw [show 2 + m = (m + 1) + 1 by omega, jstep_branch S hg0 hbr false (by simpa using hlL), jstep_label S hgL])
      (fun f hf os' tr' => by
        have := ih f hf K n tb tc (.jump lEnd) htb (pre ++ [br, Instr.setLabel lBegin]) (Instr.setLabel lElse :: ec ++ post) ex
          hST hneT hpos hlE os' tr'
        rw [l3] at this
        exact this)
      (fun f hf os' tr' => by
        have := ih f hf K (n + effCount tc) eb ec (.jump lEnd) heb (pre ++ [br, Instr.setLabel lBegin] ++ tc ++ [Instr.setLabel lElse])
          post ex hSE hneE hpos hlE os' tr'
        rw [l6] at this
        exact this)
    cases fuel with
    | zero => rw [runList_zero]; exact out_noFuel
    | succ f =>
      rw [runList_cons]
      exact out_seq (item f (by omega) os tr) (fun _ => out_nil_at f _ _)

theorem sim (S : List Instr) (hn : (setLabels S).Nodup) : ∀ fuel, SimAll S fuel := by
  intro fuel
  induction fuel using Nat.strongRecOn with
  | _ fuel ih => exact sim_step S hn fuel ih

/-! ### Fuel monotonicity of the jump program -/

/-- a finished run is not changed by more fuel; an unfinished one only extends its trace -/
theorem jfuel_succ (S : List Instr) : ∀ (a pc : Nat) (os : List Bool) (tr : List Nat),
    ((runJump S a pc os tr).1 ≠ .noFuel → runJump S (a + 1) pc os tr = runJump S a pc os tr) ∧
    (runJump S a pc os tr).2 <+: (runJump S (a + 1) pc os tr).2
  | 0, pc, os, tr => by
    refine ⟨fun h => ?_, ?_⟩
    · exfalso; apply h; unfold runJump; rfl
    · conv => lhs; unfold runJump
      exact jtrace_ext S 1 pc os tr
  | a + 1, pc, os, tr => by
    have ih := fun pc' os' tr' => jfuel_succ S a pc' os' tr'
    conv => lhs; unfold runJump
    conv => rhs; lhs; unfold runJump
    conv => rhs; rhs; rw [runJump]
    conv => lhs; rhs; rw [runJump]
    cases hg : S[pc]? with
    | none => exact ⟨fun _ => rfl, List.prefix_refl _⟩
    | some i =>
      dsimp only
      cases i with
      | jumpTo l =>
        dsimp only
        cases findLabel S l with
        | none => exact ⟨fun _ => rfl, List.prefix_refl _⟩
        | some t => exact ih t os tr
      | ifCondExpr x b e =>
        dsimp only
        cases os with
        | nil => exact ⟨fun _ => rfl, List.prefix_refl _⟩
        | cons o os =>
          dsimp only
          cases findLabel S (if o then b else e) with
          | none => exact ⟨fun _ => rfl, List.prefix_refl _⟩
          | some t => exact ih t os tr
      | ifCondLogic b e r =>
        dsimp only
        cases os with
        | nil => exact ⟨fun _ => rfl, List.prefix_refl _⟩
        | cons o os =>
          dsimp only
          cases findLabel S (if o then b else e) with
          | none => exact ⟨fun _ => rfl, List.prefix_refl _⟩
          | some t => exact ih t os tr
      | fnReturn x => exact ⟨fun _ => rfl, List.prefix_refl _⟩
      | fnReturnWithLabel x => exact ⟨fun _ => rfl, List.prefix_refl _⟩
      | jumpFnReturn x => exact ⟨fun _ => rfl, List.prefix_refl _⟩
      | _ => exact ih _ _ _

theorem jfuel_le (S : List Instr) (pc : Nat) (os : List Bool) (tr : List Nat) (a : Nat) : ∀ d,
    ((runJump S a pc os tr).1 ≠ .noFuel → runJump S (a + d) pc os tr = runJump S a pc os tr) ∧
    (runJump S a pc os tr).2 <+: (runJump S (a + d) pc os tr).2
  | 0 => ⟨fun _ => rfl, List.prefix_refl _⟩
  | d + 1 => by
    obtain ⟨h1, h2⟩ := jfuel_le S pc os tr a d
    obtain ⟨h3, h4⟩ := jfuel_succ S (a + d) pc os tr
    refine ⟨fun h => ?_, h2.trans h4⟩
    have e := h1 h
    rw [← Nat.add_assoc, h3 (by rw [e]; exact h), e]

/-! ### Agreement for a laid-out function -/

theorem isPrefixOrEq_of_left {a b : List Nat} (h : a <+: b) : isPrefixOrEq a b = true := by
  unfold isPrefixOrEq; rw [Bool.or_eq_true]; left; exact List.isPrefixOf_iff_prefix.mpr h
theorem isPrefixOrEq_of_right {a b : List Nat} (h : b <+: a) : isPrefixOrEq a b = true := by
  unfold isPrefixOrEq; rw [Bool.or_eq_true]; right; exact List.isPrefixOf_iff_prefix.mpr h

/-- two traces of the jump program from the same configuration are comparable -/
theorem jtraces_comparable (S : List Instr) (pc : Nat) (os : List Bool) (tr : List Nat) (a b : Nat) :
    (runJump S a pc os tr).2 <+: (runJump S b pc os tr).2 ∨ (runJump S b pc os tr).2 <+: (runJump S a pc os tr).2 := by
  rcases Nat.le_total a b with h | h
  · obtain ⟨d, rfl⟩ := Nat.exists_eq_add_of_le h
    exact Or.inl (jfuel_le S pc os tr a d).2
  · obtain ⟨d, rfl⟩ := Nat.exists_eq_add_of_le h
    exact Or.inr (jfuel_le S pc os tr b d).2

/-- if the jump program ends in `(je, T)` for every fuel from `k` on, then at any fuel it has either
ended that way or is out of fuel with a prefix of `T` -/
theorem jend_or_prefix (S : List Instr) (pc : Nat) (os : List Bool) (tr : List Nat) (k : Nat) (je : JEnd) (T : List Nat)
    (hk : ∀ m, runJump S (k + m) pc os tr = (je, T)) (fuel : Nat) :
    runJump S fuel pc os tr = (je, T) ∨ ((runJump S fuel pc os tr).1 = .noFuel ∧ (runJump S fuel pc os tr).2 <+: T) := by
  rcases Nat.le_total k fuel with h | h
  · obtain ⟨d, rfl⟩ := Nat.exists_eq_add_of_le h
    exact Or.inl (hk d)
  · obtain ⟨d, hd⟩ := Nat.exists_eq_add_of_le h
    obtain ⟨h1, h2⟩ := jfuel_le S pc os tr fuel d
    have hkk : runJump S (fuel + d) pc os tr = (je, T) := by rw [← hd]; simpa using hk 0
    by_cases hnf : (runJump S fuel pc os tr).1 = .noFuel
    · right; rw [hkk] at h2; exact ⟨hnf, h2⟩
    · left; rw [← h1 hnf]; exact hkk

/-- **agreement** — for a stack that is the layout of a flow ending in a return, with pairwise
distinct set labels and a well-formed jump program: the structured run and the jump program agree,
for every outcome sequence and every fuel -/
theorem lay_agree (S : List Instr) (flows : List Flow) (hl : Lay none 0 flows S .fall) (hn : (setLabels S).Nodup)
    (hend : endsRet flows = true)
    (hwf : ∀ fuel os, (runJump S fuel 0 os []).1 ≠ .badLabel ∧ (runJump S fuel 0 os []).1 ≠ .fellOff)
    (outcomes : List Bool) (fuel : Nat) : agree flows S outcomes fuel = none := by
  have hsim := sim S hn fuel none 0 flows S .fall hl [] [] S.length (by simp) rfl
    (Pos.mk (fun _ _ _ h => by cases h) (fun _ _ h => by cases h)) (by simp [exitPos]) outcomes []
  have hnn := endsRet_not_normal flows fuel outcomes [] hend
  obtain ⟨hb, hf⟩ := hwf fuel outcomes
  unfold agree
  dsimp only
  simp only [List.length_nil] at hsim
  generalize runList fuel flows outcomes [] = s at hsim hnn
  generalize hj : runJump S fuel 0 outcomes [] = j at hb hf
  obtain ⟨je, jt⟩ := j
  dsimp only at hb hf ⊢
  have hbb : (je == JEnd.badLabel) = false := by cases je <;> simp at hb ⊢
  have hff : (je == JEnd.fellOff) = false := by cases je <;> simp at hf ⊢
  rw [hbb, hff]
  simp only [Bool.false_eq_true, if_false]
  unfold Out at hsim
  cases hc : s.ctl with
  | normal => exact absurd hc hnn
  | brk => rw [hc] at hsim; obtain ⟨_, _, _, _, h, _⟩ := hsim; cases h
  | cont => rw [hc] at hsim; obtain ⟨_, _, _, _, _, h, _⟩ := hsim; cases h
  | returned =>
    rw [hc] at hsim
    obtain ⟨k, hk⟩ := hsim
    rcases jend_or_prefix S 0 outcomes [] k .returned s.trace hk fuel with h | ⟨h1, h2⟩
    · rw [hj] at h; injection h with h1 h2; subst h1; subst h2; simp
    · rw [hj] at h1 h2; dsimp only at h1 h2; subst h1
      simp [isPrefixOrEq_of_right h2]
  | noOutcome =>
    rw [hc] at hsim
    obtain ⟨k, hk⟩ := hsim
    rcases jend_or_prefix S 0 outcomes [] k .noOutcome s.trace hk fuel with h | ⟨h1, h2⟩
    · rw [hj] at h; injection h with h1 h2; subst h1; subst h2; simp
    · rw [hj] at h1 h2; dsimp only at h1 h2; subst h1
      simp [isPrefixOrEq_of_right h2]
  | noFuel =>
    rw [hc] at hsim
    obtain ⟨a, ha⟩ := hsim
    have hcmp : isPrefixOrEq s.trace jt = true := by
      rcases jtraces_comparable S 0 outcomes [] a fuel with h | h
      · rw [hj] at h; exact isPrefixOrEq_of_left (ha.trans h)
      · rw [hj] at h
        rcases List.prefix_or_prefix_of_prefix ha h with h' | h'
        · exact isPrefixOrEq_of_left h'
        · exact isPrefixOrEq_of_right h'
    cases je <;> simp [hcmp] at hb hf ⊢

end SemVerif
