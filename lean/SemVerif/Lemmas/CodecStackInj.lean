import SemVerif.Spec.CodecStack
import SemVerif.Lemmas.CodecInj
/-!
# Lemmas/CodecStackInj — the JSON data model of instruction stacks is injective (C20)
-/
namespace SemVerif

theorem ofList_inj {a b : Name} : String.ofList a = String.ofList b ↔ a = b := by
  constructor
  · intro h
    have := congrArg String.toList h
    simpa using this
  · rintro rfl; rfl

mutual
theorem encTy_inj : ∀ (a b : Ty), encTy a = encTy b → a = b
  | .prim p, .prim q, h => by
    simp [encTy, tag1_inj, tag0_inj] at h
    rw [primTy_variant_inj h]
  | .prim p, .struct n as, h => by simp [encTy, tag1_inj] at h
  | .prim p, .array t n, h => by simp [encTy, tag1_inj] at h
  | .struct n as, .prim p, h => by simp [encTy, tag1_inj] at h
  | .struct n as, .struct m bs, h => by
    simp [encTy, tag1_inj] at h
    rw [h.1, encAttrMap_inj as bs h.2]
  | .struct n as, .array t k, h => by simp [encTy, tag1_inj] at h
  | .array t n, .prim p, h => by simp [encTy, tag1_inj] at h
  | .array t n, .struct m bs, h => by simp [encTy, tag1_inj] at h
  | .array t n, .array u k, h => by
    simp [encTy, tag1_inj] at h
    rw [encTy_inj t u h.1, Int.ofNat_inj.mp h.2]
theorem encAttrMap_inj : ∀ (a b : Attrs), encAttrMap a = encAttrMap b → a = b
  | .nil, .nil, _ => rfl
  | .nil, .cons n i t r, h => by simp [encAttrMap] at h
  | .cons n i t r, .nil, h => by simp [encAttrMap] at h
  | .cons n i t r, .cons n' i' t' r', h => by
    simp [encAttrMap] at h
    rw [h.1.2.1, Int.ofNat_inj.mp h.1.2.2.1, encTy_inj t t' h.1.2.2.2, encAttrMap_inj r r' h.2]
end

@[simp] theorem encTy_iff {a b : Ty} : encTy a = encTy b ↔ a = b := ⟨encTy_inj a b, fun h => h ▸ rfl⟩
@[simp] theorem encAttrMap_iff {a b : Attrs} : encAttrMap a = encAttrMap b ↔ a = b := ⟨encAttrMap_inj a b, fun h => h ▸ rfl⟩
@[simp] theorem encPrimVal_iff {a b : PrimVal} : encPrimVal a = encPrimVal b ↔ a = b := ⟨encPrimVal_inj a b, fun h => h ▸ rfl⟩

@[simp] theorem encValue_iff {a b : Value} : encValue a = encValue b ↔ a = b := by
  constructor
  · intro h
    obtain ⟨n, t, m, al, ml⟩ := a
    obtain ⟨n', t', m', al', ml'⟩ := b
    simp [encValue] at h
    simp [h]
  · rintro rfl; rfl

@[simp] theorem encRVal_iff {a b : RVal} : encRVal a = encRVal b ↔ a = b := by
  constructor
  · intro h
    cases a <;> cases b <;> simp [encRVal, tag1_inj] at h ⊢ <;> first | exact h | omega
  · rintro rfl; rfl

@[simp] theorem encRes_iff {a b : ExprResult} : encRes a = encRes b ↔ a = b := by
  constructor
  · intro h
    obtain ⟨t, v⟩ := a
    obtain ⟨t', v'⟩ := b
    simp [encRes] at h
    simp [h]
  · rintro rfl; rfl

theorem encResL_inj : ∀ (a b : List ExprResult), encResL a = encResL b → a = b
  | [], [], _ => rfl
  | [], _ :: _, h => by simp [encResL] at h
  | _ :: _, [], h => by simp [encResL] at h
  | x :: xs, y :: ys, h => by
    simp [encResL] at h
    rw [h.1, encResL_inj xs ys h.2]
@[simp] theorem encResL_iff {a b : List ExprResult} : encResL a = encResL b ↔ a = b := ⟨encResL_inj a b, fun h => h ▸ rfl⟩

theorem encTyL_inj : ∀ (a b : List Ty), encTyL a = encTyL b → a = b
  | [], [], _ => rfl
  | [], _ :: _, h => by simp [encTyL] at h
  | _ :: _, [], h => by simp [encTyL] at h
  | x :: xs, y :: ys, h => by
    simp [encTyL] at h
    rw [h.1, encTyL_inj xs ys h.2]
@[simp] theorem encTyL_iff {a b : List Ty} : encTyL a = encTyL b ↔ a = b := ⟨encTyL_inj a b, fun h => h ▸ rfl⟩

@[simp] theorem encFunc_iff {a b : Func} : encFunc a = encFunc b ↔ a = b := by
  constructor
  · intro h
    obtain ⟨n, t, ps⟩ := a
    obtain ⟨n', t', ps'⟩ := b
    simp [encFunc] at h
    simp [h]
  · rintro rfl; rfl

@[simp] theorem encCValSem_iff {a b : CVal} : encCValSem a = encCValSem b ↔ a = b := by
  constructor
  · intro h
    cases a <;> cases b <;> simp [encCValSem, tag1_inj] at h ⊢ <;> exact h
  · rintro rfl; rfl

theorem encCExprSem_inj : ∀ (a b : CExpr), encCExprSem a = encCExprSem b → a = b
  | .last v, .last w, h => by simp [encCExprSem] at h; rw [h]
  | .last v, .cons w o r, h => by simp [encCExprSem] at h
  | .cons v o r, .last w, h => by simp [encCExprSem] at h
  | .cons v o r, .cons w o' r', h => by
    simp [encCExprSem, tag0_inj] at h
    rw [h.1, op_variant_inj h.2.1, encCExprSem_inj r r' h.2.2]
@[simp] theorem encCExprSem_iff {a b : CExpr} : encCExprSem a = encCExprSem b ↔ a = b := ⟨encCExprSem_inj a b, fun h => h ▸ rfl⟩

@[simp] theorem encConstSem_iff {a b : ConstSem} : encConstSem a = encConstSem b ↔ a = b := by
  constructor
  · intro h
    obtain ⟨n, t, v⟩ := a
    obtain ⟨n', t', v'⟩ := b
    simp [encConstSem] at h
    simp [h]
  · rintro rfl; rfl

@[simp] theorem encFuncParam_iff {a b : FuncParam} : encFuncParam a = encFuncParam b ↔ a = b := by
  constructor
  · intro h
    obtain ⟨n, t⟩ := a
    obtain ⟨n', t'⟩ := b
    simp [encFuncParam] at h
    simp [h]
  · rintro rfl; rfl

theorem encFuncParamL_inj : ∀ (a b : List FuncParam), encFuncParamL a = encFuncParamL b → a = b
  | [], [], _ => rfl
  | [], _ :: _, h => by simp [encFuncParamL] at h
  | _ :: _, [], h => by simp [encFuncParamL] at h
  | x :: xs, y :: ys, h => by
    simp [encFuncParamL] at h
    rw [h.1, encFuncParamL_inj xs ys h.2]
@[simp] theorem encFuncParamL_iff {a b : List FuncParam} : encFuncParamL a = encFuncParamL b ↔ a = b :=
  ⟨encFuncParamL_inj a b, fun h => h ▸ rfl⟩

theorem extTyCodeN_inj : ∀ {a b : PrimTy}, encInstr.extTyCodeN a = encInstr.extTyCodeN b → a = b := by
  intro a b h
  cases a <;> cases b <;> first | rfl | (exfalso; revert h; unfold encInstr.extTyCodeN; decide)

theorem variant_iffs :
    (∀ {a b : Op}, a.variant = b.variant ↔ a = b) ∧ (∀ {a b : Cond}, a.variant = b.variant ↔ a = b) ∧
    (∀ {a b : Logic}, a.variant = b.variant ↔ a = b) :=
  ⟨⟨op_variant_inj, fun h => h ▸ rfl⟩, ⟨cond_variant_inj, fun h => h ▸ rfl⟩, ⟨logic_variant_inj, fun h => h ▸ rfl⟩⟩

theorem encInstr_inj (a b : Instr) (h : encInstr a = encInstr b) : a = b := by
  cases a <;> cases b <;>
    simp [encInstr, tag1_inj, tag0_inj, variant_iffs.1, variant_iffs.2.1, variant_iffs.2.2] at h ⊢ <;>
    first
      | exact h
      | omega
      | (refine ⟨?_, ?_⟩ <;> first | exact h.1 | exact h.2 | omega)
      | (exact ⟨h.1, h.2.1, by omega⟩)
      | (exact ⟨h.1, by omega, by omega⟩)
      | (exact ⟨h.1, h.2.1, h.2.2.1, by omega⟩)
      | (exact ⟨h.1, by omega, by omega, by omega⟩)
      | (exact ⟨h.1, h.2.1, by omega⟩)
      | (exact ⟨by omega, extTyCodeN_inj (by omega), by omega⟩)

theorem encInstrL_inj : ∀ (a b : List Instr), encInstrL a = encInstrL b → a = b
  | [], [], _ => rfl
  | [], _ :: _, h => by simp [encInstrL] at h
  | _ :: _, [], h => by simp [encInstrL] at h
  | x :: xs, y :: ys, h => by
    simp [encInstrL] at h
    rw [encInstr_inj x y h.1, encInstrL_inj xs ys h.2]

/-- **the data model of a serialised instruction stack is injective** -/
theorem encStack_inj (a b : List Instr) (h : encStack a = encStack b) : a = b := by
  unfold encStack at h
  injection h with h
  exact encInstrL_inj a b h

end SemVerif
