import SemVerif.Lemmas.T1Expr
import SemVerif.Lemmas.StmtSteps
/-!
# Lemmas/T1Stmt — verdict simulation (family T1), statement level
-/
namespace SemVerif

/-- the checker only appends violations -/
def RExt (rs rs' : RS) : Prop := ∃ Δ, rs'.viols = rs.viols ++ Δ

theorem RExt.refl (rs : RS) : RExt rs rs := ⟨[], by simp⟩
theorem RExt.trans {a b c : RS} (h1 : RExt a b) (h2 : RExt b c) : RExt a c := by
  obtain ⟨d1, h1⟩ := h1; obtain ⟨d2, h2⟩ := h2
  exact ⟨d1 ++ d2, by rw [h2, h1]; simp⟩
theorem rext_add (vs : List Viol) (rs : RS) : RExt rs (rs.add vs) := ⟨vs, rfl⟩
theorem rext_viol (r : String) (k : ErrKind) (n : Name) (rs : RS) : RExt rs (rs.viol r k n) := ⟨_, rfl⟩
theorem rext_push (rs : RS) : RExt rs rs.push := ⟨[], by simp [RS.push]⟩
theorem rext_pop (rs : RS) : RExt rs rs.pop := ⟨[], by simp [RS.pop]⟩
theorem rext_scope (rs : RS) (sc : Scope) : RExt rs { rs with scope := sc } := ⟨[], by simp⟩

theorem leave_errors (s : St) : s.leave.2.errors = s.errors := by
  unfold St.leave
  cases s.inner with
  | nil => rfl
  | cons x rest => cases rest <;> rfl

theorem pushVia_errors (k : Nat) (i : Instr) (s : St) : (s.pushVia k i).errors = s.errors := by
  unfold St.pushVia St.push St.mapFrames St.mapCur; cases s.inner <;> rfl

theorem setPanic_errors (site : Nat) (s : St) : (s.setPanic site).errors = s.errors := by
  unfold St.setPanic; cases s.panic <;> rfl

theorem Step.errors_ext {s s' : St} (st : Step s s') : ∃ Δ, s'.errors = s.errors ++ Δ := by
  cases st with
  | e he => exact he.errors_ext
  | enter => exact ⟨[], by simp [St.enter]⟩
  | leave => exact ⟨[], by rw [leave_errors]; simp⟩
  | regLabel l _ => exact ⟨[], by simp [St.mapFrames]⟩
  | ctl i _ _ _ => exact ⟨[], by simp [St.push, St.mapFrames]⟩
  | emitRet i _ _ _ _ _ => exact ⟨[], by simp [St.push, St.mapFrames]⟩
  | ctlVia k i _ _ _ => exact ⟨[], by rw [pushVia_errors]; simp⟩
  | setReturn => exact ⟨[], by simp [St.setReturn, St.mapFrames]⟩
  | setPanic site => exact ⟨[], by rw [setPanic_errors]; simp⟩

theorem Steps.errors_ext {s s' : St} (h : Steps s s') : ∃ Δ, s'.errors = s.errors ++ Δ := by
  induction h with
  | refl => exact ⟨[], by simp⟩
  | tail _ st ih =>
    obtain ⟨Δ, hΔ⟩ := ih
    obtain ⟨Δ2, hΔ2⟩ := st.errors_ext
    exact ⟨Δ ++ Δ2, by rw [hΔ2, hΔ]; simp⟩

/-- simulation of one statement-level step: the checker appends `Δ`; either nothing enforced was
found, the analyzer reported nothing and `post` holds, or both failed with matching first error -/
def StmtSim (s s' : St) (rs rs' : RS) (post : Prop) : Prop :=
  ∃ Δ, rs'.viols = rs.viols ++ Δ ∧ ((firstEnf Δ = none ∧ s'.errors = s.errors ∧ post) ∨ Fail s s' Δ)

theorem StmtSim.rext {s s' : St} {rs rs' : RS} {P : Prop} (h : StmtSim s s' rs rs' P) : RExt rs rs' := by
  obtain ⟨Δ, h, _⟩ := h; exact ⟨Δ, h⟩

theorem StmtSim.refl (s : St) (rs : RS) {P : Prop} (hp : P) : StmtSim s s rs rs P :=
  ⟨[], by simp, Or.inl ⟨rfl, rfl, hp⟩⟩

theorem StmtSim.weaken {s s' : St} {rs rs' : RS} {P Q : Prop} (h : StmtSim s s' rs rs' P) (hpq : P → Q) :
    StmtSim s s' rs rs' Q := by
  obtain ⟨Δ, hΔ, h⟩ := h
  exact ⟨Δ, hΔ, h.imp (fun ⟨a, b, c⟩ => ⟨a, b, hpq c⟩) id⟩

/-- sequencing: the second step is only constrained when the first succeeded; otherwise both sides
merely append -/
theorem StmtSim.seq {s s1 s2 : St} {rs rs1 rs2 : RS} {P Q : Prop}
    (h1 : StmtSim s s1 rs rs1 P) (h2 : P → StmtSim s1 s2 rs1 rs2 Q)
    (ma : ∃ Δ, s2.errors = s1.errors ++ Δ) (mc : RExt rs1 rs2) : StmtSim s s2 rs rs2 Q := by
  obtain ⟨Δ1, hΔ1, h1⟩ := h1
  rcases h1 with ⟨hv1, he1, hp⟩ | hf
  · obtain ⟨Δ2, hΔ2, h2⟩ := h2 hp
    refine ⟨Δ1 ++ Δ2, by rw [hΔ2, hΔ1]; simp, ?_⟩
    rcases h2 with ⟨hv2, he2, hq⟩ | hf2
    · exact Or.inl ⟨by rw [firstEnf_append_none hv1]; exact hv2, by rw [he2, he1], hq⟩
    · right
      obtain ⟨e, rest, v, he, hv, hk⟩ := hf2
      exact ⟨e, rest, v, by rw [he, he1], by rw [firstEnf_append_none hv1]; exact hv, hk⟩
  · obtain ⟨Δ2, hΔ2⟩ := mc
    exact ⟨Δ1 ++ Δ2, by rw [hΔ2, hΔ1]; simp, Or.inr (Fail.mono hf ma Δ2)⟩

/-! ### value tables under the frame operations -/

theorem vals_enter (s : St) : s.enter.vals = [] :: s.vals := by
  unfold St.vals; rw [frames_enter]; simp [Block.child]

theorem vals_leave (s : St) (h : s.inner ≠ []) : s.leave.2.vals = s.vals.tail := by
  unfold St.vals St.leave St.frames
  cases hi : s.inner with
  | nil => exact absurd hi h
  | cons b rest => cases rest <;> simp

theorem vals_mapFrames (f : Block → Block) (hf : ∀ b, (f b).values = b.values) (s : St) :
    (s.mapFrames f).vals = s.vals := by
  unfold St.vals; rw [frames_mapFrames]; simp [List.map_map, Function.comp_def, hf]

theorem vals_probeLabel (stem : Name) (s : St) : (s.probeLabel stem).2.vals = s.vals := by
  unfold St.probeLabel; dsimp only; apply vals_mapFrames; intro b; rfl

theorem vals_setReturn (s : St) : s.setReturn.vals = s.vals := by
  unfold St.setReturn; apply vals_mapFrames; intro b; rfl

theorem vals_pushVia (k : Nat) (i : Instr) (s : St) : (s.pushVia k i).vals = s.vals := by
  unfold St.pushVia
  rw [vals_push]
  unfold St.vals St.mapCur St.frames
  cases s.inner <;> simp

theorem vals_setPanic (site : Nat) (s : St) : (s.setPanic site).vals = s.vals := by
  unfold St.setPanic; cases s.panic <;> rfl

theorem scopeRel_enter {s : St} {sc : Scope} (h : ScopeRel s sc) : ScopeRel s.enter ([] :: sc) := by
  unfold ScopeRel; rw [vals_enter]
  exact ValsRel.cons (fun n => by simp [assocGet, rlookup]) h

theorem scopeRel_tail {vs : List (List (Name × Value))} {sc : Scope} (h : ValsRel vs sc) : ValsRel vs.tail sc.tail := by
  cases h with
  | nil => exact ValsRel.nil
  | cons _ h => exact h

/-- declaring a value in the current block / scope frame -/
theorem valsRel_declare {x : List (Name × Value)} {rest : List (List (Name × Value))} {sc : Scope}
    (h : ValsRel (x :: rest) sc) (n : Name) (v : Value) :
    ValsRel (assocInsert n v x :: rest) (sc.declare n v.ty v.mutable) := by
  cases h with
  | @cons vals fr rest sc' hfr hrest =>
    unfold Scope.declare
    refine ValsRel.cons ?_ hrest
    intro k
    by_cases hk : k = n
    · subst hk; simp [assocGet_insert_self, rlookup, projV]
    · rw [assocGet_insert_ne _ _ _ _ hk]
      unfold rlookup
      simp [hk]; exact hfr k

end SemVerif

namespace SemVerif

theorem vals_insertValue (n : Name) (v : Value) (s : St) :
    ∃ x rest, s.vals = x :: rest ∧ (s.insertValue n v).vals = assocInsert n v x :: rest := by
  unfold St.vals St.insertValue St.mapCur St.frames
  cases s.inner with
  | nil => exact ⟨s.root.values, [], by simp, by simp⟩
  | cons b bs => exact ⟨b.values, bs.map (·.values) ++ [s.root.values], by simp, by simp⟩

theorem vals_registerInner (n : Name) (s : St) : (s.registerInner n).vals = s.vals := by
  unfold St.registerInner; apply vals_mapFrames; intro b; rfl

theorem keyE_eq (k : ErrKind) (n : Name) (l o : Nat) (r : String) (e : Bool) :
    keyE ⟨k, n, l, o⟩ = keyV ⟨r, k, n, e⟩ := rfl

theorem sim_let {g : Globals} {rg : RGlobals} (hg : GlobRel g rg) (b : LetB) (s : St) (rs : RS)
    (hs : ScopeRel s rs.scope) :
    StmtSim s (letBinding g b s) rs (checkLet rg b rs) (ScopeRel (letBinding g b s) (checkLet rg b rs).scope) := by
  have h1 := sim_exprM hg rs.scope b.value s hs
  unfold letBinding checkLet
  cases hc : checkExpr rg rs.scope b.value with
  | mk vs to =>
    rw [hc] at h1
    cases to with
    | none =>
      dsimp only at h1 ⊢
      refine ⟨vs, rfl, Or.inr ?_⟩
      obtain ⟨e, rest, v, he, hv, hk⟩ := h1
      cases hm : exprM g b.value s with
      | mk a s1 =>
        rw [hm] at he
        simp only at he
        cases a with
        | none => exact ⟨e, rest, v, he, hv, hk⟩
        | some r =>
          dsimp only
          cases letTypeBad b.ty r.ty with
          | true => exact ⟨e, rest ++ [⟨.wrongLetType, b.name, 1, 0⟩], v, by simp [St.addErr, he], hv, hk⟩
          | false =>
            simp only [Bool.false_eq_true, if_false]
            refine ⟨e, rest, v, ?_, hv, hk⟩
            rw [← he]
            unfold St.push St.registerInner St.mapFrames St.insertValue St.mapCur
            cases s1.inner <;> rfl
    | some t =>
      dsimp only at h1 ⊢
      obtain ⟨hvs, r, hr, hrty, hre, hvals⟩ := h1
      cases hm : exprM g b.value s with
      | mk a s1 =>
        rw [hm] at hr hre hvals
        simp only at hr hre hvals
        subst hr
        subst hrty
        dsimp only
        cases hbad : letTypeBad b.ty r.ty with
        | true =>
          simp only [if_true]
          refine ⟨vs ++ [⟨"B7", .wrongLetType, b.name, true⟩], by simp [RS.viol, RS.add], Or.inr ?_⟩
          exact ⟨⟨.wrongLetType, b.name, 1, 0⟩, [], _, by simp [St.addErr, hre],
            by rw [firstEnf_append_none hvs]; exact firstEnf_single_enf _ rfl, rfl⟩
        | false =>
          simp only [Bool.false_eq_true, if_false]
          refine ⟨vs, rfl, Or.inl ⟨hvs, ?_, ?_⟩⟩
          · rw [← hre]
            unfold St.push St.registerInner St.mapFrames St.insertValue St.mapCur
            cases s1.inner <;> rfl
          · unfold ScopeRel
            rw [vals_push, vals_registerInner]
            obtain ⟨x, rest, hx, hins⟩ := vals_insertValue b.name ⟨letInnerName s1 b.name, r.ty, b.mutable, false, false⟩ s1
            rw [hins]
            have hrel : ValsRel (x :: rest) rs.scope := by
              rw [← hx]; unfold SameVals at hvals; rw [hvals]; exact hs
            exact valsRel_declare hrel b.name ⟨letInnerName s1 b.name, r.ty, b.mutable, false, false⟩

end SemVerif

namespace SemVerif

theorem sim_bind {g : Globals} {rg : RGlobals} (hg : GlobRel g rg) (b : Bind) (s : St) (rs : RS)
    (hs : ScopeRel s rs.scope) :
    StmtSim s (binding g b s) rs (checkBind rg b rs) (ScopeRel (binding g b s) (checkBind rg b rs).scope) := by
  have h1 := sim_exprM hg rs.scope b.value s hs
  unfold binding checkBind
  cases hc : checkExpr rg rs.scope b.value with
  | mk vs to =>
    rw [hc] at h1
    cases to with
    | none =>
      dsimp only at h1 ⊢
      refine ⟨vs, rfl, Or.inr ?_⟩
      obtain ⟨e, rest, v, he, hv, hk⟩ := h1
      cases hm : exprM g b.value s with
      | mk a s1 =>
        rw [hm] at he
        simp only at he
        cases a with
        | none => exact ⟨e, rest, v, he, hv, hk⟩
        | some r =>
          dsimp only
          cases s1.lookupValue b.name with
          | none => exact ⟨e, rest ++ [⟨.valueNotFound, b.name, 1, 0⟩], v, by simp [St.addErr, he], hv, hk⟩
          | some value =>
            dsimp only
            split
            · exact ⟨e, rest ++ [⟨.valueIsNotMutable, b.name, 1, 0⟩], v, by simp [St.addErr, he], hv, hk⟩
            · split
              · exact ⟨e, rest ++ [⟨.wrongExpressionType, b.name, 1, 0⟩], v, by simp [St.addErr, he], hv, hk⟩
              · exact ⟨e, rest, v, by simp [St.push, St.mapFrames, he], hv, hk⟩
    | some t =>
      dsimp only at h1 ⊢
      obtain ⟨hvs, r, hr, hrty, hre, hvals⟩ := h1
      cases hm : exprM g b.value s with
      | mk a s1 =>
        rw [hm] at hr hre hvals
        simp only at hr hre hvals
        subst hr
        subst hrty
        dsimp only
        have hs1 : ScopeRel s1 rs.scope := scopeRel_of_sameVals hs hvals
        have hl := scopeRel_lookup hs1 b.name
        show StmtSim s _ rs (match (rs.add vs).scope.lookup b.name with
          | none => (rs.add vs).viol "B2-assign" .valueNotFound b.name
          | some (tv, m) => if !m then (rs.add vs).viol "B8-mutable" .valueIsNotMutable b.name
              else if tv ≠ r.ty then (rs.add vs).viol "B8-type" .wrongExpressionType b.name else rs.add vs) _
        have hsc : (rs.add vs).scope = rs.scope := rfl
        rw [hsc, ← hl]
        cases hlv : s1.lookupValue b.name with
        | none =>
          dsimp only [Option.map_none]
          exact ⟨vs ++ [⟨"B2-assign", .valueNotFound, b.name, true⟩], by simp [RS.viol, RS.add], Or.inr
            ⟨⟨.valueNotFound, b.name, 1, 0⟩, [], _, by simp [St.addErr, hre],
              by rw [firstEnf_append_none hvs]; exact firstEnf_single_enf _ rfl, rfl⟩⟩
        | some value =>
          dsimp only [Option.map_some, projV]
          cases hmut : value.mutable with
          | false =>
            simp only [Bool.not_false, if_true]
            exact ⟨vs ++ [⟨"B8-mutable", .valueIsNotMutable, b.name, true⟩], by simp [RS.viol, RS.add], Or.inr
              ⟨⟨.valueIsNotMutable, b.name, 1, 0⟩, [], _, by simp [St.addErr, hre],
                by rw [firstEnf_append_none hvs]; exact firstEnf_single_enf _ rfl, rfl⟩⟩
          | true =>
            simp only [Bool.not_true, Bool.false_eq_true, if_false]
            by_cases hty : value.ty = r.ty
            · simp only [ne_eq, hty, not_true_eq_false, if_false]
              refine ⟨vs, rfl, Or.inl ⟨hvs, by simp [St.push, St.mapFrames, hre], ?_⟩⟩
              unfold ScopeRel; rw [vals_push]; exact hs1
            · simp only [ne_eq, hty, not_false_eq_true, if_true]
              exact ⟨vs ++ [⟨"B8-type", .wrongExpressionType, b.name, true⟩], by simp [RS.viol, RS.add], Or.inr
                ⟨⟨.wrongExpressionType, b.name, 1, 0⟩, [], _, by simp [St.addErr, hre],
                  by rw [firstEnf_append_none hvs]; exact firstEnf_single_enf _ rfl, rfl⟩⟩

theorem sim_callS {g : Globals} {rg : RGlobals} (hg : GlobRel g rg) (c : CallS) (s : St) (rs : RS)
    (hs : ScopeRel s rs.scope) :
    StmtSim s (callStmt g c s) rs (checkCallS rg c rs) (ScopeRel (callStmt g c s) (checkCallS rg c rs).scope) := by
  unfold callStmt checkCallS
  rw [argsM_eq, checkExprs_eq]
  have h1 := sim_functionCall hg c.name (c.args.map fun e => (exprM g e, checkExpr rg rs.scope e)) (by
    intro x hx
    rw [List.mem_map] at hx
    obtain ⟨e, _, rfl⟩ := hx
    exact ⟨sim_exprM hg rs.scope e, em_exprM g e⟩) s hs
  simp only [List.map_map, Function.comp_def] at h1
  refine ⟨_, rfl, ?_⟩
  cases hc : (checkCall rg c.name (c.args.map (checkExpr rg rs.scope))).2 with
  | some ty =>
    rw [hc] at h1
    dsimp only at h1
    obtain ⟨hv, _, hre, hvals⟩ := h1
    exact Or.inl ⟨hv, hre, scopeRel_of_sameVals hs hvals⟩
  | none =>
    rw [hc] at h1
    exact Or.inr h1

/-- an error on one side and an enforced violation of the same key on the other -/
theorem sim_err (s : St) (rs : RS) (k : ErrKind) (n : Name) (l o : Nat) (r : String) (P : Prop) :
    StmtSim s (s.addErr k n l o) rs (rs.viol r k n) P :=
  ⟨_, rfl, Or.inr ⟨⟨k, n, l, o⟩, [], _, rfl, firstEnf_single_enf _ rfl, rfl⟩⟩

theorem sim_optErr (b : Bool) (s : St) (rs : RS) (k : ErrKind) (n : Name) (l o : Nat) (r : String)
    (hs : ScopeRel s rs.scope) :
    StmtSim s (if b then s.addErr k n l o else s) rs (if b then rs.viol r k n else rs)
      (ScopeRel (if b then s.addErr k n l o else s) (if b then rs.viol r k n else rs).scope) := by
  cases b
  · exact StmtSim.refl s rs hs
  · exact sim_err s rs k n l o r _

theorem optErr_ext (b : Bool) (s : St) (k : ErrKind) (n : Name) (l o : Nat) :
    ∃ Δ, (if b then s.addErr k n l o else s).errors = s.errors ++ Δ := by
  cases b
  · exact ⟨[], by simp⟩
  · exact ⟨[⟨k, n, l, o⟩], rfl⟩

theorem optViol_ext (b : Bool) (rs : RS) (k : ErrKind) (n : Name) (r : String) :
    RExt rs (if b then rs.viol r k n else rs) := by
  cases b
  · exact RExt.refl _
  · exact rext_viol _ _ _ _

theorem sim_forbidden (rc bc cc : Bool) (s : St) (rs : RS) (hs : ScopeRel s rs.scope) :
    StmtSim s (forbidden rc bc cc s) rs (codeAfter rc bc cc rs)
      (ScopeRel (forbidden rc bc cc s) (codeAfter rc bc cc rs).scope) := by
  unfold forbidden codeAfter
  dsimp only
  refine StmtSim.seq (StmtSim.seq (sim_optErr rc s rs _ _ 1 1 "B13-return" hs) (fun h => sim_optErr bc _ _ _ _ 1 1 "B13-break" h)
    (optErr_ext _ _ _ _ _ _) (optViol_ext _ _ _ _ _)) (fun h => sim_optErr cc _ _ _ _ 1 1 "B13-continue" h)
    (optErr_ext _ _ _ _ _ _) (optViol_ext _ _ _ _ _)


/-- the checker added only notes that are not enforced and kept the scope -/
def Unenf (rs rs' : RS) : Prop := ∃ Δ, rs'.viols = rs.viols ++ Δ ∧ firstEnf Δ = none ∧ rs'.scope = rs.scope

theorem Unenf.refl (rs : RS) : Unenf rs rs := ⟨[], by simp, rfl, rfl⟩
theorem Unenf.trans {a b c : RS} (h1 : Unenf a b) (h2 : Unenf b c) : Unenf a c := by
  obtain ⟨d1, h1, e1, s1⟩ := h1; obtain ⟨d2, h2, e2, s2⟩ := h2
  exact ⟨d1 ++ d2, by rw [h2, h1]; simp, by rw [firstEnf_append_none e1]; exact e2, by rw [s2, s1]⟩
theorem unenf_add (rs : RS) (vs : List Viol) (h : firstEnf vs = none) : Unenf rs (rs.add vs) := ⟨vs, rfl, h, rfl⟩
theorem unenf_opt (b : Bool) (rs : RS) (v : Viol) (h : v.enforced = false) : Unenf rs (if b then rs.add [v] else rs) := by
  cases b
  · exact Unenf.refl rs
  · exact unenf_add rs [v] (firstEnf_single_unenf v h)

theorem sim_nestedRet {g : Globals} {rg : RGlobals} (hg : GlobRel g rg) (resTy : Ty) (e : Expr) (s : St) (rs : RS)
    (hs : ScopeRel s rs.scope) :
    StmtSim s (nestedReturn g e s).1 rs (checkNestedRet rg resTy e rs).1
      (ScopeRel (nestedReturn g e s).1 (checkNestedRet rg resTy e rs).1.scope ∧
        (nestedReturn g e s).2 = (checkNestedRet rg resTy e rs).2) := by
  have h1 := sim_exprM hg rs.scope e s hs
  unfold nestedReturn checkNestedRet
  cases hc : checkExpr rg rs.scope e with
  | mk vs to =>
    rw [hc] at h1
    cases to with
    | none =>
      dsimp only at h1 ⊢
      refine ⟨vs, rfl, Or.inr ?_⟩
      obtain ⟨e', rest, v, he, hv, hk⟩ := h1
      cases hm : exprM g e s with
      | mk a s1 =>
        rw [hm] at he
        simp only at he
        cases a with
        | none => exact ⟨e', rest, v, he, hv, hk⟩
        | some r => exact ⟨e', rest, v, by simp [St.setReturn, St.push, St.mapFrames, he], hv, hk⟩
    | some t =>
      dsimp only at h1 ⊢
      obtain ⟨hvs, r, hr, hrty, hre, hvals⟩ := h1
      cases hm : exprM g e s with
      | mk a s1 =>
        rw [hm] at hr hre hvals
        simp only at hr hre hvals
        subst hr
        dsimp only
        have hu : Unenf rs (if t ≠ resTy then
              (if !typeRegistered rg t then (rs.add vs).add [⟨"B11-nested-type", .typeNotFound, e.show, false⟩] else rs.add vs).add
                [⟨"B11-nested", .wrongReturnType, e.show, false⟩]
            else (if !typeRegistered rg t then (rs.add vs).add [⟨"B11-nested-type", .typeNotFound, e.show, false⟩] else rs.add vs)) := by
          have u1 : Unenf rs (rs.add vs) := unenf_add rs vs hvs
          have u2 := u1.trans (unenf_opt (!typeRegistered rg t) (rs.add vs) ⟨"B11-nested-type", .typeNotFound, e.show, false⟩ rfl)
          have u3 := u2.trans (unenf_opt (decide (t ≠ resTy)) _ ⟨"B11-nested", .wrongReturnType, e.show, false⟩ rfl)
          by_cases h1 : t = resTy
          · simp only [ne_eq, h1, not_true_eq_false, decide_false, Bool.false_eq_true, if_false] at u3 ⊢
            exact u3
          · simp only [ne_eq, h1, not_false_eq_true, decide_true, if_true] at u3 ⊢
            exact u3
        obtain ⟨Δ, hΔ1, hΔ2, hsc⟩ := hu
        refine ⟨Δ, hΔ1, Or.inl ⟨hΔ2, by simp [St.setReturn, St.push, St.mapFrames, hre], ?_, rfl⟩⟩
        rw [hsc]
        unfold ScopeRel
        rw [vals_setReturn, vals_push]
        exact scopeRel_of_sameVals hs hvals


/-- after both sides of the first comparison have been evaluated, `condition_expression` only appends errors -/
theorem condExprM_ext2 (g : Globals) (c : CmpCond) (right : Option (Logic × LogicCond)) (s : St) :
    ∃ Δ, (condExprM g (.mk c right) s).2.errors = (exprM g c.right (exprM g c.left s).2).2.errors ++ Δ := by
  unfold condExprM
  cases hl : exprM g c.left s with
  | mk l s1 =>
    dsimp only
    cases hr : exprM g c.right s1 with
    | mk r s2 =>
      dsimp only
      cases l with
      | none => exact ⟨[⟨.conditionIsEmpty, wildcard, 1, 0⟩], rfl⟩
      | some l =>
        cases r with
        | none => exact ⟨[⟨.conditionIsEmpty, wildcard, 1, 0⟩], rfl⟩
        | some r =>
          dsimp only
          split
          · exact ⟨[⟨.conditionExpressionWrongType, l.ty.show, 1, 0⟩], rfl⟩
          · split
            · exact ⟨[⟨.conditionExpressionNotSupported, l.ty.show, 1, 0⟩], rfl⟩
            · cases right with
              | none => exact ⟨[], by simp [St.push, St.incReg, St.mapFrames]⟩
              | some p =>
                obtain ⟨lg, rc⟩ := p
                dsimp only
                obtain ⟨Δ, hΔ⟩ := (esteps_condExprM g rc ((s2.incReg).push (.condExpr l r c.cond s2.incReg.curReg))).errors_ext
                generalize condExprM g rc ((s2.incReg).push (.condExpr l r c.cond s2.incReg.curReg)) = res at hΔ
                obtain ⟨rr, s3⟩ := res
                exact ⟨Δ, by simp [St.push, St.incReg, St.mapFrames] at hΔ ⊢; exact hΔ⟩

theorem sim_logic {g : Globals} {rg : RGlobals} (hg : GlobRel g rg) (sc : Scope) : ∀ (lc : LogicCond) (s : St),
    ScopeRel s sc →
    (firstEnf (checkLogic rg sc lc) = none ∧ (condExprM g lc s).2.errors = s.errors ∧ SameVals s (condExprM g lc s).2) ∨
    Fail s (condExprM g lc s).2 (checkLogic rg sc lc)
  | .mk c right, s, hs => by
    have h1 := sim_exprM hg sc c.left s hs
    have hx2 := condExprM_ext2 g c right s
    obtain ⟨Δr, hΔr⟩ := (em_exprM g c.right).errors_ext (exprM g c.left s).2
    unfold checkLogic
    cases hcl : checkExpr rg sc c.left with
    | mk vl tl =>
      rw [hcl] at h1
      dsimp only
      cases hcr : checkExpr rg sc c.right with
      | mk vr tr =>
        dsimp only
        cases tl with
        | none =>
          -- left side failed
          right
          dsimp only at h1
          obtain ⟨Δ2, hΔ2⟩ := hx2
          have hf := Fail.mono h1 ⟨Δr ++ Δ2, by rw [hΔ2, hΔr]; simp⟩ (vr ++ [⟨"cond-empty", .conditionIsEmpty, wildcard, true⟩])
          cases tr <;> simpa [List.append_assoc] using hf
        | some tl =>
          dsimp only at h1
          obtain ⟨hvl, l, hl, hlty, hle, hlvals⟩ := h1
          have hs1 : ScopeRel (exprM g c.left s).2 sc := scopeRel_of_sameVals hs hlvals
          have h2 := sim_exprM hg sc c.right (exprM g c.left s).2 hs1
          rw [hcr] at h2
          cases tr with
          | none =>
            right
            dsimp only at h2
            obtain ⟨e, rest, v, he, hv, hk⟩ := h2
            obtain ⟨Δ2, hΔ2⟩ := hx2
            exact ⟨e, rest ++ Δ2, v, by rw [hΔ2, he, hle]; simp,
              by rw [List.append_assoc, firstEnf_append_none hvl]; exact firstEnf_append_some hv, hk⟩
          | some tr =>
            dsimp only at h2
            obtain ⟨hvr, r, hr, hrty, hre, hrvals⟩ := h2
            unfold condExprM
            cases hml : exprM g c.left s with
            | mk a s1 =>
              rw [hml] at hl hle hlvals hr hre hrvals
              simp only at hl hle hlvals hr hre hrvals
              subst hl
              dsimp only
              cases hmr : exprM g c.right s1 with
              | mk b s2 =>
                rw [hmr] at hr hre hrvals
                simp only at hr hre hrvals
                subst hr
                dsimp only
                subst hlty
                subst hrty
                by_cases hne : l.ty = r.ty
                · simp only [ne_eq, hne, not_true_eq_false, if_false]
                  cases hprim : r.ty.isPrim with
                  | false =>
                    simp only [Bool.not_false, if_true]
                    right
                    exact ⟨⟨.conditionExpressionNotSupported, r.ty.show, 1, 0⟩, [], ⟨"B9-prim", .conditionExpressionNotSupported, r.ty.show, true⟩,
                      by simp [St.addErr, hre, hle],
                      by rw [List.append_assoc, firstEnf_append_none hvl, firstEnf_append_none hvr]; exact firstEnf_single_enf _ rfl, rfl⟩
                  | true =>
                    simp only [Bool.not_true, Bool.false_eq_true, if_false]
                    cases right with
                    | none =>
                      left
                      refine ⟨by rw [firstEnf_append_none hvl]; exact hvr, by simp [St.push, St.incReg, St.mapFrames, hre, hle], ?_⟩
                      show ((s2.incReg).push _).vals = s.vals
                      rw [vals_push, vals_incReg, hrvals, hlvals]
                    | some p =>
                      obtain ⟨lg, rc⟩ := p
                      dsimp only
                      have hs3 : ScopeRel ((s2.incReg).push (.condExpr l r c.cond s2.incReg.curReg)) sc := by
                        unfold ScopeRel; rw [vals_push, vals_incReg, hrvals, hlvals]; exact hs
                      have ih := sim_logic hg sc rc _ hs3
                      generalize hres : condExprM g rc ((s2.incReg).push (.condExpr l r c.cond s2.incReg.curReg)) = res at ih
                      obtain ⟨rr, s3⟩ := res
                      dsimp only at ih ⊢
                      rcases ih with ⟨hv3, he3, hvals3⟩ | hf
                      · left
                        refine ⟨by rw [List.append_assoc, firstEnf_append_none hvl, firstEnf_append_none hvr]; exact hv3,
                          by simp [St.push, St.incReg, St.mapFrames] at he3 ⊢; rw [he3, hre, hle], ?_⟩
                        show ((s3.incReg).push _).vals = s.vals
                        rw [vals_push, vals_incReg]
                        unfold SameVals at hvals3
                        rw [hvals3, vals_push, vals_incReg, hrvals, hlvals]
                      · right
                        obtain ⟨e, rest, v, he, hv, hk⟩ := hf
                        refine ⟨e, rest, v, ?_, by rw [List.append_assoc, firstEnf_append_none hvl, firstEnf_append_none hvr]; exact hv, hk⟩
                        simp [St.push, St.incReg, St.mapFrames] at he ⊢
                        rw [he, hre, hle]
                · simp only [ne_eq, hne, not_false_eq_true, if_true]
                  right
                  exact ⟨⟨.conditionExpressionWrongType, l.ty.show, 1, 0⟩, [], ⟨"B9-type", .conditionExpressionWrongType, l.ty.show, true⟩,
                    by simp [St.addErr, hre, hle],
                    by rw [List.append_assoc, firstEnf_append_none hvl, firstEnf_append_none hvr]; exact firstEnf_single_enf _ rfl, rfl⟩


/-! ### the checker only appends -/

theorem rext_checkLet (rg : RGlobals) (b : LetB) (rs : RS) : RExt rs (checkLet rg b rs) := by
  unfold checkLet
  cases checkExpr rg rs.scope b.value with
  | mk vs to =>
    cases to with
    | none => exact rext_add _ _
    | some t =>
      dsimp only
      split
      · exact (rext_add _ _).trans (rext_viol _ _ _ _)
      · exact (rext_add vs rs).trans (rext_scope _ _)

theorem rext_checkBind (rg : RGlobals) (b : Bind) (rs : RS) : RExt rs (checkBind rg b rs) := by
  unfold checkBind
  cases checkExpr rg rs.scope b.value with
  | mk vs to =>
    cases to with
    | none => exact rext_add _ _
    | some t =>
      dsimp only
      cases (rs.add vs).scope.lookup b.name with
      | none => exact (rext_add _ _).trans (rext_viol _ _ _ _)
      | some p =>
        obtain ⟨tv, m⟩ := p
        dsimp only
        split
        · exact (rext_add _ _).trans (rext_viol _ _ _ _)
        · split
          · exact (rext_add _ _).trans (rext_viol _ _ _ _)
          · exact rext_add _ _

theorem rext_checkCallS (rg : RGlobals) (c : CallS) (rs : RS) : RExt rs (checkCallS rg c rs) := rext_add _ _

theorem rext_checkIfCond (rg : RGlobals) (c : IfCond) (rs : RS) : RExt rs (checkIfCond rg c rs) := by
  unfold checkIfCond; cases c <;> exact rext_add _ _

theorem rext_checkNestedRet (rg : RGlobals) (resTy : Ty) (e : Expr) (rs : RS) : RExt rs (checkNestedRet rg resTy e rs).1 := by
  unfold checkNestedRet
  cases checkExpr rg rs.scope e with
  | mk vs to =>
    cases to with
    | none => exact rext_add _ _
    | some t =>
      dsimp only
      have h1 : RExt rs (if !typeRegistered rg t then (rs.add vs).add [⟨"B11-nested-type", .typeNotFound, e.show, false⟩] else rs.add vs) := by
        split
        · exact (rext_add _ _).trans (rext_add _ _)
        · exact rext_add _ _
      split
      · exact h1.trans (rext_add _ _)
      · exact h1

theorem rext_codeAfter (rc bc cc : Bool) (rs : RS) : RExt rs (codeAfter rc bc cc rs) := by
  unfold codeAfter
  dsimp only
  exact ((optViol_ext rc rs _ _ _).trans (optViol_ext bc _ _ _ _)).trans (optViol_ext cc _ _ _ _)

theorem rext_pushpop {rs : RS} {f : RS → RS} (h : ∀ x, RExt x (f x)) : RExt rs (f rs.push).pop :=
  ((rext_push rs).trans (h _)).trans (rext_pop _)

mutual
theorem rext_checkIf (rg : RGlobals) (resTy : Ty) : ∀ (i : IfStmt) (rs : RS), RExt rs (checkIf rg resTy i rs)
  | .mk cond body els elif, rs => by
    unfold checkIf
    dsimp only
    have h0 : RExt rs (if els.isSome && elif.isSome then rs.viol "B10" .ifElseDuplicated "if-condition".toList else rs) :=
      optViol_ext _ _ _ _ _
    generalize (if els.isSome && elif.isSome then rs.viol "B10" .ifElseDuplicated "if-condition".toList else rs) = r0 at h0
    have h1 : RExt rs (checkBodies rg resTy body (checkIfCond rg cond r0.push)).pop :=
      (((h0.trans (rext_push _)).trans (rext_checkIfCond _ _ _)).trans (rext_checkBodies rg resTy body _)).trans (rext_pop _)
    cases els with
    | some eb => exact h1.trans (((rext_push _).trans (rext_checkBodies rg resTy eb _)).trans (rext_pop _))
    | none =>
      cases elif with
      | some ei => exact h1.trans (rext_checkIf rg resTy ei _)
      | none => exact h1
theorem rext_checkBodies (rg : RGlobals) (resTy : Ty) : ∀ (b : IfBodies) (rs : RS), RExt rs (checkBodies rg resTy b rs)
  | .ifb l, rs => by unfold checkBodies; exact rext_checkIfBody rg resTy l false rs
  | .loopb l, rs => by unfold checkBodies; exact rext_checkIfLoopBody rg resTy l false false false rs
theorem rext_checkIfBody (rg : RGlobals) (resTy : Ty) : ∀ (l : List IfBodyStmt) (rc : Bool) (rs : RS),
    RExt rs (checkIfBody rg resTy l rc rs)
  | [], _, rs => by unfold checkIfBody; exact RExt.refl _
  | st :: tl, rc, rs => by
    unfold checkIfBody
    dsimp only
    have h0 := rext_codeAfter rc false false rs
    generalize codeAfter rc false false rs = r0 at h0
    cases st with
    | letB b => exact (h0.trans (rext_checkLet rg b r0)).trans (rext_checkIfBody rg resTy tl rc _)
    | bind b => exact (h0.trans (rext_checkBind rg b r0)).trans (rext_checkIfBody rg resTy tl rc _)
    | call c => exact (h0.trans (rext_checkCallS rg c r0)).trans (rext_checkIfBody rg resTy tl rc _)
    | ifS i => exact (h0.trans (rext_checkIf rg resTy i r0)).trans (rext_checkIfBody rg resTy tl rc _)
    | loop b =>
      exact (h0.trans (((rext_push r0).trans (rext_checkLoopBody rg resTy b false false false _)).trans (rext_pop _))).trans
        (rext_checkIfBody rg resTy tl rc _)
    | ret e =>
      dsimp only
      have h1 := h0.trans (rext_checkNestedRet rg resTy e r0)
      generalize checkNestedRet rg resTy e r0 = q at h1
      obtain ⟨r1, r⟩ := q
      exact h1.trans (rext_checkIfBody rg resTy tl (rc || r) r1)
theorem rext_checkIfLoopBody (rg : RGlobals) (resTy : Ty) : ∀ (l : List IfLoopStmt) (rc bc cc : Bool) (rs : RS),
    RExt rs (checkIfLoopBody rg resTy l rc bc cc rs)
  | [], _, _, _, rs => by unfold checkIfLoopBody; exact RExt.refl _
  | st :: tl, rc, bc, cc, rs => by
    unfold checkIfLoopBody
    dsimp only
    have h0 := rext_codeAfter rc bc cc rs
    generalize codeAfter rc bc cc rs = r0 at h0
    cases st with
    | letB b => exact (h0.trans (rext_checkLet rg b r0)).trans (rext_checkIfLoopBody rg resTy tl rc bc cc _)
    | bind b => exact (h0.trans (rext_checkBind rg b r0)).trans (rext_checkIfLoopBody rg resTy tl rc bc cc _)
    | call c => exact (h0.trans (rext_checkCallS rg c r0)).trans (rext_checkIfLoopBody rg resTy tl rc bc cc _)
    | ifS i => exact (h0.trans (rext_checkIf rg resTy i r0)).trans (rext_checkIfLoopBody rg resTy tl rc bc cc _)
    | loop b =>
      exact (h0.trans (((rext_push r0).trans (rext_checkLoopBody rg resTy b false false false _)).trans (rext_pop _))).trans
        (rext_checkIfLoopBody rg resTy tl rc bc cc _)
    | ret e =>
      dsimp only
      have h1 := h0.trans (rext_checkNestedRet rg resTy e r0)
      generalize checkNestedRet rg resTy e r0 = q at h1
      obtain ⟨r1, r⟩ := q
      exact h1.trans (rext_checkIfLoopBody rg resTy tl (rc || r) bc cc r1)
    | brk => exact h0.trans (rext_checkIfLoopBody rg resTy tl rc true cc _)
    | cont => exact h0.trans (rext_checkIfLoopBody rg resTy tl rc bc true _)
theorem rext_checkLoopBody (rg : RGlobals) (resTy : Ty) : ∀ (l : List LoopStmt) (rc bc cc : Bool) (rs : RS),
    RExt rs (checkLoopBody rg resTy l rc bc cc rs)
  | [], _, _, _, rs => by unfold checkLoopBody; exact RExt.refl _
  | st :: tl, rc, bc, cc, rs => by
    unfold checkLoopBody
    dsimp only
    have h0 := rext_codeAfter rc bc cc rs
    generalize codeAfter rc bc cc rs = r0 at h0
    cases st with
    | letB b => exact (h0.trans (rext_checkLet rg b r0)).trans (rext_checkLoopBody rg resTy tl rc bc cc _)
    | bind b => exact (h0.trans (rext_checkBind rg b r0)).trans (rext_checkLoopBody rg resTy tl rc bc cc _)
    | call c => exact (h0.trans (rext_checkCallS rg c r0)).trans (rext_checkLoopBody rg resTy tl rc bc cc _)
    | ifS i => exact (h0.trans (rext_checkIf rg resTy i r0)).trans (rext_checkLoopBody rg resTy tl rc bc cc _)
    | loop b =>
      exact (h0.trans (((rext_push r0).trans (rext_checkLoopBody rg resTy b false false false _)).trans (rext_pop _))).trans
        (rext_checkLoopBody rg resTy tl rc bc cc _)
    | ret e =>
      dsimp only
      have h1 := h0.trans (rext_checkNestedRet rg resTy e r0)
      generalize checkNestedRet rg resTy e r0 = q at h1
      obtain ⟨r1, r⟩ := q
      exact h1.trans (rext_checkLoopBody rg resTy tl (rc || r) bc cc r1)
    | brk => exact h0.trans (rext_checkLoopBody rg resTy tl rc true cc _)
    | cont => exact h0.trans (rext_checkLoopBody rg resTy tl rc bc true _)
end

end SemVerif
