import SemVerif.Lemmas.T2Fn
import SemVerif.Lemmas.T1Fn
/-!
# Lemmas/RuleLock — the source denotation of a rule-abiding function

Pure specification-side lockstep between the rule checker (`Spec/RuleSet.lean`) and the source
denotation (`Spec/Denote.lean`): when the checker reports nothing on a function (no violation at
all, enforced or not), both traversals carry the same type scope, every call event of the
denotation passes exactly as many arguments as the callee declares, and every nested-return event
carries the function's result type (`EvOK`).  Together with `T2` this transports the two rules the
analyzer does not enforce (findings F8, F9) to the emitted stack.
-/
namespace SemVerif

def EvOK (rg : RGlobals) (R : Ty) : DStmt → Prop
  | .callS (.call f ts) => ∃ ps res, rlookup f rg.funcs = some (ps, res) ∧ ts.length = ps.length
  | .jret t _ => t = R
  | _ => True

/-- a check that yields no type reports a violation -/
def NV (c : ERes) : Prop := c.2 = none → c.1 ≠ []

theorem nv_eOk (t : Ty) : NV (eOk t) := by intro h; cases h
theorem nv_eFail (r : String) (k : ErrKind) (n : Name) : NV (eFail r k n) := by intro _; simp [eFail]

theorem nv_checkPair {l r : ERes} (hl : NV l) (hr : NV r) : NV (checkPair l r) := by
  obtain ⟨vl, tl⟩ := l
  obtain ⟨vr, tr⟩ := r
  unfold checkPair
  cases tl with
  | none => exact hl
  | some tl =>
    cases tr with
    | none =>
      intro _
      have := hr rfl
      simp only [ne_eq, List.append_eq_nil_iff, not_and]
      exact fun _ => this
    | some tr =>
      dsimp only
      split
      · intro _; simp
      · intro h; cases h

theorem nv_checkTree : ∀ (t : W ERes), (∀ a ∈ t.atoms, NV a) → NV (checkTree t)
  | .atom a, h => h a (by simp [W.atoms])
  | .pair l _ r, h => by
    unfold checkTree
    exact nv_checkPair (nv_checkTree l fun a ha => h a (by simp [W.atoms, ha]))
      (nv_checkTree r fun a ha => h a (by simp [W.atoms, ha]))

theorem checkPair_quiet {l r : ERes} (hl : NV l) (hr : NV r) (h : (checkPair l r).1 = []) : l.1 = [] ∧ r.1 = [] := by
  obtain ⟨vl, tl⟩ := l
  obtain ⟨vr, tr⟩ := r
  unfold checkPair at h
  cases tl with
  | none => exact absurd h (hl rfl)
  | some tl =>
    cases tr with
    | none =>
      dsimp only at h
      rw [List.append_eq_nil_iff] at h
      exact absurd h.2 (hr rfl)
    | some tr =>
      dsimp only at h
      split at h
      · simp at h
      · exact List.append_eq_nil_iff.mp h

theorem checkTree_quiet : ∀ (t : W ERes), (∀ a ∈ t.atoms, NV a) → (checkTree t).1 = [] → ∀ a ∈ t.atoms, a.1 = []
  | .atom a, _, h => by intro b hb; simp [W.atoms] at hb; subst hb; exact h
  | .pair l _ r, hnv, h => by
    unfold checkTree at h
    have hl : ∀ a ∈ l.atoms, NV a := fun a ha => hnv a (by simp [W.atoms, ha])
    have hr : ∀ a ∈ r.atoms, NV a := fun a ha => hnv a (by simp [W.atoms, ha])
    obtain ⟨q1, q2⟩ := checkPair_quiet (nv_checkTree l hl) (nv_checkTree r hr) h
    intro a ha
    simp only [W.atoms, List.mem_append] at ha
    rcases ha with ha | ha
    · exact checkTree_quiet l hl q1 a ha
    · exact checkTree_quiet r hr q2 a ha

theorem atoms_map {α β : Type} (f : α → β) : ∀ (t : W α), (t.map f).atoms = t.atoms.map f
  | .atom a => rfl
  | .pair l _ r => by simp [W.map, W.atoms, atoms_map f l, atoms_map f r]

theorem denTree_evmem {γ : Type} (dv : γ → Den) : ∀ (t : W γ), ∀ ev ∈ (denTree (t.map dv)).1, ∃ a ∈ t.atoms, ev ∈ (dv a).1
  | .atom a, ev, h => ⟨a, by simp [W.atoms], h⟩
  | .pair l _ r, ev, h => by
    simp only [W.map, denTree, List.mem_append] at h
    rcases h with h | h
    · obtain ⟨a, ha, he⟩ := denTree_evmem dv l ev h
      exact ⟨a, by simp [W.atoms, ha], he⟩
    · obtain ⟨a, ha, he⟩ := denTree_evmem dv r ev h
      exact ⟨a, by simp [W.atoms, ha], he⟩

/-- a tree of operands: when the checker is quiet on the tree, it is quiet on every operand -/
theorem tree_lock {γ : Type} (cv : γ → ERes) (dv : γ → Den) (P : DStmt → Prop) (t : W γ)
    (hnv : ∀ a ∈ t.atoms, NV (cv a)) (hp : ∀ a ∈ t.atoms, (cv a).1 = [] → ∀ ev ∈ (dv a).1, P ev)
    (hq : (checkTree (t.map cv)).1 = []) : ∀ ev ∈ (denTree (t.map dv)).1, P ev := by
  intro ev hev
  obtain ⟨a, ha, he⟩ := denTree_evmem dv t ev hev
  have hq' := checkTree_quiet (t.map cv) (by
    intro c hc
    rw [atoms_map, List.mem_map] at hc
    obtain ⟨a', ha', rfl⟩ := hc
    exact hnv a' ha') hq (cv a) (by rw [atoms_map]; exact List.mem_map.mpr ⟨a, ha, rfl⟩)
  exact hp a ha hq' ev he

/-! ### Arguments -/

theorem checkArgs_quiet : ∀ (as : List ERes) (ps : List Ty), (∀ a ∈ as, NV a) → as.length ≤ ps.length →
    checkArgs as ps = [] → as.length = ps.length ∧ ∀ a ∈ as, a.1 = []
  | [], [], _, _, _ => ⟨rfl, by intro a h; cases h⟩
  | [], _ :: _, _, _, h => by simp [checkArgs] at h
  | _ :: _, [], _, hl, _ => by simp at hl
  | (va, none) :: as, tp :: ps, hnv, _, h => by
    unfold checkArgs at h
    exact absurd h (hnv (va, none) (by simp) rfl)
  | (va, some ta) :: as, tp :: ps, hnv, hl, h => by
    unfold checkArgs at h
    split at h
    · simp at h
    · rw [List.append_eq_nil_iff] at h
      obtain ⟨q1, q2⟩ := checkArgs_quiet as ps (fun a ha => hnv a (by simp [ha])) (by simpa using hl) h.2
      refine ⟨by simp [q1], ?_⟩
      intro a ha
      simp only [List.mem_cons] at ha
      rcases ha with rfl | ha
      · exact h.1
      · exact q2 a ha

theorem nv_checkCall (rg : RGlobals) (f : Name) (args : List ERes) : NV (checkCall rg f args) := by
  unfold checkCall
  split
  · exact nv_eFail _ _ _
  · split
    · exact nv_eFail _ _ _
    · dsimp only
      split
      · rename_i h
        intro _ hnil
        have hnil' : checkArgs args _ = [] := hnil
        rw [hnil'] at h; simp at h
      · intro h; cases h

theorem specArgs_len (ss : SpecSt) : ∀ (as : List Expr), (specArgs false ss as).2.length = as.length
  | [] => by simp [specArgs]
  | e :: es => by unfold specArgs; simp [specArgs_len ss es]

/-! ### Expressions -/

theorem nv_checkVar (rg : RGlobals) (sc : Scope) (x : Name) : NV (checkVar rg sc x) := by
  unfold checkVar
  split
  · exact nv_eOk _
  · split
    · exact nv_eOk _
    · exact nv_eFail _ _ _

theorem nv_checkField (rg : RGlobals) (sc : Scope) (x a : Name) : NV (checkField rg sc x a) := by
  unfold checkField
  split
  · exact nv_eFail _ _ _
  · split
    · split
      · exact nv_eFail _ _ _
      · split
        · exact nv_eFail _ _ _
        · split
          · exact nv_eFail _ _ _
          · exact nv_eOk _
    · exact nv_eFail _ _ _

mutual
theorem lockE (rg : RGlobals) (R : Ty) (sc : Scope) (ss : SpecSt) :
    ∀ e, NV (checkExpr rg sc e) ∧ ((checkExpr rg sc e).1 = [] → ∀ ev ∈ (specExpr false ss e).1, EvOK rg R ev)
  | .mk v rest => by
    unfold checkExpr specExpr
    simp only [buildTree, Bool.false_eq_true, if_false, precTree]
    rw [checkRest_eq, specRest_eq, foldChain_map Generated.prio (checkVal rg sc), foldChain_map Generated.prio (specVal false ss)]
    have hat : ∀ a ∈ (foldChain Generated.prio v (chainTail rest)).atoms,
        NV (checkVal rg sc a) ∧ ((checkVal rg sc a).1 = [] → ∀ ev ∈ (specVal false ss a).1, EvOK rg R ev) := by
      intro a ha
      rcases foldChain_atoms_subset Generated.prio v (chainTail rest) a ha with h | h
      · rw [h]; exact lockV rg R sc ss v
      · simp at h
        obtain ⟨o, h⟩ := h
        exact lockC rg R sc ss rest o a h
    refine ⟨nv_checkTree _ ?_, tree_lock _ _ _ _ (fun a ha => (hat a ha).1) (fun a ha => (hat a ha).2)⟩
    intro c hc
    rw [atoms_map, List.mem_map] at hc
    obtain ⟨a, ha, rfl⟩ := hc
    exact (hat a ha).1
theorem lockC (rg : RGlobals) (R : Ty) (sc : Scope) (ss : SpecSt) :
    ∀ r, ∀ o a, (o, a) ∈ chainTail r →
      NV (checkVal rg sc a) ∧ ((checkVal rg sc a).1 = [] → ∀ ev ∈ (specVal false ss a).1, EvOK rg R ev)
  | none => by intro o a h; simp [chainTail] at h
  | some (op, .mk v rest) => by
    intro o a h
    unfold chainTail at h
    simp at h
    rcases h with ⟨_, ha⟩ | h
    · rw [ha]; exact lockV rg R sc ss v
    · exact lockC rg R sc ss rest o a h
theorem lockV (rg : RGlobals) (R : Ty) (sc : Scope) (ss : SpecSt) :
    ∀ v, NV (checkVal rg sc v) ∧ ((checkVal rg sc v).1 = [] → ∀ ev ∈ (specVal false ss v).1, EvOK rg R ev)
  | .var n => by
    unfold checkVal specVal
    exact ⟨nv_checkVar rg sc n, by intro _ ev h; cases h⟩
  | .lit v => by
    unfold checkVal specVal
    exact ⟨nv_eOk _, by intro _ ev h; cases h⟩
  | .call f args => by
    unfold checkVal specVal
    rw [checkExprs_eq]
    refine ⟨nv_checkCall _ _ _, ?_⟩
    intro hq ev hev
    dsimp only at hev
    have hargs := lockA rg R sc ss args
    unfold checkCall at hq
    cases hf : rlookup f rg.funcs with
    | none => rw [hf] at hq; simp [eFail] at hq
    | some pr =>
      obtain ⟨ps, res⟩ := pr
      rw [hf] at hq
      dsimp only at hq
      split at hq
      · simp [eFail] at hq
      · rename_i hlen
        have hvs : checkArgs (args.map (checkExpr rg sc)) ps = [] := by
          split at hq <;> exact hq
        obtain ⟨q1, q2⟩ := checkArgs_quiet _ ps (by
          intro a ha
          rw [List.mem_map] at ha
          obtain ⟨e, he, rfl⟩ := ha
          exact (hargs e he).1) (by simpa using Nat.le_of_not_lt hlen) hvs
        rw [List.mem_append] at hev
        rcases hev with hev | hev
        · exact lockAs rg R sc ss args (fun e he => (hargs e he).2 (q2 _ (List.mem_map.mpr ⟨e, he, rfl⟩))) ev hev
        · simp only [List.mem_singleton] at hev
          subst hev
          exact ⟨ps, res, hf, by rw [specArgs_len]; simpa using q1⟩
  | .field v a => by
    unfold checkVal specVal
    exact ⟨nv_checkField rg sc v a, by intro _ ev h; cases h⟩
  | .sub e => by unfold checkVal specVal; exact lockE rg R sc ss e
  | .ext tag ty => by
    unfold checkVal specVal
    exact ⟨nv_eOk _, by intro _ ev h; simp at h; subst h; trivial⟩
theorem lockA (rg : RGlobals) (R : Ty) (sc : Scope) (ss : SpecSt) :
    ∀ (as : List Expr), ∀ e ∈ as,
      NV (checkExpr rg sc e) ∧ ((checkExpr rg sc e).1 = [] → ∀ ev ∈ (specExpr false ss e).1, EvOK rg R ev)
  | [] => by intro e h; cases h
  | a :: as => by
    intro e h
    simp at h
    rcases h with rfl | h
    · exact lockE rg R sc ss e
    · exact lockA rg R sc ss as e h
theorem lockAs (rg : RGlobals) (R : Ty) (sc : Scope) (ss : SpecSt) :
    ∀ (as : List Expr), (∀ e ∈ as, ∀ ev ∈ (specExpr false ss e).1, EvOK rg R ev) →
      ∀ ev ∈ (specArgs false ss as).1, EvOK rg R ev
  | [], _ => by intro ev h; simp [specArgs] at h
  | a :: as, h => by
    intro ev hev
    unfold specArgs at hev
    simp only [List.mem_append] at hev
    rcases hev with hev | hev
    · exact h a (by simp) ev hev
    · exact lockAs rg R sc ss as (fun e he => h e (by simp [he])) ev hev
end

/-! ### Statements -/

structure Lk (rg : RGlobals) (R : Ty) (rs : RS) (ss : SpecSt) : Prop where
  quiet : rs.viols = []
  scope : rs.scope = ss.tscope
  evs : ∀ ev ∈ ss.out, EvOK rg R ev

theorem nil_of_rext {rs rs' : RS} (h : RExt rs rs') (h' : rs'.viols = []) : rs.viols = [] := by
  obtain ⟨Δ, hΔ⟩ := h
  rw [hΔ, List.append_eq_nil_iff] at h'
  exact h'.1

theorem add_nil {rs : RS} {vs : List Viol} (h : (rs.add vs).viols = []) : rs.viols = [] ∧ vs = [] := by
  simpa [RS.add] using h

variable {rg : RGlobals} {R : Ty}

theorem lk_emits {rs : RS} {ss : SpecSt} (h : Lk rg R rs ss) (evs : List DStmt) (he : ∀ ev ∈ evs, EvOK rg R ev) :
    Lk rg R rs (ss.emits evs) :=
  ⟨h.quiet, h.scope, by
    intro ev hev
    simp only [SpecSt.emits, List.mem_append] at hev
    rcases hev with hev | hev
    · exact h.evs ev hev
    · exact he ev hev⟩

theorem lk_emit {rs : RS} {ss : SpecSt} (h : Lk rg R rs ss) (ev : DStmt) (he : EvOK rg R ev) : Lk rg R rs (ss.emit ev) :=
  lk_emits h [ev] (by intro e h; simp at h; subst h; exact he)

theorem lock_let (b : LetB) {rs : RS} {ss : SpecSt} (h : Lk rg R rs ss) (hq : (checkLet rg b rs).viols = []) :
    Lk rg R (checkLet rg b rs) (specLet false rg b ss) := by
  have hE := lockE rg R rs.scope ss b.value
  unfold checkLet at hq ⊢
  unfold specLet
  rw [← h.scope]
  cases hc : checkExpr rg rs.scope b.value with
  | mk vs t =>
    rw [hc] at hq hE
    cases t with
    | none =>
      dsimp only at hq
      exact absurd (add_nil hq).2 (hE.1 rfl)
    | some t =>
      dsimp only at hq ⊢
      split at hq
      · simp [RS.viol, RS.add] at hq
      · rename_i hbad
        rw [if_neg hbad]
        obtain ⟨q1, q2⟩ := add_nil hq
        refine ⟨hq, ?_, ?_⟩
        · simp [SpecSt.declare, SpecSt.emit, SpecSt.emits, RS.add, h.scope]
        · intro ev hev
          simp only [SpecSt.declare, SpecSt.emit, SpecSt.emits, List.mem_append, List.mem_singleton] at hev
          rcases hev with (hev | hev) | hev
          · exact h.evs ev hev
          · exact hE.2 q2 ev hev
          · subst hev; trivial

theorem lock_bind (b : Bind) {rs : RS} {ss : SpecSt} (h : Lk rg R rs ss) (hq : (checkBind rg b rs).viols = []) :
    Lk rg R (checkBind rg b rs) (specBind false b ss) := by
  have hE := lockE rg R rs.scope ss b.value
  have hx := rext_checkBind rg b rs
  have hsc : (checkBind rg b rs).scope = rs.scope := by
    unfold checkBind
    split
    · rfl
    · dsimp only
      split
      · rfl
      · split
        · rfl
        · split <;> rfl
  have hvs : (checkExpr rg rs.scope b.value).1 = [] := by
    unfold checkBind at hq
    cases hc : checkExpr rg rs.scope b.value with
    | mk vs t =>
      rw [hc] at hq hE
      cases t with
      | none => exact absurd (add_nil hq).2 (hE.1 rfl)
      | some t =>
        dsimp only at hq
        have : RExt (rs.add vs) (match (rs.add vs).scope.lookup b.name with
            | none => (rs.add vs).viol "B2-assign" .valueNotFound b.name
            | some (tv, m) =>
              if !m then (rs.add vs).viol "B8-mutable" .valueIsNotMutable b.name
              else if tv ≠ t then (rs.add vs).viol "B8-type" .wrongExpressionType b.name
              else rs.add vs) := by
          split
          · exact rext_viol _ _ _ _
          · split
            · exact rext_viol _ _ _ _
            · split
              · exact rext_viol _ _ _ _
              · exact RExt.refl _
        exact (add_nil (nil_of_rext this hq)).2
  unfold specBind
  refine ⟨hq, by rw [hsc]; exact h.scope, ?_⟩
  intro ev hev
  simp only [SpecSt.emit, SpecSt.emits, List.mem_append, List.mem_singleton] at hev
  rcases hev with (hev | hev) | hev
  · exact h.evs ev hev
  · exact hE.2 hvs ev hev
  · subst hev; trivial

theorem lock_callS (c : CallS) {rs : RS} {ss : SpecSt} (h : Lk rg R rs ss) (hq : (checkCallS rg c rs).viols = []) :
    Lk rg R (checkCallS rg c rs) (specCallS false c ss) := by
  have hV := lockV rg R rs.scope ss (.call c.name c.args)
  unfold checkVal at hV
  unfold checkCallS at hq ⊢
  unfold specCallS
  exact ⟨hq, h.scope, (lk_emits h _ (hV.2 (add_nil hq).2)).evs⟩

theorem lockL (sc : Scope) (ss : SpecSt) : ∀ (lc : LogicCond), checkLogic rg sc lc = [] →
    ∀ ev ∈ (specLogic false ss lc).1, EvOK rg R ev
  | .mk c right, hq => by
    have hl := lockE rg R sc ss c.left
    have hr := lockE rg R sc ss c.right
    unfold checkLogic at hq
    cases hcl : checkExpr rg sc c.left with
    | mk vl tl =>
      cases hcr : checkExpr rg sc c.right with
      | mk vr tr =>
        rw [hcl] at hl
        rw [hcr] at hr
        simp only [hcl, hcr] at hq
        cases tl with
        | none => simp at hq
        | some tl =>
          cases tr with
          | none => simp at hq
          | some tr =>
            dsimp only at hq
            split at hq
            · simp at hq
            · split at hq
              · simp at hq
              · cases right with
                | none =>
                  dsimp only at hq
                  rw [List.append_eq_nil_iff] at hq
                  intro ev hev
                  unfold specLogic at hev
                  simp only [List.mem_append] at hev
                  rcases hev with hev | hev
                  · exact hl.2 hq.1 ev hev
                  · exact hr.2 hq.2 ev hev
                | some p =>
                  obtain ⟨lg, rc⟩ := p
                  dsimp only at hq
                  rw [List.append_eq_nil_iff, List.append_eq_nil_iff] at hq
                  intro ev hev
                  unfold specLogic at hev
                  simp only [List.mem_append] at hev
                  rcases hev with (hev | hev) | hev
                  · exact hl.2 hq.1.1 ev hev
                  · exact hr.2 hq.1.2 ev hev
                  · exact lockL sc ss rc hq.2 ev hev

theorem lock_ifCond (c : IfCond) {rs : RS} {ss : SpecSt} (h : Lk rg R rs ss) (hq : (checkIfCond rg c rs).viols = []) :
    Lk rg R (checkIfCond rg c rs) (specIfCond false c ss) := by
  unfold checkIfCond at hq ⊢
  unfold specIfCond
  cases c with
  | single e =>
    dsimp only at hq ⊢
    exact ⟨hq, h.scope, (lk_emit (lk_emits h _ ((lockE rg R rs.scope ss e).2 (add_nil hq).2)) (.branch (specExpr false ss e).2) trivial).evs⟩
  | logic lc =>
    dsimp only at hq ⊢
    exact ⟨hq, h.scope, (lk_emit (lk_emits h _ (lockL rs.scope ss lc (add_nil hq).2)) (.branch (specLogic false ss lc).2) trivial).evs⟩

theorem lock_nestedRet (e : Expr) {rs : RS} {ss : SpecSt} (h : Lk rg R rs ss)
    (hq : (checkNestedRet rg R e rs).1.viols = []) :
    Lk rg R (checkNestedRet rg R e rs).1 (specJret false rg e ss) := by
  have hE := lockE rg R rs.scope ss e
  unfold checkNestedRet at hq ⊢
  unfold specJret
  rw [← h.scope]
  cases hc : checkExpr rg rs.scope e with
  | mk vs t =>
    rw [hc] at hq hE
    cases t with
    | none => exact absurd (add_nil hq).2 (hE.1 rfl)
    | some t =>
      dsimp only at hq ⊢
      have hty : t = R := by
        by_cases ht : t = R
        · exact ht
        · exfalso
          rw [if_pos ht] at hq
          simp [RS.add] at hq
      have hvs : vs = [] := by
        rw [if_neg (by simpa using hty)] at hq
        split at hq
        · simp [RS.add] at hq
        · exact (add_nil hq).2
      refine ⟨hq, ?_, ?_⟩
      · rw [if_neg (by simpa using hty)]
        split <;> simp [RS.add, SpecSt.emit, SpecSt.emits, h.scope]
      · intro ev hev
        simp only [SpecSt.emit, SpecSt.emits, List.mem_append, List.mem_singleton] at hev
        rcases hev with (hev | hev) | hev
        · exact h.evs ev hev
        · exact hE.2 hvs ev hev
        · subst hev; exact hty

theorem lk_codeAfter (rc bc cc : Bool) {rs : RS} {ss : SpecSt} (h : Lk rg R rs ss) (hq : (codeAfter rc bc cc rs).viols = []) :
    Lk rg R (codeAfter rc bc cc rs) ss := by
  refine ⟨hq, ?_, h.evs⟩
  rw [← h.scope]
  unfold codeAfter
  cases rc <;> cases bc <;> cases cc <;> rfl

theorem lk_push {rs : RS} {ss : SpecSt} (h : Lk rg R rs ss) : Lk rg R rs.push ss.push :=
  ⟨h.quiet, by simp [RS.push, SpecSt.push, h.scope], h.evs⟩

theorem lk_pop {rs : RS} {ss : SpecSt} (h : Lk rg R rs ss) : Lk rg R rs.pop ss.pop :=
  ⟨h.quiet, by simp [RS.pop, SpecSt.pop, h.scope], h.evs⟩

/-! ### Control constructs -/

theorem lk_seq {rs : RS} {ss : SpecSt} (rc bc cc : Bool) (f : RS → RS) (F : SpecSt → SpecSt) (k : RS → RS) (K : SpecSt → SpecSt)
    (h : Lk rg R rs ss) (hq : (k (f (codeAfter rc bc cc rs))).viols = [])
    (hk : ∀ x, RExt x (k x)) (hf : ∀ x, RExt x (f x))
    (lf : ∀ x y, Lk rg R x y → (f x).viols = [] → Lk rg R (f x) (F y))
    (lk : ∀ x y, Lk rg R x y → (k x).viols = [] → Lk rg R (k x) (K y)) :
    Lk rg R (k (f (codeAfter rc bc cc rs))) (K (F ss)) := by
  have q1 := nil_of_rext (hk _) hq
  have q0 := nil_of_rext (hf _) q1
  exact lk _ _ (lf _ _ (lk_codeAfter rc bc cc h q0) q1) hq

mutual
theorem lock_if : ∀ (i : IfStmt) (rs : RS) (ss : SpecSt), Lk rg R rs ss →
    (checkIf rg R i rs).viols = [] → Lk rg R (checkIf rg R i rs) (specIf false rg i ss)
  | .mk cond body els elif, rs, ss, h, hq => by
    unfold checkIf at hq ⊢
    unfold specIf
    dsimp only at hq ⊢
    have hx0 : RExt rs (if (els.isSome && elif.isSome) = true then rs.viol "B10" .ifElseDuplicated "if-condition".toList else rs) := by
      split
      · exact rext_viol _ _ _ _
      · exact RExt.refl _
    have hs0 : (if (els.isSome && elif.isSome) = true then rs.viol "B10" .ifElseDuplicated "if-condition".toList else rs).viols = [] →
        (if (els.isSome && elif.isSome) = true then rs.viol "B10" .ifElseDuplicated "if-condition".toList else rs) = rs := by
      split
      · intro hv; simp [RS.viol, RS.add] at hv
      · intro _; rfl
    generalize (if (els.isSome && elif.isSome) = true then rs.viol "B10" .ifElseDuplicated "if-condition".toList else rs) = s0 at hq hx0 hs0 ⊢
    have x1 := rext_checkIfCond rg cond s0.push
    have x2 := rext_checkBodies rg R body (checkIfCond rg cond s0.push)
    have q3 : (checkBodies rg R body (checkIfCond rg cond s0.push)).pop.viols = [] := by
      cases els with
      | some eb => dsimp only at hq; exact nil_of_rext (rext_pushpop (rext_checkBodies rg R eb)) hq
      | none =>
        cases elif with
        | some ei => dsimp only at hq; exact nil_of_rext (rext_checkIf rg R ei _) hq
        | none => exact hq
    have q2 : (checkBodies rg R body (checkIfCond rg cond s0.push)).viols = [] := q3
    have q1 : (checkIfCond rg cond s0.push).viols = [] := nil_of_rext x2 q2
    have q0 : s0.viols = [] := nil_of_rext x1 q1
    have e0 := hs0 q0
    subst e0
    have l1 := lock_ifCond (rg := rg) (R := R) cond (lk_push h) q1
    have l2 := lock_bodies body _ _ l1 q2
    have l3 := lk_pop l2
    cases els with
    | some eb =>
      dsimp only at hq ⊢
      exact lk_pop (lock_bodies eb _ _ (lk_push l3) hq)
    | none =>
      cases elif with
      | some ei =>
        dsimp only at hq ⊢
        exact lock_if ei _ _ l3 hq
      | none => exact l3
theorem lock_bodies : ∀ (b : IfBodies) (rs : RS) (ss : SpecSt), Lk rg R rs ss →
    (checkBodies rg R b rs).viols = [] → Lk rg R (checkBodies rg R b rs) (specBodies false rg b ss)
  | .ifb l, rs, ss, h, hq => by
    unfold checkBodies at hq ⊢
    unfold specBodies
    exact lock_ifBody l false rs ss h hq
  | .loopb l, rs, ss, h, hq => by
    unfold checkBodies at hq ⊢
    unfold specBodies
    exact lock_ifLoopBody l false false false rs ss h hq
theorem lock_ifBody : ∀ (l : List IfBodyStmt) (rc : Bool) (rs : RS) (ss : SpecSt), Lk rg R rs ss →
    (checkIfBody rg R l rc rs).viols = [] → Lk rg R (checkIfBody rg R l rc rs) (specIfBody false rg l ss)
  | [], _, rs, ss, h, _ => by unfold checkIfBody specIfBody; exact h
  | st :: tl, rc, rs, ss, h, hq => by
    unfold checkIfBody at hq ⊢
    dsimp only at hq ⊢
    cases st with
    | letB b =>
      unfold specIfBody
      exact lk_seq rc false false (checkLet rg b) (specLet false rg b) (checkIfBody rg R tl rc) (specIfBody false rg tl) h hq
        (rext_checkIfBody rg R tl rc) (rext_checkLet rg b) (fun _ _ => lock_let b) (fun x y => lock_ifBody tl rc x y)
    | bind b =>
      unfold specIfBody
      exact lk_seq rc false false (checkBind rg b) (specBind false b) (checkIfBody rg R tl rc) (specIfBody false rg tl) h hq
        (rext_checkIfBody rg R tl rc) (rext_checkBind rg b) (fun _ _ => lock_bind b) (fun x y => lock_ifBody tl rc x y)
    | call c =>
      unfold specIfBody
      exact lk_seq rc false false (checkCallS rg c) (specCallS false c) (checkIfBody rg R tl rc) (specIfBody false rg tl) h hq
        (rext_checkIfBody rg R tl rc) (rext_checkCallS rg c) (fun _ _ => lock_callS c) (fun x y => lock_ifBody tl rc x y)
    | ifS i =>
      unfold specIfBody
      exact lk_seq rc false false (checkIf rg R i) (specIf false rg i) (checkIfBody rg R tl rc) (specIfBody false rg tl) h hq
        (rext_checkIfBody rg R tl rc) (rext_checkIf rg R i) (fun x y => lock_if i x y) (fun x y => lock_ifBody tl rc x y)
    | loop b =>
      unfold specIfBody
      exact lk_seq rc false false (fun s => (checkLoopBody rg R b false false false s.push).pop) (fun ss => (specLoopBody false rg b ss.push).pop) (checkIfBody rg R tl rc) (specIfBody false rg tl) h hq
        (rext_checkIfBody rg R tl rc) (fun x => rext_pushpop (rext_checkLoopBody rg R b false false false)) (fun x y hxy hv => lk_pop (lock_loopBody b false false false x.push y.push (lk_push hxy) hv)) (fun x y => lock_ifBody tl rc x y)
    | ret e =>
      unfold specIfBody
      dsimp only at hq ⊢
      have q0 : (codeAfter rc false false rs).viols = [] := by
        have h1 := rext_checkNestedRet rg R e (codeAfter rc false false rs)
        generalize checkNestedRet rg R e (codeAfter rc false false rs) = q at hq h1
        obtain ⟨s1, r⟩ := q
        exact nil_of_rext h1 (nil_of_rext (rext_checkIfBody rg R tl (rc || r) s1) hq)
      have h0 := lk_codeAfter rc false false h q0
      have h1 := fun hv => lock_nestedRet (rg := rg) (R := R) e h0 hv
      generalize checkNestedRet rg R e (codeAfter rc false false rs) = q at hq h1 ⊢
      obtain ⟨s1, r⟩ := q
      dsimp only at hq h1 ⊢
      exact lock_ifBody tl (rc || r) s1 _ (h1 (nil_of_rext (rext_checkIfBody rg R tl (rc || r) s1) hq)) hq
theorem lock_ifLoopBody : ∀ (l : List IfLoopStmt) (rc bc cc : Bool) (rs : RS) (ss : SpecSt), Lk rg R rs ss →
    (checkIfLoopBody rg R l rc bc cc rs).viols = [] → Lk rg R (checkIfLoopBody rg R l rc bc cc rs) (specIfLoopBody false rg l ss)
  | [], _, _, _, rs, ss, h, _ => by unfold checkIfLoopBody specIfLoopBody; exact h
  | st :: tl, rc, bc, cc, rs, ss, h, hq => by
    unfold checkIfLoopBody at hq ⊢
    dsimp only at hq ⊢
    cases st with
    | letB b =>
      unfold specIfLoopBody
      exact lk_seq rc bc cc (checkLet rg b) (specLet false rg b) (checkIfLoopBody rg R tl rc bc cc) (specIfLoopBody false rg tl) h hq
        (rext_checkIfLoopBody rg R tl rc bc cc) (rext_checkLet rg b) (fun _ _ => lock_let b) (fun x y => lock_ifLoopBody tl rc bc cc x y)
    | bind b =>
      unfold specIfLoopBody
      exact lk_seq rc bc cc (checkBind rg b) (specBind false b) (checkIfLoopBody rg R tl rc bc cc) (specIfLoopBody false rg tl) h hq
        (rext_checkIfLoopBody rg R tl rc bc cc) (rext_checkBind rg b) (fun _ _ => lock_bind b) (fun x y => lock_ifLoopBody tl rc bc cc x y)
    | call c =>
      unfold specIfLoopBody
      exact lk_seq rc bc cc (checkCallS rg c) (specCallS false c) (checkIfLoopBody rg R tl rc bc cc) (specIfLoopBody false rg tl) h hq
        (rext_checkIfLoopBody rg R tl rc bc cc) (rext_checkCallS rg c) (fun _ _ => lock_callS c) (fun x y => lock_ifLoopBody tl rc bc cc x y)
    | ifS i =>
      unfold specIfLoopBody
      exact lk_seq rc bc cc (checkIf rg R i) (specIf false rg i) (checkIfLoopBody rg R tl rc bc cc) (specIfLoopBody false rg tl) h hq
        (rext_checkIfLoopBody rg R tl rc bc cc) (rext_checkIf rg R i) (fun x y => lock_if i x y) (fun x y => lock_ifLoopBody tl rc bc cc x y)
    | loop b =>
      unfold specIfLoopBody
      exact lk_seq rc bc cc (fun s => (checkLoopBody rg R b false false false s.push).pop) (fun ss => (specLoopBody false rg b ss.push).pop) (checkIfLoopBody rg R tl rc bc cc) (specIfLoopBody false rg tl) h hq
        (rext_checkIfLoopBody rg R tl rc bc cc) (fun x => rext_pushpop (rext_checkLoopBody rg R b false false false)) (fun x y hxy hv => lk_pop (lock_loopBody b false false false x.push y.push (lk_push hxy) hv)) (fun x y => lock_ifLoopBody tl rc bc cc x y)
    | ret e =>
      unfold specIfLoopBody
      dsimp only at hq ⊢
      have q0 : (codeAfter rc bc cc rs).viols = [] := by
        have h1 := rext_checkNestedRet rg R e (codeAfter rc bc cc rs)
        generalize checkNestedRet rg R e (codeAfter rc bc cc rs) = q at hq h1
        obtain ⟨s1, r⟩ := q
        exact nil_of_rext h1 (nil_of_rext (rext_checkIfLoopBody rg R tl (rc || r) bc cc s1) hq)
      have h0 := lk_codeAfter rc bc cc h q0
      have h1 := fun hv => lock_nestedRet (rg := rg) (R := R) e h0 hv
      generalize checkNestedRet rg R e (codeAfter rc bc cc rs) = q at hq h1 ⊢
      obtain ⟨s1, r⟩ := q
      dsimp only at hq h1 ⊢
      exact lock_ifLoopBody tl (rc || r) bc cc s1 _ (h1 (nil_of_rext (rext_checkIfLoopBody rg R tl (rc || r) bc cc s1) hq)) hq
    | brk =>
      unfold specIfLoopBody
      have q0 : (codeAfter rc bc cc rs).viols = [] := nil_of_rext (rext_checkIfLoopBody rg R tl rc true cc _) hq
      exact lock_ifLoopBody tl rc true cc _ _ (lk_codeAfter rc bc cc h q0) hq
    | cont =>
      unfold specIfLoopBody
      have q0 : (codeAfter rc bc cc rs).viols = [] := nil_of_rext (rext_checkIfLoopBody rg R tl rc bc true _) hq
      exact lock_ifLoopBody tl rc bc true _ _ (lk_codeAfter rc bc cc h q0) hq
theorem lock_loopBody : ∀ (l : List LoopStmt) (rc bc cc : Bool) (rs : RS) (ss : SpecSt), Lk rg R rs ss →
    (checkLoopBody rg R l rc bc cc rs).viols = [] → Lk rg R (checkLoopBody rg R l rc bc cc rs) (specLoopBody false rg l ss)
  | [], _, _, _, rs, ss, h, _ => by unfold checkLoopBody specLoopBody; exact h
  | st :: tl, rc, bc, cc, rs, ss, h, hq => by
    unfold checkLoopBody at hq ⊢
    dsimp only at hq ⊢
    cases st with
    | letB b =>
      unfold specLoopBody
      exact lk_seq rc bc cc (checkLet rg b) (specLet false rg b) (checkLoopBody rg R tl rc bc cc) (specLoopBody false rg tl) h hq
        (rext_checkLoopBody rg R tl rc bc cc) (rext_checkLet rg b) (fun _ _ => lock_let b) (fun x y => lock_loopBody tl rc bc cc x y)
    | bind b =>
      unfold specLoopBody
      exact lk_seq rc bc cc (checkBind rg b) (specBind false b) (checkLoopBody rg R tl rc bc cc) (specLoopBody false rg tl) h hq
        (rext_checkLoopBody rg R tl rc bc cc) (rext_checkBind rg b) (fun _ _ => lock_bind b) (fun x y => lock_loopBody tl rc bc cc x y)
    | call c =>
      unfold specLoopBody
      exact lk_seq rc bc cc (checkCallS rg c) (specCallS false c) (checkLoopBody rg R tl rc bc cc) (specLoopBody false rg tl) h hq
        (rext_checkLoopBody rg R tl rc bc cc) (rext_checkCallS rg c) (fun _ _ => lock_callS c) (fun x y => lock_loopBody tl rc bc cc x y)
    | ifS i =>
      unfold specLoopBody
      exact lk_seq rc bc cc (checkIf rg R i) (specIf false rg i) (checkLoopBody rg R tl rc bc cc) (specLoopBody false rg tl) h hq
        (rext_checkLoopBody rg R tl rc bc cc) (rext_checkIf rg R i) (fun x y => lock_if i x y) (fun x y => lock_loopBody tl rc bc cc x y)
    | loop b =>
      unfold specLoopBody
      exact lk_seq rc bc cc (fun s => (checkLoopBody rg R b false false false s.push).pop) (fun ss => (specLoopBody false rg b ss.push).pop) (checkLoopBody rg R tl rc bc cc) (specLoopBody false rg tl) h hq
        (rext_checkLoopBody rg R tl rc bc cc) (fun x => rext_pushpop (rext_checkLoopBody rg R b false false false)) (fun x y hxy hv => lk_pop (lock_loopBody b false false false x.push y.push (lk_push hxy) hv)) (fun x y => lock_loopBody tl rc bc cc x y)
    | ret e =>
      unfold specLoopBody
      dsimp only at hq ⊢
      have q0 : (codeAfter rc bc cc rs).viols = [] := by
        have h1 := rext_checkNestedRet rg R e (codeAfter rc bc cc rs)
        generalize checkNestedRet rg R e (codeAfter rc bc cc rs) = q at hq h1
        obtain ⟨s1, r⟩ := q
        exact nil_of_rext h1 (nil_of_rext (rext_checkLoopBody rg R tl (rc || r) bc cc s1) hq)
      have h0 := lk_codeAfter rc bc cc h q0
      have h1 := fun hv => lock_nestedRet (rg := rg) (R := R) e h0 hv
      generalize checkNestedRet rg R e (codeAfter rc bc cc rs) = q at hq h1 ⊢
      obtain ⟨s1, r⟩ := q
      dsimp only at hq h1 ⊢
      exact lock_loopBody tl (rc || r) bc cc s1 _ (h1 (nil_of_rext (rext_checkLoopBody rg R tl (rc || r) bc cc s1) hq)) hq
    | brk =>
      unfold specLoopBody
      have q0 : (codeAfter rc bc cc rs).viols = [] := nil_of_rext (rext_checkLoopBody rg R tl rc true cc _) hq
      exact lock_loopBody tl rc true cc _ _ (lk_codeAfter rc bc cc h q0) hq
    | cont =>
      unfold specLoopBody
      have q0 : (codeAfter rc bc cc rs).viols = [] := nil_of_rext (rext_checkLoopBody rg R tl rc bc true _) hq
      exact lock_loopBody tl rc bc true _ _ (lk_codeAfter rc bc cc h q0) hq
end

/-! ### Function level -/

theorem lock_fnRet (e : Expr) (rc : Bool) {rs : RS} {ss : SpecSt} (h : Lk rg R rs ss)
    (hq : (checkFnRet rg R e rc rs).1.viols = []) :
    Lk rg R (checkFnRet rg R e rc rs).1 (specRet false e ss) := by
  have hE := lockE rg R rs.scope ss e
  have hsc : (checkFnRet rg R e rc rs).1.scope = rs.scope := by
    unfold checkFnRet
    dsimp only
    cases rc <;> (
      cases (checkExpr rg rs.scope e).2 with
      | none => rfl
      | some t =>
        dsimp only
        unfold checkFnRetTail
        dsimp only
        split <;> split <;> rfl)
  have hvs : (checkExpr rg rs.scope e).1 = [] := by
    unfold checkFnRet at hq
    dsimp only at hq
    have x1 : RExt (rs.add (checkExpr rg rs.scope e).1)
        (if rc = true then (rs.add (checkExpr rg rs.scope e).1).viol "B12-twice" .returnAlreadyCalled e.show
          else rs.add (checkExpr rg rs.scope e).1) := by
      split
      · exact rext_viol _ _ _ _
      · exact RExt.refl _
    generalize (if rc = true then (rs.add (checkExpr rg rs.scope e).1).viol "B12-twice" .returnAlreadyCalled e.show
          else rs.add (checkExpr rg rs.scope e).1) = s1 at hq x1
    cases ht : (checkExpr rg rs.scope e).2 with
    | none =>
      rw [ht] at hq
      exact (add_nil (nil_of_rext x1 hq)).2
    | some t =>
      rw [ht] at hq
      dsimp only at hq
      exact (add_nil (nil_of_rext x1 (nil_of_rext (rext_checkFnRetTail R e t s1) hq))).2
  unfold specRet
  refine ⟨hq, by rw [hsc]; exact h.scope, ?_⟩
  intro ev hev
  simp only [SpecSt.emit, SpecSt.emits, List.mem_append, List.mem_singleton] at hev
  rcases hev with (hev | hev) | hev
  · exact h.evs ev hev
  · exact hE.2 hvs ev hev
  · subst hev; trivial

theorem lock_body : ∀ (l : List BodyStmt) (rc : Bool) (rs : RS) (ss : SpecSt), Lk rg R rs ss →
    (checkBody rg R l rc rs).1.viols = [] → Lk rg R (checkBody rg R l rc rs).1 (specBody false rg l ss)
  | [], _, rs, ss, h, _ => by unfold checkBody specBody; exact h
  | st :: tl, rc, rs, ss, h, hq => by
    unfold checkBody at hq ⊢
    dsimp only at hq ⊢
    have hx0 : RExt rs (if rc = true then rs.viol "B12-after" .forbiddenCodeAfterReturnDeprecated wildcard else rs) := by
      split
      · exact rext_viol _ _ _ _
      · exact RExt.refl _
    have hs0 : (if rc = true then rs.viol "B12-after" .forbiddenCodeAfterReturnDeprecated wildcard else rs).viols = [] →
        (if rc = true then rs.viol "B12-after" .forbiddenCodeAfterReturnDeprecated wildcard else rs) = rs := by
      split
      · intro hv; simp [RS.viol, RS.add] at hv
      · intro _; rfl
    generalize (if rc = true then rs.viol "B12-after" .forbiddenCodeAfterReturnDeprecated wildcard else rs) = s0 at hq hx0 hs0 ⊢
    have step : ∀ (f : RS → RS) (F : SpecSt → SpecSt), (∀ x, RExt x (f x)) →
        (∀ x y, Lk rg R x y → (f x).viols = [] → Lk rg R (f x) (F y)) →
        (checkBody rg R tl rc (f s0)).1.viols = [] →
        Lk rg R (checkBody rg R tl rc (f s0)).1 (specBody false rg tl (F ss)) := by
      intro f F hf lf hq'
      have q1 := nil_of_rext (rext_checkBody R tl rc (f s0)) hq'
      have q0 := nil_of_rext (hf s0) q1
      have e0 := hs0 q0
      subst e0
      exact lock_body tl rc _ _ (lf _ _ h q1) hq'
    cases st with
    | letB b => unfold specBody; exact step (checkLet rg b) (specLet false rg b) (rext_checkLet rg b) (fun _ _ => lock_let b) hq
    | bind b => unfold specBody; exact step (checkBind rg b) (specBind false b) (rext_checkBind rg b) (fun _ _ => lock_bind b) hq
    | call c => unfold specBody; exact step (checkCallS rg c) (specCallS false c) (rext_checkCallS rg c) (fun _ _ => lock_callS c) hq
    | ifS i => unfold specBody; exact step (checkIf rg R i) (specIf false rg i) (rext_checkIf rg R i) (fun x y => lock_if i x y) hq
    | loop b =>
      unfold specBody
      exact step (fun s => (checkLoopBody rg R b false false false s.push).pop) (fun ss => (specLoopBody false rg b ss.push).pop)
        (fun x => rext_pushpop (rext_checkLoopBody rg R b false false false))
        (fun x y hxy hv => lk_pop (lock_loopBody b false false false x.push y.push (lk_push hxy) hv)) hq
    | expr e =>
      unfold specBody
      dsimp only at hq ⊢
      have x1 := rext_checkFnRet (rg := rg) R e rc s0
      have h1 := fun (h0 : Lk rg R s0 ss) hv => lock_fnRet (rg := rg) (R := R) e rc h0 hv
      generalize checkFnRet rg R e rc s0 = q at hq x1 h1 ⊢
      obtain ⟨s1, r⟩ := q
      dsimp only at hq x1 h1 ⊢
      have q1 := nil_of_rext (rext_checkBody R tl r s1) hq
      have e0 := hs0 (nil_of_rext x1 q1)
      subst e0
      exact lock_body tl r _ _ (h1 h q1) hq
    | ret e =>
      unfold specBody
      dsimp only at hq ⊢
      have x1 := rext_checkFnRet (rg := rg) R e rc s0
      have h1 := fun (h0 : Lk rg R s0 ss) hv => lock_fnRet (rg := rg) (R := R) e rc h0 hv
      generalize checkFnRet rg R e rc s0 = q at hq x1 h1 ⊢
      obtain ⟨s1, r⟩ := q
      dsimp only at hq x1 h1 ⊢
      have q1 := nil_of_rext (rext_checkBody R tl r s1) hq
      have e0 := hs0 (nil_of_rext x1 q1)
      subst e0
      exact lock_body tl r _ _ (h1 h q1) hq

theorem lock_params : ∀ (ps : List (Name × ATy)) (rs : RS) (ss : SpecSt), Lk rg R rs ss →
    (checkParams ps rs).viols = [] → Lk rg R (checkParams ps rs) (specParams ps ss)
  | [], rs, ss, h, _ => by unfold checkParams specParams; exact h
  | (n, t) :: rest, rs, ss, h, hq => by
    unfold checkParams at hq ⊢
    unfold specParams
    cases hl : rs.scope.lookup n with
    | some x =>
      rw [hl] at hq
      simp [RS.viol, RS.add] at hq
    | none =>
      rw [hl] at hq
      dsimp only at hq ⊢
      refine lock_params rest _ _ ⟨h.quiet, ?_, ?_⟩ hq
      · simp [SpecSt.declare, SpecSt.emit, h.scope]
      · intro ev hev
        simp only [SpecSt.declare, SpecSt.emit, List.mem_append, List.mem_singleton] at hev
        rcases hev with hev | hev
        · exact h.evs ev hev
        · subst hev; trivial

/-- a function on which the rule checker reports nothing: every event of its denotation is in order -/
theorem lock_fn (rg : RGlobals) (f : FnDecl) (hq : checkFn rg f = []) :
    ∀ ev ∈ specStmts false rg f, EvOK rg f.result.toTy ev := by
  unfold checkFn at hq
  dsimp only at hq
  unfold specStmts
  have x2 := rext_checkBody (rg := rg) f.result.toTy f.body false (checkParams f.params { scope := [[]], viols := [] })
  have h2 := fun h0 hv => lock_body (rg := rg) (R := f.result.toTy) f.body false
    (checkParams f.params { scope := [[]], viols := [] }) (specParams f.params SpecSt.init) h0 hv
  generalize checkBody rg f.result.toTy f.body false (checkParams f.params { scope := [[]], viols := [] }) = q at hq x2 h2
  obtain ⟨s2, rc⟩ := q
  dsimp only at hq x2 h2
  have q2 : s2.viols = [] := by
    cases rc
    · simp [RS.viol, RS.add] at hq
    · exact hq
  have q1 := nil_of_rext x2 q2
  have h1 := lock_params (rg := rg) (R := f.result.toTy) f.params { scope := [[]], viols := [] } SpecSt.init
    ⟨rfl, rfl, by intro ev h; cases h⟩ q1
  exact (h2 h1 q2).evs

end SemVerif
