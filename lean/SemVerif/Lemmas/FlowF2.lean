import SemVerif.Spec.Flow
import SemVerif.Spec.Findings
/-!
# Lemmas/FlowF2 — without the F2 pattern the F2 reading is the source semantics

`IfBodyStmt.f2L` & co. (Spec/Findings.lean) say that some if / else body contains an `if` that is
not its last statement.  When no body does, `lowerL true` (F2 built in) and `lowerL false` coincide.
-/
namespace SemVerif

mutual
theorem lowerF2_if : ∀ (i : IfStmt) (n : Nat), i.f2 = false → IfStmt.lower true i n = IfStmt.lower false i n
  | .mk cond body els elif, n, h => by
    unfold IfStmt.f2 at h
    simp only [Bool.or_eq_false_iff] at h
    unfold IfStmt.lower
    dsimp only
    rw [lowerF2_bodies body _ h.1.1]
    cases els with
    | some eb => dsimp only at h ⊢; rw [lowerF2_bodies eb _ h.1.2]
    | none =>
      cases elif with
      | some ei => dsimp only at h ⊢; rw [lowerF2_if ei _ h.2]
      | none => rfl
theorem lowerF2_bodies : ∀ (b : IfBodies) (n : Nat), b.f2 = false → IfBodies.lower true b n = IfBodies.lower false b n
  | .ifb l, n, h => by unfold IfBodies.f2 at h; unfold IfBodies.lower; exact lowerF2_ifBody l n h
  | .loopb l, n, h => by unfold IfBodies.f2 at h; unfold IfBodies.lower; exact lowerF2_ifLoopBody l n h
theorem lowerF2_ifBody : ∀ (l : List IfBodyStmt) (n : Nat), IfBodyStmt.f2L l = false →
    IfBodyStmt.lowerL true l n = IfBodyStmt.lowerL false l n
  | [], n, _ => by unfold IfBodyStmt.lowerL; rfl
  | [.ifS i], n, h => by
    unfold IfBodyStmt.f2L at h
    unfold IfBodyStmt.lowerL
    simp only [List.isEmpty_nil, Bool.not_true, Bool.and_false, Bool.false_eq_true, if_false]
    rw [lowerF2_if i n h]
    rfl
  | .ifS _ :: _ :: _, _, h => by unfold IfBodyStmt.f2L at h; cases h
  | .loop b :: tl, n, h => by
    unfold IfBodyStmt.f2L at h
    simp only [Bool.or_eq_false_iff] at h
    unfold IfBodyStmt.lowerL
    dsimp only
    rw [lowerF2_loopBody b n h.1, lowerF2_ifBody tl _ h.2]
  | .letB b :: tl, n, h => by
    unfold IfBodyStmt.f2L at h; unfold IfBodyStmt.lowerL; dsimp only; rw [lowerF2_ifBody tl _ h]
  | .bind b :: tl, n, h => by
    unfold IfBodyStmt.f2L at h; unfold IfBodyStmt.lowerL; dsimp only; rw [lowerF2_ifBody tl _ h]
  | .call c :: tl, n, h => by
    unfold IfBodyStmt.f2L at h; unfold IfBodyStmt.lowerL; dsimp only; rw [lowerF2_ifBody tl _ h]
  | .ret e :: tl, n, h => by
    unfold IfBodyStmt.f2L at h; unfold IfBodyStmt.lowerL; dsimp only; rw [lowerF2_ifBody tl _ h]
theorem lowerF2_ifLoopBody : ∀ (l : List IfLoopStmt) (n : Nat), IfLoopStmt.f2L l = false →
    IfLoopStmt.lowerL true l n = IfLoopStmt.lowerL false l n
  | [], n, _ => by unfold IfLoopStmt.lowerL; rfl
  | [.ifS i], n, h => by
    unfold IfLoopStmt.f2L at h
    unfold IfLoopStmt.lowerL
    simp only [List.isEmpty_nil, Bool.not_true, Bool.and_false, Bool.false_eq_true, if_false]
    rw [lowerF2_if i n h]
    rfl
  | .ifS _ :: _ :: _, _, h => by unfold IfLoopStmt.f2L at h; cases h
  | .loop b :: tl, n, h => by
    unfold IfLoopStmt.f2L at h
    simp only [Bool.or_eq_false_iff] at h
    unfold IfLoopStmt.lowerL
    dsimp only
    rw [lowerF2_loopBody b n h.1, lowerF2_ifLoopBody tl _ h.2]
  | .letB b :: tl, n, h => by
    unfold IfLoopStmt.f2L at h; unfold IfLoopStmt.lowerL; dsimp only; rw [lowerF2_ifLoopBody tl _ h]
  | .bind b :: tl, n, h => by
    unfold IfLoopStmt.f2L at h; unfold IfLoopStmt.lowerL; dsimp only; rw [lowerF2_ifLoopBody tl _ h]
  | .call c :: tl, n, h => by
    unfold IfLoopStmt.f2L at h; unfold IfLoopStmt.lowerL; dsimp only; rw [lowerF2_ifLoopBody tl _ h]
  | .ret e :: tl, n, h => by
    unfold IfLoopStmt.f2L at h; unfold IfLoopStmt.lowerL; dsimp only; rw [lowerF2_ifLoopBody tl _ h]
  | .brk :: tl, n, h => by
    unfold IfLoopStmt.f2L at h; unfold IfLoopStmt.lowerL; dsimp only; rw [lowerF2_ifLoopBody tl _ h]
  | .cont :: tl, n, h => by
    unfold IfLoopStmt.f2L at h; unfold IfLoopStmt.lowerL; dsimp only; rw [lowerF2_ifLoopBody tl _ h]
theorem lowerF2_loopBody : ∀ (l : List LoopStmt) (n : Nat), LoopStmt.f2L l = false →
    LoopStmt.lowerL true l n = LoopStmt.lowerL false l n
  | [], n, _ => by unfold LoopStmt.lowerL; rfl
  | .ifS i :: tl, n, h => by
    unfold LoopStmt.f2L at h
    simp only [Bool.or_eq_false_iff] at h
    unfold LoopStmt.lowerL
    dsimp only
    rw [lowerF2_if i n h.1, lowerF2_loopBody tl _ h.2]
  | .loop b :: tl, n, h => by
    unfold LoopStmt.f2L at h
    simp only [Bool.or_eq_false_iff] at h
    unfold LoopStmt.lowerL
    dsimp only
    rw [lowerF2_loopBody b n h.1, lowerF2_loopBody tl _ h.2]
  | .letB b :: tl, n, h => by
    unfold LoopStmt.f2L at h; unfold LoopStmt.lowerL; dsimp only; rw [lowerF2_loopBody tl _ h]
  | .bind b :: tl, n, h => by
    unfold LoopStmt.f2L at h; unfold LoopStmt.lowerL; dsimp only; rw [lowerF2_loopBody tl _ h]
  | .call c :: tl, n, h => by
    unfold LoopStmt.f2L at h; unfold LoopStmt.lowerL; dsimp only; rw [lowerF2_loopBody tl _ h]
  | .ret e :: tl, n, h => by
    unfold LoopStmt.f2L at h; unfold LoopStmt.lowerL; dsimp only; rw [lowerF2_loopBody tl _ h]
  | .brk :: tl, n, h => by
    unfold LoopStmt.f2L at h; unfold LoopStmt.lowerL; dsimp only; rw [lowerF2_loopBody tl _ h]
  | .cont :: tl, n, h => by
    unfold LoopStmt.f2L at h; unfold LoopStmt.lowerL; dsimp only; rw [lowerF2_loopBody tl _ h]
end

theorem lowerF2_body : ∀ (l : List BodyStmt) (n : Nat), BodyStmt.f2L l = false →
    BodyStmt.lowerL true l n = BodyStmt.lowerL false l n
  | [], n, _ => by unfold BodyStmt.lowerL; rfl
  | .ifS i :: tl, n, h => by
    unfold BodyStmt.f2L at h
    simp only [Bool.or_eq_false_iff] at h
    unfold BodyStmt.lowerL
    dsimp only
    rw [lowerF2_if i n h.1, lowerF2_body tl _ h.2]
  | .loop b :: tl, n, h => by
    unfold BodyStmt.f2L at h
    simp only [Bool.or_eq_false_iff] at h
    unfold BodyStmt.lowerL
    dsimp only
    rw [lowerF2_loopBody b n h.1, lowerF2_body tl _ h.2]
  | .letB b :: tl, n, h => by
    unfold BodyStmt.f2L at h; unfold BodyStmt.lowerL; dsimp only; rw [lowerF2_body tl _ h]
  | .bind b :: tl, n, h => by
    unfold BodyStmt.f2L at h; unfold BodyStmt.lowerL; dsimp only; rw [lowerF2_body tl _ h]
  | .call c :: tl, n, h => by
    unfold BodyStmt.f2L at h; unfold BodyStmt.lowerL; dsimp only; rw [lowerF2_body tl _ h]
  | .expr e :: tl, n, h => by
    unfold BodyStmt.f2L at h; unfold BodyStmt.lowerL; dsimp only; rw [lowerF2_body tl _ h]
  | .ret e :: tl, n, h => by
    unfold BodyStmt.f2L at h; unfold BodyStmt.lowerL; dsimp only; rw [lowerF2_body tl _ h]

/-- a function without the F2 pattern: the F2 reading is the source semantics -/
theorem flowF2_eq (f : FnDecl) (h : f.hasF2 = false) : f.flowF2 = f.flow := by
  unfold FnDecl.flowF2 FnDecl.flow
  unfold FnDecl.hasF2 at h
  rw [lowerF2_body f.body 0 h]

end SemVerif
