import SemVerif.Lemmas.SpecTree
import SemVerif.Spec.Denote
/-!
# Lemmas/SpecRef — the source denotation does not depend on which precedence-tree function is used

`specStmts true` brackets chains with the independent reference tree (`specTree`), `specStmts false`
with the operator-stack fold; the two trees are equal (`specTree_eq_fold`), so the denotations are.
-/
namespace SemVerif

theorem buildTree_ref {α : Type} (a : α) (rest : List (Op × α)) : buildTree true a rest = buildTree false a rest := by
  unfold buildTree
  simp only [if_true, Bool.false_eq_true, if_false]
  exact specTree_eq_fold Generated.prio a rest

mutual
theorem specExpr_ref (s : SpecSt) : ∀ e, specExpr true s e = specExpr false s e
  | .mk v rest => by
    unfold specExpr
    rw [buildTree_ref, specVal_ref s v, specRest_ref s rest]
theorem specRest_ref (s : SpecSt) : ∀ r, specRest true s r = specRest false s r
  | none => by unfold specRest; rfl
  | some (o, .mk v rest) => by
    unfold specRest
    rw [specVal_ref s v, specRest_ref s rest]
theorem specVal_ref (s : SpecSt) : ∀ v, specVal true s v = specVal false s v
  | .var x => by unfold specVal; rfl
  | .lit v => by unfold specVal; rfl
  | .call f args => by unfold specVal; rw [specArgs_ref s args]
  | .field x a => by unfold specVal; rfl
  | .sub e => by unfold specVal; exact specExpr_ref s e
  | .ext tag ty => by unfold specVal; rfl
theorem specArgs_ref (s : SpecSt) : ∀ as, specArgs true s as = specArgs false s as
  | [] => by unfold specArgs; rfl
  | e :: es => by unfold specArgs; rw [specExpr_ref s e, specArgs_ref s es]
end

theorem specLet_ref (g : RGlobals) (b : LetB) (s : SpecSt) : specLet true g b s = specLet false g b s := by
  unfold specLet; rw [specExpr_ref]
theorem specBind_ref (b : Bind) (s : SpecSt) : specBind true b s = specBind false b s := by
  unfold specBind; rw [specExpr_ref]
theorem specCallS_ref (c : CallS) (s : SpecSt) : specCallS true c s = specCallS false c s := by
  unfold specCallS; rw [specVal_ref]
theorem specLogic_ref (s : SpecSt) : ∀ lc, specLogic true s lc = specLogic false s lc
  | .mk c none => by unfold specLogic; rw [specExpr_ref, specExpr_ref]
  | .mk c (some (lg, rc)) => by unfold specLogic; rw [specExpr_ref, specExpr_ref, specLogic_ref s rc]
theorem specIfCond_ref (c : IfCond) (s : SpecSt) : specIfCond true c s = specIfCond false c s := by
  unfold specIfCond
  cases c with
  | single e => simp only [specExpr_ref]
  | logic lc => simp only [specLogic_ref]
theorem specJret_ref (e : Expr) (s : SpecSt) : specJret true rg e s = specJret false rg e s := by
  unfold specJret; rw [specExpr_ref]
theorem specRet_ref (e : Expr) (s : SpecSt) : specRet true e s = specRet false e s := by
  unfold specRet; rw [specExpr_ref]

mutual
theorem specIf_ref (g : RGlobals) : ∀ i s, specIf true g i s = specIf false g i s
  | .mk cond body els elif, s => by
    unfold specIf
    dsimp only
    rw [specIfCond_ref, specBodies_ref g body]
    cases els with
    | some eb => dsimp only; rw [specBodies_ref g eb]
    | none =>
      cases elif with
      | some ei => dsimp only; rw [specIf_ref g ei]
      | none => rfl
theorem specBodies_ref (g : RGlobals) : ∀ b s, specBodies true g b s = specBodies false g b s
  | .ifb l, s => by unfold specBodies; exact specIfBody_ref g l s
  | .loopb l, s => by unfold specBodies; exact specIfLoopBody_ref g l s
theorem specIfBody_ref (g : RGlobals) : ∀ l s, specIfBody true g l s = specIfBody false g l s
  | [], s => by unfold specIfBody; rfl
  | .letB b :: tl, s => by unfold specIfBody; rw [specLet_ref, specIfBody_ref g tl]
  | .bind b :: tl, s => by unfold specIfBody; rw [specBind_ref, specIfBody_ref g tl]
  | .call c :: tl, s => by unfold specIfBody; rw [specCallS_ref, specIfBody_ref g tl]
  | .ifS i :: tl, s => by unfold specIfBody; rw [specIf_ref g i, specIfBody_ref g tl]
  | .loop b :: tl, s => by unfold specIfBody; rw [specLoopBody_ref g b, specIfBody_ref g tl]
  | .ret e :: tl, s => by unfold specIfBody; rw [specJret_ref, specIfBody_ref g tl]
theorem specIfLoopBody_ref (g : RGlobals) : ∀ l s, specIfLoopBody true g l s = specIfLoopBody false g l s
  | [], s => by unfold specIfLoopBody; rfl
  | .letB b :: tl, s => by unfold specIfLoopBody; rw [specLet_ref, specIfLoopBody_ref g tl]
  | .bind b :: tl, s => by unfold specIfLoopBody; rw [specBind_ref, specIfLoopBody_ref g tl]
  | .call c :: tl, s => by unfold specIfLoopBody; rw [specCallS_ref, specIfLoopBody_ref g tl]
  | .ifS i :: tl, s => by unfold specIfLoopBody; rw [specIf_ref g i, specIfLoopBody_ref g tl]
  | .loop b :: tl, s => by unfold specIfLoopBody; rw [specLoopBody_ref g b, specIfLoopBody_ref g tl]
  | .ret e :: tl, s => by unfold specIfLoopBody; rw [specJret_ref, specIfLoopBody_ref g tl]
  | .brk :: tl, s => by unfold specIfLoopBody; exact specIfLoopBody_ref g tl s
  | .cont :: tl, s => by unfold specIfLoopBody; exact specIfLoopBody_ref g tl s
theorem specLoopBody_ref (g : RGlobals) : ∀ l s, specLoopBody true g l s = specLoopBody false g l s
  | [], s => by unfold specLoopBody; rfl
  | .letB b :: tl, s => by unfold specLoopBody; rw [specLet_ref, specLoopBody_ref g tl]
  | .bind b :: tl, s => by unfold specLoopBody; rw [specBind_ref, specLoopBody_ref g tl]
  | .call c :: tl, s => by unfold specLoopBody; rw [specCallS_ref, specLoopBody_ref g tl]
  | .ifS i :: tl, s => by unfold specLoopBody; rw [specIf_ref g i, specLoopBody_ref g tl]
  | .loop b :: tl, s => by unfold specLoopBody; rw [specLoopBody_ref g b, specLoopBody_ref g tl]
  | .ret e :: tl, s => by unfold specLoopBody; rw [specJret_ref, specLoopBody_ref g tl]
  | .brk :: tl, s => by unfold specLoopBody; exact specLoopBody_ref g tl s
  | .cont :: tl, s => by unfold specLoopBody; exact specLoopBody_ref g tl s
end

theorem specBody_ref (g : RGlobals) : ∀ l s, specBody true g l s = specBody false g l s
  | [], s => by unfold specBody; rfl
  | .letB b :: tl, s => by unfold specBody; rw [specLet_ref, specBody_ref g tl]
  | .bind b :: tl, s => by unfold specBody; rw [specBind_ref, specBody_ref g tl]
  | .call c :: tl, s => by unfold specBody; rw [specCallS_ref, specBody_ref g tl]
  | .ifS i :: tl, s => by unfold specBody; rw [specIf_ref g i, specBody_ref g tl]
  | .loop b :: tl, s => by unfold specBody; rw [specLoopBody_ref g b, specBody_ref g tl]
  | .expr e :: tl, s => by unfold specBody; rw [specRet_ref, specBody_ref g tl]
  | .ret e :: tl, s => by unfold specBody; rw [specRet_ref, specBody_ref g tl]

/-- the source denotation with the reference tree is the source denotation with the fold -/
theorem specStmts_ref (g : RGlobals) (f : FnDecl) : specStmts true g f = specStmts false g f := by
  unfold specStmts; rw [specBody_ref]

end SemVerif
