import SemVerif.Spec.Flow
/-!
# Lemmas/FlowLay — the layout relation between a structured flow and jump code (family T4)

`Lay K n flows code ex`: the instruction list `code` implements the structured `flows`, whose
events are numbered from `n`; `K` are the labels of the enclosing loop (begin, end, and whether the
end label is available for `break`); `ex` says where control is when `flows` ends normally — it
falls off the end of `code`, or it has jumped to a label.  The relation is purely syntactic; labels
are names.  `Lemmas/FlowSim.lean` shows that laid-out code run as a jump program does what the
structured flow does; `Lemmas/FlowAna.lean` shows that the analyzer emits laid-out code.
-/
namespace SemVerif

/-- neither a jump, a branch, a label nor a return -/
def Instr.straight (i : Instr) : Bool := i.targets.isEmpty && i.setsLabel.isNone && !i.isRet

def effCount (l : List Instr) : Nat := (l.filter Instr.isEffect).length

theorem effCount_append (a b : List Instr) : effCount (a ++ b) = effCount a + effCount b := by
  simp [effCount, List.filter_append]

theorem effCount_cons (i : Instr) (l : List Instr) : effCount (i :: l) = (if i.isEffect then 1 else 0) + effCount l := by
  unfold effCount; rw [List.filter_cons]; split <;> simp <;> omega

inductive Exit where
  | fall
  | jump (l : Name)

abbrev LoopK := Option (Name × Name × Bool)

/-- the last item is a return -/
def endsRet : List Flow → Bool
  | [] => false
  | [.ret _] => true
  | _ :: rest => endsRet rest

inductive Lay : LoopK → Nat → List Flow → List Instr → Exit → Prop
  | nil (K : LoopK) (n : Nat) : Lay K n [] [] .fall
  /-- an instruction that does nothing the flow sees -/
  | skip {K : LoopK} {n : Nat} {fl : List Flow} {c : List Instr} {e : Exit} (i : Instr)
      (hs : i.straight = true) (he : i.isEffect = false) : Lay K n fl c e → Lay K n fl (i :: c) e
  | label {K : LoopK} {n : Nat} {fl : List Flow} {c : List Instr} {e : Exit} (l : Name) :
      Lay K n fl c e → Lay K n fl (.setLabel l :: c) e
  /-- an effect instruction: one event -/
  | eff {K : LoopK} {n : Nat} {fl : List Flow} {c : List Instr} {e : Exit} (i : Instr)
      (hs : i.straight = true) (he : i.isEffect = true) : Lay K (n + 1) fl c e → Lay K n (.ev n :: fl) (i :: c) e
  /-- a return instruction ends the run; what follows (flows and code) is never executed -/
  | ret (K : LoopK) (n : Nat) (fl : List Flow) (i : Instr) (c : List Instr) (e : Exit) (hr : i.isRet = true) :
      Lay K n (.ret n :: fl) (i :: c) e
  | brk (n : Nat) (fl : List Flow) (lb le : Name) (c : List Instr) (e : Exit) :
      Lay (some (lb, le, true)) n (.brk :: fl) (.jumpTo le :: c) e
  | cont (n : Nat) (fl : List Flow) (lb le : Name) (b : Bool) (c : List Instr) (e : Exit) :
      Lay (some (lb, le, b)) n (.cont :: fl) (.jumpTo lb :: c) e
  /-- the jump that ends an if / else body -/
  | jmp (K : LoopK) (n : Nat) (l : Name) (c : List Instr) : Lay K n [] (.jumpTo l :: c) (.jump l)
  /-- code after an exit by jump is dead -/
  | dead {K : LoopK} {n : Nat} {fl : List Flow} {c : List Instr} {l : Name} (d : List Instr) :
      Lay K n fl c (.jump l) → Lay K n fl (c ++ d) (.jump l)
  | loop {K : LoopK} {n : Nat} {body rest : List Flow} {bc c tail : List Instr} {e : Exit} (lb le : Name) (b : Bool) :
      Lay (some (lb, le, b)) n body bc .fall →
      (tail = [.jumpTo lb, .setLabel le] ∨ (tail = [] ∧ endsRet body = true ∧ b = false)) →
      Lay K (n + effCount bc) rest c e →
      Lay K n (.loop body :: rest) (.jumpTo lb :: .setLabel lb :: (bc ++ tail ++ c)) e
  /-- `if` without else part that owns its end label -/
  | iteOwn {K : LoopK} {n : Nat} {tb rest : List Flow} {tc c : List Instr} {e : Exit} (br : Instr) (lBegin lEnd : Name)
      (hbr : br.targets = [lBegin, lEnd]) (hnr : br.isRet = false) (hne : br.isEffect = false) :
      Lay K n tb tc (.jump lEnd) →
      Lay K (n + effCount tc) rest c e →
      Lay K n (.ite tb [] :: rest) (br :: .setLabel lBegin :: (tc ++ .setLabel lEnd :: c)) e
  /-- `if` with an else part (else body or else-if chain) that owns its end label -/
  | iteElseOwn {K : LoopK} {n : Nat} {tb eb rest : List Flow} {tc ec c : List Instr} {e : Exit} (br : Instr)
      (lBegin lElse lEnd : Name)
      (hbr : br.targets = [lBegin, lElse]) (hnr : br.isRet = false) (hne : br.isEffect = false) :
      Lay K n tb tc (.jump lEnd) →
      Lay K (n + effCount tc) eb ec (.jump lEnd) →
      Lay K (n + effCount tc + effCount ec) rest c e →
      Lay K n (.ite tb eb :: rest) (br :: .setLabel lBegin :: (tc ++ .setLabel lElse :: (ec ++ .setLabel lEnd :: c))) e
  /-- `if` without else part that was handed its end label: it leaves by a jump to it -/
  | itePass {K : LoopK} {n : Nat} {tb : List Flow} {tc : List Instr} (br : Instr) (lBegin lEnd : Name)
      (hbr : br.targets = [lBegin, lEnd]) (hnr : br.isRet = false) (hne : br.isEffect = false) :
      Lay K n tb tc (.jump lEnd) →
      Lay K n [.ite tb []] (br :: .setLabel lBegin :: tc) (.jump lEnd)
  | iteElsePass {K : LoopK} {n : Nat} {tb eb : List Flow} {tc ec : List Instr} (br : Instr) (lBegin lElse lEnd : Name)
      (hbr : br.targets = [lBegin, lElse]) (hnr : br.isRet = false) (hne : br.isEffect = false) :
      Lay K n tb tc (.jump lEnd) →
      Lay K (n + effCount tc) eb ec (.jump lEnd) →
      Lay K n [.ite tb eb] (br :: .setLabel lBegin :: (tc ++ .setLabel lElse :: ec)) (.jump lEnd)

/-- a straight segment in front of laid-out code: one event per effect instruction -/
theorem lay_seg {K : LoopK} {fl : List Flow} {c : List Instr} {e : Exit} : ∀ (seg : List Instr) (n : Nat),
    (∀ i ∈ seg, i.straight = true) → Lay K (n + effCount seg) fl c e →
    Lay K n (evs n (effCount seg) ++ fl) (seg ++ c) e
  | [], n, _, h => by simpa [effCount, evs] using h
  | i :: rest, n, hs, h => by
    have hi := hs i (by simp)
    have hr : ∀ j ∈ rest, j.straight = true := fun j hj => hs j (by simp [hj])
    rw [effCount_cons] at h ⊢
    cases he : i.isEffect with
    | false =>
      simp only [he, Bool.false_eq_true, if_false, Nat.zero_add] at h ⊢
      exact Lay.skip i hi he (lay_seg rest n hr h)
    | true =>
      simp only [he, if_true] at h ⊢
      have h' : Lay K (n + 1 + effCount rest) fl c e := by rw [Nat.add_assoc]; exact h
      have := Lay.eff i hi he (lay_seg rest (n + 1) hr h')
      have hev : evs n (1 + effCount rest) = .ev n :: evs (n + 1) (effCount rest) := by
        unfold evs
        rw [Nat.add_comm 1, List.range_succ_eq_map]
        simp [List.map_map, Function.comp_def, Nat.add_assoc, Nat.add_comm 1]
      rw [hev]
      exact this

end SemVerif
