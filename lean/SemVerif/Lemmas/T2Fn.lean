import SemVerif.Lemmas.T2Ctl
/-!
# Lemmas/T2Fn — family T2, parameters, the function body loop and the whole function

`T2_function`: for a function whose analysis reports no error (tables related to those of the rule
checker, loop-flavoured if-bodies inside loops), the abstract reading of the emitted root stack is
the statement list the source denotes — for every body, nesting depth and chain length.
-/
namespace SemVerif

/-- declaring a value under an internal name the root registry does not hold yet -/
theorem drel_declare {g : Globals} {R : Ty} {s : St} {ss : SpecSt} (hr : DRel g R s ss) (n : Name) (v : Value) (i : Instr) (d : DStmt)
    (hfresh : v.innerName ∉ s.root.innerNames)
    (habs : abstractStep s.abs i = ({ s.abs with decls := s.abs.decls ++ [v.innerName] } : AbsSt).emit d)
    (hw : i.writes = none) (hrd : ∀ q ∈ i.reads, q ≤ s.curReg ∧ s.abs.bound q = true)
    (hdecl : i.declares = some v)
    (hstep : tyStepEnv s.tenv i = { s.tenv with decls := v :: s.tenv.decls })
    (hty : ∀ b ∈ tyStepBad (cOkOf g) (fOkOf g) R s.tenv i, b.known i = true) :
    DRel g R (((s.insertValue n v).registerInner v.innerName).push i) ((ss.declare n v.ty v.mutable).1.emit d) := by
  have hnot : v.innerName ∉ s.abs.decls := fun hm => hfresh (hr.reg _ hm)
  have habs' : (((s.insertValue n v).registerInner v.innerName).push i).abs =
      ({ s.abs with decls := s.abs.decls ++ [v.innerName] } : AbsSt).emit d := by
    rw [abs_push, abs_registerInner, abs_insertValue, habs]
  have hlen : s.abs.decls.length = ss.next := hr.next
  have htenv : (((s.insertValue n v).registerInner v.innerName).push i).tenv =
      { s.tenv with decls := v :: s.tenv.decls } := by
    rw [tenv_push, tenv_registerInner, tenv_insertValue, hstep]
  have hroot : (((s.insertValue n v).registerInner v.innerName).push i).root.innerNames =
      setInsert v.innerName s.root.innerNames := by
    unfold St.push St.registerInner St.mapFrames St.insertValue St.mapCur
    cases s.inner <;> rfl
  have hold : ∀ w, s.tenv.declOk w = true → w.innerName ≠ v.innerName := by
    intro w hw' hev
    have := hr.scope.dn w (declOk_mem hw')
    rw [hev] at this
    exact hfresh this
  have hdts : (((s.insertValue n v).registerInner v.innerName).push i).dts =
      (mapHead (DT.setValues (assocInsert n v)) s.dts).map (DT.addDecl v) := by
    rw [dts_push_decl _ v _ hdecl, dts_registerInner, dts_insertValue]
  refine ⟨⟨?_, ?_, ?_, ?_⟩, ?_, ?_, ?_, ?_, ?_, ?_, ?_, ?_⟩
  rotate_left 11
  · -- written registers: the declaring instruction writes none
    intro p hp
    rw [tenv_push, tenv_registerInner, tenv_insertValue] at hp
    have hrr : (((s.insertValue n v).registerInner v.innerName).push i).root.reg = s.root.reg := by
      unfold St.push St.registerInner St.mapFrames St.insertValue St.mapCur
      cases s.inner <;> rfl
    rw [hrr]
    rcases written_step _ _ p hp with hp | hp
    · exact hr.wle p hp
    · rw [hw] at hp; cases hp
  rotate_left 7
  · apply rd_push_nowrite (rd_insertRegister hr.rd _ _ _) _ hw
    intro q hq
    rw [curReg_insertRegister, abs_registerInner, abs_insertValue]
    exact hrd q hq
  · apply tok_push _ (tok_of_ctx _ hr.tok)
    · intro bb hb
      rw [tenv_registerInner, tenv_insertValue] at hb
      exact hty bb hb
    · unfold St.registerInner St.mapFrames St.insertValue St.mapCur
      cases s.inner <;> rfl
  · rw [hdts]
    have hfresh' : ∀ t' ∈ s.dts, v ∉ t'.decls := fun t' ht' hx => hfresh (hr.vreg t' ht' _ hx)
    have hvi := hr.vinv
    cases hd1 : s.dts with
    | nil => exact absurd (by unfold St.dts at hd1; simpa using hd1) (frames_ne_nil s)
    | cons t ts =>
      rw [hd1] at hvi hfresh'
      obtain ⟨fr, frs, k, ks, hds, hks, hf, hin, hrest⟩ := hvi.inv_cons
      have := framesOk_declare (FramesOk.cons hf hin hrest) n v ss.next hfresh'
      unfold SpecSt.declare SpecSt.emit
      dsimp only [mapHead, List.map_cons]
      rw [hds, hks]
      exact this
  · rw [hdts, hroot]
    intro t ht x hx
    rw [List.mem_map] at ht
    obtain ⟨t0, ht0, rfl⟩ := ht
    rw [DT.addDecl_decls, List.mem_append] at hx
    rw [mem_setInsert]
    rcases hx with hx | hx
    · right
      cases hd1 : s.dts with
      | nil => rw [hd1] at ht0; simp [mapHead] at ht0
      | cons t ts =>
        rw [hd1] at ht0
        simp only [mapHead, List.mem_cons] at ht0
        rcases ht0 with rfl | ht0
        · rw [DT.setValues_decls] at hx
          exact hr.vreg t (by rw [hd1]; simp) x hx
        · exact hr.vreg t0 (by rw [hd1]; simp [ht0]) x hx
    · left
      simp only [List.mem_singleton] at hx
      rw [hx]
  · unfold ScopeRel
    rw [vals_push, vals_registerInner]
    obtain ⟨x, rest, hx, hins⟩ := vals_insertValue n v s
    rw [hins]
    have hrel : ValsRel (x :: rest) ss.tscope := by rw [← hx]; exact hr.scope.sc
    exact valsRel_declare hrel n v
  · rw [habs']
    show DVals (s.abs.decls ++ [v.innerName]) _ _
    rw [vals_push, vals_registerInner]
    obtain ⟨x, rest, hx, hins⟩ := vals_insertValue n v s
    rw [hins]
    have hdv : DVals s.abs.decls (x :: rest) ss.dscope := by rw [← hx]; exact hr.scope.dv
    have hdv' := dvals_append v.innerName hdv
    unfold SpecSt.declare SpecSt.emit
    dsimp only
    cases hds : ss.dscope with
    | nil => rw [hds] at hdv'; cases hdv'
    | cons fr outer =>
      rw [hds] at hdv'
      dsimp only
      rw [← hlen]
      exact dvals_declare hdv' n v _ (pjD_new _ v hnot)
  · rw [htenv, vals_push, vals_registerInner]
    obtain ⟨x, rest, hx, hins⟩ := vals_insertValue n v s
    rw [hins]
    intro fr hfr k w hw'
    have hcase : w = v ∨ s.tenv.declOk w = true := by
      simp only [List.mem_cons] at hfr
      rcases hfr with rfl | hfr
      · by_cases hk : k = n
        · subst hk; rw [assocGet_insert_self] at hw'; injection hw' with hw'; exact Or.inl hw'.symm
        · rw [assocGet_insert_ne _ _ _ _ hk] at hw'
          exact Or.inr (hr.scope.dk x (by rw [hx]; simp) k w hw')
      · exact Or.inr (hr.scope.dk fr (by rw [hx]; simp [hfr]) k w hw')
    rcases hcase with rfl | hok
    · exact declOk_self _ _ _ _
    · exact declOk_cons (fun e => hold w hok e.symm) hok
  · rw [htenv, hroot]
    intro d' hd
    simp only [List.mem_cons] at hd
    rw [mem_setInsert]
    rcases hd with rfl | hd
    · exact Or.inl rfl
    · exact Or.inr (hr.scope.dn d' hd)
  · rw [habs']
    simp only [AbsSt.emit_out, SpecSt.declare, SpecSt.emit]
    rw [hr.out]
  · rw [habs']
    simp only [AbsSt.emit_decls, SpecSt.declare, SpecSt.emit, List.length_append, List.length_singleton]
    rw [hlen]
  · intro m hm
    rw [habs'] at hm
    simp only [AbsSt.emit_decls, List.mem_append, List.mem_singleton] at hm
    rw [hroot, mem_setInsert]
    rcases hm with hm | rfl
    · right; exact hr.reg m hm
    · left; rfl

/-! ### Parameters -/

theorem den_initParams {g : Globals} {R : Ty} : ∀ (ps : List (Name × ATy)) (s : St) (ss : SpecSt), ParamInv s → DRel g R s ss →
    (initParams ps s).errors = s.errors → DRel g R (initParams ps s) (specParams ps ss)
  | [], s, ss, _, hr, _ => by unfold initParams specParams; exact hr
  | (n, t) :: rest, s, ss, hinv, hr, he => by
    unfold initParams at he ⊢
    unfold specParams
    obtain ⟨hin, hkeys⟩ := hinv
    cases hl : s.lookupValue n with
    | some v =>
      rw [hl] at he
      exfalso
      have := congrArg List.length he
      simp [St.addErr] at this
    | none =>
      rw [hl] at he
      dsimp only at he ⊢
      have hlook : assocGet n s.root.values = none := by
        simpa [St.lookupValue, St.frames, hin] using hl
      have hfresh : n ∉ s.root.innerNames := by
        intro hc
        have := hkeys n hc; rw [hlook] at this; simp at this
      have hstep := drel_declare hr n ⟨n, t.toTy, false, false, false⟩ (.fnArg ⟨n, t.toTy, false, false, false⟩ ⟨n, t.toTy⟩)
        (.param s.abs.decls.length) hfresh (by simp [abstractStep, AbsSt.emit]) rfl (fun q hq => by simp [Instr.reads] at hq)
        rfl rfl (fun b hb => by simp [tyStepBad] at hb)
      have hnext : (.param s.abs.decls.length : DStmt) = .param (ss.declare n t.toTy false).2 := by
        rw [hr.next]; rfl
      rw [hnext] at hstep
      have he' : (initParams rest (((s.insertValue n ⟨n, t.toTy, false, false, false⟩).registerInner n).push
          (.fnArg ⟨n, t.toTy, false, false, false⟩ ⟨n, t.toTy⟩))).errors =
          (((s.insertValue n ⟨n, t.toTy, false, false, false⟩).registerInner n).push
          (.fnArg ⟨n, t.toTy, false, false, false⟩ ⟨n, t.toTy⟩)).errors := by
        rw [he]
        unfold St.push St.registerInner St.mapFrames St.insertValue St.mapCur
        cases s.inner <;> rfl
      refine den_initParams rest _ _ ⟨?_, ?_⟩ hstep he'
      · simp [St.push, St.mapFrames, St.registerInner, St.insertValue, St.mapCur, hin]
      · intro m hm
        simp [St.push, St.mapFrames, St.registerInner, St.insertValue, St.mapCur, hin] at hm ⊢
        by_cases hmn : m = n
        · subst hmn; simp [assocGet_insert_self]
        · rw [assocGet_insert_ne _ _ _ _ hmn]
          apply hkeys
          unfold setInsert at hm
          split at hm
          · exact hm
          · simp at hm
            rcases hm with h | h
            · exact h
            · exact absurd h hmn

/-! ### The statement loop of `function_body` -/

variable {g : Globals} {R : Ty} {rg : RGlobals}

theorem fnReturn_len (resTy : Ty) (e : Expr) (rc : Bool) (s : St) :
    (fnReturn g resTy e rc s).1.inner.length = s.inner.length := by
  unfold fnReturn
  have h1 := (em_exprM g e s).inner_len
  cases he : exprM g e s with
  | mk a s1 =>
    rw [he] at h1
    dsimp only at h1 ⊢
    have h2 : (if rc then s1.addErr .returnAlreadyCalled e.show 1 0 else s1).inner.length = s.inner.length := by
      cases rc
      · exact h1
      · exact h1
    generalize (if rc then s1.addErr .returnAlreadyCalled e.show 1 0 else s1) = s2 at h2
    cases a with
    | none => exact h2
    | some r =>
      dsimp only
      unfold fnReturnTail
      dsimp only
      have h3 := (esteps_checkTypeExists g r.ty e.show s2).inner_len
      generalize (checkTypeExists g r.ty e.show s2).2 = s3 at h3
      have h4 : (if resTy ≠ r.ty then s3.addErr .wrongReturnType e.show 1 0 else s3).inner.length = s3.inner.length := by
        split <;> rfl
      generalize (if resTy ≠ r.ty then s3.addErr .wrongReturnType e.show 1 0 else s3) = s4 at h4
      split
      · rw [(push_fields _ _).2, h4, h3, h2]
      · rw [(push_fields _ _).2, h4, h3, h2]

theorem den_bodyStmts (hg : GlobRel g rg) (hn : GNames g) (resTy : Ty) : ∀ (l : List BodyStmt) (rc : Bool),
    BodyStmt.anaOKL l = true → ∀ s ss, DRel g resTy s ss → (bodyStmts g resTy l rc s).1.errors = s.errors →
      DRel g resTy (bodyStmts g resTy l rc s).1 (specBody false rg l ss) ∧ (bodyStmts g resTy l rc s).1.inner.length = s.inner.length
  | [], _ => by
    intro _ s ss hr _
    unfold bodyStmts specBody
    exact ⟨hr, rfl⟩
  | st :: tl, rc => by
    intro hok s ss hr he
    unfold bodyStmts at he ⊢
    dsimp only at he ⊢
    cases st with
    | letB b =>
      unfold BodyStmt.anaOKL at hok
      unfold specBody
      exact body_step rc false false hr (esteps_letBinding g b _).errors_ext (steps_bodyStmts g resTy tl rc _).errors_ext he
        (ctd_of_std (den_let hg hn b) (esteps_letBinding g b) _ _) (den_bodyStmts hg hn resTy tl rc hok _ _)
    | bind b =>
      unfold BodyStmt.anaOKL at hok
      unfold specBody
      exact body_step rc false false hr (esteps_binding g b _).errors_ext (steps_bodyStmts g resTy tl rc _).errors_ext he
        (ctd_of_std (den_bind hg hn b) (esteps_binding g b) _ _) (den_bodyStmts hg hn resTy tl rc hok _ _)
    | call c =>
      unfold BodyStmt.anaOKL at hok
      unfold specBody
      exact body_step rc false false hr (esteps_callStmt g c _).errors_ext (steps_bodyStmts g resTy tl rc _).errors_ext he
        (ctd_of_std (den_callS hg hn c) (esteps_callStmt g c) _ _) (den_bodyStmts hg hn resTy tl rc hok _ _)
    | ifS i =>
      unfold BodyStmt.anaOKL at hok
      simp only [Bool.and_eq_true] at hok
      unfold specBody
      exact body_step rc false false hr (steps_ifCondition g i none none _).errors_ext (steps_bodyStmts g resTy tl rc _).errors_ext he
        (den_ifCondition hg hn i none none hok.1 _ _) (den_bodyStmts hg hn resTy tl rc hok.2 _ _)
    | loop b =>
      unfold BodyStmt.anaOKL at hok
      simp only [Bool.and_eq_true] at hok
      unfold specBody
      exact body_step rc false false hr (steps_loopWrap _ (steps_loopBody g b) _).errors_ext
        (steps_bodyStmts g resTy tl rc _).errors_ext he
        (den_loopWrap _ (specLoopBody false rg b) (steps_loopBody g b)
          (fun lb le s ss => den_loopBody hg hn b lb le false false false hok.1 s ss) _ _)
        (den_bodyStmts hg hn resTy tl rc hok.2 _ _)
    | expr e =>
      unfold BodyStmt.anaOKL at hok
      unfold specBody
      dsimp only at he ⊢
      have x1 := (steps_fnReturn g resTy e rc (forbidden rc false false s)).errors_ext
      have h1 := fun hr he => den_fnReturn hg hn resTy e rc (forbidden rc false false s) ss hr he
      have l1 := fnReturn_len (g := g) resTy e rc (forbidden rc false false s)
      generalize fnReturn g resTy e rc (forbidden rc false false s) = q at he x1 h1 l1 ⊢
      obtain ⟨s1, r⟩ := q
      dsimp only at he x1 h1 l1 ⊢
      exact body_step rc false false hr x1 (steps_bodyStmts g resTy tl r s1).errors_ext he
        (fun hr he => ⟨h1 hr he, l1⟩) (den_bodyStmts hg hn resTy tl r hok _ _)
    | ret e =>
      unfold BodyStmt.anaOKL at hok
      unfold specBody
      dsimp only at he ⊢
      have x1 := (steps_fnReturn g resTy e rc (forbidden rc false false s)).errors_ext
      have h1 := fun hr he => den_fnReturn hg hn resTy e rc (forbidden rc false false s) ss hr he
      have l1 := fnReturn_len (g := g) resTy e rc (forbidden rc false false s)
      generalize fnReturn g resTy e rc (forbidden rc false false s) = q at he x1 h1 l1 ⊢
      obtain ⟨s1, r⟩ := q
      dsimp only at he x1 h1 l1 ⊢
      exact body_step rc false false hr x1 (steps_bodyStmts g resTy tl r s1).errors_ext he
        (fun hr he => ⟨h1 hr he, l1⟩) (den_bodyStmts hg hn resTy tl r hok _ _)

/-! ### The whole function -/

theorem drel_init {g : Globals} {R : Ty} : DRel g R St.init SpecSt.init := by
  refine ⟨⟨?_, ?_, ?_, ?_⟩, rfl, rfl, ?_, ?_, ?_, ?_, ?_, ?_⟩
  rotate_left 9
  · intro p hp; simp [St.tenv, St.init, Block.fresh, TyEnv.init] at hp
  rotate_left 4
  · intro n hn; cases hn
  · refine ⟨by intro b hb; simp [St.init] at hb, rfl, ?_⟩
    intro pre i post h
    simp [St.init, Block.fresh] at h
  · intro pb hpb; simp [St.init, Block.fresh, typedGo] at hpb
  · have : (St.init).dts = [.node [] [] []] := by
      unfold St.dts St.frames; simp [St.init, dt_def, Block.fresh, declValues, Block.dtL]
    rw [this]
    exact FramesOk.cons ⟨rfl, rfl, by unfold valuesOkDL; rfl, by intro c hc; cases hc⟩ (by intro x hx; cases hx) (FramesOk.nil _)
  · have : (St.init).dts = [.node [] [] []] := by
      unfold St.dts St.frames; simp [St.init, dt_def, Block.fresh, declValues, Block.dtL]
    rw [this]
    intro t ht x hx
    simp at ht; subst ht; cases hx
  · unfold ScopeRel St.vals St.frames
    exact ValsRel.cons (fun n => by simp [St.init, Block.fresh, assocGet, rlookup]) ValsRel.nil
  · show DVals [] [[]] [[]]
    exact DVals.cons (fun n => by simp [assocGet, rlookup]) DVals.nil
  · intro fr hfr n v hv
    simp [St.vals, St.frames, St.init, Block.fresh] at hfr
    subst hfr; simp [assocGet] at hv
  · intro d hd; simp [St.tenv, St.init, Block.fresh, TyEnv.init] at hd

/-- **T2** for one function: if its analysis reports no error, the abstract reading of the emitted
root stack is the statement list the source denotes -/
theorem T2_function (hg : GlobRel g rg) (hn : GNames g) (f : FnDecl) (hok : BodyStmt.anaOKL f.body = true)
    (he : (functionBody g f).errors = []) :
    abstractStack (functionBody g f).root.context = specStmts false rg f ∧ RdInv (functionBody g f) ∧
    TOK g f.result.toTy (functionBody g f) ∧
    FramesOk (functionBody g f).dts [] (specBody false rg f.body (specParams f.params SpecSt.init)).dscope
      (specBody false rg f.body (specParams f.params SpecSt.init)).kids := by
  unfold functionBody at he ⊢
  unfold specStmts
  dsimp only at he ⊢
  have x1 := (esteps_initParams f.params St.init paramInv_init).errors_ext
  have h1 := den_initParams (g := g) (R := f.result.toTy) f.params St.init SpecSt.init paramInv_init drel_init
  generalize initParams f.params St.init = s1 at he x1 h1 ⊢
  have x2 := (steps_bodyStmts g f.result.toTy f.body false s1).errors_ext
  have h2 := den_bodyStmts hg hn f.result.toTy f.body false hok s1 (specParams f.params SpecSt.init)
  generalize bodyStmts g f.result.toTy f.body false s1 = q at he x2 h2 ⊢
  obtain ⟨s2, rc⟩ := q
  dsimp only at he x2 h2 ⊢
  have x3 : ∃ Δ, (if rc = true then s2 else s2.addErr .returnNotFound [] 1 0).errors = s2.errors ++ Δ := by
    cases rc
    · exact ⟨_, rfl⟩
    · exact ⟨[], by simp⟩
  have hi : St.init.errors = [] := rfl
  rw [← hi] at he
  obtain ⟨e1, e2, e3⟩ := chain3 x1 x2 x3 he
  obtain ⟨r2, _⟩ := h2 (h1 e1) e2
  have hrc : rc = true := by
    cases rc
    · exfalso
      have := congrArg List.length e3
      simp [St.addErr] at this
    · rfl
  subst hrc
  exact ⟨r2.out, r2.rd, r2.tok, r2.vinv⟩

end SemVerif
