import SemVerif.Analyzer
import SemVerif.Spec.RuleSet
/-! # Lemmas/Misc -/
namespace SemVerif

theorem fns_eq_fnDecls : ∀ (p : Program), p.fns = p.fnDecls
  | [] => rfl
  | .fn f :: rest => by simp [Program.fns, Program.fnDecls, fns_eq_fnDecls rest]
  | .imp _ :: rest => by simp [Program.fns, Program.fnDecls, fns_eq_fnDecls rest]
  | .types _ :: rest => by simp [Program.fns, Program.fnDecls, fns_eq_fnDecls rest]
  | .const _ :: rest => by simp [Program.fns, Program.fnDecls, fns_eq_fnDecls rest]

end SemVerif
