import SemVerif.Lemmas.ValInv
/-!
# Lemmas/SpecShape — what the source denotation records about nesting and names

Specification-side only: running the denotation over a function body extends the names of the
innermost open block by the `let`s of the body and closes one shape per nested block, in source
order — exactly `FnDecl.sourceShape`.
-/
namespace SemVerif

/-- the innermost open block got the names `names` and the closed shapes `sh`; nothing else changed -/
def SG (a b : SpecSt) (names : List Name) (sh : List Shape) : Prop :=
  ∀ fr frs k ks, a.dscope = fr :: frs → a.kids = k :: ks →
    ∃ fr', b.dscope = fr' :: frs ∧ frameNames fr' = frameNames fr ++ names ∧ b.kids = (k ++ sh) :: ks

theorem SG.refl (a : SpecSt) : SG a a [] [] := by
  intro fr frs k ks h1 h2
  exact ⟨fr, h1, by simp, by simp [h2]⟩

theorem SG.of_eq {a b : SpecSt} (h1 : b.dscope = a.dscope) (h2 : b.kids = a.kids) : SG a b [] [] := by
  intro fr frs k ks h1' h2'
  exact ⟨fr, by rw [h1, h1'], by simp, by simp [h2, h2']⟩

theorem SG.trans {a b c : SpecSt} {n1 n2 : List Name} {s1 s2 : List Shape} (h1 : SG a b n1 s1) (h2 : SG b c n2 s2) :
    SG a c (n1 ++ n2) (s1 ++ s2) := by
  intro fr frs k ks ha hk
  obtain ⟨fr1, hb, hn1, hk1⟩ := h1 fr frs k ks ha hk
  obtain ⟨fr2, hc, hn2, hk2⟩ := h2 fr1 frs (k ++ s1) ks hb hk1
  exact ⟨fr2, hc, by rw [hn2, hn1, List.append_assoc], by rw [hk2, List.append_assoc]⟩

theorem SG.cast {a b : SpecSt} {n n' : List Name} {s s' : List Shape} (h : SG a b n s) (hn : n = n') (hs : s = s') : SG a b n' s' := by
  subst hn; subst hs; exact h

/-- a nested block: push, contents, pop -/
theorem sg_block {a b : SpecSt} {names : List Name} {sh : List Shape} (h : SG a.push b names sh) :
    SG a b.pop [] [.node names sh] := by
  intro fr frs k ks ha hk
  obtain ⟨fr', hb, hn, hkb⟩ := h [] (fr :: frs) [] (k :: ks) (by simp [SpecSt.push, ha]) (by simp [SpecSt.push, hk])
  refine ⟨fr, by simp [SpecSt.pop, hb], by simp, ?_⟩
  simp only [SpecSt.pop, SpecSt.topNames, hkb, hb, List.headD_cons, List.nil_append, closeKids]
  have : List.map (fun x => x.1) fr'.reverse = names := by
    have := hn; simp [frameNames] at this; simpa [frameNames] using this
  rw [this]

theorem sg_emits (a : SpecSt) (evs : List DStmt) : SG a (a.emits evs) [] [] := SG.of_eq rfl rfl
theorem sg_emit (a : SpecSt) (ev : DStmt) : SG a (a.emit ev) [] [] := SG.of_eq rfl rfl

theorem sg_let (rg : RGlobals) (b : LetB) (a : SpecSt) : SG a (specLet false rg b a) [b.name] [] := by
  intro fr frs k ks ha hk
  unfold specLet SpecSt.declare SpecSt.emit SpecSt.emits
  dsimp only
  rw [ha]
  exact ⟨_, rfl, frameNames_cons _ _ _, by simp [hk]⟩

theorem sg_bind (b : Bind) (a : SpecSt) : SG a (specBind false b a) [] [] := SG.of_eq rfl rfl
theorem sg_callS (c : CallS) (a : SpecSt) : SG a (specCallS false c a) [] [] := SG.of_eq rfl rfl
theorem sg_ifCond (c : IfCond) (a : SpecSt) : SG a (specIfCond false c a) [] [] := by
  unfold specIfCond; cases c <;> exact SG.of_eq rfl rfl
theorem sg_jret (rg : RGlobals) (e : Expr) (a : SpecSt) : SG a (specJret false rg e a) [] [] := SG.of_eq rfl rfl
theorem sg_ret (e : Expr) (a : SpecSt) : SG a (specRet false e a) [] [] := SG.of_eq rfl rfl

variable (rg : RGlobals)

mutual
theorem sg_if : ∀ (i : IfStmt) (a : SpecSt), SG a (specIf false rg i a) [] (IfStmt.shapes i)
  | .mk cond body els elif, a => by
    unfold specIf IfStmt.shapes
    dsimp only
    have h1 : SG a (specBodies false rg body (specIfCond false cond a.push)).pop [] [.node body.lets (IfBodies.shapes body)] :=
      sg_block (((sg_ifCond cond a.push).trans (sg_bodies body _)).cast (by simp) (by simp))
    cases els with
    | some eb =>
      dsimp only
      have h2 := sg_block (sg_bodies eb (specBodies false rg body (specIfCond false cond a.push)).pop.push)
      exact (h1.trans h2).cast (by simp) (by simp)
    | none =>
      cases elif with
      | some ei =>
        dsimp only
        exact (h1.trans (sg_if ei _)).cast (by simp) (by simp)
      | none => exact h1.cast rfl (by simp)
theorem sg_bodies : ∀ (b : IfBodies) (a : SpecSt), SG a (specBodies false rg b a) b.lets (IfBodies.shapes b)
  | .ifb l, a => by unfold specBodies IfBodies.lets IfBodies.shapes; exact sg_ifBody l a
  | .loopb l, a => by unfold specBodies IfBodies.lets IfBodies.shapes; exact sg_ifLoopBody l a
theorem sg_ifBody : ∀ (l : List IfBodyStmt) (a : SpecSt), SG a (specIfBody false rg l a) (IfBodyStmt.letsL l) (IfBodyStmt.shapesL l)
  | [], a => by unfold specIfBody IfBodyStmt.letsL IfBodyStmt.shapesL; exact SG.refl a
  | .letB b :: tl, a => by
    unfold specIfBody IfBodyStmt.letsL IfBodyStmt.shapesL
    exact ((sg_let rg b a).trans (sg_ifBody tl _)).cast (by simp) (by simp)
  | .bind b :: tl, a => by
    unfold specIfBody IfBodyStmt.letsL IfBodyStmt.shapesL
    exact ((sg_bind b a).trans (sg_ifBody tl _)).cast (by simp) (by simp)
  | .call c :: tl, a => by
    unfold specIfBody IfBodyStmt.letsL IfBodyStmt.shapesL
    exact ((sg_callS c a).trans (sg_ifBody tl _)).cast (by simp) (by simp)
  | .ifS i :: tl, a => by
    unfold specIfBody IfBodyStmt.letsL IfBodyStmt.shapesL
    exact ((sg_if i a).trans (sg_ifBody tl _)).cast (by simp) rfl
  | .loop b :: tl, a => by
    unfold specIfBody IfBodyStmt.letsL IfBodyStmt.shapesL
    exact ((sg_block (sg_loopBody b a.push)).trans (sg_ifBody tl _)).cast (by simp) (by simp)
  | .ret e :: tl, a => by
    unfold specIfBody IfBodyStmt.letsL IfBodyStmt.shapesL
    exact ((sg_jret rg e a).trans (sg_ifBody tl _)).cast (by simp) (by simp)
theorem sg_ifLoopBody : ∀ (l : List IfLoopStmt) (a : SpecSt), SG a (specIfLoopBody false rg l a) (IfLoopStmt.letsL l) (IfLoopStmt.shapesL l)
  | [], a => by unfold specIfLoopBody IfLoopStmt.letsL IfLoopStmt.shapesL; exact SG.refl a
  | .letB b :: tl, a => by
    unfold specIfLoopBody IfLoopStmt.letsL IfLoopStmt.shapesL
    exact ((sg_let rg b a).trans (sg_ifLoopBody tl _)).cast (by simp) (by simp)
  | .bind b :: tl, a => by
    unfold specIfLoopBody IfLoopStmt.letsL IfLoopStmt.shapesL
    exact ((sg_bind b a).trans (sg_ifLoopBody tl _)).cast (by simp) (by simp)
  | .call c :: tl, a => by
    unfold specIfLoopBody IfLoopStmt.letsL IfLoopStmt.shapesL
    exact ((sg_callS c a).trans (sg_ifLoopBody tl _)).cast (by simp) (by simp)
  | .ifS i :: tl, a => by
    unfold specIfLoopBody IfLoopStmt.letsL IfLoopStmt.shapesL
    exact ((sg_if i a).trans (sg_ifLoopBody tl _)).cast (by simp) rfl
  | .loop b :: tl, a => by
    unfold specIfLoopBody IfLoopStmt.letsL IfLoopStmt.shapesL
    exact ((sg_block (sg_loopBody b a.push)).trans (sg_ifLoopBody tl _)).cast (by simp) (by simp)
  | .ret e :: tl, a => by
    unfold specIfLoopBody IfLoopStmt.letsL IfLoopStmt.shapesL
    exact ((sg_jret rg e a).trans (sg_ifLoopBody tl _)).cast (by simp) (by simp)
  | .brk :: tl, a => by
    unfold specIfLoopBody IfLoopStmt.letsL IfLoopStmt.shapesL
    exact sg_ifLoopBody tl a
  | .cont :: tl, a => by
    unfold specIfLoopBody IfLoopStmt.letsL IfLoopStmt.shapesL
    exact sg_ifLoopBody tl a
theorem sg_loopBody : ∀ (l : List LoopStmt) (a : SpecSt), SG a (specLoopBody false rg l a) (LoopStmt.letsL l) (LoopStmt.shapesL l)
  | [], a => by unfold specLoopBody LoopStmt.letsL LoopStmt.shapesL; exact SG.refl a
  | .letB b :: tl, a => by
    unfold specLoopBody LoopStmt.letsL LoopStmt.shapesL
    exact ((sg_let rg b a).trans (sg_loopBody tl _)).cast (by simp) (by simp)
  | .bind b :: tl, a => by
    unfold specLoopBody LoopStmt.letsL LoopStmt.shapesL
    exact ((sg_bind b a).trans (sg_loopBody tl _)).cast (by simp) (by simp)
  | .call c :: tl, a => by
    unfold specLoopBody LoopStmt.letsL LoopStmt.shapesL
    exact ((sg_callS c a).trans (sg_loopBody tl _)).cast (by simp) (by simp)
  | .ifS i :: tl, a => by
    unfold specLoopBody LoopStmt.letsL LoopStmt.shapesL
    exact ((sg_if i a).trans (sg_loopBody tl _)).cast (by simp) rfl
  | .loop b :: tl, a => by
    unfold specLoopBody LoopStmt.letsL LoopStmt.shapesL
    exact ((sg_block (sg_loopBody b a.push)).trans (sg_loopBody tl _)).cast (by simp) (by simp)
  | .ret e :: tl, a => by
    unfold specLoopBody LoopStmt.letsL LoopStmt.shapesL
    exact ((sg_jret rg e a).trans (sg_loopBody tl _)).cast (by simp) (by simp)
  | .brk :: tl, a => by
    unfold specLoopBody LoopStmt.letsL LoopStmt.shapesL
    exact sg_loopBody tl a
  | .cont :: tl, a => by
    unfold specLoopBody LoopStmt.letsL LoopStmt.shapesL
    exact sg_loopBody tl a
end

theorem sg_body : ∀ (l : List BodyStmt) (a : SpecSt), SG a (specBody false rg l a) (BodyStmt.letsL l) (BodyStmt.shapesL l)
  | [], a => by unfold specBody BodyStmt.letsL BodyStmt.shapesL; exact SG.refl a
  | .letB b :: tl, a => by
    unfold specBody BodyStmt.letsL BodyStmt.shapesL
    exact ((sg_let rg b a).trans (sg_body tl _)).cast (by simp) (by simp)
  | .bind b :: tl, a => by
    unfold specBody BodyStmt.letsL BodyStmt.shapesL
    exact ((sg_bind b a).trans (sg_body tl _)).cast (by simp) (by simp)
  | .call c :: tl, a => by
    unfold specBody BodyStmt.letsL BodyStmt.shapesL
    exact ((sg_callS c a).trans (sg_body tl _)).cast (by simp) (by simp)
  | .ifS i :: tl, a => by
    unfold specBody BodyStmt.letsL BodyStmt.shapesL
    exact ((sg_if rg i a).trans (sg_body tl _)).cast (by simp) rfl
  | .loop b :: tl, a => by
    unfold specBody BodyStmt.letsL BodyStmt.shapesL
    exact ((sg_block (sg_loopBody rg b a.push)).trans (sg_body tl _)).cast (by simp) (by simp)
  | .expr e :: tl, a => by
    unfold specBody BodyStmt.letsL BodyStmt.shapesL
    exact ((sg_ret e a).trans (sg_body tl _)).cast (by simp) (by simp)
  | .ret e :: tl, a => by
    unfold specBody BodyStmt.letsL BodyStmt.shapesL
    exact ((sg_ret e a).trans (sg_body tl _)).cast (by simp) (by simp)

theorem sg_params : ∀ (ps : List (Name × ATy)) (a : SpecSt), SG a (specParams ps a) (ps.map (·.1)) []
  | [], a => by unfold specParams; exact SG.refl a
  | (n, t) :: rest, a => by
    unfold specParams
    dsimp only
    have h1 : SG a ((a.declare n t.toTy false).1.emit (.param (a.declare n t.toTy false).2)) [n] [] := by
      intro fr frs k ks ha hk
      unfold SpecSt.declare SpecSt.emit
      dsimp only
      rw [ha]
      exact ⟨_, rfl, frameNames_cons _ _ _, by simp [hk]⟩
    exact (h1.trans (sg_params rest _)).cast (by simp) (by simp)

/-- the denotation of a function closes exactly the nesting of its source -/
theorem spec_sourceShape (f : FnDecl) :
    ∃ fr, (specBody false rg f.body (specParams f.params SpecSt.init)).dscope = [fr] ∧
      frameNames fr = f.params.map (·.1) ++ BodyStmt.letsL f.body ∧
      (specBody false rg f.body (specParams f.params SpecSt.init)).kids = [BodyStmt.shapesL f.body] := by
  have h := (sg_params f.params SpecSt.init).trans (sg_body rg f.body _)
  obtain ⟨fr, h1, h2, h3⟩ := h [] [] [] [] rfl rfl
  exact ⟨fr, h1, by simpa [frameNames] using h2, by simpa using h3⟩

end SemVerif
